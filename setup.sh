#!/bin/sh
# Build everything the checks need from files on disk only (offline).
set -e
cd "$(dirname "$0")"
export GOFLAGS=-mod=mod GOPROXY=off GOSUMDB=off GOTOOLCHAIN=local
python3 - <<'PY'
import sys, os
sys.path.insert(0, "lib")
import vlib
ok, out = vlib.gofacts()
if not ok:
    print(out); sys.exit(1)
vlib.coq_project()
ok, out = vlib.coq_make([], timeout=3000)
print(out[-3000:])
if not ok:
    # a broken proof is reported by the individual check, setup still succeeds if the models build
    print("WARNING: full Coq build failed; individual checks will report")
ok, out, exe = vlib.build_runner()
print(out[-2000:])
# the per-slice harness modules (each check rebuilds its own anyway; building them here only warms the Go cache)
for d in sorted(os.listdir(".")):
    if d.startswith("harness_") and os.path.isdir(d):
        ok2, out2, _ = vlib.build_runner(module=d, exe_name="runner-" + d[len("harness_"):])
        if not ok2:
            print("WARNING: %s does not build:\n%s" % (d, out2[-1500:]))
ok3, out3, _ = vlib.build_runner(race=True)
# warm the Print-Assumptions cache of every property (keyed by the content of the dependency closure)
import concurrent.futures, importlib
sys.path.insert(0, "props")
def warm(pid):
    try:
        mod = importlib.import_module(pid.lower())
        files = getattr(mod, "PROP_FILES", [])
        names = vlib.theorem_names(files)
        closure = vlib.dep_closure(["Properties/%s.vo" % f for f in files])
        pa, _ = vlib.cached_print_assumptions(files, names, closure)
        return pid, (pa is not None)
    except Exception as e:
        return pid, repr(e)
with concurrent.futures.ThreadPoolExecutor(max_workers=8) as ex:
    for pid, r in ex.map(warm, ["C%02d" % i for i in range(1, 21)]):
        if r is not True:
            print("WARNING: assumptions of", pid, "not cached:", r)
sys.exit(0 if ok else 1)
PY
