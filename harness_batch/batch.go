package main

// C11: stream.Batch / stream.BatchFunc scenarios. A sequential controller executes the steps of a
// scenario: it releases tokens (items, end, an error) to a gated source, starts consumer calls of
// Next in their own goroutines with cancellable contexts, cancels contexts, lets gated calls of the
// user's full() return, calls Close (in a goroutine: it is the call under test), sleeps past
// maxWait, and waits for structural quiescence.
//
// ops: ["release","item",v] ["release","end"] ["release","err",e] ["release-full"]
//      ["next",k,ctx] ["cancel",ctx] ["close"] ["sleep"] ["quiesce"]
// cfg: mode "batch"|"func", size, gated, maxwait_ms, margin_ms

import (
	"context"
	"fmt"
	"sync"
	"sync/atomic"
	"time"

	"github.com/bradenaw/juniper/stream"
)

func init() { components["batch"] = runBatch }

type btok struct {
	kind string
	v    int
}

type srcErr struct{ id int }

func (e *srcErr) Error() string { return fmt.Sprintf("source error %d", e.id) }

// Unwrap makes some scripted errors wrap a context error (errors.Is(err, context.Canceled) holds for them although
// they did not come from any context of the scenario): the library must report such an error like any other.
func (e *srcErr) Unwrap() error {
	switch e.id % 3 {
	case 0:
		return context.Canceled
	case 1:
		return context.DeadlineExceeded
	}
	return nil
}

// timerWatch: "a timer of the batcher may still fire" = less than maxWait+margin of the process's
// own timer time has passed since the last event that can start one (an item reaching the batcher,
// a consumer announcing itself, full returning) or since the scenario was last seen active. It is
// measured with a reference timer so that a late runtime timer delays the verdict as well.
type timerWatch struct {
	d     time.Duration
	gen   int64
	fired int64
	armed int32 // a consumer has called Next: before that no timer exists
}

func (t *timerWatch) touch() {
	g := atomic.AddInt64(&t.gen, 1)
	time.AfterFunc(t.d, func() {
		for {
			old := atomic.LoadInt64(&t.fired)
			if old >= g || atomic.CompareAndSwapInt64(&t.fired, old, g) {
				return
			}
		}
	})
}

func (t *timerWatch) pending() bool {
	if atomic.LoadInt32(&t.armed) == 0 {
		return false
	}
	return atomic.LoadInt64(&t.fired) < atomic.LoadInt64(&t.gen)
}

type bsrc struct {
	h              *hlog
	tw             *timerWatch
	tok            chan btok
	inCall         int32
	overlap        int32
	closes         int32
	nextAfterClose int32
}

func (s *bsrc) Next(ctx context.Context) (int, error) {
	if atomic.AddInt32(&s.inCall, 1) != 1 {
		atomic.StoreInt32(&s.overlap, 1)
	}
	defer atomic.AddInt32(&s.inCall, -1)
	if atomic.LoadInt32(&s.closes) > 0 {
		atomic.StoreInt32(&s.nextAfterClose, 1)
	}
	s.h.add("src-next-enter")
	select {
	case t, ok := <-s.tok:
		if !ok { // clean-up after the scenario
			s.h.add("src-next-exit", "end")
			return 0, stream.End
		}
		switch t.kind {
		case "item":
			s.h.add("src-next-exit", "item", t.v)
			s.tw.touch()
			return t.v, nil
		case "end":
			s.h.add("src-next-exit", "end")
			return 0, stream.End
		default:
			s.h.add("src-next-exit", "err", t.v)
			return 0, &srcErr{t.v}
		}
	case <-ctx.Done():
		s.h.add("src-next-exit", "ctx")
		return 0, ctx.Err()
	}
}

func (s *bsrc) Close() {
	if atomic.LoadInt32(&s.inCall) != 0 {
		atomic.StoreInt32(&s.overlap, 1)
	}
	atomic.AddInt32(&s.closes, 1)
	s.h.add("src-close")
}

// quiesceT is quiesce with the timer watch re-armed whenever the scenario is seen active.
func quiesceT(h *hlog, maxWait time.Duration, tw *timerWatch) bool {
	deadline := time.Now().Add(maxWait)
	stable := 0
	last := h.len()
	for time.Now().Before(deadline) {
		n := h.len()
		blocked := allBlocked()
		if !blocked || n != last {
			tw.touch()
			stable = 0
		} else if !tw.pending() {
			stable++
			if stable >= 2 {
				if quiescePatience > 0 {
					time.Sleep(quiescePatience)
					if !(allBlocked() && h.len() == n) {
						tw.touch()
						stable = 0
						last = h.len()
						continue
					}
				}
				return true
			}
		}
		last = n
		time.Sleep(200 * time.Microsecond)
	}
	return false
}

// scribble overwrites a batch the consumer owns and appends to it (within its capacity, if it has spare room).
func scribble(b []int) {
	for i := range b {
		b[i] = -1000 - i
	}
	for len(b) < cap(b) { // in place: an append that fits does not reallocate
		b = append(b, -7-len(b))
	}
	b = append(b, -99) // and one that does not fit
}

func runBatch(c *Case) *Obs {
	var heldMu sync.Mutex
	var held [][]int
	h := &hlog{}
	mode, _ := c.Cfg["mode"].(string)
	size := 1
	if v, ok := c.Cfg["size"]; ok {
		size = num(v)
	}
	gated, _ := c.Cfg["gated"].(bool)
	mwms, margin := 25, 15
	if v, ok := c.Cfg["maxwait_ms"]; ok {
		mwms = num(v)
	}
	if v, ok := c.Cfg["margin_ms"]; ok {
		margin = num(v)
	}
	maxWait := time.Duration(mwms) * time.Millisecond
	tw := &timerWatch{d: maxWait + time.Duration(margin)*time.Millisecond}
	src := &bsrc{h: h, tw: tw, tok: make(chan btok, 256)}
	fullTok := make(chan struct{}, 256)
	var out stream.Stream[[]int]
	if mode == "func" {
		out = stream.BatchFunc[int](src, maxWait, func(batch []int) bool {
			cp := make([]any, len(batch))
			for i, x := range batch {
				cp[i] = x
			}
			h.add("full-enter", cp)
			if gated {
				<-fullTok
			}
			r := len(batch) >= size
			h.add("full-exit", r)
			tw.touch()
			return r
		})
	} else {
		out = stream.Batch[int](src, maxWait, size)
	}
	ctxs := newCtxSet()
	var wg sync.WaitGroup
	quiet := true
	closeCalled := false
	closeDone := make(chan struct{})
	doClose := func() {
		closeCalled = true
		wg.Add(1)
		go func() {
			defer wg.Done()
			out.Close()
			h.add("ret-close")
			close(closeDone)
		}()
	}
	for _, op := range c.Ops {
		switch op[0].(string) {
		case "release":
			kind := op[1].(string)
			v := 0
			if len(op) > 2 {
				v = num(op[2])
			}
			if kind == "item" || kind == "err" {
				h.add("release", kind, v)
			} else {
				h.add("release", kind)
			}
			tw.touch()
			src.tok <- btok{kind, v}
		case "release-full":
			h.add("release-full")
			tw.touch()
			fullTok <- struct{}{}
		case "next":
			k, cid := num(op[1]), num(op[2])
			ctx := ctxs.get(cid)
			h.add("call-next", k, cid)
			atomic.StoreInt32(&tw.armed, 1)
			tw.touch()
			wg.Add(1)
			go func() {
				defer wg.Done()
				heldMu.Lock()
				for _, hb := range held {
					scribble(hb)
				}
				heldMu.Unlock()
				b, err := out.Next(ctx)
				switch {
				case err == nil:
					cp := make([]any, len(b))
					for i, x := range b {
						cp[i] = x
					}
					h.add("ret-next", k, "batch", cp)
					// the batch now belongs to the consumer: like a real one, it overwrites it and appends to it -
					// now and again later, when the batcher has collected further items (a later batch must not
					// share memory with this one)
					scribble(b)
					heldMu.Lock()
					held = append(held, b)
					heldMu.Unlock()
				case err == stream.End:
					h.add("ret-next", k, "end")
				case isCtxErr(err):
					h.add("ret-next", k, "ctx")
				default:
					if se, ok := err.(*srcErr); ok {
						h.add("ret-next", k, "err", se.id)
					} else {
						h.add("ret-next", k, "err", -1)
					}
				}
			}()
		case "cancel":
			h.add("cancel", num(op[1]))
			ctxs.cancel(num(op[1]))
		case "close":
			if !closeCalled {
				h.add("call-close")
				doClose()
			}
		case "sleep":
			time.Sleep(maxWait + 3*time.Millisecond)
		case "quiesce":
			ok := quiesceT(h, 5*time.Second, tw)
			quiet = quiet && ok
			h.add("quiesce", ok)
		}
	}
	ok := quiesceT(h, 5*time.Second, tw)
	quiet = quiet && ok
	h.add("quiesce", ok)
	evs, ts := h.snapshotT()
	srcCloses := atomic.LoadInt32(&src.closes)
	// clean up: let every goroutine of this scenario finish
	close(src.tok)
	close(fullTok)
	ctxs.cancelAll()
	if !closeCalled {
		doClose()
	}
	done := make(chan struct{})
	go func() { wg.Wait(); close(done) }()
	leaked := false
	select {
	case <-done:
	case <-time.After(3 * time.Second):
		leaked = true
	}
	o := &Obs{}
	for _, e := range evs {
		o.Obs = append(o.Obs, e)
	}
	o.Aux = map[string]any{
		"quiescent": quiet, "cleanup_leak": leaked, "ts_ns": ts, "maxwait_ns": int64(maxWait),
		"src_closes": srcCloses, "src_overlap": atomic.LoadInt32(&src.overlap) != 0,
		"src_next_after_close": atomic.LoadInt32(&src.nextAfterClose) != 0,
	}
	return o
}
