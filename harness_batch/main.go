// Harness runner for the Batch scenarios (C11): executes case files against the real juniper
// packages and prints one JSON observation record per case. Built with -tags verif against
// $VERIF_REPO. Scenarios spend most of their time waiting for timers, so a large input is
// sharded over worker processes (quiescence detection inspects all goroutines of a process, hence
// processes, not goroutines).
package main

import (
	"bufio"
	"bytes"
	"encoding/json"
	"fmt"
	"os"
	"os/exec"
	"runtime"
	"strconv"
	"sync"
)

// A case is {"id": n, "ops": [[name, args...], ...]} plus component-specific fields.
type Case struct {
	ID  int            `json:"id"`
	Ops [][]any        `json:"ops"`
	Cfg map[string]any `json:"cfg,omitempty"`
}

type Obs struct {
	ID  int            `json:"id"`
	Obs []any          `json:"obs"`
	Raw []any          `json:"raw,omitempty"`
	Aux map[string]any `json:"aux,omitempty"`
}

func num(a any) int {
	switch v := a.(type) {
	case float64:
		return int(v)
	case int:
		return v
	}
	panic(fmt.Sprintf("not a number: %v", a))
}

var components = map[string]func(c *Case) *Obs{}

func workers() int {
	if v := os.Getenv("VERIF_BATCH_WORKERS"); v != "" {
		if n, err := strconv.Atoi(v); err == nil && n >= 1 {
			return n
		}
	}
	n := runtime.NumCPU() / 2
	if n > 8 {
		n = 8
	}
	if n < 1 {
		n = 1
	}
	return n
}

func main() {
	if len(os.Args) < 2 {
		fmt.Fprintln(os.Stderr, "usage: runner-batch <component> < cases.jsonl > obs.jsonl")
		os.Exit(2)
	}
	run, ok := components[os.Args[1]]
	if !ok {
		fmt.Fprintln(os.Stderr, "unknown component", os.Args[1])
		os.Exit(2)
	}
	in := bufio.NewReaderSize(os.Stdin, 1<<20)
	out := bufio.NewWriterSize(os.Stdout, 1<<20)
	defer out.Flush()
	dec := json.NewDecoder(in)
	enc := json.NewEncoder(out)
	var cases []Case
	for dec.More() {
		var c Case
		if err := dec.Decode(&c); err != nil {
			fmt.Fprintln(os.Stderr, "decode:", err)
			os.Exit(2)
		}
		cases = append(cases, c)
	}
	w := workers()
	if os.Getenv("VERIF_BATCH_CHILD") != "" || w == 1 || len(cases) < 2*w {
		for i := range cases {
			setCtxZoo(cases[i].Cfg)
			o := run(&cases[i])
			o.ID = cases[i].ID
			if err := enc.Encode(o); err != nil {
				fmt.Fprintln(os.Stderr, "encode:", err)
				os.Exit(2)
			}
			out.Flush()
		}
		return
	}
	// shard round-robin over child processes, print in input order
	results := make([]*Obs, len(cases))
	var wg sync.WaitGroup
	var mu sync.Mutex
	failed := ""
	for k := 0; k < w; k++ {
		wg.Add(1)
		go func(k int) {
			defer wg.Done()
			var buf bytes.Buffer
			e := json.NewEncoder(&buf)
			var idx []int
			for i := k; i < len(cases); i += w {
				e.Encode(&cases[i])
				idx = append(idx, i)
			}
			cmd := exec.Command(os.Args[0], os.Args[1])
			cmd.Env = append(os.Environ(), "VERIF_BATCH_CHILD=1")
			cmd.Stdin = &buf
			var errb bytes.Buffer
			cmd.Stderr = &errb
			outb, err := cmd.Output()
			d := json.NewDecoder(bytes.NewReader(outb))
			j := 0
			for d.More() && j < len(idx) {
				var o Obs
				if d.Decode(&o) != nil {
					break
				}
				results[idx[j]] = &o
				j++
			}
			if err != nil || j != len(idx) {
				mu.Lock()
				failed = fmt.Sprintf("worker %d: %v, %d of %d cases: %s", k, err, j, len(idx), errb.String())
				mu.Unlock()
			}
		}(k)
	}
	wg.Wait()
	for i := range cases {
		if results[i] == nil {
			break // the caller sees a short output and reports the first missing case
		}
		enc.Encode(results[i])
	}
	if failed != "" {
		out.Flush()
		fmt.Fprintln(os.Stderr, failed)
		os.Exit(1)
	}
}
