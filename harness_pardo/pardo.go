package main

// C13: parallel.Do / DoContext / Map / MapContext scenarios.
//
// cfg: {"api": "do"|"doctx"|"map"|"mapctx", "n": int, "par": int, "gmp": int,
//       "gated": [i...], "fail": [[i, code]...]}
// ops: ["call"] ["release", i] ["cancel"] ["quiesce"]
//
// The API call runs in its own goroutine. The instrumented f logs ["enter", i, ctxDone, gauge]
// (the context state is read and logged atomically with respect to every other logged event),
// waits for gate i if i is gated, logs ["exit", i, code, v], writes side[i] (a plain, unsynchronised
// write: the "effect" the caller must see after the call returned) and returns.
// Events: ["call"] ["enter",i,c,g] ["exit",i,code,v] ["ret",code,out|null] ["cancel"] ["cancel-done"]
//         ["release",i] ["quiesce",ok].  Error codes: 0 nil, -1 context.Canceled, k>0 scripted, -99 other.

import (
	"context"
	"errors"
	"fmt"
	"runtime"
	"sync/atomic"
	"time"

	"github.com/bradenaw/juniper/parallel"
)

func init() { components["pardo"] = runParDo }

type codeErr struct{ code int }

func (e *codeErr) Error() string { return fmt.Sprintf("scripted error %d", e.code) }

// Unwrap makes some scripted errors wrap a context error (errors.Is(err, context.Canceled) holds for them although
// they did not come from any context of the scenario): the library must report such an error like any other.
func (e *codeErr) Unwrap() error {
	switch e.code % 3 {
	case 0:
		return context.Canceled
	case 1:
		return context.DeadlineExceeded
	}
	return nil
}

func errCodeOf(err error) int {
	var ce *codeErr
	switch {
	case err == nil:
		return 0
	case errors.As(err, &ce):
		return ce.code
	case isCtxErr(err):
		return -1
	}
	return -99
}

// addf appends the event computed by f while holding the log's lock.
func (h *hlog) addf(f func() []any) {
	h.mu.Lock()
	h.evs = append(h.evs, f())
	h.mu.Unlock()
}

func mapVal(x int) int { return 3*x + 1 } // the function mapped by Map / MapContext; in[i] = 100 + i

func runParDo(c *Case) *Obs {
	api := c.Cfg["api"].(string)
	n := num(c.Cfg["n"])
	par := num(c.Cfg["par"])
	gmp := num(c.Cfg["gmp"])
	isCtx := api == "doctx" || api == "mapctx"
	isMap := api == "map" || api == "mapctx"

	gates := map[int]*gate{}
	if g, ok := c.Cfg["gated"].([]any); ok {
		for _, x := range g {
			gates[num(x)] = newGate()
		}
	}
	fail := map[int]*codeErr{}
	if f, ok := c.Cfg["fail"].([]any); ok {
		for _, x := range f {
			p := x.([]any)
			fail[num(p[0])] = &codeErr{num(p[1])}
		}
	}

	prev := runtime.GOMAXPROCS(gmp)
	defer runtime.GOMAXPROCS(prev)

	h := &hlog{}
	ctx, cancel := zooContext(0)
	defer cancel()

	counts := make([]int32, n+1)
	side := make([]int, n+1)
	var gauge, maxGauge int32
	bad := int32(0) // f called with an index outside [0, n)

	body := func(fctx context.Context, i int) (int, error) {
		if i < 0 || i >= n {
			atomic.AddInt32(&bad, 1)
			i = n
		}
		atomic.AddInt32(&counts[i], 1)
		g := atomic.AddInt32(&gauge, 1)
		for {
			m := atomic.LoadInt32(&maxGauge)
			if g <= m || atomic.CompareAndSwapInt32(&maxGauge, m, g) {
				break
			}
		}
		h.addf(func() []any {
			return []any{"enter", i, fctx != nil && fctx.Err() != nil, int(g)}
		})
		if gt, ok := gates[i]; ok {
			gt.wait()
		}
		var err error
		code := 0
		if e, ok := fail[i]; ok && isCtx {
			err = e
			code = e.code
		}
		v := 0
		if isMap {
			v = mapVal(100 + i)
		}
		atomic.AddInt32(&gauge, -1)
		h.add("exit", i, code, v)
		side[i] = i + 1
		return v, err
	}

	done := make(chan struct{})
	var sideAtRet []int
	var gaugeAtRet int32
	called := false
	call := func() {
		defer close(done)
		h.add("call")
		var out []int
		var err error
		in := make([]int, n)
		for i := range in {
			in[i] = 100 + i
		}
		switch api {
		case "do":
			parallel.Do(par, n, func(i int) { body(nil, i) })
		case "doctx":
			err = parallel.DoContext(ctx, par, n, func(fctx context.Context, i int) error {
				_, e := body(fctx, i)
				return e
			})
		case "map":
			out = parallel.Map(par, in, func(x int) int {
				v, _ := body(nil, x-100)
				return v
			})
		case "mapctx":
			out, err = parallel.MapContext(ctx, par, in, func(fctx context.Context, x int) (int, error) {
				return body(fctx, x-100)
			})
		}
		gaugeAtRet = atomic.LoadInt32(&gauge)
		sideAtRet = append([]int(nil), side...)
		var o any
		if out != nil {
			o = append([]int{}, out...)
		}
		h.add("ret", errCodeOf(err), o)
	}

	quiet := true
	for _, op := range c.Ops {
		switch op[0].(string) {
		case "call":
			if !called {
				called = true
				go call()
			}
		case "release":
			i := num(op[1])
			h.add("release", i)
			if g, ok := gates[i]; ok {
				g.release()
			}
		case "cancel":
			h.add("cancel")
			cancel()
			h.add("cancel-done")
		case "quiesce":
			ok := quiesce(h, 5*time.Second, nil)
			quiet = quiet && ok
			h.add("quiesce", ok)
		}
	}
	ok := quiesce(h, 5*time.Second, nil)
	quiet = quiet && ok
	h.add("quiesce", ok)
	evs := h.snapshot()
	returned := false
	select {
	case <-done:
		returned = true
	default:
	}
	var sideSnap []int
	var gaugeSnap int32
	if returned {
		sideSnap, gaugeSnap = sideAtRet, gaugeAtRet
	}

	// clean up
	for _, g := range gates {
		g.release()
	}
	cancel()
	leaked := false
	if called {
		select {
		case <-done:
		case <-time.After(5 * time.Second):
			leaked = true
		}
	}
	// any call of f after the log was cut (and after the API returned) shows up here
	lateOK := quiesce(h, 5*time.Second, nil)
	cnt := make([]int, n+1)
	for i := range cnt {
		cnt[i] = int(atomic.LoadInt32(&counts[i]))
	}
	o := &Obs{}
	for _, e := range evs {
		o.Obs = append(o.Obs, e)
	}
	o.Aux = map[string]any{
		"quiescent": quiet, "cleanup_leak": leaked, "cleanup_quiescent": lateOK,
		"returned": returned, "side_at_ret": sideSnap, "gauge_at_ret": int(gaugeSnap),
		"max_gauge": int(atomic.LoadInt32(&maxGauge)), "bad_index_calls": int(atomic.LoadInt32(&bad)),
		"final_counts": cnt, "final_events": h.len(),
	}
	return o
}
