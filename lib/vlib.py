"""Common machinery for the /verif checks (Python 3 standard library only).

A check = (1) regenerate constants from the Go source (gofacts) and re-check the Coq theorems of
the property against them, (2) run the Go implementation (built from $VERIF_REPO with -tags verif)
on generated cases, (3) evaluate the Coq model on the same cases with vm_compute inside coqc and
compare (correspondence), (4) run the property's direct oracle on the implementation's
observations, (5) apply the violation protocol and write evidence/<id>.json.
"""
import fcntl
import hashlib
import json
import os
import random
import re
import shutil
import subprocess
import sys
import time

ROOT = os.path.dirname(os.path.dirname(os.path.abspath(__file__)))
REPO = os.environ.get("VERIF_REPO", "/repo")
BUILD = os.path.join(ROOT, "build")
COQ = os.path.join(ROOT, "coq")
if os.path.realpath(REPO) != "/repo":
    # a run against a scratch tree (tools/try_patch.sh) gets its own copy of the Coq development: the files generated from
    # that tree (Generated/*.v) and whatever is rebuilt from them never touch the copy the checks of /repo use
    import atexit
    _rid = hashlib.sha256(REPO.encode()).hexdigest()[:10]
    _scratch = os.path.join(BUILD, "coqtrees", "%s-%d" % (_rid, os.getpid()))
    os.makedirs(os.path.dirname(_scratch), exist_ok=True)
    subprocess.run(["rsync", "-a", "--delete", COQ + "/", _scratch + "/"], check=True)
    COQ = _scratch
    atexit.register(lambda: shutil.rmtree(_scratch, ignore_errors=True))
NPROC = os.cpu_count() or 4

GOENV = dict(os.environ, GOFLAGS="-mod=mod", GOPROXY="off", GOSUMDB="off", GOTOOLCHAIN="local",
             CGO_ENABLED=os.environ.get("CGO_ENABLED", "1"))

AXIOM_WHITELIST = [
    # standard-library axioms that may appear (none is expected; see DESIGN.md A6)
]

TRUSTED_BASE_COMMON = [
    "Coq 8.16.1 kernel (coqc); vm_compute for model evaluation and computed witnesses; no native_compute",
    "axioms: none (every property theorem prints 'Closed under the global context'; re-checked on every run, and by coqchk -o in the thorough tier)",
    "no OCaml extraction is used (no Extract Constant / Extract Inductive directives): the models are evaluated inside Coq by vm_compute",
    "hand-written Gallina models under coq/theories (layer M), tied to the Go code by the differential correspondence check of this run",
    "tools/gofacts (regenerated from the Go AST on every run: constants -> Generated/Params.v; literal translation of small pure functions -> Generated/Funcs.v; synchronisation census of the functions the concurrency models transcribe -> Generated/Census.v)",
    "Go harness (/verif/harness), its canonicalisation of observations, and the verif-tagged read-only hooks in /repo",
    "lib/vlib.py + props/*.py (case generation, JSON->Coq term printing, direct oracles)",
    "Go toolchain/runtime semantics (memory model, channels, select, sync, time) as documented",
]


def log(*a):
    print(*a, file=sys.stderr, flush=True)


def sh(cmd, timeout=600, cwd=None, env=None, input=None):
    """Run a command; returns (rc, stdout+stderr). rc=124 on timeout."""
    try:
        p = subprocess.run(cmd, shell=isinstance(cmd, str), cwd=cwd, env=env, input=input,
                           stdout=subprocess.PIPE, stderr=subprocess.STDOUT, timeout=timeout, text=True, preexec_fn=die_with_parent)
        return p.returncode, p.stdout
    except subprocess.TimeoutExpired as e:
        out = e.stdout if isinstance(e.stdout, str) else (e.stdout or b"").decode("utf8", "replace")
        return 124, out + "\n[timeout]"


class Lock:
    def __init__(self, name):
        os.makedirs(BUILD, exist_ok=True)
        self.path = os.path.join(BUILD, name + ".lock")

    def __enter__(self):
        self.f = open(self.path, "w")
        fcntl.flock(self.f, fcntl.LOCK_EX)
        return self

    def __exit__(self, *a):
        fcntl.flock(self.f, fcntl.LOCK_UN)
        self.f.close()


# ------------------------------------------------------------------ builds

def write_if_changed(path, content):
    try:
        with open(path) as f:
            if f.read() == content:
                return False
    except FileNotFoundError:
        pass
    os.makedirs(os.path.dirname(path), exist_ok=True)
    with open(path, "w") as f:
        f.write(content)
    return True


def gofacts():
    """Regenerate Params.v and fingerprints from the current Go source."""
    with Lock("gofacts"):
        exe = os.path.join(BUILD, "gofacts")
        src = os.path.join(ROOT, "tools", "gofacts")
        if (not os.path.exists(exe)) or os.path.getmtime(exe) < max(os.path.getmtime(os.path.join(src, f)) for f in os.listdir(src)):
            rc, out = sh(["go", "build", "-o", exe, "."], cwd=src, env=GOENV, timeout=300)
            if rc != 0:
                raise RuntimeError("gofacts build failed:\n" + out)
        env = dict(GOENV, VERIF_REPO=REPO)
        rc, out = sh([exe, os.path.join(COQ, "theories", "Generated", "Params.v"),
                      os.path.join(BUILD, "fingerprints.json")], env=env, timeout=120)
        return rc == 0, out


def coq_project():
    """(Re)write _CoqProject and Makefile when the file set changed."""
    files = []
    for top in ("theories", "Properties"):
        for dp, dn, fn in os.walk(os.path.join(COQ, top)):
            for f in fn:
                if f.endswith(".v"):
                    files.append(os.path.relpath(os.path.join(dp, f), COQ))
    files.sort()
    content = "-Q theories Juniper\n-Q Properties JuniperProps\n" + "\n".join(files) + "\n"
    changed = write_if_changed(os.path.join(COQ, "_CoqProject"), content)
    if changed or not os.path.exists(os.path.join(COQ, "Makefile")):
        rc, out = sh("coq_makefile -f _CoqProject -o Makefile", cwd=COQ, timeout=120)
        if rc != 0:
            raise RuntimeError("coq_makefile failed:\n" + out)


def coq_make(targets, timeout=1500):
    """Full .vo build of the given targets (paths relative to coq/), under a lock."""
    with Lock("coq"):
        coq_project()
        cmd = ["make", "-j%d" % NPROC] + list(targets)
        rc, out = sh(cmd, cwd=COQ, timeout=timeout)
        return rc == 0, out


GREP_GATE = re.compile(r"\b(Admitted|admit|Axiom|Axioms|Parameter|Parameters|Conjecture|Conjectures|bypass_check|Admit Obligations)\b|Unset Guard|type-in-type|impredicative-set|Unset Universe Checking|Unset Positivity")


def dep_closure(targets):
    """The .v files the given .vo targets depend on (transitively), from coq_makefile's .Makefile.d."""
    deps = {}
    try:
        txt = open(os.path.join(COQ, ".Makefile.d")).read().replace("\\\n", " ")
    except FileNotFoundError:
        return None
    for line in txt.split("\n"):
        if ":" not in line:
            continue
        lhs, rhs = line.split(":", 1)
        outs = [x for x in lhs.split() if x.endswith(".vo")]
        ins = [x for x in rhs.split() if x.endswith(".vo")]
        for o in outs:
            deps.setdefault(o, set()).update(ins)
    seen = set()
    todo = list(targets)
    while todo:
        t = todo.pop()
        if t in seen:
            continue
        seen.add(t)
        todo += list(deps.get(t, ()))
    return {t[:-1] for t in seen}          # X.vo -> X.v


def grep_gate(only=None):
    """No Admitted/Axiom/... in the development (restricted to the files in `only` when given).
    Returns list of offending lines."""
    bad = []
    for top in ("theories", "Properties"):
        for dp, dn, fn in os.walk(os.path.join(COQ, top)):
            for f in fn:
                if not f.endswith(".v"):
                    continue
                p = os.path.join(dp, f)
                if only is not None and os.path.relpath(p, COQ) not in only:
                    continue
                txt = open(p).read()
                # strip comments (non-nested is enough for our files; nested handled by loop)
                prev = None
                while prev != txt:
                    prev = txt
                    txt = re.sub(r"\(\*[^()*]*(?:\*(?!\))[^()*]*|\((?!\*)[^()*]*|\)[^()*]*)*\*\)", " ", txt)
                for i, line in enumerate(txt.split("\n")):
                    if GREP_GATE.search(line):
                        bad.append("%s:%d: %s" % (os.path.relpath(p, COQ), i + 1, line.strip()))
    return bad


def coqc_eval(name, src, timeout=900):
    """Compile a generated .v file under build/cases and return (rc, stdout)."""
    d = os.path.join(BUILD, "cases")
    os.makedirs(d, exist_ok=True)
    p = os.path.join(d, name + ".v")
    with open(p, "w") as f:
        f.write(src)
    rc, out = sh(["coqc", "-Q", os.path.join(COQ, "theories"), "Juniper",
                  "-Q", os.path.join(COQ, "Properties"), "JuniperProps", p], cwd=d, timeout=timeout)
    for ext in (".vo", ".glob", ".vok", ".vos"):
        try:
            os.remove(os.path.join(d, name + ext))
        except FileNotFoundError:
            pass
    try:
        os.remove(os.path.join(d, "." + name + ".aux"))
    except FileNotFoundError:
        pass
    return rc, out


def print_assumptions(prop_modules, theorems):
    """Return {theorem: assumptions-text}. Runs coqc on a tiny generated file."""
    src = "".join("From JuniperProps Require Import %s.\n" % m for m in prop_modules)
    for t in theorems:
        src += 'Goal True. idtac "@@BEGIN %s". Abort.\nPrint Assumptions %s.\n' % (t, t)
    src += 'Goal True. idtac "@@END". Abort.\n'
    rc, out = coqc_eval("pa_" + "_".join(prop_modules) + "_%d" % os.getpid(), src, timeout=600)
    res = {}
    if rc != 0:
        return None, out
    cur = None
    for line in out.split("\n"):
        m = re.match(r"@@BEGIN (\S+)", line)
        if m:
            cur = m.group(1)
            res[cur] = ""
            continue
        if line.startswith("@@END"):
            cur = None
            continue
        if cur is not None:
            res[cur] += line + "\n"
    return res, out


def coqchk(prop_files, timeout=2400):
    """Independent re-check of the compiled property modules (thorough tier), cached by content hash."""
    h = hashlib.sha256()
    for dp, dn, fn in sorted(os.walk(COQ)):
        for f in sorted(fn):
            if f.endswith(".v"):
                h.update(open(os.path.join(dp, f), "rb").read())
    key = h.hexdigest()[:16] + "_" + "_".join(prop_files)
    cache = os.path.join(BUILD, "coqchk_" + key + ".json")
    if os.path.exists(cache):
        r = json.load(open(cache))
        r["cached"] = True
        return r
    t = time.time()
    with Lock("coqchk"):
        rc, out = sh(["coqchk", "-silent", "-o", "-Q", "theories", "Juniper", "-Q", "Properties", "JuniperProps"] +
                     ["JuniperProps." + f for f in prop_files], cwd=COQ, timeout=timeout)
    axioms = re.findall(r"^\s*\*\s*Axioms:\s*(.*?)(?=^\s*\*|\Z)", out, flags=re.M | re.S)
    r = {"ok": rc == 0, "wall_s": round(time.time() - t, 1), "axioms_reported": (axioms[0].strip()[:1500] if axioms else "n/a"),
         "tail": out[-1500:], "cmd": "coqchk -silent -o -Q theories Juniper -Q Properties JuniperProps " + " ".join("JuniperProps." + f for f in prop_files)}
    if rc == 124:
        r["ok"] = None      # timeout: inconclusive, not a rejection
    json.dump(r, open(cache, "w"))
    return r


def cached_print_assumptions(prop_files, names, closure):
    """Print Assumptions of every theorem, cached by the content of every file the theorems depend on
    (so a change anywhere in the dependency closure, incl. the regenerated constants, re-runs it)."""
    h = hashlib.sha256()
    files = sorted(closure) if closure else None
    if files is None:
        return print_assumptions(prop_files, names)
    for f in files:
        try:
            h.update(f.encode())
            h.update(open(os.path.join(COQ, f), "rb").read())
        except FileNotFoundError:
            return print_assumptions(prop_files, names)
    h.update(" ".join(names).encode())
    cache = os.path.join(BUILD, "pa_%s_%s.json" % ("_".join(prop_files), h.hexdigest()[:16]))
    if os.path.exists(cache):
        try:
            return json.load(open(cache)), "cached"
        except Exception:
            pass
    pa, raw = print_assumptions(prop_files, names)
    if pa is not None and len(pa) == len(names):
        os.makedirs(BUILD, exist_ok=True)
        json.dump(pa, open(cache, "w"))
    return pa, raw


def strip_coq_comments(txt):
    """Remove (nested) Coq comments; string literals are left alone (property files have none containing '(*')."""
    out, depth, i = [], 0, 0
    while i < len(txt):
        if txt.startswith("(*", i):
            depth += 1
            i += 2
        elif txt.startswith("*)", i) and depth > 0:
            depth -= 1
            i += 2
        else:
            if depth == 0:
                out.append(txt[i])
            i += 1
    return "".join(out)


def theorem_names(prop_files):
    names = []
    for pf in prop_files:
        txt = strip_coq_comments(open(os.path.join(COQ, "Properties", pf + ".v")).read())
        names += re.findall(r"^\s*Theorem\s+([A-Za-z0-9_']+)", txt, flags=re.M)
    return names


def build_runner(race=False, module="harness", exe_name="runner"):
    """Build a Go harness module against REPO's current working tree with -tags verif.
    The module sources are copied to a build directory that is private to this REPO path, so that
    checks running against different trees (VERIF_REPO) never share go.mod or binaries."""
    rid = hashlib.sha256(REPO.encode()).hexdigest()[:10]
    work = os.path.join(BUILD, "mods", rid, module)
    exe = os.path.join(BUILD, "mods", rid, exe_name + ("-race" if race else ""))
    with Lock("build_%s_%s" % (rid, exe_name)):
        os.makedirs(work, exist_ok=True)
        src = os.path.join(ROOT, module)
        keep = set()
        for f in os.listdir(src):
            if f.endswith(".go"):
                keep.add(f)
                write_if_changed(os.path.join(work, f), open(os.path.join(src, f)).read())
        for f in os.listdir(work):
            if f.endswith(".go") and f not in keep:
                os.remove(os.path.join(work, f))
        gomod = ("module verif%s\n\ngo 1.18\n\nrequire github.com/bradenaw/juniper v0.0.0\n\n"
                 "replace github.com/bradenaw/juniper => %s\n" % (re.sub(r"[^a-z0-9]", "", module.lower()), REPO))
        write_if_changed(os.path.join(work, "go.mod"), gomod)
        shutil.copyfile(os.path.join(REPO, "go.sum"), os.path.join(work, "go.sum"))
        cmd = ["go", "build", "-tags", "verif"] + (["-race"] if race else []) + ["-o", exe, "."]
        rc, out = sh(cmd, cwd=work, env=GOENV, timeout=900)
        return rc == 0, out, exe


def run_runner(exe, component, cases, timeout=600, env=None, procs=1):
    """Feed cases (list of dicts) to the runner; returns (list of obs dicts, error-text-or-None).
    procs > 1: the cases are dealt out to that many runner processes working side by side."""
    if procs > 1 and len(cases) > 1:
        from concurrent.futures import ThreadPoolExecutor
        chunks = [cases[i::procs] for i in range(procs) if cases[i::procs]]
        with ThreadPoolExecutor(len(chunks)) as ex:
            res = list(ex.map(lambda ch: run_runner(exe, component, ch, timeout, env), chunks))
        obs = [o for r in res for o in (r[0] or [])]
        errs = [r[1] for r in res if r[1]]
        by_id = {o.get("id"): o for o in obs}
        ordered = []
        for c in cases:                   # observations up to the first missing one, in case order
            if c["id"] not in by_id:
                break
            ordered.append(by_id[c["id"]])
        return ordered, (errs[0] if errs else None)
    inp = "".join(json.dumps(c) + "\n" for c in cases)
    for attempt in range(3):
        try:
            p = subprocess.run([exe, component], input=inp, stdout=subprocess.PIPE, stderr=subprocess.PIPE,
                               timeout=timeout, text=True, env=env, preexec_fn=die_with_parent)
        except subprocess.TimeoutExpired:
            return None, "runner timeout after %ds" % timeout
        if p.returncode != -9:      # SIGKILL comes from outside (the kernel's OOM killer): not a verdict, run again
            break
        time.sleep(5 * (attempt + 1))
    obs = []
    for line in p.stdout.split("\n"):
        if line.strip():
            try:
                obs.append(json.loads(line))
            except Exception:
                return obs, "bad runner output: " + line[:200]
    if p.returncode != 0:
        return obs, "runner exit %d: %s" % (p.returncode, p.stderr[-2000:])
    return obs, None


# ------------------------------------------------------------------ Coq term printing

def z(n):
    n = int(n)
    return str(n) if n >= 0 else "(%d)" % n


def zlist(l):
    return "[" + "; ".join(z(x) for x in l) + "]"


def coq_list(items):
    return "[" + ";\n ".join(items) + "]"


def parse_coq_nat_list(out, name):
    """Parse '@@name [a; b; c]' style output produced by idtac-free Print of a list of numbers."""
    m = re.search(name + r"\s*=\s*\[([^\]]*)\]", out.replace("\n", " "))
    if not m:
        return None
    body = m.group(1).strip()
    if not body:
        return []
    return [int(x.replace("%nat", "").replace("%Z", "").replace("%N", "").strip().strip("()")) for x in body.split(";")]


def infer_case_type(checkers, preamble):
    """The Coq type of a case, read off `Definition <checker> (c : TYPE) : bool` in the preamble (so that a shard
    whose cases happen to contain only None / [] / inl still type-checks)."""
    for chk in checkers.values():
        m = re.search(r"Definition\s+%s\s+\(c\s*:\s*(.*?)\)\s*:\s*bool" % re.escape(chk), preamble, flags=re.S)
        if m:
            return m.group(1).strip()
    return None


def die_with_parent():
    """preexec_fn: the child gets SIGKILL when this process dies, so a killed check leaves no coqc/runner behind."""
    try:
        import ctypes
        ctypes.CDLL("libc.so.6").prctl(1, 9)      # PR_SET_PDEATHSIG, SIGKILL
    except Exception:
        pass


SHARD_BYTES = int(os.environ.get('VERIF_SHARD_BYTES', 1200000))


SHARD_TIMEOUT = int(os.environ.get("VERIF_SHARD_TIMEOUT", 150))
SINGLE_TIMEOUT = int(os.environ.get("VERIF_SINGLE_TIMEOUT", 45))
INCONCLUSIVE = []          # (name, index) of cases whose model evaluation exceeded the time limit in this process


def eval_failing_multi(module_imports, cases_terms, checkers, name, shard=None, timeout=None, preamble="", case_type=None,
                       _single=False):
    """cases_terms: list of Coq terms (one per case); checkers: {label: Coq function case -> bool}
    (true = model agrees). Returns ({label: sorted failing indices}, error-text-or-None).
    Sharded over all cores; each shard is one coqc run evaluating every checker with vm_compute.
    A shard that exceeds its time limit is taken apart: its cases are evaluated one per coqc run; a single case that
    still exceeds the limit (the history matchers are exponential in the worst case) is inconclusive - recorded in
    INCONCLUSIVE and in the evidence, neither a disagreement nor an error; the direct oracle has judged it anyway."""
    if timeout is None:
        timeout = SINGLE_TIMEOUT if _single else SHARD_TIMEOUT
    if shard is None:
        shard = max(6, min(150, -(-len(cases_terms) // NPROC)))
    # shards are bounded by case count and by source size (coqc's memory grows with the size of the term it
    # has to parse: ~1 GB per MB of case text), so 16 concurrent shards stay well inside the machine
    shards, starts, cur, cur_bytes = [], [], [], 0
    for i, t in enumerate(cases_terms):
        if cur and (len(cur) >= shard or cur_bytes + len(t) > SHARD_BYTES):
            shards.append(cur)
            cur, cur_bytes = [], 0
        if not cur:
            starts.append(i)
        cur.append(t)
        cur_bytes += len(t)
    if cur:
        shards.append(cur)
    d = os.path.join(BUILD, "cases")
    os.makedirs(d, exist_ok=True)
    for f in os.listdir(d):      # drop debugging leftovers of earlier runs
        fp = os.path.join(d, f)
        try:
            if time.time() - os.path.getmtime(fp) > 3600:
                os.remove(fp)
        except OSError:
            pass
    idx = 0
    running = []
    failing = {c: [] for c in checkers}
    err = None
    labels = list(checkers)

    def start(k):
        src = module_imports + "\n" + preamble + "\n"
        ct = case_type or infer_case_type(checkers, preamble)
        src += "Definition cases" + ((" : list (%s)" % ct) if ct else "") + " := " + coq_list(shards[k]) + ".\n"
        src += ("Fixpoint failing_idx {A} (chk : A -> bool) (n : nat) (l : list A) : list nat :=\n"
                "  match l with [] => [] | c :: t => if chk c then failing_idx chk (S n) t else n :: failing_idx chk (S n) t end.\n")
        for j, lab in enumerate(labels):
            src += "Definition bad%d := Eval vm_compute in failing_idx (%s) O cases.\nPrint bad%d.\n" % (j, checkers[lab], j)
        nm = re.sub(r"[^A-Za-z0-9_]", "_", "%s_%d_s%d" % (name, os.getpid(), k))
        p = os.path.join(d, nm + ".v")
        with open(p, "w") as f:
            f.write(src)
        pr = subprocess.Popen(["coqc", "-Q", os.path.join(COQ, "theories"), "Juniper", p], cwd=d,
                              stdout=subprocess.PIPE, stderr=subprocess.STDOUT, text=True, preexec_fn=die_with_parent)
        return (k, nm, pr, time.time())

    retried, retry_queue, timed_out = {}, [], []
    while idx < len(shards) or running or retry_queue:
        while idx < len(shards) and len(running) < NPROC:
            running.append(start(idx))
            idx += 1
        if not running:
            time.sleep(2)
            running.append(start(retry_queue.pop(0)))
        k, nm, pr, t0 = running.pop(0)
        try:
            out, _ = pr.communicate(timeout=max(1, timeout - (time.time() - t0)))
        except subprocess.TimeoutExpired:
            pr.kill()
            pr.communicate()
            out = "[timeout]"
        if time.time() - t0 > 90:
            log("slow shard: %s (%d cases) took %.0fs" % (nm, len(shards[k]), time.time() - t0))
            try:
                shutil.copyfile(os.path.join(d, nm + ".v"), os.path.join(BUILD, "slow_" + nm + ".v"))
            except OSError:
                pass
        for ext in (".v", ".vo", ".glob", ".vok", ".vos"):
            try:
                if ext != ".v" or pr.returncode == 0:
                    os.remove(os.path.join(d, nm + ext))
            except FileNotFoundError:
                pass
        try:
            os.remove(os.path.join(d, "." + nm + ".aux"))
        except FileNotFoundError:
            pass
        if out == "[timeout]":
            timed_out.append(k)
            continue
        if pr.returncode != 0 and (pr.returncode < 0 or "Out of memory" in out) and retried.get(k, 0) < 2:
            # killed from outside (e.g. the machine ran out of memory while other jobs were running) or starved:
            # an infrastructure failure, not a verdict; run the shard again on its own once the others are done
            retried[k] = retried.get(k, 0) + 1
            retry_queue.append(k)
            continue
        if pr.returncode != 0:
            err = "coqc failed on shard %d (%s.v kept):\n%s" % (k, nm, out[-3000:])
            continue
        for j, lab in enumerate(labels):
            lst = parse_coq_nat_list(out, "bad%d" % j)
            if lst is None:
                err = "cannot parse coqc output: " + out[-500:]
                continue
            failing[lab] += [starts[k] + i for i in lst]
    for k in timed_out:
        if _single or len(shards[k]) == 1:
            for i in range(len(shards[k])):
                INCONCLUSIVE.append((name, starts[k] + i))
            log("model evaluation of case %d of %s exceeded %ds: inconclusive" % (starts[k], name, timeout))
            continue
        sub, suberr = eval_failing_multi(module_imports, shards[k], checkers, "%s_t%d" % (name, k), shard=1, preamble=preamble,
                                         case_type=case_type or infer_case_type(checkers, preamble), _single=True)
        for lab, lst in sub.items():
            failing[lab] += [starts[k] + i for i in lst]
        # indices recorded by the sub-run are relative to the shard: rebase them
        for j, (nm2, i2) in enumerate(INCONCLUSIVE):
            if nm2 == "%s_t%d" % (name, k):
                INCONCLUSIVE[j] = (name, starts[k] + i2)
        err = err or suberr
    return {c: sorted(v) for c, v in failing.items()}, err


def eval_failing(module_imports, cases_terms, checker, name, shard=None, timeout=900, preamble=""):
    r, err = eval_failing_multi(module_imports, cases_terms, {"x": checker}, name, shard, timeout, preamble)
    return r["x"], err


def eval_print(module_imports, term, name, timeout=300, preamble=""):
    """Evaluate one Coq term with vm_compute and return the printed text."""
    src = module_imports + "\n" + preamble + "\nEval vm_compute in (%s).\n" % term
    rc, out = coqc_eval("%s_%d" % (name, os.getpid()), src, timeout=timeout)
    return out.strip()


# ------------------------------------------------------------------ shrinking

def ddmin(items, fails, max_rounds=200):
    """Delta-debugging on a list: smallest sublist for which fails(sublist) is true."""
    n = 2
    rounds = 0
    while len(items) >= 2 and rounds < max_rounds:
        rounds += 1
        chunk = max(1, len(items) // n)
        reduced = False
        for i in range(0, len(items), chunk):
            cand = items[:i] + items[i + chunk:]
            if cand and fails(cand):
                items = cand
                n = max(n - 1, 2)
                reduced = True
                break
        if not reduced:
            if chunk == 1:
                break
            n = min(len(items), n * 2)
    return items


# ------------------------------------------------------------------ findings / evidence / protocol

def load_known_findings():
    p = os.path.join(ROOT, "known_findings.jsonl")
    res = []
    if os.path.exists(p):
        for line in open(p):
            line = line.strip()
            if line and not line.startswith("#"):
                res.append(json.loads(line))
    return res


class Ctx:
    """One run of one property check."""

    def __init__(self, pid, tier, seed):
        self.pid = pid
        self.tier = tier
        self.seed = seed
        self.rng = random.Random((seed * 1000003) ^ int(hashlib.sha256(pid.encode()).hexdigest()[:8], 16))
        self.t0 = time.time()
        self.violations = []      # dicts: {signature, what, replay(dict), failing_input(bool)}
        self.coverage = {}
        self.assumptions = []
        self.notes = []
        self.known = [k for k in load_known_findings() if k.get("property") == pid]

    # -- proofs
    def check_proofs(self, prop_files, extra_targets=()):
        """Regenerate constants, rebuild the property's theorems, check assumptions.
        Returns True when all proof obligations are discharged."""
        if os.environ.get("VERIF_DEV_SKIP_PROOFS"):
            gofacts()
            coq_make(list(extra_targets))
            self.notes.append("DEV: proofs skipped")
            self.coverage.update({"obligations": 1, "discharged": 0, "checker_cmd": "skipped"})
            return True
        ok, out = gofacts()
        if not ok:
            self.violation("gofacts-failed", "constants could not be regenerated from the Go source: " + out[-500:],
                           {"kind": "translator", "output": out[-2000:]}, failing_input=False)
            return False
        try:
            names = theorem_names(prop_files)
        except FileNotFoundError as e:
            self.coverage.update({"obligations": 1, "discharged": 0, "checker_cmd": "n/a"})
            self.proof_broken = "property file missing: %s" % e
            return False
        targets = ["Properties/%s.vo" % f for f in prop_files] + list(extra_targets)
        t = time.time()
        ok, out = coq_make(targets)
        self.coverage["coq_build_s"] = round(time.time() - t, 1)
        self.coverage["obligations"] = len(names)
        self.coverage["obligation_names"] = names
        self.coverage["checker_cmd"] = "make -C coq " + " ".join(targets) + " (coqc 8.16.1, full .vo build) + Print Assumptions on every theorem + grep gate"
        if not ok:
            self.coverage["discharged"] = 0
            m = re.findall(r'File "([^"]+)", line (\d+)[^\n]*\n(?:.*\n){0,6}?Error:([^\n]*(?:\n[^\n]+){0,4})', out)
            where = "; ".join("%s:%s %s" % (a, b, c.strip()[:200]) for a, b, c in m[:3]) or out[-800:]
            self.proof_broken = where
            return False
        closure = dep_closure(targets)
        self.coverage["files_in_proof_closure"] = sorted(closure) if closure else "unknown (whole development gated)"
        bad = grep_gate(closure)
        if bad:
            self.coverage["discharged"] = 0
            self.proof_broken = "grep gate: " + "; ".join(bad[:5])
            return False
        pa, raw = cached_print_assumptions(prop_files, names, closure)
        if pa is None:
            self.coverage["discharged"] = 0
            self.proof_broken = "Print Assumptions failed: " + raw[-500:]
            return False
        axioms = {}
        for n, txt in pa.items():
            if "Closed under the global context" in txt:
                continue
            axioms[n] = txt.strip()
        self.coverage["axioms"] = axioms if axioms else "none: every theorem is 'Closed under the global context'"
        if axioms:
            # the development is axiom-free by design (DESIGN.md A6); any assumption, even a standard-library
            # axiom, is reported so that it is either removed or named in the trusted base deliberately
            self.coverage["discharged"] = len(names) - len(axioms)
            self.proof_broken = "theorems depend on axioms/assumptions: " + json.dumps(axioms)[:800]
            return False
        self.coverage["discharged"] = len(names)
        if self.tier == "thorough":
            self.coverage["coqchk"] = coqchk(prop_files)
            if self.coverage["coqchk"].get("ok") is False:
                self.coverage["discharged"] = 0
                self.proof_broken = "coqchk rejected the compiled theorems: " + self.coverage["coqchk"].get("tail", "")[-600:]
                return False
        return True

    proof_broken = None

    # -- violations
    def violation(self, signature, what, replay, failing_input=True):
        self.violations.append({"signature": signature, "what": what, "replay": replay, "failing_input": failing_input})

    def finish(self, level="proof", trusted_extra=(), assumptions=()):
        """Apply the known-findings filter, print VIOLATION / KNOWN-FINDING lines, write evidence, exit."""
        os.makedirs(os.path.join(ROOT, "replays"), exist_ok=True)
        os.makedirs(os.path.join(ROOT, "evidence"), exist_ok=True)
        reported = 0
        known_hit = {}
        seen = set()
        for v in self.violations:
            # the same finding met in the patience pass of a part carries the part's name with a "~patience" suffix
            base_sig = v["signature"].replace("~patience:", ":", 1)
            k = next((k for k in self.known if k.get("status", "known") == "known" and k.get("signature") == base_sig), None)
            if k is not None:
                known_hit.setdefault(base_sig, (k, v))
                continue
            if v["signature"] in seen:
                continue
            seen.add(v["signature"])
            body = {"property": self.pid, "signature": v["signature"], "what": v["what"], "seed": self.seed,
                    "tier": self.tier, "repo": REPO, "failing_input_found": v["failing_input"], "replay": v["replay"]}
            h = hashlib.sha256(json.dumps(body, sort_keys=True, default=str).encode()).hexdigest()[:12]
            path = os.path.join("replays", "%s-%s.json" % (self.pid, h))
            with open(os.path.join(ROOT, path), "w") as f:
                json.dump(body, f, indent=1, default=str)
            tail = "" if v["failing_input"] else " no-failing-input-found"
            log("violation: %s: %s" % (v["signature"], v["what"][:400]))
            print("VIOLATION property=%s replay=%s%s" % (self.pid, path, tail), flush=True)
            reported += 1
        for sig, (k, v) in known_hit.items():
            print("KNOWN-FINDING: property=%s %s" % (self.pid, k.get("what", sig)), flush=True)
        cov = self.coverage
        cov.setdefault("trusted_base", TRUSTED_BASE_COMMON + list(trusted_extra))
        cov["known_findings_matched"] = sorted(known_hit)
        ev = {"property_id": self.pid, "tier": self.tier, "seed": self.seed, "level": level,
              "coverage": cov, "assumptions": list(assumptions) + self.assumptions,
              "wall_s": round(time.time() - self.t0, 2), "violations": reported}
        if self.notes:
            ev["coverage"]["notes"] = self.notes
        evdir = os.path.join(ROOT, "evidence")
        if REPO != "/repo" or os.environ.get("VERIF_DEV_SKIP_PROOFS"):
            # runs against a scratch tree (seeded changes) or development runs never touch the committed evidence
            evdir = os.path.join(BUILD, "scratch_evidence")
            os.makedirs(evdir, exist_ok=True)
        with open(os.path.join(evdir, self.pid + ".json"), "w") as f:
            json.dump(ev, f, indent=1, default=str)
        log("%s %s: %s in %.1fs (evaluations=%s)" % (self.pid, self.tier, "VIOLATIONS=%d" % reported if reported else "ok",
                                                      time.time() - self.t0, cov.get("evaluations")))
        sys.exit(1 if reported else 0)


def canon_hash(obj):
    return hashlib.sha256(json.dumps(obj, sort_keys=True).encode()).hexdigest()[:16]


# ------------------------------------------------------------------ generic sequential differential check

class SeqSpec:
    """Describe one sequential component for seq_differential()."""
    component = None            # runner component name
    imports = ""                # Coq imports for generated case files
    checkers = {}               # {"M": "check_M", "S": "check_S"}: Coq functions case -> bool
    preamble = ""

    def gen(self, rng, tier, scale):          # -> list of case dicts (without ids)
        raise NotImplementedError

    def coq_case(self, case, obs):            # -> Coq term for (ops, observations)
        raise NotImplementedError

    def oracle(self, case, obs):              # -> list of (signature, what) property violations on the impl
        return []

    def stats(self, case, obs, acc):          # accumulate distribution info into dict acc
        pass

    def nontrivial(self, case, obs):
        return len(case.get("ops", [])) >= 4

    def shrinkable(self):
        return True


def load_corpus(pid, sub=None):
    d = os.path.join(ROOT, "corpus", pid)
    res = []
    if os.path.isdir(d):
        for f in sorted(os.listdir(d)):
            if f.endswith(".json"):
                c = json.load(open(os.path.join(d, f)))
                if sub is None or c.get("component") == sub:
                    res.append(c)
    return res


def apply_ctx_zoo(spec, cases, rng):
    """Specs with ctx_zoo = True: two thirds of the generated scenarios get cfg["ctxseed"], which makes the harness
    create their contexts from the zoo (cancelled with a cause; a context type of its own ending with DeadlineExceeded;
    plain WithCancel) instead of WithCancel only. The models are indifferent to the kind of context."""
    if getattr(spec, "ctx_zoo", False):
        for c in cases:
            if rng.random() < 0.67:
                c.setdefault("cfg", {}).setdefault("ctxseed", rng.randrange(700))
    return cases


THOROUGH_ROUNDS = int(os.environ.get("VERIF_THOROUGH_ROUNDS", 8))


def _merge_acc(a, b):
    """Merge two distribution dicts: numbers add up (keys starting with max/min take the extreme), dicts recurse."""
    for k, v in b.items():
        if k not in a:
            a[k] = v
        elif isinstance(v, dict) and isinstance(a[k], dict):
            _merge_acc(a[k], v)
        elif isinstance(v, (int, float)) and isinstance(a[k], (int, float)) and not isinstance(v, bool):
            a[k] = max(a[k], v) if str(k).startswith("max") else min(a[k], v) if str(k).startswith("min") else a[k] + v
        elif isinstance(v, list) and isinstance(a[k], list):
            a[k] = (a[k] + v)[:50]
    return a


def seq_differential(ctx, spec, exe, proofs_ok, tag=None, scale=1.0):
    """Run the correspondence + oracle protocol for one component. The thorough tier generates its (much larger)
    case set in rounds, so that neither this process nor the coqc shards hold all of it at once."""
    tag = tag or spec.component
    rounds = THOROUGH_ROUNDS if ctx.tier == "thorough" and not getattr(spec, "single_round", False) else 1
    if rounds <= 1:
        part = _seq_differential_once(ctx, spec, exe, proofs_ok, tag, scale, True, procs=getattr(spec, "procs", 1))
        part.pop("_distinct", None)
        return part
    total, distinct = None, set()
    nviol = len(ctx.violations)
    for r in range(rounds):
        part = _seq_differential_once(ctx, spec, exe, proofs_ok, tag, scale / rounds, r == 0, procs=getattr(spec, "procs", 1))
        distinct |= part.pop("_distinct", set())
        if total is None:
            total = part
        else:
            for k in ("evaluations", "corpus_cases", "ops_total", "oracle_failures", "coq_eval_s"):
                if k in part:
                    total[k] = round(total.get(k, 0) + part[k], 1)
            _merge_acc(total.setdefault("model_disagreements", {}), part.get("model_disagreements", {}))
            _merge_acc(total.setdefault("distribution", {}), part.get("distribution", {}))
        known_sigs = {k.get("signature") for k in ctx.known if k.get("status", "known") == "known"}
        if sum(1 for v in ctx.violations[nviol:] if v["signature"].replace("~patience:", ":", 1) not in known_sigs):
            break           # (a recorded known finding does not end the exploration)
    total["distinct_nontrivial"] = len(distinct)
    total["rounds"] = r + 1
    ctx.coverage["parts"][tag] = total
    return total


def _seq_differential_once(ctx, spec, exe, proofs_ok, tag, scale, with_corpus, env=None, procs=1, limit=None, gen_tier=None,
                           ctag=None, cases_override=None):
    """tag: name of the coverage part and prefix of violation signatures; ctag: corpus directory (default tag)."""
    part = {}
    ctx.coverage.setdefault("parts", {})[tag] = part
    corpus = [dict(c) for c in load_corpus(ctx.pid, ctag or tag)] if with_corpus else []
    cases = corpus + (cases_override if cases_override is not None else apply_ctx_zoo(spec, spec.gen(ctx.rng, gen_tier or ctx.tier, scale), ctx.rng))
    if limit is not None:
        cases = cases[:limit]
    for i, c in enumerate(cases):
        c["id"] = i
    obs, err = run_runner(exe, spec.component, cases, env=env, procs=procs, timeout=600 if env is None else 3000)
    if err is not None or obs is None or len(obs) != len(cases):
        # a crash/hang of the implementation on a generated input: find the first case lacking an observation
        k = len(obs or [])
        bad = cases[k] if k < len(cases) else None
        ctx.violation("%s:runner-crash" % tag, "implementation run aborted (%s) at case %d" % (err, k),
                      {"component": spec.component, "case": bad, "error": err}, failing_input=bad is not None)
        part["evaluations"] = k
        return part
    obs_by_id = {o["id"]: o for o in obs}
    if hasattr(spec, "post_run"):
        spec.post_run(cases, obs_by_id)
    # direct oracle on the implementation
    oracle_fail = {}
    acc = {}
    distinct = set()
    for c in cases:
        o = obs_by_id[c["id"]]
        spec.stats(c, o, acc)
        if spec.nontrivial(c, o):
            distinct.add(canon_hash([c.get("ops"), c.get("cfg")]))
        r = spec.oracle(c, o)
        if r:
            oracle_fail[c["id"]] = r
    # correspondence: model evaluated inside Coq
    terms = [spec.coq_case(c, obs_by_id[c["id"]]) for c in cases] if spec.checkers else []
    corr_fail = {}
    t = time.time()
    if spec.checkers:
        corr_fail, cerr = eval_failing_multi(spec.imports, terms, spec.checkers, "%s_%s" % (ctx.pid, tag), preamble=spec.preamble,
                                             timeout=(900 if ctx.tier == "thorough" else None),
                                             case_type=getattr(spec, "case_type", None))
    else:
        corr_fail, cerr = {}, None
    if cerr:
        ctx.violation("%s:model-eval-error" % tag, "Coq evaluation of the model failed: " + cerr[:1500],
                      {"component": spec.component, "error": cerr}, failing_input=False)
    part["coq_eval_s"] = round(time.time() - t, 1)
    ninc = sum(1 for nm, _ in INCONCLUSIVE if nm == "%s_%s" % (ctx.pid, tag))
    if ninc:
        part["model_eval_inconclusive_timeouts"] = ninc
        ctx.notes.append("%s: the model evaluation of %d case(s) exceeded the time limit (inconclusive; the direct oracle judged them)" % (tag, ninc))

    def rerun(ops_case):
        cc = dict(ops_case)
        cc["id"] = 0
        ob, e = run_runner(exe, spec.component, [cc], timeout=120 if env is None else 900, env=env)
        if e or not ob:
            return None
        return ob[0]

    # 1. oracle failures: genuine failing inputs
    reported_sigs = set()
    for cid, fails in sorted(oracle_fail.items()):
        sig, what = fails[0]
        if sig in reported_sigs:
            continue
        reported_sigs.add(sig)
        case = cases[cid]
        small = case
        if spec.shrinkable() and env is None and len(case.get("ops", [])) > 1:      # (no shrinking in patience mode: seconds per run)
            def still(ops, case=case, sig=sig):
                cc = dict(case, ops=ops)
                ob = rerun(cc)
                return ob is not None and any(s == sig for s, _ in spec.oracle(cc, ob))
            try:
                small = dict(case, ops=ddmin(list(case["ops"]), still))
            except Exception as e:  # shrinking is best effort
                log("shrink failed:", e)
        ob = rerun(small) or obs_by_id[cid]
        ctx.violation("%s:%s" % (tag, sig), what,
                      {"component": spec.component, "case": small, "impl_observations": ob.get("obs"),
                       "coq_case": spec.coq_case(small, ob), "how": "build/runner %s < case ; oracle in props" % spec.component})
    # 2. correspondence broken without an oracle failure on that case
    for cname, failing in corr_fail.items():
        only = [i for i in failing if i not in oracle_fail]
        if not only or cname in getattr(spec, "informational", ()):
            continue
        cid = only[0]
        case = cases[cid]
        small = case
        if spec.shrinkable() and env is None and len(case.get("ops", [])) > 1:      # (no shrinking in patience mode: seconds per run)
            budget = [30]

            def still_m(ops, case=case, cname=cname):
                if budget[0] <= 0:
                    return False
                budget[0] -= 1
                cc = dict(case, ops=ops)
                ob = rerun(cc)
                if ob is None:
                    return False
                f, e = eval_failing(spec.imports, [spec.coq_case(cc, ob)], spec.checkers[cname], "%s_shr" % ctx.pid, preamble=spec.preamble)
                return bool(f)
            try:
                small = dict(case, ops=ddmin(list(case["ops"]), still_m, max_rounds=12))
            except Exception as e:
                log("shrink failed:", e)
        ob = rerun(small) or obs_by_id[cid]
        # failing-input search: the oracle already ran on every case of this run and found nothing for this case;
        # escalate with fresh cases (oracle only, cheap) before giving up
        found = None
        erng = random.Random(ctx.seed + 7919)
        extra = apply_ctx_zoo(spec, spec.gen(erng, gen_tier or ctx.tier, scale * 4), erng)
        for i, c in enumerate(extra):
            c["id"] = i
        # (a run with a special environment, e.g. patience mode, takes seconds per scenario: the search then runs the
        # fresh cases in the normal mode only)
        eobs, eerr = run_runner(exe, spec.component, extra, procs=max(procs, 1))
        if eobs and not eerr:
            if hasattr(spec, "post_run"):
                spec.post_run(extra, {o["id"]: o for o in eobs})
            for c, o in zip(extra, eobs):
                r = spec.oracle(c, o)
                if r:
                    found = (c, o, r[0])
                    break
        if found:
            c, o, (sig, what) = found
            ctx.violation("%s:%s" % (tag, sig), what + " (found by escalated search after model/implementation disagreement)",
                          {"component": spec.component, "case": c, "impl_observations": o.get("obs")})
        else:
            ctx.violation("%s:correspondence-%s" % (tag, cname),
                          "model layer %s and implementation disagree on a case; no input violating the property's oracle was found" % cname,
                          {"component": spec.component, "correspondence": "%s (Coq: %s)" % (cname, spec.checkers[cname]),
                           "case": small, "impl_observations": ob.get("obs"), "coq_case": spec.coq_case(small, ob),
                           "n_disagreeing_cases": len(only)}, failing_input=False)
    part.update({
        "evaluations": len(cases),
        "corpus_cases": len(corpus),
        "distinct_nontrivial": len(distinct),
        "_distinct": distinct,
        "ops_total": sum(len(c.get("ops", [])) for c in cases),
        "model_disagreements": {k: len(v) for k, v in corr_fail.items()},
        "oracle_failures": len(oracle_fail),
        "distribution": acc,
        "sample": {"case": cases[len(corpus)] if len(cases) > len(corpus) else cases[0],
                   "impl_observations": obs_by_id[cases[len(corpus)]["id"] if len(cases) > len(corpus) else 0].get("obs")},
    })
    return part


PATIENCE_MS = int(os.environ.get("VERIF_PATIENCE", 5500))


def _pending_groups(obs):
    """The sets of API calls in flight (called, not yet returned) at the quiescence points of a recorded history."""
    pend, groups = {}, set()
    for e in obs.get("obs", []):
        if not (isinstance(e, list) and e and isinstance(e[0], str)):
            continue
        n = e[0]
        if n == "call" or n.startswith("call-"):
            k = n.split("-", 1)[1] if "-" in n else ""
            pend[k] = pend.get(k, 0) + 1
        elif n == "ret" or n.startswith("ret-"):
            k = n.split("-", 1)[1] if "-" in n else ""
            if pend.get(k, 0) > 0:
                pend[k] -= 1
        elif n == "quiesce":
            g = frozenset(k for k, v in pend.items() if v > 0)
            if g:
                groups.add(g)
    return groups


def patience_part(ctx, spec, exe, proofs_ok, tag=None, ncases=32, ms=None):
    """Concurrent components, thorough tier (and the search after a broken obligation): some scenarios are run once more
    with the harness in patience mode - at every quiescence point it waits `ms` and requires that nothing moved. A
    call that gives up, reports an end or stops waiting for its workers after some seconds by itself (a hidden timer)
    produces events the model has no transition for, i.e. a concrete history to report. The scenarios are chosen from a
    quick-size set after a normal run of it: those in which API calls are parked at quiescence points, spread over the
    different sets of parked calls."""
    tag = tag or spec.component
    ms = ms or PATIENCE_MS
    rng = random.Random(ctx.seed * 31 + 5)
    cand = apply_ctx_zoo(spec, spec.gen(rng, "quick", 1.0), rng)
    for i, c in enumerate(cand):
        c["id"] = i
    obs, err = run_runner(exe, spec.component, cand, procs=NPROC)
    by_group = {}
    for o in (obs or []):
        for g in _pending_groups(o):
            by_group.setdefault(g, []).append(o["id"])
    chosen, seen = [], set()
    lists = [by_group[g] for g in sorted(by_group, key=lambda g: sorted(g))]
    for l in lists:
        rng.shuffle(l)
    while len(chosen) < ncases and any(lists):
        for l in lists:
            while l:
                i = l.pop()
                if i not in seen:
                    seen.add(i)
                    chosen.append(dict(cand[i]))
                    break
            if len(chosen) >= ncases:
                break
    if not chosen:
        chosen = [dict(c) for c in cand[:ncases]]
    env = dict(os.environ, VERIF_PATIENCE_MS=str(ms))
    ptag = tag + "~patience"
    part = _seq_differential_once(ctx, spec, exe, proofs_ok, ptag, 1.0, False, env=env, procs=NPROC, cases_override=chosen)
    part.pop("_distinct", None)
    part["patience_ms"] = ms
    part["parked_call_sets_covered"] = sorted("+".join(sorted(g)) for g in by_group)
    return part


def merge_parts(ctx, rule):
    """Fill the generic coverage keys from the parts."""
    parts = ctx.coverage.get("parts", {})
    ctx.coverage["evaluations"] = sum(p.get("evaluations", 0) for p in parts.values())
    ctx.coverage["distinct_nontrivial"] = sum(p.get("distinct_nontrivial", 0) for p in parts.values())
    ctx.coverage["traces_validated_against_impl"] = ctx.coverage["evaluations"]
    ctx.coverage["rule"] = rule
    samples = []
    for k, p in parts.items():
        s = p.pop("sample", None)
        if s is not None:
            s = json.loads(json.dumps(s))
            if isinstance(s.get("case", {}).get("ops"), list) and len(s["case"]["ops"]) > 40:
                s["case"]["ops"] = s["case"]["ops"][:40] + ["... (%d ops)" % len(s["case"]["ops"])]
                if isinstance(s.get("impl_observations"), list):
                    s["impl_observations"] = s["impl_observations"][:40]
            samples.append({"part": k, **s})
    ctx.coverage["samples"] = samples


def handle_broken_proof(ctx, deep=None):
    """Called after the differential parts ran: if the proof build broke and no failing input
    was found by the oracles, report the broken obligation itself. deep: an optional, more expensive search
    (patience mode, thorough-size storms ...) run only in that situation, before giving up on finding an input."""
    if ctx.proof_broken and deep is not None and not any(v["failing_input"] for v in ctx.violations):
        log("proof obligation broken (%s): searching deeper for a failing input" % ctx.proof_broken[:200])
        try:
            deep()
        except Exception as e:      # the search is best effort
            ctx.notes.append("deep search failed: %r" % (e,))
    if ctx.proof_broken and not any(v["failing_input"] for v in ctx.violations):
        ctx.violation("proof-obligation", "a proof obligation of %s no longer checks: %s" % (ctx.pid, ctx.proof_broken),
                      {"theorem_or_obligation": ctx.proof_broken,
                       "note": "the property is no longer shown to hold; the oracles found no failing input on this run"},
                      failing_input=False)
    elif ctx.proof_broken:
        ctx.notes.append("proof obligation broken: " + ctx.proof_broken)


# ------------------------------------------------------------------ replay

def generic_replay(ctx, mod, path):
    """./check Cxx --replay replays/Cxx-....json : re-run the stored case on the current tree, re-evaluate the
    oracle and the model, print what happens. Exit 1 if the violation reproduces."""
    body = json.load(open(path if os.path.isabs(path) else os.path.join(ROOT, path)))
    rep = body.get("replay", {})
    sig = body.get("signature", "")
    tag_full = sig.split(":", 1)[0]
    tag = tag_full.split("~")[0]
    renv = dict(os.environ, VERIF_PATIENCE_MS=str(PATIENCE_MS)) if tag_full.endswith("~patience") else None
    specs = getattr(mod, "SPECS", {})
    print("replaying %s (%s)" % (path, sig))
    if "case" not in rep or rep["case"] is None or tag not in specs:
        print("this replay names a proof obligation / correspondence rather than an input:")
        print(json.dumps(rep, indent=1)[:3000])
        ctx.check_proofs(getattr(mod, "PROP_FILES", []))
        print("proof obligations now: %s/%s discharged%s" % (ctx.coverage.get("discharged"), ctx.coverage.get("obligations"),
                                                            ("; broken: " + ctx.proof_broken) if ctx.proof_broken else ""))
        sys.exit(1 if ctx.proof_broken else 0)
    spec, module, exe_name = specs[tag]
    ok, out, exe = build_runner(module=module, exe_name=exe_name)
    if not ok:
        print("harness does not build:\n" + out[-2000:])
        sys.exit(1)
    case = dict(rep["case"], id=0)
    obs, err = run_runner(exe, spec.component, [case], timeout=300 if renv is None else 1800, env=renv)
    if err or not obs:
        print("implementation run failed: %s" % err)
        sys.exit(1)
    print("implementation observations now: " + json.dumps(obs[0].get("obs"))[:4000])
    if hasattr(spec, "post_run"):
        spec.post_run([case], {0: obs[0]})
    fails = spec.oracle(case, obs[0])
    for s_, what in fails:
        print("ORACLE FAILS: %s: %s" % (s_, what))
    if spec.checkers:
        failing, cerr = eval_failing_multi(spec.imports, [spec.coq_case(case, obs[0])], spec.checkers, "replay_%s" % ctx.pid, preamble=spec.preamble)
        print("model agreement: " + ", ".join("%s=%s" % (k, "DISAGREES" if v else "agrees") for k, v in failing.items()) + ((" error: " + cerr[:500]) if cerr else ""))
    else:
        failing = {}
        print("model agreement: n/a (this part of the check has an oracle only)")
    bad = bool(fails) or any(v for k, v in failing.items() if k not in getattr(spec, "informational", ()))
    print("violation reproduces" if bad else "violation does not reproduce on the current tree")
    sys.exit(1 if bad else 0)
