// Harness runner for C20 (xtime.SleepContext, xtime.JitterTicker). A separate module from
// ../harness so that it cannot break the main harness.
//
// Reads JSON cases {"id": n, "cfg": {...}, "ops": [[step, args...], ...]} from stdin, runs every
// case against the REAL xtime package (cases are independent and run on a small worker pool:
// the scenarios take real time) and prints one JSON observation record per case, in input order:
// {"id": n, "obs": [[event, args..., t_ns], ...], "aux": {...}}.
//
// All times are nanoseconds on the process's monotonic clock relative to the scenario's start.
// Nothing here asserts an upper bound on any latency; the checks (props/xtime_common.py and the
// Coq matcher) are one-sided.
package main

import (
	"bufio"
	"encoding/json"
	"fmt"
	"os"
	"runtime"
	"sync"
)

type Case struct {
	ID  int            `json:"id"`
	Ops [][]any        `json:"ops"`
	Cfg map[string]any `json:"cfg,omitempty"`
}

type Obs struct {
	ID  int            `json:"id"`
	Obs [][]any        `json:"obs"`
	Aux map[string]any `json:"aux,omitempty"`
}

func num(a any) int64 {
	switch v := a.(type) {
	case json.Number:
		n, err := v.Int64()
		if err != nil {
			panic(fmt.Sprintf("harness: not an int64: %v", v))
		}
		return n
	case float64:
		return int64(v)
	case int:
		return int64(v)
	case int64:
		return v
	}
	panic(fmt.Sprintf("harness: not a number: %v", a))
}

func str(a any) string {
	s, ok := a.(string)
	if !ok {
		panic(fmt.Sprintf("harness: not a string: %v", a))
	}
	return s
}

// protect runs f and reports whether it panicked (and with what).
func protect(f func()) (panicked bool, val any) {
	defer func() {
		if r := recover(); r != nil {
			panicked = true
			val = r
		}
	}()
	f()
	return false, nil
}

var components = map[string]func(c *Case) *Obs{}

func main() {
	if len(os.Args) < 2 {
		fmt.Fprintln(os.Stderr, "usage: runner-xtime <component> < cases.jsonl > obs.jsonl")
		os.Exit(2)
	}
	run, ok := components[os.Args[1]]
	if !ok {
		fmt.Fprintln(os.Stderr, "unknown component", os.Args[1])
		os.Exit(2)
	}
	in := bufio.NewReaderSize(os.Stdin, 1<<20)
	dec := json.NewDecoder(in)
	dec.UseNumber()
	var cases []*Case
	for dec.More() {
		c := new(Case)
		if err := dec.Decode(c); err != nil {
			fmt.Fprintln(os.Stderr, "decode:", err)
			os.Exit(2)
		}
		cases = append(cases, c)
	}
	results := make([]*Obs, len(cases))
	workers := runtime.NumCPU()
	if workers > 8 {
		workers = 8
	}
	if workers < 2 {
		workers = 2
	}
	if v := os.Getenv("VERIF_XTIME_WORKERS"); v != "" {
		fmt.Sscanf(v, "%d", &workers)
	}
	var wg sync.WaitGroup
	next := make(chan int)
	for w := 0; w < workers; w++ {
		wg.Add(1)
		go func() {
			defer wg.Done()
			for i := range next {
				o := run(cases[i])
				o.ID = cases[i].ID
				results[i] = o
			}
		}()
	}
	for i := range cases {
		next <- i
	}
	close(next)
	wg.Wait()
	out := bufio.NewWriterSize(os.Stdout, 1<<20)
	defer out.Flush()
	enc := json.NewEncoder(out)
	for _, o := range results {
		if err := enc.Encode(o); err != nil {
			fmt.Fprintln(os.Stderr, "encode:", err)
			os.Exit(2)
		}
	}
}
