package main

// Event log with timestamps for the timed scenarios of C20 (derived from ../harness/conc.go:
// the structural quiescence detector is not used here — a pending timer is never quiescent and the
// cases run concurrently — the log takes the timestamp under its own mutex instead, so that log
// order and timestamp order agree).

import (
	"sync"
	"time"
)

// tlog is the recorded history of one scenario. Invocations are logged before the call,
// responses after it returned, so log order is consistent with real-time order; every event
// carries the monotonic time (ns since the scenario's start) at which it was logged.
type tlog struct {
	mu  sync.Mutex
	t0  time.Time
	evs [][]any
}

func newTlog() *tlog { return &tlog{t0: time.Now()} }

func (h *tlog) since(t time.Time) int64 { return int64(t.Sub(h.t0)) }

// add appends ev with the current time as its last element and returns that time.
func (h *tlog) add(ev ...any) int64 {
	h.mu.Lock()
	t := int64(time.Since(h.t0))
	h.evs = append(h.evs, append(ev, t))
	h.mu.Unlock()
	return t
}

func (h *tlog) snapshot() [][]any {
	h.mu.Lock()
	defer h.mu.Unlock()
	out := make([][]any, len(h.evs))
	copy(out, h.evs)
	return out
}
