package main

// C20: scenarios for xtime.SleepContext ("sleep") and xtime.JitterTicker ("ticker").

import (
	"context"
	"errors"
	"fmt"
	"math"
	"runtime"
	"sync"
	"sync/atomic"
	"time"

	"github.com/bradenaw/juniper/xtime"
)

func init() {
	components["sleep"] = runSleep
	components["ticker"] = runTicker
}

const hangTimeout = 4 * time.Second

// ------------------------------------------------------------------ SleepContext
//
// ops: ["ctx", "none"] | ["ctx", "deadline", rel_ns]   create the context (deadline = now + rel)
//      ["cancel"]                                      cancel it (before the call: already cancelled;
//                                                      after: mid-sleep)
//      ["call", d_ns]                                  start SleepContext(ctx, d) in its own goroutine
//      ["pause", ns]                                   the controller sleeps
//      ["join"]                                        wait for the call to return
// events: ["ctx", kind, deadline_abs|null, t] ["cancel", t] ["call", d, t] ["ret", kind, t]
//         kind = nil | toosoon | canceled | deadline | other:<text>

func errKind(err error) string {
	if err == nil {
		return "nil"
	}
	var ts xtime.DeadlineTooSoonError
	if errors.As(err, &ts) {
		return "toosoon"
	}
	if err == context.Canceled {
		return "canceled"
	}
	if err == context.DeadlineExceeded {
		return "deadline"
	}
	return "other:" + err.Error()
}

// hugeNum: durations beyond what a JSON number carries exactly travel by name.
func hugeNum(a any) int64 {
	if name, ok := a.(string); ok {
		return map[string]int64{"maxint": math.MaxInt64, "maxint-1": math.MaxInt64 - 1, "2^62": 1 << 62, "zero": 0}[name]
	}
	return int64(num(a))
}

func runSleep(c *Case) *Obs {
	h := newTlog()
	aux := map[string]any{}
	var ctx context.Context
	var cancel context.CancelFunc
	var cancel2 context.CancelFunc
	var done chan struct{}
	for _, op := range c.Ops {
		switch str(op[0]) {
		case "ctx":
			if ctx != nil {
				continue
			}
			if last, _ := op[len(op)-1].(string); last == "cause" {
				// cancelled with a cause: ctx.Err() stays context.Canceled, which is what SleepContext must return
				c2, cc := context.WithCancelCause(context.Background())
				ctx, cancel = c2, func() { cc(errors.New("verif: the cause the context was cancelled with")) }
			} else {
				ctx, cancel = context.WithCancel(context.Background())
			}
			if str(op[1]) == "deadline" {
				dl := time.Now().Add(time.Duration(hugeNum(op[2])))
				if z, _ := op[2].(string); z == "zero" {
					dl = time.Time{} // a deadline further in the past than a Duration can express
				}
				ctx, cancel2 = context.WithDeadline(ctx, dl)
				h.add("ctx", "deadline", h.since(dl))
			} else {
				h.add("ctx", "none", nil)
			}
		case "cancel":
			if cancel != nil {
				h.add("cancel")
				cancel()
			}
		case "call":
			if ctx == nil || done != nil {
				continue
			}
			d := time.Duration(hugeNum(op[1]))
			done = make(chan struct{})
			go func(ctx context.Context, done chan struct{}) {
				h.add("call", int64(d))
				err := xtime.SleepContext(ctx, d)
				h.add("ret", errKind(err))
				close(done)
			}(ctx, done)
		case "pause":
			time.Sleep(time.Duration(num(op[1])))
		case "join":
			if done == nil {
				continue
			}
			select {
			case <-done:
			case <-time.After(hangTimeout):
				aux["hung"] = true
			}
		}
	}
	// a scenario without an explicit join (e.g. after shrinking) still waits for its call before the clean-up,
	// so that the clean-up cancel can never be mistaken for an unexplained context error
	if done != nil {
		select {
		case <-done:
		case <-time.After(hangTimeout):
			aux["hung"] = true
		}
	}
	// clean up: end the context, wait for the call
	if cancel != nil {
		cancel()
	}
	if cancel2 != nil {
		cancel2()
	}
	if done != nil {
		select {
		case <-done:
		case <-time.After(hangTimeout):
			aux["leaked"] = true
		}
	}
	evs := h.snapshot()
	if _, hung := aux["hung"]; hung {
		// events logged after the clean-up cancel are not part of the scenario
		aux["inconclusive"] = true
	}
	return &Obs{Obs: evs, Aux: aux}
}

// ------------------------------------------------------------------ JitterTicker
//
// Goroutine 0 is the controller; goroutines 1..n are workers that execute the calls dispatched to
// them (asynchronously, in order). A receiver goroutine drains C for the whole scenario and logs the
// VALUES it receives (the time.Now() read inside the ticker's callback).
//
// ops: ["new", d, j]                 controller: NewJitterTicker(d, j)
//      ["reset", th, d, j]           goroutine th: Reset(d, j)      (th = 0: synchronously)
//      ["stop", th]                  goroutine th: Stop()
//      ["pause", ns]                 controller sleeps
//      ["aftertick", offset_ns]      controller waits for the next tick and then until tick + offset
//      ["join"]                      controller waits for all dispatched calls
//      ["hold"] / ["go"]             calls dispatched to workers after "hold" start together at "go"
// events: ["call", th, op, d, j, t] ["ret", th, op, d, j, "ok"|"panic", t] ["recv", v, t]

type tickerScn struct {
	h       *tlog
	tk      *xtime.JitterTicker
	aux     map[string]any
	hung    atomic.Bool
	pending sync.WaitGroup
	jobs    map[int]chan func()
	nticks  atomic.Int64
	last    atomic.Int64 // value of the last tick received
	done    chan struct{}
	rdone   chan struct{}
	mu      sync.Mutex
	lastOp  atomic.Value // name of the last call that returned
	gate    *atomic.Bool // non-nil between "hold" and "go": dispatched worker calls spin on it
}

func (s *tickerScn) note(k string, v any) {
	s.mu.Lock()
	s.aux[k] = v
	s.mu.Unlock()
}

// call logs and performs one API call on goroutine th (the caller is that goroutine).
func (s *tickerScn) call(th int, op string, d, j int64, f func()) {
	s.h.add("call", th, op, d, j)
	panicked, val := protect(f)
	s.lastOp.Store(op)
	if panicked {
		s.h.add("ret", th, op, d, j, "panic")
		s.note(fmt.Sprintf("panic:%s:%d:%d", op, d, j), fmt.Sprint(val))
	} else {
		s.h.add("ret", th, op, d, j, "ok")
	}
}

// dispatch runs the call on goroutine th: the controller waits for its own calls, workers run theirs
// asynchronously in dispatch order. A call that does not return within hangTimeout marks the run hung.
func (s *tickerScn) dispatch(th int, op string, d, j int64, f func()) {
	if s.hung.Load() {
		return
	}
	if th == 0 {
		fin := make(chan struct{})
		go func() {
			s.call(0, op, d, j, f)
			close(fin)
		}()
		select {
		case <-fin:
		case <-time.After(hangTimeout):
			s.hung.Store(true)
		}
		return
	}
	ch, ok := s.jobs[th]
	if !ok {
		ch = make(chan func(), 64)
		s.jobs[th] = ch
		go func() {
			for job := range ch {
				job()
			}
		}()
	}
	s.pending.Add(1)
	gate := s.gate
	ch <- func() {
		defer s.pending.Done()
		if gate != nil {
			for n := 0; !gate.Load(); n++ { // spin: the calls should start within nanoseconds of each other
				if n%64 == 63 {
					runtime.Gosched()
				}
			}
		}
		s.call(th, op, d, j, f)
	}
}

func (s *tickerScn) join() {
	fin := make(chan struct{})
	go func() {
		s.pending.Wait()
		close(fin)
	}()
	select {
	case <-fin:
	case <-time.After(hangTimeout):
		s.hung.Store(true)
	}
}

func (s *tickerScn) receiver() {
	defer close(s.rdone)
	for {
		select {
		case v := <-s.tk.C:
			ts := s.h.since(v)
			s.h.add("recv", ts)
			s.last.Store(ts)
			s.nticks.Add(1)
		case <-s.done:
			return
		}
	}
}

// waitUntil returns once the scenario clock has reached t (ns): coarse sleep, then spin.
func (s *tickerScn) waitUntil(t int64) {
	for {
		now := int64(time.Since(s.h.t0))
		if now >= t {
			return
		}
		if t-now > int64(2*time.Millisecond) {
			time.Sleep(time.Duration(t - now - int64(1500*time.Microsecond)))
		} else {
			runtime.Gosched()
		}
	}
}

func runTicker(c *Case) *Obs {
	s := &tickerScn{h: newTlog(), aux: map[string]any{}, jobs: map[int]chan func(){}, done: make(chan struct{}), rdone: make(chan struct{})}
	for _, op := range c.Ops {
		if s.hung.Load() {
			break
		}
		switch str(op[0]) {
		case "new":
			if s.tk != nil {
				continue
			}
			d, j := num(op[1]), num(op[2])
			s.dispatch(0, "new", d, j, func() { s.tk = xtime.NewJitterTicker(time.Duration(d), time.Duration(j)) })
			if s.tk != nil {
				go s.receiver()
			}
		case "reset":
			if s.tk == nil {
				continue
			}
			th, d, j := int(num(op[1])), num(op[2]), num(op[3])
			s.dispatch(th, "reset", d, j, func() { s.tk.Reset(time.Duration(d), time.Duration(j)) })
		case "stop":
			if s.tk == nil {
				continue
			}
			th := int(num(op[1]))
			s.dispatch(th, "stop", 0, 0, func() { s.tk.Stop() })
		case "pause":
			time.Sleep(time.Duration(num(op[1])))
		case "aftertick":
			if s.tk == nil {
				continue
			}
			n0 := s.nticks.Load()
			limit := time.Now().Add(300 * time.Millisecond)
			for s.nticks.Load() == n0 && time.Now().Before(limit) {
				time.Sleep(50 * time.Microsecond)
			}
			if s.nticks.Load() != n0 {
				s.waitUntil(s.last.Load() + num(op[1]))
			}
		case "hold":
			if s.gate == nil {
				s.gate = new(atomic.Bool)
			}
		case "go":
			if s.gate != nil {
				s.gate.Store(true)
				s.gate = nil
			}
		case "join":
			if s.gate != nil {
				s.gate.Store(true)
				s.gate = nil
			}
			s.join()
		}
	}
	if s.gate != nil {
		s.gate.Store(true)
		s.gate = nil
	}
	s.join()
	// clean up: stop the receiver, stop the ticker (best effort: the mutex may be held forever after a panic)
	if s.tk != nil {
		close(s.done)
		<-s.rdone
		if last, _ := s.lastOp.Load().(string); last != "stop" {
			fin := make(chan struct{})
			go func() {
				protect(func() { s.tk.Stop() })
				close(fin)
			}()
			select {
			case <-fin:
			case <-time.After(200 * time.Millisecond):
				s.note("cleanup_stop_blocked", true)
			}
		}
	}
	for _, ch := range s.jobs {
		close(ch)
	}
	if s.hung.Load() {
		s.note("hung", true)
	}
	return &Obs{Obs: s.h.snapshot(), Aux: s.aux}
}
