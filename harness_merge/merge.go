package main

// C12: chans.Merge / chans.Replicate ("chans" component) and stream.Merge ("smerge" component).
//
// A sequential controller executes the scenario's steps. Producers, consumers and scripted sources
// run in their own goroutines and only move when the controller gave them something to do, so all
// non-determinism between two quiescence points comes from the Go scheduler.

import (
	"bytes"
	"context"
	"errors"
	"fmt"
	"runtime"
	"sync"
	"sync/atomic"
	"time"

	"github.com/bradenaw/juniper/chans"
	"github.com/bradenaw/juniper/stream"
)

func init() {
	components["chans"] = runChans
	components["smerge"] = runSMerge
}

// ---------------------------------------------------------------- goroutine inspection

func allStacks() []byte {
	buf := make([]byte, 1<<20)
	for {
		n := runtime.Stack(buf, true)
		if n < len(buf) {
			return buf[:n]
		}
		buf = make([]byte, 2*len(buf))
	}
}

// countGoroutines returns the number of goroutines whose stack mentions one of the markers, and how
// many of those are not in a blocked state.
func countGoroutines(markers ...string) (total int, busy int) {
	st := allStacks()
	for _, g := range bytes.Split(st, []byte("\n\n")) {
		hit := false
		for _, m := range markers {
			if bytes.Contains(g, []byte(m)) {
				hit = true
			}
		}
		if !hit {
			continue
		}
		total++
		m := goroutineHeader.FindSubmatch(g)
		if m == nil || !blockedStates[string(bytes.TrimSpace(m[2]))] {
			busy++
		}
	}
	return
}

// quiesceOrBusy is quiesce plus a diagnosis: when quiescence is not reached it reports whether a
// goroutine running library code (markers) was found not blocked in every sample taken while the log
// was stable - a busy loop, as opposed to a slow machine.
func quiesceOrBusy(h *hlog, maxWait time.Duration, markers ...string) (ok bool, spinning bool) {
	deadline := time.Now().Add(maxWait)
	stable := 0
	last := -1
	samples, busySamples := 0, 0
	for time.Now().Before(deadline) {
		runtime.Gosched()
		n := h.len()
		if allBlocked() && n == last {
			stable++
			if stable >= 2 {
				if quiescePatience > 0 {
					time.Sleep(quiescePatience)
					if !(allBlocked() && h.len() == n) {
						stable = 0
						last = h.len()
						continue
					}
				}
				return true, false
			}
		} else {
			stable = 0
		}
		if n == last {
			samples++
			if _, b := countGoroutines(markers...); b > 0 {
				busySamples++
			}
			if samples >= 3000 && busySamples*10 >= samples*9 {
				return false, true // a busy loop: no point in waiting out the full limit
			}
		} else {
			samples, busySamples = 0, 0
		}
		last = n
		time.Sleep(200 * time.Microsecond)
	}
	return false, samples >= 1000 && busySamples*10 >= samples*9
}

// poisoned is set once a scenario left a goroutine spinning: it cannot be stopped, quiescence can never be
// observed again in this process, so the remaining cases are reported as not run (inconclusive).
var poisoned bool

func skippedObs() *Obs {
	return &Obs{Obs: []any{}, Aux: map[string]any{"quiescent": false, "skipped": true}}
}

// ---------------------------------------------------------------- chans.Merge / chans.Replicate

type chCmd struct {
	close bool
	v     int
}

// cfg: kind "merge"|"replicate", nin, nout, caps (one per channel: inputs first, then outputs)
// ops: ["start"] ["send",k,v] ["close",k] ["permit",j,n] ["quiesce"]
func runChans(c *Case) *Obs {
	if poisoned {
		return skippedObs()
	}
	h := &hlog{}
	kind := c.Cfg["kind"].(string)
	nin, nout := num(c.Cfg["nin"]), num(c.Cfg["nout"])
	caps := c.Cfg["caps"].([]any)
	chs := make([]chan int, nin+nout)
	for i := range chs {
		chs[i] = make(chan int, num(caps[i]))
	}
	kill := make(chan struct{})
	var helpers sync.WaitGroup
	cmdq := make([]chan chCmd, nin)
	closedByProducer := make([]int32, nin)
	for k := 0; k < nin; k++ {
		k := k
		cmdq[k] = make(chan chCmd, 1<<12)
		helpers.Add(1)
		go func() { // producer k
			defer helpers.Done()
			for {
				var cmd chCmd
				select {
				case cmd = <-cmdq[k]:
				case <-kill:
					return
				}
				if cmd.close {
					atomic.StoreInt32(&closedByProducer[k], 1)
					close(chs[k])
					h.add("closed", k)
				} else {
					select {
					case chs[k] <- cmd.v:
						h.add("sent", k, cmd.v)
					case <-kill:
						return
					}
				}
			}
		}()
	}
	permitq := make([]chan struct{}, nout)
	for j := 0; j < nout; j++ {
		j := j
		permitq[j] = make(chan struct{}, 1<<12)
		helpers.Add(1)
		go func() { // consumer j
			defer helpers.Done()
			for {
				select {
				case <-permitq[j]:
				case <-kill:
					return
				}
				select {
				case v, ok := <-chs[nin+j]:
					if !ok {
						h.add("out-closed", j) // never: neither call closes its outputs
						return
					}
					h.add("recvd", j, v)
				case <-kill:
					return
				}
			}
		}()
	}
	var call sync.WaitGroup
	started := false
	quiet, spinning := true, false
	doQuiesce := func() {
		ok, spin := quiesceOrBusy(h, 5*time.Second, "juniper/chans.")
		quiet = quiet && ok
		spinning = spinning || spin
		h.add("quiesce", ok)
	}
	for _, op := range c.Ops {
		if spinning {
			break
		}
		switch op[0].(string) {
		case "start":
			if started {
				continue
			}
			started = true
			h.add("start")
			call.Add(1)
			go func() {
				defer call.Done()
				if kind == "merge" {
					ins := make([]<-chan int, nin)
					for k := range ins {
						ins[k] = chs[k]
					}
					chans.Merge(chs[nin], ins...)
				} else {
					dsts := make([]chan<- int, nout)
					for j := range dsts {
						dsts[j] = chs[nin+j]
					}
					chans.Replicate(chs[0], dsts...)
				}
				h.add("ret")
			}()
		case "send":
			k := num(op[1])
			if k < nin {
				h.add("cmd-send", k, num(op[2]))
				cmdq[k] <- chCmd{v: num(op[2])}
			}
		case "close":
			k := num(op[1])
			if k < nin {
				h.add("cmd-close", k)
				cmdq[k] <- chCmd{close: true}
			}
		case "permit":
			j, n := num(op[1]), num(op[2])
			if j < nout {
				h.add("permit", j, n)
				for i := 0; i < n; i++ {
					permitq[j] <- struct{}{}
				}
			}
		case "quiesce":
			doQuiesce()
		}
	}
	if !spinning {
		doQuiesce()
	}
	poisoned = poisoned || spinning
	evs := h.snapshot()
	// clean up: stop the helpers, then close what is still open and drain the outputs so that the call returns
	close(kill)
	helpers.Wait()
	for k := 0; k < nin; k++ {
		if atomic.LoadInt32(&closedByProducer[k]) == 0 {
			close(chs[k])
		}
	}
	stopDrain := make(chan struct{})
	var drainers sync.WaitGroup
	for j := 0; j < nout; j++ {
		j := j
		drainers.Add(1)
		go func() {
			defer drainers.Done()
			for {
				select {
				case <-chs[nin+j]:
				case <-stopDrain:
					return
				}
			}
		}()
	}
	done := make(chan struct{})
	go func() { call.Wait(); close(done) }()
	leaked := false
	select {
	case <-done:
	case <-time.After(3 * time.Second):
		leaked = true
	}
	close(stopDrain)
	drainers.Wait()
	o := &Obs{}
	for _, e := range evs {
		o.Obs = append(o.Obs, e)
	}
	o.Aux = map[string]any{"quiescent": quiet, "cleanup_leak": leaked, "spinning": spinning}
	return o
}

// ---------------------------------------------------------------- stream.Merge

type scriptErr struct{ code int }

func (e *scriptErr) Error() string { return fmt.Sprintf("scripted error %d", e.code) }

// Unwrap makes some scripted errors wrap a context error (errors.Is(err, context.Canceled) holds for them although
// they did not come from any context of the scenario): the library must report such an error like any other.
func (e *scriptErr) Unwrap() error {
	// by code: errors that wrap a context error, the library's own end sentinel or its closed-pipe error, and plain ones
	switch e.code % 5 {
	case 0:
		return context.Canceled
	case 1:
		return context.DeadlineExceeded
	case 3:
		return stream.End
	case 4:
		return stream.ErrClosedPipe
	}
	return nil
}

var errKilled = errors.New("harness: source killed during clean-up")

// gatedSource is a scripted input of stream.Merge. Every Next call needs one token from the controller
// (release); it returns the context's error as soon as the context is done (the assumption the
// property states about inputs).
type gatedSource struct {
	id     int
	h      *hlog
	items  []int
	fin    []any // ["end"] | ["err", code]
	tokens chan struct{}
	kill   chan struct{}
	inNext int32
	closes int32
	bad    *int32 // protocol violations by the library: overlapping Next, Next after Close
	// a Close that takes a while (cfg "slowclose_ms"); the event is logged when Close returns
	slowClose time.Duration
}

func (s *gatedSource) Next(ctx context.Context) (int, error) {
	if atomic.AddInt32(&s.inNext, 1) != 1 || atomic.LoadInt32(&s.closes) != 0 {
		atomic.AddInt32(s.bad, 1)
	}
	defer atomic.AddInt32(&s.inNext, -1)
	s.h.add("src-enter", s.id)
	select {
	case <-s.tokens:
	case <-ctx.Done():
		s.h.add("src-exit", s.id, []any{"ctx"})
		return 0, ctx.Err()
	case <-s.kill:
		return 0, errKilled
	}
	if len(s.items) > 0 {
		v := s.items[0]
		s.items = s.items[1:]
		s.h.add("src-exit", s.id, []any{"item", v})
		return v, nil
	}
	if s.fin[0].(string) == "err" {
		s.h.add("src-exit", s.id, []any{"err", num(s.fin[1])})
		return 0, &scriptErr{num(s.fin[1])}
	}
	s.h.add("src-exit", s.id, []any{"end"})
	return 0, stream.End
}

func (s *gatedSource) Close() {
	if atomic.LoadInt32(&s.inNext) != 0 {
		atomic.AddInt32(s.bad, 1)
	}
	atomic.AddInt32(&s.closes, 1)
	if s.slowClose > 0 {
		time.Sleep(s.slowClose)
	}
	s.h.add("src-close", s.id)
}

func resOf(v int, err error) []any {
	var se *scriptErr
	switch {
	case err == nil:
		return []any{"item", v}
	case err == stream.End:
		return []any{"end"}
	case errors.As(err, &se):
		return []any{"err", se.code}
	case isCtxErr(err):
		return []any{"ctx"}
	case err == stream.ErrClosedPipe:
		return []any{"closedpipe"}
	}
	return []any{"other", err.Error()}
}

// cfg: n, scripts ([[items...]...]), fins ([["end"]|["err",code]...]), prog ([["next",c]|["close"]...])
// ops: ["merge"] ["release",i,k] ["go",k] ["cancel",c] ["quiesce"]
func runSMerge(c *Case) *Obs {
	if poisoned {
		return skippedObs()
	}
	h := &hlog{}
	n := num(c.Cfg["n"])
	kill := make(chan struct{})
	var bad int32
	srcs := make([]*gatedSource, n)
	ins := make([]stream.Stream[int], n)
	for i := 0; i < n; i++ {
		items := []int{}
		for _, x := range c.Cfg["scripts"].([]any)[i].([]any) {
			items = append(items, num(x))
		}
		srcs[i] = &gatedSource{id: i, h: h, items: items, fin: c.Cfg["fins"].([]any)[i].([]any),
			tokens: make(chan struct{}, 1<<12), kill: kill, bad: &bad}
		if v, ok := c.Cfg["slowclose_ms"]; ok {
			srcs[i].slowClose = time.Duration(num(v)) * time.Millisecond
		}
		ins[i] = srcs[i]
	}
	prog := c.Cfg["prog"].([]any)
	ctxs := newCtxSet()
	var merged stream.Stream[int]
	var closeCalled int32
	goq := make(chan struct{}, 1<<12)
	var consumer sync.WaitGroup
	consumerPanic := atomic.Value{}
	startConsumer := func() {
		consumer.Add(1)
		go func() {
			defer consumer.Done()
			defer func() {
				if r := recover(); r != nil {
					consumerPanic.Store(fmt.Sprint(r))
					h.add("panic")
				}
			}()
			for _, st := range prog {
				select {
				case <-goq:
				case <-kill:
					return
				}
				s := st.([]any)
				if s[0].(string) == "next" {
					cid := num(s[1])
					h.add("call-next", cid)
					v, err := merged.Next(ctxs.get(cid))
					h.add("ret-next", resOf(v, err))
				} else {
					h.add("call-close")
					atomic.StoreInt32(&closeCalled, 1)
					merged.Close()
					h.add("ret-close")
				}
			}
		}()
	}
	for _, st := range prog { // contexts are created by the controller, before any goroutine uses them
		s := st.([]any)
		if s[0].(string) == "next" {
			ctxs.get(num(s[1]))
		}
	}
	alive := func() int {
		t, _ := countGoroutines("created by github.com/bradenaw/juniper/stream.Merge[")
		return t
	}
	quiet, spinning := true, false
	doQuiesce := func() {
		ok, spin := quiesceOrBusy(h, 5*time.Second, "juniper/stream.")
		quiet = quiet && ok
		spinning = spinning || spin
		h.add("quiesce", ok, alive())
	}
	mergedOnce := false
	for _, op := range c.Ops {
		if spinning {
			break
		}
		switch op[0].(string) {
		case "merge":
			if mergedOnce {
				continue
			}
			mergedOnce = true
			h.add("merge", n)
			merged = stream.Merge(ins...)
			startConsumer()
		case "release":
			i, k := num(op[1]), num(op[2])
			if i < n {
				h.add("release", i, k)
				for x := 0; x < k; x++ {
					srcs[i].tokens <- struct{}{}
				}
			}
		case "go":
			if !mergedOnce {
				continue
			}
			k := num(op[1])
			h.add("go", k)
			for x := 0; x < k; x++ {
				goq <- struct{}{}
			}
		case "cancel":
			h.add("cancel", num(op[1]))
			ctxs.cancel(num(op[1]))
		case "quiesce":
			doQuiesce()
		}
	}
	if !spinning {
		doQuiesce()
	}
	poisoned = poisoned || spinning
	evs := h.snapshot()
	// clean up: cancel the consumer's contexts, stop the consumer, close the stream if the scenario did not,
	// and as a last resort kill the sources
	ctxs.cancelAll()
	leaked := false
	waitFor := func(f func(), d time.Duration) bool {
		done := make(chan struct{})
		go func() { f(); close(done) }()
		select {
		case <-done:
			return true
		case <-time.After(d):
			return false
		}
	}
	if mergedOnce {
		if atomic.LoadInt32(&closeCalled) == 0 {
			// the consumer is idle or inside a Next that its cancelled context ends
			close(kill)
			if !waitFor(consumer.Wait, 3*time.Second) {
				leaked = true
			} else if consumerPanic.Load() == nil {
				if !waitFor(func() { protect(merged.Close) }, 3*time.Second) {
					leaked = true
				}
			}
		} else {
			if !waitFor(consumer.Wait, 500*time.Millisecond) {
				close(kill)
				if !waitFor(consumer.Wait, 3*time.Second) {
					leaked = true
				}
			} else {
				close(kill)
			}
		}
		deadline := time.Now().Add(3 * time.Second)
		for alive() > 0 && time.Now().Before(deadline) {
			time.Sleep(time.Millisecond)
		}
		if alive() > 0 {
			leaked = true
		}
	}
	o := &Obs{}
	for _, e := range evs {
		o.Obs = append(o.Obs, e)
	}
	o.Aux = map[string]any{"quiescent": quiet, "cleanup_leak": leaked, "spinning": spinning,
		"protocol_violations": int(atomic.LoadInt32(&bad))}
	if p := consumerPanic.Load(); p != nil {
		o.Aux["panic"] = p
	}
	return o
}
