package main

import (
	"github.com/bradenaw/juniper/container/xheap"
	"github.com/bradenaw/juniper/iterator"
	"math"
)

func init() {
	components["heap"] = runHeap
	components["pq"] = runPQ
}

// cmpStretch (cfg "cmpscale"): 1 = compare results MinInt / MaxInt, 2 = magnitudes of 2^33 and more
var cmpStretch = 0

func stretchCmp(f func(a, b int) int) func(a, b int) int {
	if f == nil {
		return nil
	}
	return func(a, b int) int {
		r := f(a, b)
		switch {
		case r == 0 || cmpStretch == 0:
			return r
		case cmpStretch == 1 && r < 0:
			return math.MinInt
		case cmpStretch == 1:
			return math.MaxInt
		}
		return r << 33
	}
}

func orderOf(mode int) (less func(a, b int) bool, cmp func(a, b int) int) {
	less, cmp = orderOf0(mode)
	return less, stretchCmp(cmp)
}

func orderOf0(mode int) (less func(a, b int) bool, cmp func(a, b int) int) {
	switch mode {
	case 0:
		return func(a, b int) bool { return a < b }, nil
	case 1:
		return func(a, b int) bool { return a > b }, nil
	case 2:
		return func(a, b int) bool { return a/4 < b/4 }, nil
	case 3:
		// non-normalised compare results on purpose: only the sign is part of the contract
		return nil, func(a, b int) int { return (a - b) * 2 }
	default:
		return nil, func(a, b int) int { return a/4 - b/4 }
	}
}

func ints(a any) []int {
	l := a.([]any)
	out := make([]int, len(l))
	for i := range l {
		out[i] = num(l[i])
	}
	return out
}

// cfg: mode, initial ([]int)
func runHeap(c *Case) *Obs {
	cmpStretch = 0
	if v, ok := c.Cfg["cmpscale"]; ok {
		cmpStretch = num(v)
	}
	less, cmp := orderOf(num(c.Cfg["mode"]))
	initial := ints(c.Cfg["initial"])
	var h xheap.Heap[int]
	if less != nil {
		h = xheap.New(less, initial)
	} else {
		h = xheap.NewCmp(cmp, initial)
	}
	var its []iterator.Iterator[int]
	o := &Obs{}
	for _, op := range c.Ops {
		name := op[0].(string)
		var res any
		p, _ := protect(func() {
			switch name {
			case "push":
				h.Push(num(op[1]))
				res = []any{"unit"}
			case "pop":
				res = []any{"val", h.Pop()}
			case "peek":
				res = []any{"val", h.Peek()}
			case "len":
				res = []any{"int", h.Len()}
			case "grow":
				h.Grow(num(op[1]))
				res = []any{"unit"}
			case "shrink":
				h.Shrink(num(op[1]))
				res = []any{"unit"}
			case "iternew":
				its = append(its, h.Iterate())
				res = []any{"unit"}
			case "iternext":
				j := num(op[1])
				if j >= len(its) {
					res = []any{"bad"}
					return
				}
				x, ok := its[j].Next()
				if ok {
					res = []any{"val", x}
				} else {
					res = []any{"end"}
				}
			case "iterate":
				res = []any{"list", drainInts(h.Iterate(), h.Len()+2)}
			default:
				panic("harness: unknown op " + name)
			}
		})
		if p {
			res = []any{"panic"}
		}
		o.Obs = append(o.Obs, res)
	}
	return o
}

func drainInts(it iterator.Iterator[int], limit int) any {
	l := []int{}
	for i := 0; ; i++ {
		x, ok := it.Next()
		if !ok {
			return l
		}
		if i >= limit {
			return "bad"
		}
		l = append(l, x)
	}
}

// cfg: mode, initial ([][2]int key,priority)
func runPQ(c *Case) *Obs {
	cmpStretch = 0
	if v, ok := c.Cfg["cmpscale"]; ok {
		cmpStretch = num(v)
	}
	less, cmp := orderOf(num(c.Cfg["mode"]))
	var initial []xheap.KP[int, int]
	for _, kp := range c.Cfg["initial"].([]any) {
		p := ints(kp)
		initial = append(initial, xheap.KP[int, int]{K: p[0], P: p[1]})
	}
	var q xheap.PriorityQueue[int, int]
	if less != nil {
		q = xheap.NewPriorityQueue(less, initial)
	} else {
		q = xheap.NewPriorityQueueCmp(cmp, initial)
	}
	var its []iterator.Iterator[int]
	o := &Obs{}
	for _, op := range c.Ops {
		name := op[0].(string)
		var res any
		p, _ := protect(func() {
			switch name {
			case "update":
				q.Update(num(op[1]), num(op[2]))
				res = []any{"unit"}
			case "pop":
				res = []any{"val", q.Pop()}
			case "peek":
				res = []any{"val", q.Peek()}
			case "contains":
				res = []any{"bool", q.Contains(num(op[1]))}
			case "priority":
				res = []any{"int", q.Priority(num(op[1]))}
			case "remove":
				q.Remove(num(op[1]))
				res = []any{"unit"}
			case "len":
				res = []any{"int", q.Len()}
			case "grow":
				q.Grow(num(op[1]))
				res = []any{"unit"}
			case "iternew":
				its = append(its, q.Iterate())
				res = []any{"unit"}
			case "iternext":
				j := num(op[1])
				if j >= len(its) {
					res = []any{"bad"}
					return
				}
				x, ok := its[j].Next()
				if ok {
					res = []any{"val", x}
				} else {
					res = []any{"end"}
				}
			case "iterate":
				res = []any{"list", drainInts(q.Iterate(), q.Len()+2)}
			default:
				panic("harness: unknown op " + name)
			}
		})
		if p {
			res = []any{"panic"}
		}
		o.Obs = append(o.Obs, res)
	}
	return o
}
