package main

// Self-checking large-size scenarios ("scale" parts of the checks). The models are evaluated inside Coq, which
// limits the sizes of the differential cases; behaviour that only appears with thousands of elements, a fourth tree
// level, 16-bit counters wrapping, hundreds of channels ... is exercised here, and the property is evaluated by the
// harness itself against trivially correct references (sorted slices, counters). Each scenario returns
// {"ok": bool, "msg": string, ...}; a panic or a watchdog timeout is reported as not ok.

import (
	"context"
	"fmt"
	"math/rand"
	"sort"
	"sync"
	"sync/atomic"
	"time"

	"github.com/bradenaw/juniper/chans"
	"github.com/bradenaw/juniper/container/tree"
	"github.com/bradenaw/juniper/container/xheap"
	"github.com/bradenaw/juniper/iterator"
	"github.com/bradenaw/juniper/parallel"
	"github.com/bradenaw/juniper/stream"
)

func init() { components["scale"] = runScale }

func runScale(c *Case) *Obs {
	kind := c.Cfg["kind"].(string)
	res := map[string]any{"ok": true, "msg": ""}
	fail := func(f string, a ...any) {
		if res["ok"].(bool) {
			res["ok"] = false
			res["msg"] = fmt.Sprintf(f, a...)
		}
	}
	done := make(chan struct{})
	go func() {
		defer close(done)
		p, v := protect(func() {
			switch kind {
			case "tree":
				scaleTree(c, res, fail)
			case "tree-iter-gen":
				scaleTreeIterGen(c, res, fail)
			case "heap":
				scaleHeap(c, res, fail)
			case "last":
				scaleLast(c, res, fail)
			case "do":
				scaleDo(c, res, fail)
			case "do-overlap":
				scaleDoOverlap(c, res, fail)
			case "chans-merge":
				scaleChansMerge(c, res, fail)
			case "mapiter":
				scaleMapIter(c, res, fail)
			case "pipe":
				scalePipe(c, res, fail)
			default:
				if f, ok := extraScale[kind]; ok {
					f(c, res, fail)
				} else {
					fail("unknown scale kind %s", kind)
				}
			}
		})
		if p {
			fail("panic: %v", v)
		}
	}()
	limit := 300 * time.Second
	if v, ok := c.Cfg["limit_s"]; ok { // scenarios that take milliseconds when all is well
		limit = time.Duration(num(v)) * time.Second
	}
	select {
	case <-done:
	case <-time.After(limit):
		return &Obs{Obs: []any{map[string]any{"ok": false, "msg": fmt.Sprintf("watchdog: the scenario did not finish within %s (deadlock or spin)", limit), "kind": kind}}}
	}
	res["kind"] = kind
	return &Obs{Obs: []any{res}}
}

// ---- tree: big fills and drains (C01, C03)

func scaleTree(c *Case, res map[string]any, fail func(string, ...any)) {
	n, order, drain, seed := num(c.Cfg["n"]), c.Cfg["order"].(string), c.Cfg["drain"].(string), int64(num(c.Cfg["seed"]))
	rng := rand.New(rand.NewSource(seed))
	keys := make([]int, n)
	for i := range keys {
		keys[i] = i * 2
	}
	switch order {
	case "desc":
		sort.Sort(sort.Reverse(sort.IntSlice(keys)))
	case "rand":
		rng.Shuffle(n, func(i, j int) { keys[i], keys[j] = keys[j], keys[i] })
	}
	// non-normalised compare on purpose
	m := tree.NewMapCmp[int, int](func(a, b int) int { return (a - b) * 5 })
	ref := map[int]int{}
	check := func(when string) bool {
		e, st := m.VerifCheck(func(k int) bool { return k == 0 }, func(v int) bool { return v == 0 })
		if e != "" {
			fail("%s: %s", when, e)
			return false
		}
		if st.Keys != len(ref) || m.Len() != len(ref) {
			fail("%s: %d keys stored, Len %d, reference %d", when, st.Keys, m.Len(), len(ref))
			return false
		}
		if st.Keys >= 1 {
			d, capd := 1, 16
			for capd-1 <= st.Keys {
				d++
				capd *= 8
			}
			if st.Height > d {
				fail("%s: %d keys in %d levels; bound %d", when, st.Keys, st.Height, d)
				return false
			}
		}
		if h, _ := res["height"].(int); st.Height > h {
			res["height"] = st.Height
		}
		return true
	}
	iterCheck := func(when string) bool {
		want := make([]int, 0, len(ref))
		for k := range ref {
			want = append(want, k)
		}
		sort.Ints(want)
		it := m.Iterate()
		for i := 0; ; i++ {
			kv, ok := it.Next()
			if !ok {
				if i != len(want) {
					fail("%s: forward iteration ended after %d of %d entries", when, i, len(want))
					return false
				}
				break
			}
			if i >= len(want) || kv.Key != want[i] || kv.Value != ref[kv.Key] {
				fail("%s: forward iteration entry %d is (%d,%d)", when, i, kv.Key, kv.Value)
				return false
			}
		}
		rit := m.RangeReverse(tree.Unbounded[int](), tree.Unbounded[int]())
		for i := len(want) - 1; ; i-- {
			kv, ok := rit.Next()
			if !ok {
				if i != -1 {
					fail("%s: reverse iteration ended early at %d", when, i)
					return false
				}
				break
			}
			if i < 0 || kv.Key != want[i] {
				fail("%s: reverse iteration entry %d is %d", when, i, kv.Key)
				return false
			}
		}
		return true
	}
	for i, k := range keys {
		m.Put(k, k+7)
		ref[k] = k + 7
		if i%1024 == 1023 {
			if !check(fmt.Sprintf("after %d puts", i+1)) {
				return
			}
		}
	}
	if !check("after the fill") || !iterCheck("after the fill") {
		return
	}
	// lookups
	for i := 0; i < 2000; i++ {
		k := rng.Intn(2*n + 2)
		want, present := ref[k]
		if m.Contains(k) != present || m.Get(k) != want {
			fail("after the fill: Get(%d)=%d Contains=%v, reference %d %v", k, m.Get(k), m.Contains(k), want, present)
			return
		}
	}
	var victims []int
	sorted := append([]int{}, keys...)
	sort.Ints(sorted)
	switch drain {
	case "top":
		for i := len(sorted) - 1; i >= 0; i-- {
			victims = append(victims, sorted[i])
		}
	case "bottom":
		victims = sorted
	case "max-then-every-third":
		victims = append(victims, sorted[len(sorted)-1])
		for i := 0; i < len(sorted)-1; i += 3 {
			victims = append(victims, sorted[i])
		}
	case "rand":
		victims = append([]int{}, sorted...)
		rng.Shuffle(len(victims), func(i, j int) { victims[i], victims[j] = victims[j], victims[i] })
	}
	for i, k := range victims {
		m.Delete(k)
		delete(ref, k)
		if i%512 == 0 || i == len(victims)-1 {
			if !check(fmt.Sprintf("after %d deletes", i+1)) {
				return
			}
		}
		if i%4096 == 1 || i == len(victims)/2 {
			if !iterCheck(fmt.Sprintf("after %d deletes", i+1)) {
				return
			}
		}
	}
	iterCheck("after the drain")
}

// an iterator must survive any number of structural changes between two Next calls (C02): in particular counts
// at which a narrow generation counter would wrap
func scaleTreeIterGen(c *Case, res map[string]any, fail func(string, ...any)) {
	burst := num(c.Cfg["burst"])
	rev, _ := c.Cfg["rev"].(bool)
	m := tree.NewMap[int, int](func(a, b int) bool { return a < b })
	for k := 0; k < 100; k++ {
		m.Put(k*10, k)
	}
	var it iterator.Iterator[tree.KVPair[int, int]]
	if rev {
		it = m.RangeReverse(tree.Unbounded[int](), tree.Included(500))
	} else {
		it = m.Range(tree.Included(500), tree.Unbounded[int]())
	}
	kv, ok := it.Next()
	if !ok || kv.Key != 500 {
		fail("first Next = (%v,%v)", kv, ok)
		return
	}
	// the iterator is now parked on the neighbour (510 / 490): delete it and make exactly `burst` structural changes
	parked, next := 510, 520
	if rev {
		parked, next = 490, 480
	}
	m.Delete(parked)
	for i := 1; i < burst; i++ { // burst-1 more structural changes, far away from the iterator
		k := 100000 + ((i-1)/2)%50
		if i%2 == 1 {
			m.Put(k, i)
		} else {
			m.Delete(k)
		}
	}
	m.Put(next, 4242) // overwrite of a present key: not structural
	kv, ok = it.Next()
	if !ok || kv.Key != next || kv.Value != 4242 {
		fail("after deleting the parked key and %d structural changes Next = (%d,%d,%v); want (%d,4242)", burst, kv.Key, kv.Value, ok, next)
	}
}

// ---- heap (C05)

func scaleHeap(c *Case, res map[string]any, fail func(string, ...any)) {
	n, order, seed := num(c.Cfg["n"]), c.Cfg["order"].(string), int64(num(c.Cfg["seed"]))
	rng := rand.New(rand.NewSource(seed))
	vals := make([]int, n)
	for i := range vals {
		vals[i] = i
	}
	switch order {
	case "desc":
		sort.Sort(sort.Reverse(sort.IntSlice(vals)))
	case "rand":
		rng.Shuffle(n, func(i, j int) { vals[i], vals[j] = vals[j], vals[i] })
	}
	var h xheap.Heap[int]
	if usenew, _ := c.Cfg["initial"].(bool); usenew {
		h = xheap.NewCmp(func(a, b int) int { return (a - b) * 3 }, append([]int{}, vals...))
	} else {
		h = xheap.New(func(a, b int) bool { return a < b }, nil)
		for _, v := range vals {
			h.Push(v)
		}
	}
	if h.Len() != n {
		fail("Len %d after %d pushes", h.Len(), n)
		return
	}
	for i := 0; i < n; i++ {
		if p := h.Peek(); p != i {
			fail("Peek #%d returned %d", i, p)
			return
		}
		if p := h.Pop(); p != i {
			fail("pop #%d returned %d", i, p)
			return
		}
	}
	// priority queue of the same size
	q := xheap.NewPriorityQueueCmp[int, int](func(a, b int) int { return a - b }, nil)
	for _, v := range vals {
		q.Update(v, n-v)
	}
	for i := 0; i < n/3; i++ { // re-prioritise a third
		q.Update(vals[i], -vals[i])
	}
	prio := func(k int) int { return q.Priority(k) }
	last := -1 << 62
	for i := 0; i < n; i++ {
		k := q.Peek()
		p := prio(k)
		if p < last {
			fail("queue pop #%d: key %d has priority %d after %d", i, k, p, last)
			return
		}
		last = p
		if q.Pop() != k {
			fail("queue Pop differs from Peek at #%d", i)
			return
		}
	}
	if q.Len() != 0 {
		fail("queue Len %d after draining", q.Len())
	}
}

// ---- Last over long inputs (C07)

func scaleLast(c *Case, res map[string]any, fail func(string, ...any)) {
	n, k := num(c.Cfg["n"]), num(c.Cfg["k"])
	want := []int{}
	for i := n - k; i < n; i++ {
		if i >= 0 {
			want = append(want, i)
		}
	}
	eq := func(a []int) bool {
		if len(a) != len(want) {
			return false
		}
		for i := range a {
			if a[i] != want[i] {
				return false
			}
		}
		return true
	}
	if got := iterator.Last(iterator.Counter(n), k); !eq(got) {
		fail("iterator.Last(Counter(%d), %d) = %v", n, k, got)
	}
	got, err := stream.Last(context.Background(), stream.FromIterator(iterator.Counter(n)), k)
	if err != nil || !eq(got) {
		fail("stream.Last(Counter(%d), %d) = %v, %v", n, k, got, err)
	}
	sum := iterator.Reduce(iterator.Counter(n), 0, func(a, x int) int { return a + x })
	if sum != n*(n-1)/2 {
		fail("Reduce over Counter(%d) = %d", n, sum)
	}
	chunks := iterator.Collect(iterator.Chunk(iterator.Counter(n), 4096))
	tot := 0
	for i, ch := range chunks {
		if i < len(chunks)-1 && len(ch) != 4096 {
			fail("chunk %d has %d items", i, len(ch))
		}
		tot += len(ch)
	}
	if tot != n {
		fail("chunks hold %d of %d items", tot, n)
	}
}

// ---- parallel.Do / Map with many indices (C13)

func scaleDo(c *Case, res map[string]any, fail func(string, ...any)) {
	n, p := num(c.Cfg["n"]), num(c.Cfg["p"])
	counts := make([]int32, n)
	parallel.Do(p, n, func(i int) { atomic.AddInt32(&counts[i], 1) })
	for i, v := range counts {
		if v != 1 {
			fail("Do(p=%d, n=%d): f(%d) was called %d times", p, n, i, v)
			return
		}
	}
	in := make([]int, n)
	for i := range in {
		in[i] = i
	}
	out := parallel.Map(p, in, func(x int) int { return x*2 + 1 })
	for i, v := range out {
		if v != i*2+1 {
			fail("Map(p=%d, n=%d): out[%d] = %d", p, n, i, v)
			return
		}
	}
	counts2 := make([]int32, n)
	err := parallel.DoContext(context.Background(), p, n, func(ctx context.Context, i int) error { atomic.AddInt32(&counts2[i], 1); return nil })
	if err != nil {
		fail("DoContext returned %v", err)
	}
	for i, v := range counts2 {
		if v != 1 {
			fail("DoContext(p=%d, n=%d): f(%d) was called %d times", p, n, i, v)
			return
		}
	}
}

// two invocations that overlap in time must not disturb each other (C13)
func scaleDoOverlap(c *Case, res map[string]any, fail func(string, ...any)) {
	n, p := num(c.Cfg["n"]), num(c.Cfg["p"])
	var wg sync.WaitGroup
	gateA := make(chan struct{})
	var once sync.Once
	countsA := make([]int32, n)
	countsB := make([]int32, n)
	var errA, errB error
	wg.Add(2)
	go func() {
		defer wg.Done()
		errA = parallel.DoContext(context.Background(), p, n, func(ctx context.Context, i int) error {
			atomic.AddInt32(&countsA[i], 1)
			<-gateA // every call of A is held until B has run completely (closed channel afterwards: no wait)
			return nil
		})
	}()
	go func() {
		defer wg.Done()
		time.Sleep(2 * time.Millisecond)
		errB = parallel.DoContext(context.Background(), p, n, func(ctx context.Context, i int) error {
			atomic.AddInt32(&countsB[i], 1)
			return nil
		})
		once.Do(func() { close(gateA) })
	}()
	go func() { time.Sleep(3 * time.Second); once.Do(func() { close(gateA) }) }()
	wg.Wait()
	if errA != nil || errB != nil {
		fail("overlapping invocations returned %v / %v", errA, errB)
	}
	for i := 0; i < n; i++ {
		if countsA[i] != 1 || countsB[i] != 1 {
			fail("overlapping invocations: index %d was called %d times by A and %d times by B", i, countsA[i], countsB[i])
			return
		}
	}
}

// ---- chans.Merge with hundreds of inputs (C12)

func scaleChansMerge(c *Case, res map[string]any, fail func(string, ...any)) {
	n, per := num(c.Cfg["n"]), num(c.Cfg["per"])
	ins := make([]chan int, n)
	ro := make([]<-chan int, n)
	for i := range ins {
		ins[i] = make(chan int)
		ro[i] = ins[i]
	}
	out := make(chan int)
	returned := make(chan struct{})
	go func() { chans.Merge(out, ro...); close(returned) }()
	var wg sync.WaitGroup
	for i := range ins {
		i := i
		wg.Add(1)
		go func() {
			defer wg.Done()
			for j := 0; j < per; j++ {
				select {
				case ins[i] <- i*1000 + j:
				case <-returned:
					return
				}
			}
			close(ins[i])
		}()
	}
	got := map[int]int{}
	lastOf := map[int]int{}
	total := 0
	timeout := time.After(20 * time.Second)
loop:
	for total < n*per {
		select {
		case v := <-out:
			got[v]++
			src, seq := v/1000, v%1000
			if l, ok := lastOf[src]; ok && seq <= l {
				fail("input %d delivered out of order", src)
			}
			lastOf[src] = seq
			total++
		case <-returned:
			break loop
		case <-timeout:
			fail("timeout after %d of %d values", total, n*per)
			break loop
		}
	}
	if total != n*per {
		fail("Merge of %d inputs delivered %d of %d values", n, total, n*per)
	}
	select {
	case <-returned:
	case <-time.After(5 * time.Second):
		fail("Merge of %d inputs did not return after all inputs were closed and drained", n)
	}
	wg.Wait()
}

// ---- MapIterator / MapStream over long sources with reordering at chosen indices (C14)

func scaleMapIter(c *Case, res map[string]any, fail func(string, ...any)) {
	n, p, buf := num(c.Cfg["n"]), num(c.Cfg["p"]), num(c.Cfg["buf"])
	delayed := map[int]chan struct{}{}
	for _, d := range ints(c.Cfg["delay"]) {
		delayed[d] = make(chan struct{})
	}
	var mu sync.Mutex
	release := func(x int) {
		mu.Lock()
		defer mu.Unlock()
		if ch, ok := delayed[x-1]; ok {
			select {
			case <-ch:
			default:
				close(ch)
			}
		}
	}
	f := func(x int) int {
		if ch, ok := delayed[x]; ok {
			select { // wait until the NEXT item has been processed (so results arrive out of order)
			case <-ch:
			case <-time.After(5 * time.Second):
			}
		}
		release(x)
		return x * 3
	}
	useStream, _ := c.Cfg["stream"].(bool)
	i := 0
	if !useStream {
		it := parallel.MapIterator(iterator.Counter(n), p, buf, f)
		for {
			v, ok := it.Next()
			if !ok {
				break
			}
			if v != i*3 {
				fail("MapIterator yielded %d at position %d", v, i)
				return
			}
			i++
		}
	} else {
		s := parallel.MapStream(context.Background(), stream.FromIterator(iterator.Counter(n)), p, buf,
			func(ctx context.Context, x int) (int, error) { return f(x), nil })
		defer s.Close()
		for {
			v, err := s.Next(context.Background())
			if err == stream.End {
				break
			}
			if err != nil || v != i*3 {
				fail("MapStream yielded %d, %v at position %d", v, err, i)
				return
			}
			i++
		}
	}
	if i != n {
		fail("only %d of %d results were yielded", i, n)
	}
}

// ---- Pipe with a large buffer (C10)

func scalePipe(c *Case, res map[string]any, fail func(string, ...any)) {
	n := num(c.Cfg["n"])
	for round := 0; round < 40; round++ {
		sender, recv := stream.Pipe[int](n)
		for i := 0; i < n; i++ {
			if err := sender.Send(context.Background(), i); err != nil {
				fail("Send %d failed: %v", i, err)
				return
			}
		}
		sender.Close(nil)
		ctx, cancel := context.WithTimeout(context.Background(), 5*time.Second)
		for i := 0; i < n; i++ {
			v, err := recv.Next(ctx)
			if err != nil || v != i {
				fail("Pipe(%d): after %d of %d buffered values Next returned (%d, %v)", n, i, n, v, err)
				cancel()
				return
			}
		}
		for k := 0; k < 3; k++ {
			if _, err := recv.Next(ctx); err != stream.End {
				fail("Pipe(%d): Next after the last value returned %v", n, err)
			}
		}
		cancel()
		recv.Close()
	}
}

func init() { components["extras19"] = runExtras19 }

// C19 extras (oracle-only): WithStack at a deep call stack; frequencies of the default-source Sample functions.
func runExtras19(c *Case) *Obs {
	res := map[string]any{"ok": true, "msg": ""}
	p, v := protect(func() {
		switch c.Cfg["kind"].(string) {
		case "withstack-depth":
			d := num(c.Cfg["depth"])
			res["frames"] = deepWithStack(d)
		case "sample-freq":
			n, k, trials := num(c.Cfg["n"]), num(c.Cfg["k"]), num(c.Cfg["trials"])
			res["counts"] = sampleFreq(c.Cfg["fn"].(string), n, k, trials)
		}
	})
	if p {
		res["ok"] = false
		res["msg"] = fmt.Sprintf("panic: %v", v)
	}
	return &Obs{Obs: []any{res}}
}
