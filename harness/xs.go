package main

import "github.com/bradenaw/juniper/xslices"

func xslicesChunk(l []int, n int) [][]int                { return xslices.Chunk(l, n) }
func xslicesRuns(l []int, same func(a, b int) bool) [][]int { return xslices.Runs(l, same) }
