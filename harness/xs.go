package main

import (
	"context"
	"math/rand"

	"github.com/bradenaw/juniper/stream"
	"github.com/bradenaw/juniper/xmath/xrand"
	"github.com/bradenaw/juniper/xslices"
)

func xslicesChunk(l []int, n int) [][]int                { return xslices.Chunk(l, n) }
func xslicesRuns(l []int, same func(a, b int) bool) [][]int { return xslices.Runs(l, same) }

// xrand.RSampleStream with a seeded source of randomness.
func xrandSampleStream(ctx context.Context, seed int64, s stream.Stream[int], k int) ([]int, error) {
	return xrand.RSampleStream(ctx, rand.New(rand.NewSource(seed)), s, k)
}
