package main

// C16: xsync.ContextCond scenarios. A controller executes the scenario's steps in order;
// waiters run in their own goroutines and can be held inside the Locker's Unlock by a gate.

import (
	"runtime"
	"strconv"
	"sync"
	"time"

	"github.com/bradenaw/juniper/xsync"
)

func init() { components["cond"] = runCond }

func goid() int64 {
	var buf [64]byte
	n := runtime.Stack(buf[:], false)
	// "goroutine 123 ["
	s := string(buf[10:n])
	for i := 0; i < len(s); i++ {
		if s[i] == ' ' {
			id, _ := strconv.ParseInt(s[:i], 10, 64)
			return id
		}
	}
	return -1
}

type condLocker struct {
	mu    sync.Mutex
	meta  sync.Mutex
	owner int64
	who   map[int64]int // goroutine -> waiter id
	gates map[int]*gate // waiter id -> gate
	pos   map[int]string
	h     *hlog
}

func (l *condLocker) Lock() {
	l.mu.Lock()
	l.meta.Lock()
	l.owner = goid()
	l.meta.Unlock()
}

func (l *condLocker) Unlock() {
	g := goid()
	l.meta.Lock()
	w, isWaiter := l.who[g]
	l.meta.Unlock()
	if !isWaiter {
		l.meta.Lock()
		l.owner = 0
		l.meta.Unlock()
		l.mu.Unlock()
		return
	}
	l.h.add("unlock-enter", w)
	if l.pos[w] == "pre" {
		l.gates[w].wait()
	}
	l.meta.Lock()
	l.owner = 0
	l.meta.Unlock()
	l.mu.Unlock()
	if l.pos[w] == "post" {
		l.gates[w].wait()
	}
	l.h.add("unlock-exit", w)
}

func (l *condLocker) heldByMe() bool {
	l.meta.Lock()
	defer l.meta.Unlock()
	return l.owner == goid()
}

// ops: ["wait", w, ctx, gatepos] ["signal"] ["broadcast"] ["cancel", ctx] ["release", w] ["quiesce"]
func runCond(c *Case) *Obs {
	h := &hlog{}
	L := &condLocker{who: map[int64]int{}, gates: map[int]*gate{}, pos: map[int]string{}, h: h}
	cond := xsync.NewContextCond(L)
	if lateL, _ := c.Cfg["late_locker"].(bool); lateL {
		// L is an exported field (as in sync.Cond): created with another Locker, L set before first use
		cond = xsync.NewContextCond(&sync.Mutex{})
		cond.L = L
	}
	ctxs := newCtxSet()
	var wg sync.WaitGroup
	quiet := true
	// the gate tables are read by waiter goroutines: fill them completely before any goroutine starts
	for _, op := range c.Ops {
		if op[0].(string) == "wait" {
			L.gates[num(op[1])] = newGate()
			L.pos[num(op[1])] = op[3].(string)
		}
	}
	for _, op := range c.Ops {
		switch op[0].(string) {
		case "wait":
			w, cid := num(op[1]), num(op[2])
			ctx := ctxs.get(cid)
			h.add("spawn", w)
			wg.Add(1)
			started := make(chan struct{})
			go func() {
				defer wg.Done()
				g := goid()
				L.meta.Lock()
				L.who[g] = w
				L.meta.Unlock()
				close(started)
				L.Lock()
				h.add("call-wait", w, cid)
				err := cond.Wait(ctx)
				held := L.heldByMe()
				if err == nil {
					h.add("ret-wait", w, "nil", held)
				} else if err == ctx.Err() {
					h.add("ret-wait", w, "err", held)
				} else {
					h.add("ret-wait", w, "other:"+err.Error(), held) // not the context's error
				}
				if held {
					// leave the critical section as a real caller would
					L.meta.Lock()
					delete(L.who, g)
					L.meta.Unlock()
					L.Unlock()
				}
			}()
			<-started
		case "signal":
			h.add("call-signal")
			cond.Signal()
			h.add("ret-signal")
		case "broadcast":
			h.add("call-broadcast")
			cond.Broadcast()
			h.add("ret-broadcast")
		case "cancel":
			h.add("cancel", num(op[1]))
			ctxs.cancel(num(op[1]))
		case "release":
			h.add("release", num(op[1]))
			if g, ok := L.gates[num(op[1])]; ok {
				g.release()
			}
		case "quiesce":
			ok := quiesce(h, 5*time.Second, nil)
			quiet = quiet && ok
			h.add("quiesce", ok)
		}
	}
	ok := quiesce(h, 5*time.Second, nil)
	quiet = quiet && ok
	h.add("quiesce", ok)
	evs := h.snapshot()
	// clean up: let every goroutine of this scenario finish
	for _, g := range L.gates {
		g.release()
	}
	ctxs.cancelAll()
	done := make(chan struct{})
	go func() { wg.Wait(); close(done) }()
	leaked := false
	select {
	case <-done:
	case <-time.After(5 * time.Second):
		leaked = true
	}
	o := &Obs{}
	for _, e := range evs {
		o.Obs = append(o.Obs, e)
	}
	o.Aux = map[string]any{"quiescent": quiet, "cleanup_leak": leaked}
	return o
}
