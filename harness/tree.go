package main

import (
	"github.com/bradenaw/juniper/container/tree"
	"github.com/bradenaw/juniper/iterator"
	"math"
)

func init() { components["tree"] = runTree }

type kvIter interface {
	Next() (int, int, bool)
}
type mapIter struct {
	it iterator.Iterator[tree.KVPair[int, int]]
}

func (m mapIter) Next() (int, int, bool) { p, ok := m.it.Next(); return p.Key, p.Value, ok }

type setIter struct{ it iterator.Iterator[int] }

func (s setIter) Next() (int, int, bool) { k, ok := s.it.Next(); return k, 0, ok }

func floorDiv4(a int) int { return a / 4 } // Go truncated division, matches Z.quot (keys are >= 0)

func bound(a any) tree.Bound[int] {
	b := a.([]any)
	switch b[0].(string) {
	case "inc":
		return tree.Included(num(b[1]))
	case "exc":
		return tree.Excluded(num(b[1]))
	}
	return tree.Unbounded[int]()
}

// cfg: mode (0 cmp natural, 1 cmp reversed, 2 cmp coarse, 3 less natural, 4 less coarse), set (bool)
func runTree(c *Case) *Obs {
	mode := num(c.Cfg["mode"])
	isSet, _ := c.Cfg["set"].(bool)
	calls := 0
	// compare functions deliberately return NON-normalised results (differences, scaled): the documented
	// contract is only the sign
	cmp3 := func(a, b int) int {
		if a == b {
			return 0
		}
		return (a - b) * 3
	}
	// cfg "cmpscale": 1 = the extreme results MinInt / MaxInt, 2 = magnitudes of 2^33 and more (beyond int32)
	cmpScale := 0
	if v, ok := c.Cfg["cmpscale"]; ok {
		cmpScale = num(v)
	}
	stretch := func(r int) int {
		switch {
		case r == 0 || cmpScale == 0:
			return r
		case cmpScale == 1 && r < 0:
			return math.MinInt
		case cmpScale == 1:
			return math.MaxInt
		}
		return r << 33
	}
	var compare func(a, b int) int
	var less func(a, b int) bool
	// while a "getcost" lookup runs, every comparator call records its two arguments (per-level cost)
	var recording bool
	var recorded [][2]int
	rec := func(a, b int) {
		calls++
		if recording {
			recorded = append(recorded, [2]int{a, b})
		}
	}
	switch mode {
	case 0:
		compare = func(a, b int) int { rec(a, b); return stretch(cmp3(a, b)) }
	case 1:
		compare = func(a, b int) int { rec(a, b); return stretch(cmp3(b, a)) }
	case 2:
		compare = func(a, b int) int { rec(a, b); return stretch(floorDiv4(a) - floorDiv4(b)) }
	case 3:
		less = func(a, b int) bool { rec(a, b); return a < b }
	case 4:
		less = func(a, b int) bool { rec(a, b); return floorDiv4(a) < floorDiv4(b) }
	}
	var m tree.Map[int, int]
	var s tree.Set[int]
	if isSet {
		if compare != nil {
			s = tree.NewSetCmp(compare)
		} else {
			s = tree.NewSet(less)
		}
	} else {
		if compare != nil {
			m = tree.NewMapCmp[int, int](compare)
		} else {
			m = tree.NewMap[int, int](less)
		}
	}
	var its []kvIter
	o := &Obs{}
	nkeys := 0
	// "Copies of a Map or Set value denote the same collection": every operation goes through one of two
	// copies of the value, alternating
	m0, m1 := m, m
	s0, s1 := s, s
	for opi, op := range c.Ops {
		if opi%2 == 0 {
			m, s = m0, s0
		} else {
			m, s = m1, s1
		}
		name := op[0].(string)
		var res any
		p, _ := protect(func() {
			switch name {
			case "put":
				if isSet {
					s.Add(num(op[1]))
				} else {
					m.Put(num(op[1]), num(op[2]))
				}
				res = []any{"unit"}
			case "del":
				if isSet {
					s.Remove(num(op[1]))
				} else {
					m.Delete(num(op[1]))
				}
				res = []any{"unit"}
			case "get":
				res = []any{"int", m.Get(num(op[1]))}
			case "getcost":
				before := calls
				probe := num(op[1])
				recording, recorded = true, nil
				if isSet {
					s.Contains(probe)
				} else {
					m.Get(probe)
				}
				recording = false
				// comparator calls per LEVEL: every call involves one stored key; the shape export says on which
				// level that key lives (stored keys are pairwise different ints)
				var shape []int
				if isSet {
					shape = s.VerifMap().VerifShape(func(k int) int { return k })
				} else {
					shape = m.VerifShape(func(k int) int { return k })
				}
				depthOf := map[int]int{}
				for i := 0; i+1 < len(shape); {
					d, n := shape[i], shape[i+1]
					for j := 0; j < n; j++ {
						depthOf[shape[i+2+j]] = d
					}
					i += 2 + n
				}
				perLevel := map[int]int{}
				unknown := 0
				for _, ab := range recorded {
					stored := ab[1]
					if _, ok := depthOf[stored]; !ok || (stored == probe && ab[0] != probe) {
						stored = ab[0]
					}
					if d, ok := depthOf[stored]; ok {
						perLevel[d]++
					} else {
						unknown++
					}
				}
				worst := 0
				for _, c := range perLevel {
					if c > worst {
						worst = c
					}
				}
				res = []any{"int", calls - before, worst, unknown}
			case "contains":
				if isSet {
					res = []any{"bool", s.Contains(num(op[1]))}
				} else {
					res = []any{"bool", m.Contains(num(op[1]))}
				}
			case "len":
				if isSet {
					res = []any{"int", s.Len()}
				} else {
					res = []any{"int", m.Len()}
				}
			case "first":
				if isSet {
					res = []any{"pair", s.First(), 0}
				} else {
					k, v := m.First()
					res = []any{"pair", k, v}
				}
			case "last":
				if isSet {
					res = []any{"pair", s.Last(), 0}
				} else {
					k, v := m.Last()
					res = []any{"pair", k, v}
				}
			case "range", "rangerev", "iternew":
				var it kvIter
				rev := name == "rangerev"
				lo, hi := op[1], op[2]
				if name == "iternew" {
					rev = op[1].(bool)
					lo, hi = op[2], op[3]
				}
				if isSet {
					if rev {
						it = setIter{s.RangeReverse(bound(lo), bound(hi))}
					} else {
						it = setIter{s.Range(bound(lo), bound(hi))}
					}
				} else {
					if rev {
						it = mapIter{m.RangeReverse(bound(lo), bound(hi))}
					} else {
						it = mapIter{m.Range(bound(lo), bound(hi))}
					}
				}
				if name == "iternew" {
					its = append(its, it)
					res = []any{"unit"}
					return
				}
				l := [][2]int{}
				// (nkeys is refreshed by the invariant walk, which big trees run only every 16th operation)
				limit := nkeys + 2 + 16
				if isSet && s.Len()+2 > limit {
					limit = s.Len() + 2
				} else if !isSet && m.Len()+2 > limit {
					limit = m.Len() + 2
				}
				for i := 0; ; i++ {
					k, v, ok := it.Next()
					if !ok {
						break
					}
					if i >= limit {
						res = []any{"bad"}
						return
					}
					l = append(l, [2]int{k, v})
				}
				res = []any{"list", l}
			case "iternext":
				j := num(op[1])
				if j >= len(its) {
					res = []any{"bad"}
					return
				}
				k, v, ok := its[j].Next()
				if ok {
					res = []any{"pair", k, v}
				} else {
					res = []any{"end"}
				}
			case "shape":
				mm := m
				if isSet {
					res = []any{"shape", s.VerifMap().VerifShape(func(k int) int { return k })}
				} else {
					res = []any{"shape", mm.VerifShape(func(k int) int { return k })}
				}
			default:
				panic("harness: unknown op " + name)
			}
		})
		if p {
			res = []any{"panic"}
		}
		o.Obs = append(o.Obs, res)
		// invariant oracle on the live structure (C03)
		if name == "put" || name == "del" {
			if nkeys <= 400 || opi%16 == 0 || opi == len(c.Ops)-1 {
				saved := calls
				var e string
				var st tree.VerifStats
				if isSet {
					e, st = s.VerifMap().VerifCheck(func(k int) bool { return k == 0 }, func(struct{}) bool { return true })
				} else {
					e, st = m.VerifCheck(func(k int) bool { return k == 0 }, func(v int) bool { return v == 0 })
				}
				calls = saved
				nkeys = st.Keys
				o.Raw = append(o.Raw, []any{opi, e, st.Height, st.Keys, st.MinFill, st.MaxFill, st.Nodes})
			}
		}
	}
	return o
}

func init() { components["treeconc"] = runTreeConc }

// C01, last sentence: puts from several goroutines to distinct keys that are already present,
// concurrent with reads of other keys. cfg: nkeys, writers, readers, rounds, mode.
// Run under the race detector by the check; reports whether every put took effect.
func runTreeConc(c *Case) *Obs {
	nkeys, writers, readers, rounds := num(c.Cfg["nkeys"]), num(c.Cfg["writers"]), num(c.Cfg["readers"]), num(c.Cfg["rounds"])
	m := tree.NewMap[int, int](func(a, b int) bool { return a < b })
	for k := 0; k < nkeys; k++ {
		m.Put(k, -1)
	}
	// keys k with k % (writers+1) == w belong to writer w; class `writers` is read-only
	done := make(chan struct{})
	bad := make(chan string, writers+readers)
	for w := 0; w < writers; w++ {
		w := w
		go func() {
			defer func() { done <- struct{}{} }()
			for r := 0; r < rounds; r++ {
				for k := w; k < nkeys; k += writers + 1 {
					m.Put(k, r*1000000+k)
				}
			}
		}()
	}
	for rd := 0; rd < readers; rd++ {
		go func() {
			defer func() { done <- struct{}{} }()
			for r := 0; r < rounds; r++ {
				for k := writers; k < nkeys; k += writers + 1 {
					if v := m.Get(k); v != -1 {
						bad <- "reader saw a changed value on a key nobody writes"
						return
					}
					if !m.Contains(k) {
						bad <- "reader lost a key"
						return
					}
					// ranges whose bounds admit only this (read-only) key, next to keys that are being written
					for _, it := range []iterator.Iterator[tree.KVPair[int, int]]{
						m.Range(tree.Included(k), tree.Included(k)), m.Range(tree.Included(k), tree.Excluded(k+1)),
						m.RangeReverse(tree.Included(k), tree.Included(k)), m.RangeReverse(tree.Excluded(k-1), tree.Included(k)),
					} {
						n := 0
						for {
							p, ok := it.Next()
							if !ok {
								break
							}
							n++
							if p.Key != k || p.Value != -1 {
								bad <- "a range over a key nobody writes yielded something else"
								return
							}
						}
						if n != 1 {
							bad <- "a range over one present key did not yield exactly that key"
							return
						}
					}
				}
			}
		}()
	}
	for i := 0; i < writers+readers; i++ {
		<-done
	}
	o := &Obs{}
	msg := ""
	select {
	case msg = <-bad:
	default:
	}
	for k := 0; k < nkeys && msg == ""; k++ {
		want := -1
		if k%(writers+1) < writers && rounds > 0 {
			want = (rounds-1)*1000000 + k
		}
		if m.Get(k) != want {
			msg = "a put did not take effect"
		}
	}
	if m.Len() != nkeys && msg == "" {
		msg = "Len changed"
	}
	o.Obs = []any{[]any{"result", msg}}
	return o
}
