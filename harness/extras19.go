package main

import (
	"context"
	"sort"
	"strings"

	"github.com/bradenaw/juniper/iterator"
	"github.com/bradenaw/juniper/stream"
	"github.com/bradenaw/juniper/xerrors"
	"github.com/bradenaw/juniper/xmath/xrand"
)

type baseErr struct{}

func (baseErr) Error() string { return "base" }

//go:noinline
func deepRecurseWithStack(d int) error {
	if d == 0 {
		return xerrors.WithStack(baseErr{})
	}
	return deepRecurseWithStack(d - 1)
}

// deepWithStack returns how many frames of the recursive helper appear in the Error() text of an error that
// WithStack wrapped at recursion depth d ("adds the call stack of the call to WithStack").
func deepWithStack(d int) int {
	err := deepRecurseWithStack(d)
	return strings.Count(err.Error(), "deepRecurseWithStack")
}

// sampleFreq counts how often each k-subset of [0,n) is returned by the DEFAULT-source sampling functions.
func sampleFreq(fn string, n, k, trials int) map[string]int {
	counts := map[string]int{}
	items := make([]int, n)
	for i := range items {
		items[i] = i
	}
	for t := 0; t < trials; t++ {
		var s []int
		switch fn {
		case "Sample":
			s = xrand.Sample(n, k)
		case "SampleSlice":
			s = xrand.SampleSlice(items, k)
		case "SampleIterator":
			s = xrand.SampleIterator(iterator.Slice(items), k)
		case "SampleStream":
			s, _ = xrand.SampleStream(context.Background(), stream.FromIterator(iterator.Slice(items)), k)
		}
		s = append([]int{}, s...)
		sort.Ints(s)
		key := ""
		for _, x := range s {
			key += string(rune('a' + x))
		}
		counts[key]++
	}
	return counts
}
