package main

// Support for concurrent scenarios: event log, gates, structural quiescence detection.

import (
	"bytes"
	"context"
	"os"
	"regexp"
	"runtime"
	"strconv"
	"sync"
	"time"
)

// hlog is the recorded history of one scenario. Invocations are logged before the call,
// responses after it returned, so log order is consistent with real-time order.
type hlog struct {
	mu  sync.Mutex
	evs [][]any
}

func (h *hlog) add(ev ...any) {
	h.mu.Lock()
	h.evs = append(h.evs, ev)
	h.mu.Unlock()
}

func (h *hlog) len() int {
	h.mu.Lock()
	defer h.mu.Unlock()
	return len(h.evs)
}

func (h *hlog) snapshot() [][]any {
	h.mu.Lock()
	defer h.mu.Unlock()
	out := make([][]any, len(h.evs))
	copy(out, h.evs)
	return out
}

// gate blocks callers of wait() until release() is called (once released it stays open).
type gate struct {
	once sync.Once
	c    chan struct{}
}

func newGate() *gate     { return &gate{c: make(chan struct{})} }
func (g *gate) wait()    { <-g.c }
func (g *gate) release() { g.once.Do(func() { close(g.c) }) }

var goroutineHeader = regexp.MustCompile(`(?m)^goroutine (\d+) \[([^\],]+)`)

// blocked states: a goroutine in one of these cannot make progress by itself
var blockedStates = map[string]bool{
	"chan receive": true, "chan send": true, "select": true, "select (no cases)": true,
	"semacquire": true, "sync.Cond.Wait": true, "sync.Mutex.Lock": true, "sync.RWMutex.RLock": true,
	"sync.RWMutex.Lock": true, "sync.WaitGroup.Wait": true, "chan receive (nil chan)": true,
	"chan send (nil chan)": true, "finalizer wait": true, "GC assist wait": false,
}

// allBlocked reports whether every goroutine other than the caller is in a blocked state.
func allBlocked() bool {
	buf := make([]byte, 1<<20)
	for {
		n := runtime.Stack(buf, true)
		if n < len(buf) {
			buf = buf[:n]
			break
		}
		buf = make([]byte, 2*len(buf))
	}
	first := true
	for _, m := range goroutineHeader.FindAllSubmatch(buf, -1) {
		if first { // the calling goroutine is printed first ("running")
			first = false
			continue
		}
		st := string(bytes.TrimSpace(m[2]))
		if !blockedStates[st] {
			return false
		}
	}
	return true
}

// quiesce waits until the scenario can make no further progress: every goroutine is blocked,
// the log did not grow, observed twice in a row. pendingTimers must return true while a timer
// the scenario depends on may still fire. Returns false if no quiescence within maxWait.
// quiescePatience is read once from VERIF_PATIENCE_MS (0 = off).
var quiescePatience = func() time.Duration {
	ms, _ := strconv.Atoi(os.Getenv("VERIF_PATIENCE_MS"))
	return time.Duration(ms) * time.Millisecond
}()

func quiesce(h *hlog, maxWait time.Duration, pendingTimers func() bool) bool {
	deadline := time.Now().Add(maxWait)
	stable := 0
	last := -1
	for time.Now().Before(deadline) {
		runtime.Gosched()
		n := h.len()
		if (pendingTimers == nil || !pendingTimers()) && allBlocked() && n == last {
			stable++
			if stable >= 2 {
				if quiescePatience > 0 {
					// patience mode (VERIF_PATIENCE_MS): a quiescent state must stay quiescent; a call that
					// gives up or moves on by itself after some time (a hidden timer) shows up here
					time.Sleep(quiescePatience)
					if !(allBlocked() && h.len() == n) {
						stable = 0
						last = h.len()
						continue
					}
				}
				return true
			}
		} else {
			stable = 0
		}
		last = n
		time.Sleep(200 * time.Microsecond)
	}
	return false
}

// ctxSet manages the cancellable contexts of a scenario.
type ctxSet struct {
	ctxs    map[int]context.Context
	cancels map[int]context.CancelFunc
}

func newCtxSet() *ctxSet {
	return &ctxSet{ctxs: map[int]context.Context{}, cancels: map[int]context.CancelFunc{}}
}

func (s *ctxSet) get(id int) context.Context {
	if c, ok := s.ctxs[id]; ok {
		return c
	}
	c, cancel := context.WithCancel(context.Background())
	s.ctxs[id] = c
	s.cancels[id] = cancel
	return c
}

func (s *ctxSet) cancel(id int) {
	s.get(id)
	s.cancels[id]()
}

func (s *ctxSet) cancelAll() {
	for _, c := range s.cancels {
		c()
	}
}
