package main

// Pipelines of iterator/stream combinators built from the shared description
// (coq/theories/Iter/Syntax.v) over instrumented sources.

import (
	"context"
	"errors"
	"fmt"
	"math"
	"reflect"
	"sort"
	"strconv"

	"github.com/bradenaw/juniper/iterator"
	"github.com/bradenaw/juniper/stream"
)

func init() { components["pipes"] = runPipes }

type codeErr struct{ code int }

func (e *codeErr) Error() string { return fmt.Sprintf("scripted error %d", e.code) }

// Unwrap makes some scripted errors wrap a context error (errors.Is(err, context.Canceled) holds for them although
// they did not come from any context of the scenario): the library must report such an error like any other.
func (e *codeErr) Unwrap() error {
	// by code: errors that wrap a context error, the library's own end sentinel or its closed-pipe error, and plain ones
	switch e.code % 5 {
	case 0:
		return context.Canceled
	case 1:
		return context.DeadlineExceeded
	case 3:
		return stream.End
	case 4:
		return stream.ErrClosedPipe
	}
	return nil
}

type rec struct {
	pulls  map[int]int
	log    [][]any
	errs   map[int]*codeErr
	valSrc bool // sources are handed to the combinators by value, as an uncomparable struct type
	// checks, run at the end of the case, that slices passed as variadic arguments were not modified by the callee
	argChecks []func() bool
	// an error reported to the consumer carried a scripted code but was not the scripted error VALUE itself
	// (wrapped, copied or re-created): "errors surface intact" is about the value
	notIntact []int
}

// code maps an error reported to the consumer to its observation (errCode) and checks that a scripted error arrives
// as the very value that was injected.
func (r *rec) code(err error) any {
	var ce *codeErr
	if errors.As(err, &ce) {
		if direct, ok := err.(*codeErr); !ok || r.errs[direct.code] != direct {
			r.notIntact = append(r.notIntact, ce.code)
		}
	}
	return errCode(err)
}

// watchArgs remembers a slice that was passed to a variadic combinator as `s...`: the callee must leave the caller's
// slice alone (no element replaced by nil or by something else) - checked when the case is over.
func (r *rec) watchArgs(n int, at func(i int) any) {
	ptr := func(x any) uintptr {
		if x == nil {
			return 0
		}
		v := reflect.ValueOf(x)
		if v.Kind() == reflect.Ptr {
			return v.Pointer()
		}
		return 1
	}
	before := make([]uintptr, n)
	for i := range before {
		before[i] = ptr(at(i))
	}
	r.argChecks = append(r.argChecks, func() bool {
		for i := range before {
			if ptr(at(i)) != before[i] {
				return false
			}
		}
		return true
	})
}

func (r *rec) err(code int) error {
	if e, ok := r.errs[code]; ok {
		return e
	}
	e := &codeErr{code}
	r.errs[code] = e
	return e
}

func errCode(err error) any {
	var ce *codeErr
	switch {
	case err == stream.End:
		return []any{"end"}
	case errors.As(err, &ce):
		return []any{"err", ce.code}
	case err == context.Canceled || err == context.DeadlineExceeded:
		return []any{"err", -1}
	case err == stream.ErrEmpty:
		return []any{"err", -2}
	case err == stream.ErrMoreThanOne:
		return []any{"err", -3}
	}
	return []any{"err", -99}
}

// ---- instrumented sources

type cIter struct {
	inner iterator.Iterator[int]
	id    int
	r     *rec
}

func (c *cIter) Next() (int, bool) {
	c.r.pulls[c.id]++
	c.r.log = append(c.r.log, []any{"next", c.id})
	return c.inner.Next()
}

type cStream struct {
	inner stream.Stream[int]
	id    int
	r     *rec
}

func (c *cStream) Next(ctx context.Context) (int, error) {
	c.r.pulls[c.id]++
	c.r.log = append(c.r.log, []any{"next", c.id})
	return c.inner.Next(ctx)
}
func (c *cStream) Close() {
	c.r.log = append(c.r.log, []any{"close", c.id})
	c.inner.Close()
}

// valStream is a stream passed by value whose dynamic type is not comparable (func fields): code that compares
// streams with == panics on it.
type valStream struct {
	next  func(context.Context) (int, error)
	close func()
}

func (v valStream) Next(ctx context.Context) (int, error) { return v.next(ctx) }
func (v valStream) Close()                                { v.close() }

type scriptStream struct {
	evs [][]any
	r   *rec
	// nc: the source never looks at its context (like a slice- or channel-backed stream): a Next with an
	// expired context hands over the next scripted event all the same
	nc bool
}

func (s *scriptStream) Next(ctx context.Context) (int, error) {
	if !s.nc && ctx.Err() != nil {
		return 0, ctx.Err()
	}
	if len(s.evs) == 0 {
		return 0, stream.End
	}
	ev := s.evs[0]
	switch ev[0].(string) {
	case "item":
		s.evs = s.evs[1:]
		return num(ev[1]), nil
	case "transient":
		s.evs = s.evs[1:]
		return 0, s.r.err(num(ev[1]))
	case "panic": // this Next panics once; the event is consumed
		s.evs = s.evs[1:]
		panic("verif: source panics")
	default: // fatal: stays
		return 0, s.r.err(num(ev[1]))
	}
}
func (s *scriptStream) Close() {}

func closedChan(l []int) <-chan int {
	c := make(chan int, len(l))
	for _, x := range l {
		c <- x
	}
	close(c)
	return c
}

func iterSource(d map[string]any) iterator.Iterator[int] {
	switch d["k"].(string) {
	case "slice":
		return iterator.Slice(ints(d["l"]))
	case "counter":
		return iterator.Counter(num(d["n"]))
	case "repeat":
		return iterator.Repeat(num(d["x"]), num(d["n"]))
	case "empty":
		return iterator.Empty[int]()
	case "chan":
		return iterator.Chan(closedChan(ints(d["l"])))
	}
	panic("harness: bad iterator source " + d["k"].(string))
}

func streamSource(d map[string]any, r *rec) stream.Stream[int] {
	switch d["k"].(string) {
	case "chan":
		return stream.Chan(closedChan(ints(d["l"])))
	case "script", "scriptnc":
		evs := [][]any{}
		for _, e := range d["evs"].([]any) {
			evs = append(evs, e.([]any))
		}
		return &scriptStream{evs: evs, r: r, nc: d["k"].(string) == "scriptnc"}
	case "empty":
		return stream.Empty[int]()
	case "error":
		// stream.Error(err): the real constructor, with the scripted error value of that code (one value per code:
		// whatever reports the code must hand back this very value)
		return stream.Error[int](r.err(num(d["e"])))
	}
	return stream.FromIterator(iterSource(d))
}

// ---- callbacks

func predOf(a any) func(int) bool {
	p := a.([]any)
	switch p[0].(string) {
	case "true":
		return func(int) bool { return true }
	case "modeq":
		m, r := num(p[1]), num(p[2])
		return func(x int) bool { return ((x%m)+m)%m == r }
	case "lt":
		c := num(p[1])
		return func(x int) bool { return x < c }
	case "not":
		q := predOf(p[1])
		return func(x int) bool { return !q(x) }
	}
	panic("harness: bad pred")
}

func floorDiv(x, d int) int {
	q := x / d
	if (x%d != 0) && ((x < 0) != (d < 0)) {
		q--
	}
	return q
}

func relOf(a any) func(int, int) bool {
	p := a.([]any)
	if p[0].(string) == "eq" {
		return func(a, b int) bool { return a == b }
	}
	d := num(p[1])
	return func(a, b int) bool { return floorDiv(a, d) == floorDiv(b, d) }
}

// failing: [k|null, e, panics]: the k-th invocation (0-based) of this callback instance fails: it returns the scripted
// error e, or panics when panics is true. Iterator callbacks cannot return errors: they honour panicking records only.
func failer(a any, r *rec, errorsToo bool) func() error {
	f := a.([]any)
	if f[0] == nil {
		return func() error { return nil }
	}
	k, e := num(f[0]), num(f[1])
	pan := len(f) > 2 && f[2] == true
	n := 0
	return func() error {
		n++
		if n-1 == k {
			if pan {
				panic("verif: callback panics")
			}
			if errorsToo {
				return r.err(e)
			}
		}
		return nil
	}
}

// ---- iterator pipelines

type iterL = iterator.Iterator[[]int]

func buildIterZ(d map[string]any, r *rec, off int) iterator.Iterator[int] {
	sub := func() iterator.Iterator[int] { return buildIterZ(d["p"].(map[string]any), r, off) }
	subs := func() []iterator.Iterator[int] {
		var out []iterator.Iterator[int]
		for _, p := range d["ps"].([]any) {
			out = append(out, buildIterZ(p.(map[string]any), r, off))
		}
		return out
	}
	switch d["t"].(string) {
	case "src":
		id := num(d["id"]) + off
		r.pulls[id] += 0
		return &cIter{inner: iterSource(d["src"].(map[string]any)), id: id, r: r}
	case "peek":
		return iterator.WithPeek(sub())
	case "compact":
		rel := d["r"].([]any)
		if rel[0].(string) == "eq" {
			return iterator.Compact(sub())
		}
		return iterator.CompactFunc(sub(), relOf(d["r"]))
	case "filter":
		p, fl := predOf(d["f"]), failer(d["fl"], r, false)
		return iterator.Filter(sub(), func(x int) bool { fl(); return p(x) })
	case "first":
		return iterator.First(sub(), num(d["n"]))
	case "flatten":
		return iterator.Flatten(iterator.Slice(subs()))
	case "join":
		ss := subs()
		r.watchArgs(len(ss), func(i int) any { return ss[i] })
		return iterator.Join(ss...)
	case "map":
		f, fl := ints(d["f"]), failer(d["fl"], r, false)
		return iterator.Map(sub(), func(x int) int { fl(); return f[0]*x + f[1] })
	case "while":
		p, fl := predOf(d["f"]), failer(d["fl"], r, false)
		return iterator.While(sub(), func(x int) bool { fl(); return p(x) })
	}
	panic("harness: bad iterator pipeline node " + d["t"].(string))
}

func buildIterL(d map[string]any, r *rec, off int) iterL {
	inner := buildIterZ(d["p"].(map[string]any), r, off)
	switch d["t"].(string) {
	case "chunk":
		return iterator.Chunk(inner, num(d["n"]))
	case "runs":
		runs := iterator.Runs(inner, relOf(d["r"]))
		take := d["take"]
		return iterator.Map(runs, func(run iterator.Iterator[int]) []int {
			out := []int{}
			for take == nil || len(out) < num(take) {
				x, ok := run.Next()
				if !ok {
					break
				}
				out = append(out, x)
			}
			return out
		})
	}
	panic("harness: bad iterator list pipeline node")
}

// ---- stream pipelines

type streamL = stream.Stream[[]int]

func buildStreamZ(d map[string]any, r *rec) stream.Stream[int] {
	sub := func() stream.Stream[int] { return buildStreamZ(d["p"].(map[string]any), r) }
	subs := func() []stream.Stream[int] {
		var out []stream.Stream[int]
		for _, p := range d["ps"].([]any) {
			out = append(out, buildStreamZ(p.(map[string]any), r))
		}
		return out
	}
	switch d["t"].(string) {
	case "src":
		id := num(d["id"])
		r.pulls[id] += 0
		cs := &cStream{inner: streamSource(d["src"].(map[string]any), r), id: id, r: r}
		if r.valSrc {
			// handed over by value, as a struct of funcs: a stream type that cannot be compared with ==
			return valStream{next: cs.Next, close: cs.Close}
		}
		return cs
	case "peek":
		return stream.WithPeek(sub())
	case "compact":
		rel := d["r"].([]any)
		if rel[0].(string) == "eq" {
			return stream.Compact(sub())
		}
		return stream.CompactFunc(sub(), relOf(d["r"]))
	case "filter":
		p, fl := predOf(d["f"]), failer(d["fl"], r, true)
		return stream.Filter(sub(), func(_ context.Context, x int) (bool, error) {
			if e := fl(); e != nil {
				return false, e
			}
			return p(x), nil
		})
	case "first":
		return stream.First(sub(), num(d["n"]))
	case "flatten":
		return stream.Flatten(stream.FromIterator(iterator.Slice(subs())))
	case "join":
		ss := subs()
		r.watchArgs(len(ss), func(i int) any { return ss[i] })
		return stream.Join(ss...)
	case "map":
		f, fl := ints(d["f"]), failer(d["fl"], r, true)
		return stream.Map(sub(), func(_ context.Context, x int) (int, error) {
			if e := fl(); e != nil {
				return 0, e
			}
			return f[0]*x + f[1], nil
		})
	case "while":
		p, fl := predOf(d["f"]), failer(d["fl"], r, true)
		return stream.While(sub(), func(_ context.Context, x int) (bool, error) {
			if e := fl(); e != nil {
				return false, e
			}
			return p(x), nil
		})
	case "flattenslices":
		return stream.FlattenSlices(buildStreamL(d["p"].(map[string]any), r))
	}
	panic("harness: bad stream pipeline node " + d["t"].(string))
}

// runsTaken adapts Stream[Stream[int]] to Stream[[]int] by consuming each run as the harness consumer
// does. A consumer that gets an error from an inner Next keeps the run and what it has taken so far,
// and continues with the same run when it is called again.
type runsTaken struct {
	inner   stream.Stream[stream.Stream[int]]
	take    any
	cur     stream.Stream[int]
	partial []int
}

func (s *runsTaken) Next(ctx context.Context) ([]int, error) {
	if s.cur == nil {
		run, err := s.inner.Next(ctx)
		if err != nil {
			return nil, err
		}
		s.cur = run
		s.partial = []int{}
	}
	for s.take == nil || len(s.partial) < num(s.take) {
		x, err := s.cur.Next(ctx)
		if err == stream.End {
			break
		} else if err != nil {
			return nil, err
		}
		s.partial = append(s.partial, x)
	}
	out := s.partial
	s.cur, s.partial = nil, nil
	return out, nil
}
func (s *runsTaken) Close() { s.inner.Close() }

func buildStreamL(d map[string]any, r *rec) streamL {
	inner := buildStreamZ(d["p"].(map[string]any), r)
	switch d["t"].(string) {
	case "chunk":
		return stream.Chunk(inner, num(d["n"]))
	case "runs":
		return &runsTaken{inner: stream.Runs(inner, relOf(d["r"])), take: d["take"]}
	}
	panic("harness: bad stream list pipeline node")
}

// sumFl: the failing record of the reduction function of ["sum", fl] (absent: never fails)
func sumFl(rd []any) any {
	if len(rd) > 1 {
		return rd[1]
	}
	return []any{nil, 0, false}
}

func isListPipe(d map[string]any) bool {
	t := d["t"].(string)
	return t == "chunk" || t == "runs"
}

func pullsOf(r *rec) []int {
	ids := make([]int, 0, len(r.pulls))
	for id := range r.pulls {
		ids = append(ids, id)
	}
	sort.Ints(ids)
	out := make([]int, len(ids))
	for i, id := range ids {
		out[i] = r.pulls[id]
	}
	return out
}

// cfg: kind ("iter"|"stream"), pipe, prog ({"steps": [...]} | {"reduce": [...], "live": bool})
func runPipes(c *Case) *Obs {
	r := &rec{pulls: map[int]int{}, errs: map[int]*codeErr{}}
	r.valSrc, _ = c.Cfg["valsrc"].(bool)
	kind := c.Cfg["kind"].(string)
	pipe := c.Cfg["pipe"].(map[string]any)
	prog := c.Cfg["prog"].(map[string]any)
	o := &Obs{}
	steps := []any{}
	record := func(res any) { steps = append(steps, []any{res, pullsOf(r)}) }
	live := context.Background()
	dead, cancel := context.WithCancel(context.Background())
	cancel()
	ctxOf := func(b any) context.Context {
		if b.(bool) {
			return live
		}
		return dead
	}
	listPipe := isListPipe(pipe)

	p, _ := protect(func() {
		if kind == "iter" {
			var itZ iterator.Iterator[int]
			var itL iterL
			if listPipe {
				itL = buildIterL(pipe, r, 0)
			} else {
				itZ = buildIterZ(pipe, r, 0)
			}
			if red, ok := prog["reduce"]; ok {
				rd := red.([]any)
				var res any
				pp, _ := protect(func() {
					switch rd[0].(string) {
					case "collect":
						l := iterator.Collect(itZ)
						if l == nil {
							l = []int{}
						}
						res = []any{"val", l}
					case "last":
						l := iterator.Last(itZ, num(rd[1]))
						if l == nil {
							l = []int{}
						}
						res = []any{"val", l}
					case "one":
						x, ok := iterator.One(itZ)
						if ok {
							res = []any{"val", []int{x}}
						} else {
							res = []any{"end"}
						}
					case "sum":
						fl := failer(sumFl(rd), r, false)
						res = []any{"val", []int{iterator.Reduce(itZ, 0, func(a, x int) int { fl(); return a + x })}}
					case "equal":
						its := []iterator.Iterator[int]{itZ}
						for _, q := range rd[1].([]any) {
							its = append(its, buildIterZ(q.(map[string]any), r, 0))
						}
						eq := 0
						if iterator.Equal(its...) {
							eq = 1
						}
						res = []any{"val", []int{eq}}
					case "equalself":
						other := buildIterZ(pipe, r, 1000)
						eq := 0
						if iterator.Equal(itZ, other) {
							eq = 1
						}
						res = []any{"val", []int{eq}}
					}
				})
				if pp {
					res = []any{"panic"}
				}
				record(res)
				return
			}
			for _, st := range prog["steps"].([]any) {
				s := st.([]any)
				var res any
				pp, _ := protect(func() {
					if s[0].(string) == "close" {
						res = []any{"unit"}
						return
					}
					if listPipe {
						l, ok := itL.Next()
						if ok {
							if l == nil {
								l = []int{}
							}
							res = []any{"iteml", l}
						} else {
							res = []any{"end"}
						}
					} else {
						x, ok := itZ.Next()
						if ok {
							res = []any{"item", x}
						} else {
							res = []any{"end"}
						}
					}
				})
				if pp {
					// the caller recovered: the history goes on with the same pipeline
					record([]any{"panic"})
					continue
				}
				record(res)
			}
			return
		}
		// streams
		var sZ stream.Stream[int]
		var sL streamL
		if listPipe {
			sL = buildStreamL(pipe, r)
		} else {
			sZ = buildStreamZ(pipe, r)
		}
		if red, ok := prog["reduce"]; ok {
			rd := red.([]any)
			ctx := ctxOf(prog["live"])
			var res any
			pp, _ := protect(func() {
				switch rd[0].(string) {
				case "collect":
					l, err := stream.Collect(ctx, sZ)
					if err != nil {
						res = r.code(err)
					} else {
						if l == nil {
							l = []int{}
						}
						res = []any{"val", l}
					}
				case "last":
					l, err := stream.Last(ctx, sZ, num(rd[1]))
					if err != nil {
						res = r.code(err)
					} else {
						if l == nil {
							l = []int{}
						}
						res = []any{"val", l}
					}
				case "one":
					x, err := stream.One(ctx, sZ)
					if err != nil {
						res = r.code(err)
					} else {
						res = []any{"val", []int{x}}
					}
				case "sum":
					fl := failer(sumFl(rd), r, true)
					x, err := stream.Reduce(ctx, sZ, 0, func(a, x int) (int, error) {
						if e := fl(); e != nil {
							return 0, e
						}
						return a + x, nil
					})
					if err != nil {
						res = r.code(err)
					} else {
						res = []any{"val", []int{x}}
					}
				}
			})
			if pp {
				res = []any{"panic"}
			}
			record(res)
			return
		}
		for _, st := range prog["steps"].([]any) {
			s := st.([]any)
			var res any
			pp, _ := protect(func() {
				if s[0].(string) == "close" {
					if listPipe {
						sL.Close()
					} else {
						sZ.Close()
					}
					res = []any{"unit"}
					return
				}
				ctx := ctxOf(s[1])
				if listPipe {
					l, err := sL.Next(ctx)
					if err != nil {
						res = r.code(err)
					} else {
						if l == nil {
							l = []int{}
						}
						res = []any{"iteml", l}
					}
				} else {
					x, err := sZ.Next(ctx)
					if err != nil {
						res = r.code(err)
					} else {
						res = []any{"item", x}
					}
				}
			})
			if pp {
				record([]any{"panic"})
				continue
			}
			record(res)
		}
	})
	if p {
		record([]any{"panic"})
	}
	o.Obs = steps
	if r.log == nil {
		r.log = [][]any{}
	}
	argsIntact := true
	for _, chk := range r.argChecks {
		if !chk() {
			argsIntact = false
		}
	}
	if r.notIntact == nil {
		r.notIntact = []int{}
	}
	o.Aux = map[string]any{"log": r.log, "args_intact": argsIntact, "errors_not_intact": r.notIntact}
	return o
}

func init() { components["xs"] = runXS }

// xslices counterparts of Chunk / Runs (C07: "the iterator, stream and xslices versions agree").
// cfg: fn ("chunk"|"runs"), l, n (chunk size) or r (relation)
func runXS(c *Case) *Obs {
	o := &Obs{}
	l := ints(c.Cfg["l"])
	var res any
	p, _ := protect(func() {
		var out [][]int
		if c.Cfg["fn"].(string) == "chunk" {
			n := 0
			if sv, ok := c.Cfg["n"].(string); ok { // "maxint-K": sizes that do not survive JSON numbers
				k, _ := strconv.Atoi(sv[len("maxint-"):])
				n = math.MaxInt - k
			} else {
				n = num(c.Cfg["n"])
			}
			out = xslicesChunk(l, n)
		} else {
			out = xslicesRuns(l, relOf(c.Cfg["r"]))
		}
		r := [][]int{}
		for _, x := range out {
			y := []int{}
			y = append(y, x...)
			r = append(r, y)
		}
		res = []any{"lists", r}
	})
	if p {
		res = []any{"panic"}
	}
	o.Obs = []any{res}
	return o
}

func init() { components["samplestream"] = runSampleStream }

// C09: xrand.SampleStream takes ownership of its stream. cfg: evs (script), k, live (ctx), seed.
func runSampleStream(c *Case) *Obs {
	r := &rec{pulls: map[int]int{}, errs: map[int]*codeErr{}}
	evs := [][]any{}
	for _, e := range c.Cfg["evs"].([]any) {
		evs = append(evs, e.([]any))
	}
	src := &cStream{inner: &scriptStream{evs: evs, r: r}, id: 0, r: r}
	ctx := context.Background()
	if live, _ := c.Cfg["live"].(bool); !live {
		cctx, cancel := context.WithCancel(ctx)
		cancel()
		ctx = cctx
	}
	o := &Obs{}
	var res any
	p, _ := protect(func() {
		out, err := xrandSampleStream(ctx, int64(num(c.Cfg["seed"])), src, num(c.Cfg["k"]))
		if err != nil {
			res = errCode(err)
		} else {
			if out == nil {
				out = []int{}
			}
			res = []any{"val", out}
		}
	})
	if p {
		res = []any{"panic"}
	}
	o.Obs = []any{[]any{res, pullsOf(r)}}
	if r.log == nil {
		r.log = [][]any{}
	}
	o.Aux = map[string]any{"log": r.log}
	return o
}
