package main

import (
	"github.com/bradenaw/juniper/container/deque"
	"github.com/bradenaw/juniper/iterator"
	"math"
)

func init() { components["deque"] = runDeque }

func runDeque(c *Case) *Obs {
	var d deque.Deque[int]
	var its []iterator.Iterator[int]
	o := &Obs{}
	for _, op := range c.Ops {
		name := op[0].(string)
		var res any
		p, _ := protect(func() {
			switch name {
			case "pushfront":
				d.PushFront(num(op[1]))
				res = []any{"unit"}
			case "pushback":
				d.PushBack(num(op[1]))
				res = []any{"unit"}
			case "popfront":
				res = []any{"val", d.PopFront()}
			case "popback":
				res = []any{"val", d.PopBack()}
			case "front":
				res = []any{"val", d.Front()}
			case "back":
				res = []any{"val", d.Back()}
			case "item":
				res = []any{"val", d.Item(num(op[1]))}
			case "set":
				d.Set(num(op[1]), num(op[2]))
				res = []any{"unit"}
			case "len":
				res = []any{"int", d.Len()}
			case "grow":
				n := 0
				if name, ok := op[1].(string); ok { // huge arguments travel by name
					n = map[string]int{"maxint": math.MaxInt, "maxint-16": math.MaxInt - 16, "maxint/2": math.MaxInt / 2}[name]
				} else {
					n = num(op[1])
				}
				d.Grow(n)
				res = []any{"unit"}
			case "shrink":
				d.Shrink(num(op[1]))
				res = []any{"unit"}
			case "iterate":
				// bounded drain: an iterator that spins is an observation, not a hang
				it := d.Iterate()
				l := []int{}
				limit := d.Len() + 2
				for i := 0; ; i++ {
					x, ok := it.Next()
					if !ok {
						break
					}
					if i >= limit {
						res = []any{"bad"}
						return
					}
					l = append(l, x)
				}
				res = []any{"list", l}
			case "iternew":
				its = append(its, d.Iterate())
				res = []any{"unit"}
			case "iternext":
				j := num(op[1])
				if j >= len(its) {
					res = []any{"bad"}
					return
				}
				x, ok := its[j].Next()
				if ok {
					res = []any{"val", x}
				} else {
					res = []any{"end"}
				}
			default:
				panic("harness: unknown op " + name)
			}
		})
		if p {
			res = []any{"panic"}
		}
		o.Obs = append(o.Obs, res)
		isNil, capacity, front, back, _ := d.VerifState()
		o.Raw = append(o.Raw, []any{isNil, capacity, front, back, d.VerifSlots()})
	}
	return o
}
