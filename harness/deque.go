package main

import (
	"github.com/bradenaw/juniper/container/deque"
	"github.com/bradenaw/juniper/iterator"
	"math"
)

func init() { components["deque"] = runDeque }

// The history is run on Deque[int] or, with cfg "inst" = "any", on Deque[any] in which the value 0 is the nil
// interface (a deque must treat a nil element like any other element).
func runDeque(c *Case) *Obs {
	if inst, _ := c.Cfg["inst"].(string); inst == "any" {
		return runDequeT[any](c, func(v int) any {
			if v == 0 {
				return nil
			}
			return v
		}, func(x any) int {
			if x == nil {
				return 0
			}
			if v, ok := x.(int); ok {
				return v
			}
			return -987654321
		})
	}
	return runDequeT[int](c, func(v int) int { return v }, func(x int) int { return x })
}

func runDequeT[T any](c *Case, mk func(int) T, un func(T) int) *Obs {
	var d deque.Deque[T]
	var its []iterator.Iterator[T]
	o := &Obs{}
	for _, op := range c.Ops {
		name := op[0].(string)
		var res any
		p, _ := protect(func() {
			switch name {
			case "pushfront":
				d.PushFront(mk(num(op[1])))
				res = []any{"unit"}
			case "pushback":
				d.PushBack(mk(num(op[1])))
				res = []any{"unit"}
			case "popfront":
				res = []any{"val", un(d.PopFront())}
			case "popback":
				res = []any{"val", un(d.PopBack())}
			case "front":
				res = []any{"val", un(d.Front())}
			case "back":
				res = []any{"val", un(d.Back())}
			case "item":
				res = []any{"val", un(d.Item(num(op[1])))}
			case "set":
				d.Set(num(op[1]), mk(num(op[2])))
				res = []any{"unit"}
			case "len":
				res = []any{"int", d.Len()}
			case "grow":
				n := 0
				if name, ok := op[1].(string); ok { // huge arguments travel by name
					n = map[string]int{"maxint": math.MaxInt, "maxint-16": math.MaxInt - 16, "maxint/2": math.MaxInt / 2}[name]
				} else {
					n = num(op[1])
				}
				d.Grow(n)
				res = []any{"unit"}
			case "shrink":
				d.Shrink(num(op[1]))
				res = []any{"unit"}
			case "iterate":
				// bounded drain: an iterator that spins is an observation, not a hang
				it := d.Iterate()
				l := []int{}
				limit := d.Len() + 2
				for i := 0; ; i++ {
					x, ok := it.Next()
					if !ok {
						break
					}
					if i >= limit {
						res = []any{"bad"}
						return
					}
					l = append(l, un(x))
				}
				res = []any{"list", l}
			case "iternew":
				its = append(its, d.Iterate())
				res = []any{"unit"}
			case "iternext":
				j := num(op[1])
				if j >= len(its) {
					res = []any{"bad"}
					return
				}
				x, ok := its[j].Next()
				if ok {
					res = []any{"val", un(x)}
				} else {
					res = []any{"end"}
				}
			default:
				panic("harness: unknown op " + name)
			}
		})
		if p {
			res = []any{"panic"}
		}
		o.Obs = append(o.Obs, res)
		isNil, capacity, front, back, _ := d.VerifState()
		raw := d.VerifSlots()
		slots := make([]int, len(raw))
		for i, x := range raw {
			slots[i] = un(x)
		}
		o.Raw = append(o.Raw, []any{isNil, capacity, front, back, slots})
	}
	return o
}
