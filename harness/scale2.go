package main

// Further self-checking scenarios of the "scale" component: clauses that the controller-script scenarios cannot reach
// because they need a real garbage collection, callbacks that do not watch their context, long idle periods or many
// goroutines entering a call in the same instant. Each is evaluated by the harness itself.

import (
	"context"
	"errors"
	"fmt"
	"math"
	"math/rand"
	"runtime"
	"strconv"
	"sync"
	"sync/atomic"
	"time"

	"github.com/bradenaw/juniper/chans"
	"github.com/bradenaw/juniper/container/deque"
	"github.com/bradenaw/juniper/container/tree"
	"github.com/bradenaw/juniper/container/xheap"
	"github.com/bradenaw/juniper/iterator"
	"github.com/bradenaw/juniper/parallel"
	"github.com/bradenaw/juniper/stream"
	"github.com/bradenaw/juniper/xsync"
)

var extraScale = map[string]func(c *Case, res map[string]any, fail func(string, ...any)){
	"tree-gc":                 scaleTreeGC,
	"mapstream-close-busy":    scaleMapStreamCloseBusy,
	"mapstream-ferr-storm":    scaleMapStreamFerrStorm,
	"pipe-trysend-storm":      scalePipeTrySendStorm,
	"pipe-idle-next":          scalePipeIdleNext,
	"chans-merge-iface":       scaleChansMergeIface,
	"deque-gc":                scaleDequeGC,
	"watchable-nil":           scaleWatchableNil,
	"lazy-panic":              scaleLazyPanic,
	"xmap-swap-storm":         scaleXMapSwapStorm,
	"do-empty":                scaleDoEmpty,
	"pq-nan-keys":             scalePQNaNKeys,
	"pipe-two-instances":      scalePipeTwoInstances,
	"chans-merge-concurrent":  scaleChansMergeConcurrent,
	"mapstream-two-instances": scaleMapStreamTwoInstances,
	"do-nested-last":          scaleDoNestedLast,
	"pipe-send-storm":         scalePipeSendStorm,
	"pipe-close-error-storm":  scalePipeCloseErrorStorm,
	"smerge-many":             scaleSMergeMany,
}

// ---- C03: keys and values that were deleted or moved elsewhere can be garbage collected.
// Keys and values are heap objects with finalizers; the scenario (run in a goroutine of its own, so that no stack
// slot of it survives) fills a map, deletes most of it and keeps nothing but the map. After a garbage collection
// every deleted key and value, and every value that was overwritten, must have been finalized, however the
// map is organised inside: whatever the Map value still reaches counts as "referenced from the live structure".

type gcBox struct {
	id   int
	k    int
	self *gcBox // a pointer field: never served by the tiny allocator
	pad  [3]int
}

func scaleTreeGC(c *Case, res map[string]any, fail func(string, ...any)) {
	n := num(c.Cfg["n"])
	order, _ := c.Cfg["order"].(string)
	drain, _ := c.Cfg["drain"].(string)
	keep := num(c.Cfg["keep"])
	rng := rand.New(rand.NewSource(int64(num(c.Cfg["seed"]))))
	var mu sync.Mutex
	finalized := map[int]bool{}
	nextID := 0
	mk := func(k int) *gcBox {
		mu.Lock()
		id := nextID
		nextID++
		mu.Unlock()
		b := &gcBox{id: id, k: k}
		runtime.SetFinalizer(b, func(o *gcBox) {
			mu.Lock()
			finalized[o.id] = true
			mu.Unlock()
		})
		return b
	}
	type want struct {
		dead    []int         // ids that must be collectable
		liveVal map[int]int   // key -> id of its current value
		keyIDs  map[int][]int // key -> ids of the key boxes handed to Put since the key was last absent
	}
	w := &want{liveVal: map[int]int{}, keyIDs: map[int][]int{}}
	var m tree.Map[*gcBox, *gcBox]
	done := make(chan struct{})
	go func() {
		defer close(done)
		m = tree.NewMap[*gcBox, *gcBox](func(a, b *gcBox) bool { return a.k < b.k })
		probe := &gcBox{}
		put := func(k int) {
			kb, vb := mk(k), mk(k)
			if old, ok := w.liveVal[k]; ok {
				w.dead = append(w.dead, old)
			}
			w.liveVal[k] = vb.id
			w.keyIDs[k] = append(w.keyIDs[k], kb.id)
			m.Put(kb, vb)
		}
		del := func(k int) {
			if _, ok := w.liveVal[k]; !ok {
				return
			}
			probe.k = k
			m.Delete(probe)
			w.dead = append(w.dead, w.liveVal[k])
			w.dead = append(w.dead, w.keyIDs[k]...)
			delete(w.liveVal, k)
			delete(w.keyIDs, k)
		}
		ks := make([]int, n)
		for i := range ks {
			ks[i] = i
		}
		switch order {
		case "desc":
			for i := range ks {
				ks[i] = n - 1 - i
			}
		case "rand":
			rng.Shuffle(n, func(i, j int) { ks[i], ks[j] = ks[j], ks[i] })
		}
		for _, k := range ks {
			put(k)
		}
		for i := 0; i < n/10; i++ { // overwrites: the old value must go
			put(rng.Intn(n))
		}
		reads := func() {
			// look-ups and finished ranges must leave nothing behind that keeps removed entries alive
			// (a cached extreme leaf, a cursor kept by the map, ...)
			m.First()
			m.Last()
			probe.k = rng.Intn(n + 1)
			m.Get(probe)
			m.Contains(probe)
			it := m.Range(tree.Unbounded[*gcBox](), tree.Unbounded[*gcBox]())
			for j := 0; j < 3; j++ {
				it.Next()
			}
			rit := m.RangeReverse(tree.Unbounded[*gcBox](), tree.Unbounded[*gcBox]())
			for {
				if _, ok := rit.Next(); !ok {
					break
				}
			}
		}
		doReads := c.Cfg["reads"] == true
		if doReads {
			reads()
		}
		var victims []int
		switch drain {
		case "top":
			for k := n - 1; k >= keep; k-- {
				victims = append(victims, k)
			}
		case "bottom":
			for k := 0; k < n-keep; k++ {
				victims = append(victims, k)
			}
		case "everyother":
			for k := 0; k < n; k += 2 {
				victims = append(victims, k)
			}
			for k := 1; k < n && len(victims) < n-keep; k += 2 {
				victims = append(victims, k)
			}
		default:
			p := rng.Perm(n)
			victims = p[:n-keep]
		}
		for i, k := range victims {
			del(k)
			if doReads && i%97 == 5 {
				reads()
			}
			if i%7 == 3 && c.Cfg["refill"] == true {
				put(n + i)
				del(n + i)
			}
		}
	}()
	<-done
	if m.Len() != len(w.liveVal) {
		fail("Len() = %d with %d keys stored", m.Len(), len(w.liveVal))
		return
	}
	missing := func() []int {
		mu.Lock()
		defer mu.Unlock()
		var out []int
		for _, id := range w.dead {
			if !finalized[id] {
				out = append(out, id)
			}
		}
		return out
	}
	deadline := time.Now().Add(20 * time.Second)
	var miss []int
	for {
		runtime.GC()
		time.Sleep(5 * time.Millisecond)
		miss = missing()
		if len(miss) == 0 || time.Now().After(deadline) {
			break
		}
	}
	// key boxes of present keys: the map may keep the first or the latest one handed to Put, but only one
	extraKeys := 0
	mu.Lock()
	for _, ids := range w.keyIDs {
		alive := 0
		for _, id := range ids {
			if !finalized[id] {
				alive++
			}
		}
		if alive > 1 {
			extraKeys += alive - 1
		}
	}
	for _, id := range w.liveVal {
		if finalized[id] {
			mu.Unlock()
			fail("a value still stored in the map was garbage collected (harness error?)")
			return
		}
	}
	mu.Unlock()
	res["deleted_objects"] = len(w.dead)
	res["stored_keys"] = len(w.liveVal)
	if len(miss) > 0 {
		fail("after filling %d keys (%s) and deleting all but %d (%s), %d of the %d deleted or overwritten keys/values are still reachable from the map after garbage collection", n, order, len(w.liveVal), drain, len(miss), len(w.dead))
	} else if extraKeys > 0 {
		fail("%d superseded key objects of keys that are still present remain reachable from the map after garbage collection", extraKeys)
	}
	runtime.KeepAlive(m)
}

// ---- C14: MapStream's Close, at any moment, returns after all workers have stopped and the source has been closed -
// also when a call of f (or the source's Next) does not watch its context and takes long.

type busySrc struct {
	n       int
	i       int
	holdAt  int
	hold    chan struct{}
	entered atomic.Int32
	closed  atomic.Int32
	inNext  atomic.Int32
}

func (s *busySrc) Next(ctx context.Context) (int, error) {
	s.inNext.Add(1)
	defer s.inNext.Add(-1)
	if s.i == s.holdAt {
		s.entered.Store(1)
		<-s.hold // does not watch ctx
	}
	if s.i >= s.n {
		return 0, stream.End
	}
	s.i++
	return s.i - 1, nil
}
func (s *busySrc) Close() { s.closed.Add(1) }

func scaleMapStreamCloseBusy(c *Case, res map[string]any, fail func(string, ...any)) {
	hold := time.Duration(num(c.Cfg["hold_ms"])) * time.Millisecond
	who, _ := c.Cfg["who"].(string) // "f" or "src"
	par := num(c.Cfg["p"])
	n := 6
	release := make(chan struct{})
	var fIn, fOut atomic.Int32
	var held atomic.Int32
	src := &busySrc{n: n, holdAt: -1, hold: release}
	if who == "src" {
		src.holdAt = 2
	}
	f := func(ctx context.Context, x int) (int, error) {
		fIn.Add(1)
		defer fOut.Add(1)
		if who == "f" && x == 1 {
			held.Store(1)
			<-release // a long computation / blocking call that does not watch ctx
		}
		return x * 2, nil
	}
	st := parallel.MapStream[int, int](context.Background(), src, par, 2, f)
	wait := func(cond func() bool, what string) bool {
		dl := time.Now().Add(10 * time.Second)
		for !cond() {
			if time.Now().After(dl) {
				fail("timeout waiting for %s", what)
				return false
			}
			time.Sleep(200 * time.Microsecond)
		}
		return true
	}
	// pull one result so that the pipeline is running
	if v, err := st.Next(context.Background()); err != nil || v != 0 {
		fail("first Next returned (%d, %v)", v, err)
		return
	}
	if who == "f" {
		if !wait(func() bool { return held.Load() == 1 }, "f(1) to start") {
			return
		}
	} else if !wait(func() bool { return src.entered.Load() == 1 }, "the source's third Next to start") {
		return
	}
	closed := make(chan struct{})
	var busyAtReturn, srcClosedAtReturn int32
	go func() {
		st.Close()
		busyAtReturn = fIn.Load() - fOut.Load() + src.inNext.Load()
		srcClosedAtReturn = src.closed.Load()
		close(closed)
	}()
	select {
	case <-closed:
		fail("Close returned %s while %s was still running (calls in progress at that moment: %d, source closed: %v)",
			"within "+hold.String(), map[string]string{"f": "a call of f", "src": "the source's Next"}[who], busyAtReturn, srcClosedAtReturn == 1)
		close(release)
		return
	case <-time.After(hold):
	}
	close(release)
	select {
	case <-closed:
	case <-time.After(10 * time.Second):
		fail("Close did not return within 10s after the blocked call had returned")
		return
	}
	if busyAtReturn != 0 {
		fail("Close returned with %d calls of f / source.Next still in progress", busyAtReturn)
	}
	if srcClosedAtReturn != 1 {
		fail("when Close returned the source had been closed %d times", srcClosedAtReturn)
	}
}

// ---- C14: a failure surfaces as an error that the source or a call of f actually returned, the first one -
// not a cancellation the library caused itself. Many calls of f are parked on the context when one fails.

func scaleMapStreamFerrStorm(c *Case, res map[string]any, fail func(string, ...any)) {
	trials := num(c.Cfg["trials"])
	par := num(c.Cfg["p"])
	errX := errors.New("f failed on item 0")
	for t := 0; t < trials; t++ {
		var parked atomic.Int32
		f := func(ctx context.Context, x int) (int, error) {
			if x == 0 {
				dl := time.Now().Add(2 * time.Second)
				for int(parked.Load()) < par-1 && time.Now().Before(dl) {
					runtime.Gosched()
				}
				for i := 0; i < t%5; i++ {
					runtime.Gosched()
				}
				return 0, errX
			}
			parked.Add(1)
			<-ctx.Done()
			if x%2 == 0 {
				return x, nil
			}
			return 0, ctx.Err()
		}
		items := make([]int, par)
		for i := range items {
			items[i] = i
		}
		st := parallel.MapStream[int, int](context.Background(), stream.FromIterator(iterator.Slice(items)), par, par, f)
		ctx, cancel := context.WithTimeout(context.Background(), 10*time.Second)
		var err error
		for {
			_, err = st.Next(ctx)
			if err != nil {
				break
			}
		}
		cancel()
		st.Close()
		if err != errX {
			fail("trial %d: f failed with %q on item 0 while %d other calls were parked on the context; Next reported %q", t, errX, par-1, err)
			return
		}
	}
}

// ---- C10: TrySend never blocks - also when many callers find the last free slot in the same instant.

func scalePipeTrySendStorm(c *Case, res map[string]any, fail func(string, ...any)) {
	rounds := num(c.Cfg["rounds"])
	k := num(c.Cfg["k"])
	capn := num(c.Cfg["cap"])
	for r := 0; r < rounds; r++ {
		sender, recv := stream.Pipe[int](capn)
		var start atomic.Bool
		var wins, returned atomic.Int32
		var wg sync.WaitGroup
		for g := 0; g < k; g++ {
			wg.Add(1)
			go func(g int) {
				defer wg.Done()
				for !start.Load() {
				}
				ok, err := sender.TrySend(context.Background(), g)
				if ok && err == nil {
					wins.Add(1)
				}
				returned.Add(1)
			}(g)
		}
		time.Sleep(50 * time.Microsecond)
		start.Store(true)
		done := make(chan struct{})
		go func() { wg.Wait(); close(done) }()
		select {
		case <-done:
		case <-time.After(3 * time.Second):
			fail("round %d: %d goroutines called TrySend on Pipe(%d) that nobody reads; after 3s only %d calls have returned", r, k, capn, returned.Load())
			sender.Close(nil)
			recv.Close()
			return
		}
		want := capn
		if k < want {
			want = k
		}
		if int(wins.Load()) != want {
			fail("round %d: %d concurrent TrySend calls on an empty Pipe(%d) that nobody reads: %d reported success, want %d", r, k, capn, wins.Load(), want)
			return
		}
		sender.Close(nil)
		recv.Close()
	}
}

// ---- C10: Next returns once a value is available, the sender closes or its context expires - and for no other
// reason, however long the pipe stays idle.

func scalePipeIdleNext(c *Case, res map[string]any, fail func(string, ...any)) {
	hold := time.Duration(num(c.Cfg["hold_ms"])) * time.Millisecond
	sender, recv := stream.Pipe[int](num(c.Cfg["cap"]))
	type r struct {
		v   int
		err error
	}
	out := make(chan r, 1)
	go func() {
		v, err := recv.Next(context.Background())
		out <- r{v, err}
	}()
	select {
	case x := <-out:
		fail("Next on an open, idle pipe returned (%d, %v) after less than %s although nothing was sent, closed or cancelled", x.v, x.err, hold)
		return
	case <-time.After(hold):
	}
	if err := sender.Send(context.Background(), 42); err != nil {
		fail("Send after the idle period failed: %v", err)
		return
	}
	select {
	case x := <-out:
		if x.err != nil || x.v != 42 {
			fail("Next returned (%d, %v) for the value 42 sent after an idle period of %s", x.v, x.err, hold)
		}
	case <-time.After(5 * time.Second):
		fail("Next did not return the value sent after an idle period")
	}
	sender.Close(nil)
	recv.Close()
}

// ---- C12: chans.Merge / Replicate forward every value of an interface-typed channel, nil values included, on all
// code paths (1, 2, 3 inputs and the reflect.Select path for 0 or >= 4 inputs).

func scaleChansMergeIface(c *Case, res map[string]any, fail func(string, ...any)) {
	n := num(c.Cfg["n"])
	errA := errors.New("a")
	vals := []error{nil, errA, nil}
	ins := make([]<-chan error, n)
	for i := range ins {
		ch := make(chan error, len(vals))
		for _, v := range vals {
			ch <- v
		}
		close(ch)
		ins[i] = ch
	}
	out := make(chan error, n*len(vals)+1)
	chans.Merge(out, ins...)
	nils, as := 0, 0
	for len(out) > 0 {
		if v := <-out; v == nil {
			nils++
		} else if v == errA {
			as++
		} else {
			fail("Merge forwarded a value that was never sent: %v", v)
		}
	}
	if nils != 2*n || as != n {
		fail("Merge over %d channels of error values [nil, a, nil] forwarded %d nil values and %d times a (want %d and %d)", n, nils, as, 2*n, n)
	}
	// Replicate
	src := make(chan error, len(vals))
	for _, v := range vals {
		src <- v
	}
	close(src)
	dsts := make([]chan error, 2)
	dd := make([]chan<- error, 2)
	for i := range dsts {
		dsts[i] = make(chan error, len(vals))
		dd[i] = dsts[i]
	}
	chans.Replicate(src, dd...)
	for i, d := range dsts {
		if len(d) != len(vals) {
			fail("Replicate delivered %d of %d values to destination %d", len(d), len(vals), i)
			continue
		}
		for j, want := range vals {
			if got := <-d; got != want {
				fail("Replicate: destination %d value %d is %v, want %v", i, j, got, want)
			}
		}
	}
}

// ---- C04: elements that have been popped are not retained by the deque - wherever the deque might keep them
// (slots outside the live window, capacity beyond len, a second buffer ...). Elements are heap objects with
// finalizers; after a garbage collection every popped or overwritten one must have been finalized.

func scaleDequeGC(c *Case, res map[string]any, fail func(string, ...any)) {
	rng := rand.New(rand.NewSource(int64(num(c.Cfg["seed"]))))
	steps := num(c.Cfg["steps"])
	style, _ := c.Cfg["style"].(string)
	var mu sync.Mutex
	finalized := map[int]bool{}
	nextID := 0
	mk := func() *gcBox {
		mu.Lock()
		id := nextID
		nextID++
		mu.Unlock()
		b := &gcBox{id: id}
		runtime.SetFinalizer(b, func(o *gcBox) {
			mu.Lock()
			finalized[o.id] = true
			mu.Unlock()
		})
		return b
	}
	var dead []int
	var live []int // ids currently stored, front to back
	d := new(deque.Deque[*gcBox])
	done := make(chan struct{})
	go func() {
		defer close(done)
		pushB := func() { b := mk(); live = append(live, b.id); d.PushBack(b) }
		pushF := func() { b := mk(); live = append([]int{b.id}, live...); d.PushFront(b) }
		popF := func() {
			if len(live) > 0 {
				dead = append(dead, live[0])
				live = live[1:]
				d.PopFront()
			}
		}
		popB := func() {
			if len(live) > 0 {
				dead = append(dead, live[len(live)-1])
				live = live[:len(live)-1]
				d.PopBack()
			}
		}
		if style == "offset-shrink" {
			// a front offset larger than the new capacity at the time of Shrink, then the survivors are popped
			for i := 0; i < 16; i++ {
				pushB()
			}
			for i := 0; i < 8; i++ {
				popF()
			}
			d.Shrink(0)
			for len(live) > 0 {
				popF()
			}
		}
		for i := 0; i < steps; i++ {
			switch r := rng.Intn(100); {
			case r < 30:
				pushB()
			case r < 45:
				pushF()
			case r < 62:
				popF()
			case r < 78:
				popB()
			case r < 84:
				d.Shrink(rng.Intn(3))
			case r < 88:
				d.Grow(rng.Intn(40))
			case r < 92 && len(live) > 0:
				k := rng.Intn(len(live))
				b := mk()
				dead = append(dead, live[k])
				live[k] = b.id
				d.Set(k, b)
			case r < 96:
				for j := rng.Intn(20); j > 0; j-- {
					pushB()
				}
			default:
				for j := rng.Intn(25); j > 0; j-- {
					popF()
				}
			}
		}
		if c.Cfg["drain"] == true {
			for len(live) > 0 {
				if rng.Intn(2) == 0 {
					popF()
				} else {
					popB()
				}
			}
			d.Shrink(rng.Intn(2))
		}
	}()
	<-done
	if d.Len() != len(live) {
		fail("Len() = %d with %d elements stored", d.Len(), len(live))
		return
	}
	deadline := time.Now().Add(20 * time.Second)
	miss := 0
	for {
		runtime.GC()
		time.Sleep(5 * time.Millisecond)
		miss = 0
		mu.Lock()
		for _, id := range dead {
			if !finalized[id] {
				miss++
			}
		}
		mu.Unlock()
		if miss == 0 || time.Now().After(deadline) {
			break
		}
	}
	mu.Lock()
	for _, id := range live {
		if finalized[id] {
			mu.Unlock()
			fail("an element still stored in the deque was garbage collected (harness error?)")
			return
		}
	}
	mu.Unlock()
	res["popped_objects"] = len(dead)
	if miss > 0 {
		fail("%d of the %d popped or overwritten elements are still reachable from the deque after garbage collection (%d elements stored, style %q)", miss, len(dead), len(live), style)
	}
	runtime.KeepAlive(d)
}

// ---- C18 extras (self-checking)

// Watchable of an interface type: Set(nil) is a Set like any other (the value becomes nil, the channel handed out
// before is closed).
func scaleWatchableNil(c *Case, res map[string]any, fail func(string, ...any)) {
	var w xsync.Watchable[error]
	e1 := errors.New("e1")
	if v, _ := w.Value(); v != nil {
		fail("zero Watchable[error] holds %v", v)
	}
	w.Set(e1)
	v, ch := w.Value()
	if v != e1 {
		fail("Value after Set(e1) returned %v", v)
	}
	w.Set(nil)
	select {
	case <-ch:
	default:
		fail("the channel returned with e1 is not closed after Set(nil)")
	}
	v2, ch2 := w.Value()
	if v2 != nil {
		fail("Value after Set(nil) returned %v", v2)
	}
	select {
	case <-ch2:
		fail("the channel returned with the latest value is closed although no later Set happened")
	default:
	}
	var wa xsync.Watchable[any]
	wa.Set(5)
	_, ch3 := wa.Value()
	wa.Set(nil)
	select {
	case <-ch3:
	default:
		fail("Watchable[any]: the channel is not closed after Set(nil)")
	}
	if v, _ := wa.Value(); v != nil {
		fail("Watchable[any]: Value after Set(nil) returned %v", v)
	}
}

// Lazy runs its function once - also when that one run panicked (sync.OnceValue: every call then panics with the same
// value, f is not run again).
func scaleLazyPanic(c *Case, res map[string]any, fail func(string, ...any)) {
	var runs atomic.Int32
	f := xsync.Lazy(func() int {
		n := runs.Add(1)
		if n == 1 {
			panic("first run panics")
		}
		return int(n) * 100
	})
	outcomes := []string{}
	for i := 0; i < 3; i++ {
		func() {
			defer func() {
				if r := recover(); r != nil {
					outcomes = append(outcomes, "panic")
				}
			}()
			outcomes = append(outcomes, "value "+strconv.Itoa(f()))
		}()
	}
	if runs.Load() != 1 {
		fail("the function of a Lazy was run %d times (first run panicked, caller recovered, called again): outcomes %v", runs.Load(), outcomes)
	}
	// concurrent first calls with a panicking f
	var runs2 atomic.Int32
	gate := make(chan struct{})
	g := xsync.Lazy(func() int {
		runs2.Add(1)
		<-gate
		panic("boom")
	})
	var wg sync.WaitGroup
	for i := 0; i < 4; i++ {
		wg.Add(1)
		go func() {
			defer wg.Done()
			defer func() { recover() }()
			g()
		}()
	}
	time.Sleep(2 * time.Millisecond)
	close(gate)
	wg.Wait()
	func() {
		defer func() { recover() }()
		g()
	}()
	if runs2.Load() != 1 {
		fail("with 4 concurrent first calls and a later one, a panicking Lazy function was run %d times", runs2.Load())
	}
}

// xsync.Map.Swap is atomic like sync.Map.Swap: concurrent Swaps on one key hand each previous value to exactly one caller.
func scaleXMapSwapStorm(c *Case, res map[string]any, fail func(string, ...any)) {
	rounds := num(c.Cfg["rounds"])
	k := num(c.Cfg["k"])
	for r := 0; r < rounds; r++ {
		var m xsync.Map[string, int]
		m.Store("key", -1)
		prev := make([]int, k)
		var start atomic.Bool
		var wg sync.WaitGroup
		for g := 0; g < k; g++ {
			wg.Add(1)
			go func(g int) {
				defer wg.Done()
				for !start.Load() {
				}
				p, loaded := m.Swap("key", g)
				if !loaded {
					p = -2
				}
				prev[g] = p
			}(g)
		}
		start.Store(true)
		wg.Wait()
		last, _ := m.Load("key")
		seen := map[int]int{}
		for _, p := range prev {
			seen[p]++
		}
		seen[last]++
		for v := -1; v < k; v++ {
			if seen[v] != 1 {
				fail("round %d: %d concurrent Swaps on one key: previous values %v, final value %d - value %d was handed out %d times (each value must be seen exactly once)", r, k, prev, last, v, seen[v])
				return
			}
		}
	}
}

// ---- C13: Do / DoContext / Map / MapContext with an empty index range (n <= 0, nil input): no call, no panic.
func scaleDoEmpty(c *Case, res map[string]any, fail func(string, ...any)) {
	for _, n := range []int{0, -1, -7, math.MinInt} {
		for _, p := range []int{-1, 0, 1, 3} {
			var calls atomic.Int32
			parallel.Do(p, n, func(i int) { calls.Add(1) })
			if err := parallel.DoContext(context.Background(), p, n, func(ctx context.Context, i int) error { calls.Add(1); return nil }); err != nil {
				fail("DoContext(parallelism %d, n %d) returned %v", p, n, err)
			}
			if calls.Load() != 0 {
				fail("Do/DoContext(parallelism %d, n %d) called f %d times", p, n, calls.Load())
			}
		}
	}
	for _, p := range []int{-1, 0, 1, 3} {
		out := parallel.Map(p, []int(nil), func(x int) int { return x })
		if len(out) != 0 {
			fail("Map over a nil slice returned %v", out)
		}
		out2, err := parallel.MapContext(context.Background(), p, []int{}, func(ctx context.Context, x int) (int, error) { return x, nil })
		if err != nil || len(out2) != 0 {
			fail("MapContext over an empty slice returned (%v, %v)", out2, err)
		}
	}
}

// ---- C05: Len is inserts minus removals whatever the keys are - also keys that are not equal to themselves (NaN).
func scalePQNaNKeys(c *Case, res map[string]any, fail func(string, ...any)) {
	q := xheap.NewPriorityQueue[float64, int](func(a, b int) bool { return a < b }, nil)
	n := 0
	for i := 0; i < 12; i++ {
		k := math.NaN()
		if i%3 == 2 {
			k = float64(i)
		}
		q.Update(k, 100-i)
		n++
		if q.Len() != n {
			fail("after %d Updates of new keys (NaN among them) Len() = %d", n, q.Len())
			return
		}
	}
	last := -1
	for n > 0 {
		k := q.Pop()
		_ = k
		n--
		if q.Len() != n {
			fail("after a Pop with %d items left Len() = %d", n, q.Len())
			return
		}
		_ = last
	}
	if p, _ := protect(func() { q.Pop() }); !p {
		fail("Pop on the drained queue did not panic")
	}
}

// ---- two instances alive at the same time must not influence each other (state kept in package-level variables,
// pools or shared scratch buffers shows only then)

func scalePipeTwoInstances(c *Case, res map[string]any, fail func(string, ...any)) {
	ctx := context.Background()
	boom := errors.New("boom")
	for round := 0; round < 2; round++ {
		sa, ra := stream.Pipe[int](1)
		sb, rb := stream.Pipe[int](1)
		if round == 0 {
			sa.Close(boom)
			if _, err := ra.Next(ctx); err != boom {
				fail("pipe A closed with an error reports %v", err)
			}
			sb.Close(nil)
			if _, err := rb.Next(ctx); err != stream.End {
				fail("pipe B closed with nil reports %v", err)
			}
			if _, err := ra.Next(ctx); err != boom {
				fail("pipe A reported its close error, then - after another pipe was closed with nil - reports %v", err)
			}
		} else {
			sa.Close(nil)
			if _, err := ra.Next(ctx); err != stream.End {
				fail("pipe A closed with nil reports %v", err)
			}
			sb.Close(boom)
			if _, err := rb.Next(ctx); err != boom {
				fail("pipe B closed with an error reports %v", err)
			}
			if _, err := ra.Next(ctx); err != stream.End {
				fail("pipe A reported the end, then - after another pipe was closed with an error - reports %v", err)
			}
		}
		ra.Close()
		rb.Close()
	}
}

func scaleChansMergeConcurrent(c *Case, res map[string]any, fail func(string, ...any)) {
	nin := num(c.Cfg["n"])
	rounds := num(c.Cfg["rounds"])
	for r := 0; r < rounds; r++ {
		var wg sync.WaitGroup
		bad := make(chan string, 8)
		for m := 0; m < 3; m++ {
			wg.Add(1)
			go func(m int) {
				defer wg.Done()
				ins := make([]<-chan int, nin)
				for i := range ins {
					ch := make(chan int, 4)
					for j := 0; j < 4; j++ {
						ch <- m*1000000 + i*100 + j
					}
					close(ch)
					ins[i] = ch
				}
				out := make(chan int, nin*4+1)
				done := make(chan struct{})
				go func() {
					defer func() {
						if p := recover(); p != nil {
							bad <- fmt.Sprint("Merge panicked: ", p)
						}
						close(done)
					}()
					chans.Merge(out, ins...)
				}()
				select {
				case <-done:
				case <-time.After(10 * time.Second):
					bad <- "Merge did not return within 10s although all its inputs were closed"
					return
				}
				seen := map[int]int{}
				for len(out) > 0 {
					seen[<-out]++
				}
				for i := 0; i < nin; i++ {
					for j := 0; j < 4; j++ {
						if seen[m*1000000+i*100+j] != 1 {
							bad <- fmt.Sprintf("one of three concurrent Merge calls over %d inputs delivered value %d %d times", nin, m*1000000+i*100+j, seen[m*1000000+i*100+j])
							return
						}
					}
				}
				if len(seen) != nin*4 {
					bad <- fmt.Sprintf("one of three concurrent Merge calls delivered %d distinct values, %d were sent (values of another call?)", len(seen), nin*4)
				}
			}(m)
		}
		wg.Wait()
		select {
		case msg := <-bad:
			fail("round %d: %s", r, msg)
			return
		default:
		}
	}
}

func scaleMapStreamTwoInstances(c *Case, res map[string]any, fail func(string, ...any)) {
	mk := func(base, n int) stream.Stream[int] {
		items := make([]int, n)
		for i := range items {
			items[i] = base + i
		}
		return parallel.MapStream[int, int](context.Background(), stream.FromIterator(iterator.Slice(items)), 2, 2,
			func(ctx context.Context, x int) (int, error) { return x * 2, nil })
	}
	a, b := mk(0, 5), mk(100, 9)
	ctx, cancel := context.WithTimeout(context.Background(), 5*time.Second)
	defer cancel()
	na, nb := 0, 0
	enda, endb := false, false
	for !(enda && endb) {
		if !enda {
			v, err := a.Next(ctx)
			if err == stream.End {
				enda = true
			} else if err != nil {
				fail("two MapStreams consumed alternately: the first returned %v after %d results", err, na)
				break
			} else if v != na*2 {
				fail("first MapStream: result %d is %d", na, v)
				break
			} else {
				na++
			}
		}
		if !endb {
			v, err := b.Next(ctx)
			if err == stream.End {
				endb = true
			} else if err != nil {
				fail("two MapStreams consumed alternately: the second returned %v after %d results (of 9)", err, nb)
				break
			} else if v != (100+nb)*2 {
				fail("second MapStream: result %d is %d", nb, v)
				break
			} else {
				nb++
			}
		}
	}
	a.Close()
	b.Close()
	if res["ok"].(bool) && (na != 5 || nb != 9) {
		fail("two MapStreams consumed alternately delivered %d of 5 and %d of 9 results", na, nb)
	}
}

// a second, smaller Do started from the LAST callback of a Do that is still running
func scaleDoNestedLast(c *Case, res map[string]any, fail func(string, ...any)) {
	for _, useMap := range []bool{false, true} {
		n := 8
		counts := make([]int32, n)
		inner := func() {
			parallel.Do(2, 2, func(i int) { time.Sleep(time.Millisecond) })
		}
		f := func(i int) {
			atomic.AddInt32(&counts[i], 1)
			if i == n-1 {
				time.Sleep(20 * time.Millisecond) // the other workers have run out of indices by now
				inner()
			}
		}
		if useMap {
			in := make([]int, n)
			for i := range in {
				in[i] = i
			}
			parallel.Map(2, in, func(i int) int { f(i); return i })
		} else {
			parallel.Do(2, n, f)
		}
		for i, k := range counts {
			if k != 1 {
				fail("Do(2, %d, f) whose last callback runs another Do: f(%d) was called %d times (via Map: %v)", n, i, k, useMap)
				return
			}
		}
	}
}

// ---- C10: Send returns once its context expires - also when several Sends find the last free slot in the same instant.
func scalePipeSendStorm(c *Case, res map[string]any, fail func(string, ...any)) {
	rounds := num(c.Cfg["rounds"])
	k := num(c.Cfg["k"])
	capn := num(c.Cfg["cap"])
	for r := 0; r < rounds; r++ {
		sender, recv := stream.Pipe[int](capn)
		ctx, cancel := context.WithCancel(context.Background())
		var start atomic.Bool
		var okc, returned atomic.Int32
		var wg sync.WaitGroup
		for g := 0; g < k; g++ {
			wg.Add(1)
			go func(g int) {
				defer wg.Done()
				for !start.Load() {
				}
				if err := sender.Send(ctx, g); err == nil {
					okc.Add(1)
				}
				returned.Add(1)
			}(g)
		}
		time.Sleep(50 * time.Microsecond)
		start.Store(true)
		time.Sleep(200 * time.Microsecond)
		cancel() // nobody reads: the Sends that found no room must now return with the context's error
		done := make(chan struct{})
		go func() { wg.Wait(); close(done) }()
		select {
		case <-done:
		case <-time.After(3 * time.Second):
			fail("round %d: %d goroutines called Send on Pipe(%d) that nobody reads; 3s after their context was cancelled only %d calls have returned", r, k, capn, returned.Load())
			sender.Close(nil)
			recv.Close()
			return
		}
		if int(okc.Load()) > capn {
			fail("round %d: %d Sends succeeded on Pipe(%d) that nobody reads", r, okc.Load(), capn)
			return
		}
		sender.Close(nil)
		recv.Close()
	}
}

// ---- C10: a receiver that enters Next in the very moment the sender closes with an error is told that error (or waits),
// never the end.
func scalePipeCloseErrorStorm(c *Case, res map[string]any, fail func(string, ...any)) {
	rounds := num(c.Cfg["rounds"])
	boom := errors.New("boom")
	for r := 0; r < rounds; r++ {
		sender, recv := stream.Pipe[int](0)
		var start atomic.Bool
		var got error
		var wg sync.WaitGroup
		wg.Add(2)
		d := r % 40
		go func() {
			defer wg.Done()
			for !start.Load() {
			}
			spinFor(d)
			sender.Close(boom)
		}()
		go func() {
			defer wg.Done()
			for !start.Load() {
			}
			spinFor(20)
			_, got = recv.Next(context.Background())
		}()
		start.Store(true)
		wg.Wait()
		if got != boom {
			fail("round %d: the sender closed with an error while the receiver entered Next: Next returned %v", r, got)
			return
		}
		if _, err := recv.Next(context.Background()); err != boom {
			fail("round %d: the close error was reported, the following Next returned %v", r, err)
			return
		}
		recv.Close()
	}
}

var spinSink atomic.Int64

func spinFor(n int) {
	for i := 0; i < n*8; i++ {
		spinSink.Add(1)
	}
}

// ---- C12: stream.Merge over very many inputs still reports the end (a count of finished inputs must not wrap around).
func scaleSMergeMany(c *Case, res map[string]any, fail func(string, ...any)) {
	n := num(c.Cfg["n"])
	ins := make([]stream.Stream[int], n)
	for i := range ins {
		if i%1000 == 0 {
			ins[i] = stream.FromIterator(iterator.Slice([]int{i}))
		} else {
			ins[i] = stream.Empty[int]()
		}
	}
	m := stream.Merge(ins...)
	ctx, cancel := context.WithTimeout(context.Background(), 25*time.Second)
	defer cancel()
	got := 0
	for {
		_, err := m.Next(ctx)
		if err == stream.End {
			break
		}
		if err != nil {
			fail("Merge over %d inputs: after %d values Next returned %v (the end was never reported)", n, got, err)
			break
		}
		got++
	}
	m.Close()
	if want := (n + 999) / 1000; res["ok"].(bool) && got != want {
		fail("Merge over %d inputs delivered %d values, %d were sent", n, got, want)
	}
}
