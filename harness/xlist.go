package main

import (
	"math"

	"github.com/bradenaw/juniper/container/xlist"
)

func init() { components["xlist"] = runXList }

// Observation after every op: [panic, fwd, bwd, len, vals, frontPrevNil, backNextNil, detachedIsolated]
// (detachedIsolated: every handle handed out so far that the forward walk does not reach has no neighbour;
// a walk starting with 777777 means that a "new" node was a handle handed out earlier).
// The same history is run on List[int], on List[any] (values that are nil, or of a dynamic type that cannot be
// compared: a slice) and on List[float64] (NaN values), chosen by cfg "inst": the behaviour of a list must not depend
// on what its Values are or on whether they can be compared.
func runXList(c *Case) *Obs {
	inst, _ := c.Cfg["inst"].(string)
	switch inst {
	case "any":
		return runXListT[any](c, func(v int) any {
			switch ((v % 3) + 3) % 3 {
			case 0:
				return []int{v}
			case 1:
				return nil
			}
			return v
		}, func(x any, v int) bool {
			switch ((v % 3) + 3) % 3 {
			case 0:
				sl, ok := x.([]int)
				return ok && len(sl) == 1 && sl[0] == v
			case 1:
				return x == nil
			}
			return x == any(v)
		})
	case "float":
		return runXListT[float64](c, func(v int) float64 {
			if v%2 == 0 {
				return math.NaN()
			}
			return float64(v)
		}, func(x float64, v int) bool {
			if v%2 == 0 {
				return math.IsNaN(x)
			}
			return x == float64(v)
		})
	}
	return runXListT[int](c, func(v int) int { return v }, func(x int, v int) bool { return x == v })
}

func runXListT[T any](c *Case, mk func(int) T, same func(T, int) bool) *Obs {
	var l xlist.List[T]
	var nodes []*xlist.Node[T]
	var given []int
	id := map[*xlist.Node[T]]int{}
	o := &Obs{}
	aliased := false
	alloc := func(n *xlist.Node[T], v int) {
		given = append(given, v)
		if _, dup := id[n]; dup {
			aliased = true // a "new" node that is a handle handed out earlier: handles do not keep their identity
		}
		id[n] = len(nodes)
		nodes = append(nodes, n)
	}
	h := func(a any) *xlist.Node[T] { return nodes[num(a)] }
	for _, op := range c.Ops {
		name := op[0].(string)
		iso := true
		p, _ := protect(func() {
			switch name {
			case "pushfront":
				alloc(l.PushFront(mk(num(op[1]))), num(op[1]))
			case "pushback":
				alloc(l.PushBack(mk(num(op[1]))), num(op[1]))
			case "insertbefore":
				alloc(l.InsertBefore(mk(num(op[1])), h(op[2])), num(op[1]))
			case "insertafter":
				alloc(l.InsertAfter(mk(num(op[1])), h(op[2])), num(op[1]))
			case "remove":
				l.Remove(h(op[1]))
			case "movebefore":
				l.MoveBefore(h(op[1]), h(op[2]))
			case "moveafter":
				l.MoveAfter(h(op[1]), h(op[2]))
			case "movetofront":
				l.MoveToFront(h(op[1]))
			case "movetoback":
				l.MoveToBack(h(op[1]))
			case "clear":
				l.Clear()
			default:
				panic("harness: unknown op " + name)
			}
		})
		if p {
			o.Obs = append(o.Obs, []any{true, []int{}, []int{}, 0, []int{}, false, false, false})
			break
		}
		limit := len(nodes) + 1
		fwd, vals := []int{}, []int{}
		k := 0
		for n := l.Front(); n != nil; n = n.Next() {
			if k >= limit {
				fwd = append(fwd, 999999)
				break
			}
			fwd = append(fwd, id[n])
			if i, ok := id[n]; ok && i < len(given) && same(n.Value, given[i]) {
				vals = append(vals, given[i])
			} else {
				vals = append(vals, -987654321) // the Value is not the one the node was created with
			}
			k++
		}
		bwd := []int{}
		k = 0
		for n := l.Back(); n != nil; n = n.Prev() {
			if k >= limit {
				bwd = append(bwd, 999999)
				break
			}
			bwd = append(bwd, id[n])
			k++
		}
		// every handle that is not in the list (removed by Remove or dropped by Clear) has neither neighbour
		member := map[*xlist.Node[T]]bool{}
		for n, k := l.Front(), 0; n != nil && k < limit; n, k = n.Next(), k+1 {
			member[n] = true
		}
		for _, n := range nodes {
			if !member[n] && (n.Prev() != nil || n.Next() != nil) {
				iso = false
			}
		}
		if aliased {
			fwd = append([]int{777777}, fwd...)
		}
		fp := l.Front() == nil || l.Front().Prev() == nil
		bn := l.Back() == nil || l.Back().Next() == nil
		o.Obs = append(o.Obs, []any{false, fwd, bwd, l.Len(), vals, fp, bn, iso})
	}
	return o
}
