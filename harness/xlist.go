package main

import (
	"github.com/bradenaw/juniper/container/xlist"
)

func init() { components["xlist"] = runXList }

// Observation after every op: [panic, fwd, bwd, len, vals, frontPrevNil, backNextNil, removedIsolated].
func runXList(c *Case) *Obs {
	var l xlist.List[int]
	var nodes []*xlist.Node[int]
	id := map[*xlist.Node[int]]int{}
	o := &Obs{}
	alloc := func(n *xlist.Node[int]) {
		id[n] = len(nodes)
		nodes = append(nodes, n)
	}
	h := func(a any) *xlist.Node[int] { return nodes[num(a)] }
	for _, op := range c.Ops {
		name := op[0].(string)
		iso := true
		p, _ := protect(func() {
			switch name {
			case "pushfront":
				alloc(l.PushFront(num(op[1])))
			case "pushback":
				alloc(l.PushBack(num(op[1])))
			case "insertbefore":
				alloc(l.InsertBefore(num(op[1]), h(op[2])))
			case "insertafter":
				alloc(l.InsertAfter(num(op[1]), h(op[2])))
			case "remove":
				n := h(op[1])
				l.Remove(n)
				iso = n.Prev() == nil && n.Next() == nil
			case "movebefore":
				l.MoveBefore(h(op[1]), h(op[2]))
			case "moveafter":
				l.MoveAfter(h(op[1]), h(op[2]))
			case "movetofront":
				l.MoveToFront(h(op[1]))
			case "movetoback":
				l.MoveToBack(h(op[1]))
			case "clear":
				l.Clear()
			default:
				panic("harness: unknown op " + name)
			}
		})
		if p {
			o.Obs = append(o.Obs, []any{true, []int{}, []int{}, 0, []int{}, false, false, false})
			break
		}
		limit := len(nodes) + 1
		fwd, vals := []int{}, []int{}
		k := 0
		for n := l.Front(); n != nil; n = n.Next() {
			if k >= limit {
				fwd = append(fwd, 999999)
				break
			}
			fwd = append(fwd, id[n])
			vals = append(vals, n.Value)
			k++
		}
		bwd := []int{}
		k = 0
		for n := l.Back(); n != nil; n = n.Prev() {
			if k >= limit {
				bwd = append(bwd, 999999)
				break
			}
			bwd = append(bwd, id[n])
			k++
		}
		fp := l.Front() == nil || l.Front().Prev() == nil
		bn := l.Back() == nil || l.Back().Next() == nil
		o.Obs = append(o.Obs, []any{false, fwd, bwd, l.Len(), vals, fp, bn, iso})
	}
	return o
}
