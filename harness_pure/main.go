// Harness runner for C19 (pure helpers of xslices, xsort, xmaps, xmath, xerrors, xmath/xrand).
// A separate module from ../harness so that it cannot break the main harness.
//
// Reads JSON cases {"id": n, "ops": [[fn, args...], ...]} from stdin; every op is one call of a
// REAL exported function of the library; prints one JSON observation record per case:
// {"id": n, "obs": [{"r": [kind, fields...], "after": [...], ...}, ...]}.
// Function-typed arguments are encoded (see decodePred / decodeRel / decodeFn1); the Coq side
// (coq/theories/Pure/Corr.v) decodes the same encodings.
package main

import (
	"bufio"
	"encoding/json"
	"fmt"
	"os"
)

type Case struct {
	ID  int     `json:"id"`
	Ops [][]any `json:"ops"`
}

type Obs struct {
	ID  int              `json:"id"`
	Obs []map[string]any `json:"obs"`
}

func num(a any) int {
	switch v := a.(type) {
	case json.Number:
		n, err := v.Int64()
		if err != nil {
			panic(fmt.Sprintf("harness: not an int64: %v", v))
		}
		return int(n)
	case float64:
		return int(v)
	case int:
		return v
	}
	panic(fmt.Sprintf("harness: not a number: %v", a))
}

func ints(a any) []int {
	if a == nil {
		return nil
	}
	l := a.([]any)
	out := make([]int, len(l))
	for i := range l {
		out[i] = num(l[i])
	}
	return out
}

func intss(a any) [][]int {
	l := a.([]any)
	out := make([][]int, len(l))
	for i := range l {
		out[i] = ints(l[i])
	}
	return out
}

func pairs(a any) [][2]int {
	l := a.([]any)
	out := make([][2]int, len(l))
	for i := range l {
		p := l[i].([]any)
		out[i] = [2]int{num(p[0]), num(p[1])}
	}
	return out
}

// ["in", [v...]]: x is one of v;  ["lt", c]: x < c
func decodePred(a any) func(int) bool {
	l := a.([]any)
	switch l[0].(string) {
	case "in":
		set := map[int]bool{}
		for _, v := range ints(l[1]) {
			set[v] = true
		}
		return func(x int) bool { return set[x] }
	case "lt":
		c := num(l[1])
		return func(x int) bool { return x < c }
	}
	panic("harness: bad pred")
}

// ["pairs", [[a,b]...]]: holds exactly on the listed pairs; ["keylt", d]: a/d < b/d; ["keyeq", d]: a/d == b/d
func decodeRel(a any) func(int, int) bool {
	l := a.([]any)
	switch l[0].(string) {
	case "pairs":
		set := map[[2]int]bool{}
		for _, p := range pairs(l[1]) {
			set[p] = true
		}
		return func(x, y int) bool { return set[[2]int{x, y}] }
	case "keylt":
		d := num(l[1])
		return func(x, y int) bool { return x/d < y/d }
	case "keyeq":
		d := num(l[1])
		return func(x, y int) bool { return x/d == y/d }
	}
	panic("harness: bad rel")
}

// ["affine", a, b]: a*x+b; ["table", [[k,v]...], d]: lookup, default d; ["quot", d]: x/d
func decodeFn1(a any) func(int) int {
	l := a.([]any)
	switch l[0].(string) {
	case "affine":
		p, q := num(l[1]), num(l[2])
		return func(x int) int { return p*x + q }
	case "table":
		t := map[int]int{}
		ps := pairs(l[1])
		for i := len(ps) - 1; i >= 0; i-- { // first entry wins, like the association list
			t[ps[i][0]] = ps[i][1]
		}
		d := num(l[2])
		return func(x int) int {
			if v, ok := t[x]; ok {
				return v
			}
			return d
		}
	case "quot":
		d := num(l[1])
		return func(x int) int { return x / d }
	}
	panic("harness: bad fn1")
}

func clone(s []int) []int {
	out := make([]int, len(s))
	copy(out, s)
	return out
}

func nn(s []int) []int {
	if s == nil {
		return []int{}
	}
	return s
}

// withCap builds a slice with contents s and s[len(s):cap(s)] = extra; returns it and the full array view.
func withCap(s, extra []int) (sl []int, full []int) {
	full = make([]int, len(s)+len(extra))
	copy(full, s)
	copy(full[len(s):], extra)
	return full[:len(s)], full
}

func main() {
	if len(os.Args) < 2 || os.Args[1] != "pure" {
		fmt.Fprintln(os.Stderr, "usage: runner-pure pure < cases.jsonl > obs.jsonl")
		os.Exit(2)
	}
	in := bufio.NewReaderSize(os.Stdin, 1<<20)
	out := bufio.NewWriterSize(os.Stdout, 1<<20)
	defer out.Flush()
	dec := json.NewDecoder(in)
	dec.UseNumber()
	enc := json.NewEncoder(out)
	for dec.More() {
		var c Case
		if err := dec.Decode(&c); err != nil {
			fmt.Fprintln(os.Stderr, "decode:", err)
			os.Exit(2)
		}
		o := &Obs{ID: c.ID, Obs: []map[string]any{}}
		for _, op := range c.Ops {
			o.Obs = append(o.Obs, runCall(op))
		}
		if err := enc.Encode(o); err != nil {
			fmt.Fprintln(os.Stderr, "encode:", err)
			os.Exit(2)
		}
	}
}

// runCall executes one call; a panic of the library function is an observation.
func runCall(op []any) (res map[string]any) {
	res = map[string]any{}
	defer func() {
		if r := recover(); r != nil {
			msg := fmt.Sprint(r)
			if len(msg) >= 8 && msg[:8] == "harness:" {
				panic(r) // a bug of the harness, not of the library
			}
			res = map[string]any{"r": []any{"panic"}, "msg": msg}
		}
	}()
	name := op[0].(string)
	f, ok := calls[name]
	if !ok {
		panic("harness: unknown function " + name)
	}
	f(op[1:], res)
	return res
}

var calls = map[string]func(a []any, res map[string]any){}
