package main

import (
	"errors"
	"fmt"
	"math/rand"
	"runtime"
	"sort"
	"strings"

	"github.com/bradenaw/juniper/iterator"
	"github.com/bradenaw/juniper/xerrors"
	"github.com/bradenaw/juniper/xmaps"
	"github.com/bradenaw/juniper/xmath"
	"github.com/bradenaw/juniper/xmath/xrand"
	"github.com/bradenaw/juniper/xsort"
)

func sortedMap(m map[int]int) [][2]int {
	keys := make([]int, 0, len(m))
	for k := range m {
		keys = append(keys, k)
	}
	sort.Ints(keys)
	out := [][2]int{}
	for _, k := range keys {
		out = append(out, [2]int{k, m[k]})
	}
	return out
}

func sortedSet(s xmaps.Set[int]) []int {
	keys := make([]int, 0, len(s))
	for k := range s {
		keys = append(keys, k)
	}
	sort.Ints(keys)
	return keys
}

func mapOf(a any) map[int]int {
	m := map[int]int{}
	for _, p := range pairs(a) {
		m[p[0]] = p[1]
	}
	return m
}

func setOf(a any) xmaps.Set[int] {
	s := xmaps.Set[int]{}
	for _, k := range ints(a) {
		s[k] = struct{}{}
	}
	return s
}

func setsOf(a any) []xmaps.Set[int] {
	l := a.([]any)
	out := make([]xmaps.Set[int], len(l))
	for i := range l {
		out[i] = setOf(l[i])
	}
	return out
}

// ---- error chains -------------------------------------------------------------------------
// a chain is null (nil) or a list of layers, outermost first: ["s"] (xerrors.withStack),
// ["w", tag] (fmt.Errorf("%w")), ["b", id] (errors.New); one object per id / tag, so that
// Go's == on the nodes coincides with structural equality of the descriptions.

type errReg struct {
	bases map[int]error
	wraps map[int]error
	desc  map[error][]any
}

func newReg() *errReg {
	return &errReg{bases: map[int]error{}, wraps: map[int]error{}, desc: map[error][]any{}}
}

// build returns the error for the chain, or ok=false when the library refuses to build it
// (a stack layer above another one after WithStack has been made idempotent).
func (r *errReg) build(a any) (e error, ok bool) {
	if a == nil {
		return nil, true
	}
	l := a.([]any)
	var cur error
	for i := len(l) - 1; i >= 0; i-- {
		layer := l[i].([]any)
		switch layer[0].(string) {
		case "b":
			id := num(layer[1])
			if _, ok := r.bases[id]; !ok {
				b := errors.New(fmt.Sprintf("b%d", id))
				r.bases[id] = b
				r.desc[b] = []any{"b", id}
			}
			cur = r.bases[id]
		case "w":
			tag := num(layer[1])
			if _, ok := r.wraps[tag]; !ok {
				w := fmt.Errorf("w%d: %w", tag, cur)
				r.wraps[tag] = w
				r.desc[w] = []any{"w", tag}
			}
			cur = r.wraps[tag]
		case "s":
			next := xerrors.WithStack(cur)
			// (withStack values are not comparable: compare chain depths, not values)
			if fmt.Sprintf("%T", next) != "xerrors.withStack" || depth(next) != depth(cur)+1 {
				return nil, false
			}
			cur = next
		default:
			panic("harness: bad error layer")
		}
	}
	return cur, true
}

func depth(e error) int {
	n := 0
	for e != nil {
		n++
		e = errors.Unwrap(e)
	}
	return n
}

func (r *errReg) describe(e error) any {
	if e == nil {
		return nil
	}
	out := []any{}
	for e != nil {
		t := fmt.Sprintf("%T", e)
		if t == "xerrors.withStack" {
			out = append(out, []any{"s"})
		} else if d, ok := r.desc[e]; ok {
			out = append(out, d)
		} else {
			out = append(out, []any{"?", t})
		}
		e = errors.Unwrap(e)
	}
	return out
}

func rng(seed int) *rand.Rand { return rand.New(rand.NewSource(int64(seed))) }

func init() {
	// ---- xsort
	calls["xsort.Greater"] = func(a []any, res map[string]any) {
		res["r"] = []any{"bool", xsort.Greater(xsort.Less[int](decodeRel(a[0])), num(a[1]), num(a[2]))}
	}
	calls["xsort.LessOrEqual"] = func(a []any, res map[string]any) {
		res["r"] = []any{"bool", xsort.LessOrEqual(xsort.Less[int](decodeRel(a[0])), num(a[1]), num(a[2]))}
	}
	calls["xsort.GreaterOrEqual"] = func(a []any, res map[string]any) {
		res["r"] = []any{"bool", xsort.GreaterOrEqual(xsort.Less[int](decodeRel(a[0])), num(a[1]), num(a[2]))}
	}
	calls["xsort.Equal"] = func(a []any, res map[string]any) {
		res["r"] = []any{"bool", xsort.Equal(xsort.Less[int](decodeRel(a[0])), num(a[1]), num(a[2]))}
	}
	calls["xsort.Reverse"] = func(a []any, res map[string]any) {
		res["r"] = []any{"bool", xsort.Reverse(xsort.Less[int](decodeRel(a[0])))(num(a[1]), num(a[2]))}
	}
	calls["xsort.LessCompare"] = func(a []any, res map[string]any) {
		res["r"] = []any{"int", xsort.LessCompare(xsort.Less[int](decodeRel(a[0])))(num(a[1]), num(a[2]))}
	}
	calls["xsort.OrderedLess"] = func(a []any, res map[string]any) {
		res["r"] = []any{"bool", xsort.OrderedLess(num(a[0]), num(a[1]))}
	}
	calls["xsort.SliceIsSorted"] = func(a []any, res map[string]any) {
		x := ints(a[1])
		res["r"] = []any{"bool", xsort.SliceIsSorted(x, xsort.Less[int](decodeRel(a[0])))}
		res["after"] = nn(x)
	}
	// Slice / SliceStable sort in place: the observation is x afterwards. Items carry a tag the order does not
	// see (["keylt", d]: key = item/d, tag = item%d), so the order in which equivalent items come out is visible.
	calls["xsort.Slice"] = func(a []any, res map[string]any) {
		x := ints(a[1])
		xsort.Slice(x, xsort.Less[int](decodeRel(a[0])))
		res["r"] = []any{"list", nn(x)}
	}
	calls["xsort.SliceStable"] = func(a []any, res map[string]any) {
		x := ints(a[1])
		xsort.SliceStable(x, xsort.Less[int](decodeRel(a[0])))
		res["r"] = []any{"list", nn(x)}
	}
	calls["xsort.Search"] = func(a []any, res map[string]any) {
		x := ints(a[1])
		res["r"] = []any{"int", xsort.Search(x, xsort.Less[int](decodeRel(a[0])), num(a[2]))}
		res["after"] = nn(x)
	}
	calls["xsort.Merge"] = func(a []any, res map[string]any) {
		ins := intss(a[1])
		its := make([]iterator.Iterator[int], len(ins))
		for i := range ins {
			its[i] = iterator.Slice(ins[i])
		}
		it := xsort.Merge(xsort.Less[int](decodeRel(a[0])), its...)
		out := []int{}
		for {
			x, ok := it.Next()
			if !ok {
				break
			}
			out = append(out, x)
		}
		// "Once Next returns false ... it is expected that it will always return false afterwards"
		_, again := it.Next()
		res["r"] = []any{"list", out}
		res["next_after_end"] = again
	}
	calls["xsort.MergeSlices"] = func(a []any, res map[string]any) {
		outcap := num(a[1])
		var pre []int
		if outcap >= 0 {
			pre = make([]int, outcap/2, outcap)
		}
		ins := intss(a[2])
		orig := make([][]int, len(ins))
		for i := range ins {
			orig[i] = clone(ins[i])
		}
		out := xsort.MergeSlices(xsort.Less[int](decodeRel(a[0])), pre, ins...)
		res["r"] = []any{"listb", nn(clone(out)), len(out) > 0 && sameArray(pre, out)}
		res["inputs_after"] = ins
		res["inputs_before"] = orig
	}
	calls["xsort.MinK"] = func(a []any, res map[string]any) {
		items := ints(a[1])
		res["r"] = []any{"list", nn(xsort.MinK(xsort.Less[int](decodeRel(a[0])), iterator.Slice(items), num(a[2])))}
		res["after"] = nn(items)
	}

	// ---- xmaps
	calls["xmaps.Reverse"] = func(a []any, res map[string]any) {
		res["r"] = []any{"mapl", sortedMapL(xmaps.Reverse(mapOf(a[0])), true)}
	}
	calls["xmaps.ReverseSingle"] = func(a []any, res map[string]any) {
		m, ok := xmaps.ReverseSingle(mapOf(a[0]))
		res["r"] = []any{"mapb", sortedMap(m), ok}
	}
	calls["xmaps.ToIndex"] = func(a []any, res map[string]any) {
		res["r"] = []any{"map", sortedMap(xmaps.ToIndex(ints(a[0])))}
	}
	calls["xmaps.FromKeysAndValues"] = func(a []any, res map[string]any) {
		m, ok := xmaps.FromKeysAndValues(ints(a[0]), ints(a[1]))
		res["r"] = []any{"mapb", sortedMap(m), ok}
	}
	calls["xmaps.SetFromSlice"] = func(a []any, res map[string]any) {
		res["r"] = []any{"list", sortedSet(xmaps.SetFromSlice(ints(a[0])))}
	}
	calls["xmaps.Set.Add"] = func(a []any, res map[string]any) {
		s := setOf(a[0])
		s.Add(num(a[1]))
		res["r"] = []any{"list", sortedSet(s)}
	}
	calls["xmaps.Set.Remove"] = func(a []any, res map[string]any) {
		s := setOf(a[0])
		s.Remove(num(a[1]))
		res["r"] = []any{"list", sortedSet(s)}
	}
	calls["xmaps.Set.Contains"] = func(a []any, res map[string]any) {
		res["r"] = []any{"bool", setOf(a[0]).Contains(num(a[1]))}
	}
	inputsUnchanged := func(sets []xmaps.Set[int], a any) bool {
		want := setsOf(a)
		for i := range sets {
			if fmt.Sprint(sortedSet(sets[i])) != fmt.Sprint(sortedSet(want[i])) {
				return false
			}
		}
		return true
	}
	calls["xmaps.Union"] = func(a []any, res map[string]any) {
		sets := setsOf(a[0])
		res["r"] = []any{"list", sortedSet(xmaps.Union(sets...))}
		res["inputs_unchanged"] = inputsUnchanged(sets, a[0])
	}
	calls["xmaps.Intersection"] = func(a []any, res map[string]any) {
		sets := setsOf(a[0])
		res["r"] = []any{"list", sortedSet(xmaps.Intersection(sets...))}
		res["inputs_unchanged"] = inputsUnchanged(sets, a[0])
	}
	calls["xmaps.Intersects"] = func(a []any, res map[string]any) {
		sets := setsOf(a[0])
		res["r"] = []any{"bool", xmaps.Intersects(sets...)}
		res["inputs_unchanged"] = inputsUnchanged(sets, a[0])
	}
	calls["xmaps.Difference"] = func(a []any, res map[string]any) {
		x, y := setOf(a[0]), setOf(a[1])
		res["r"] = []any{"list", sortedSet(xmaps.Difference(x, y))}
		res["inputs_unchanged"] = inputsUnchanged([]xmaps.Set[int]{x, y}, []any{a[0], a[1]})
	}

	// ---- xmath.  Abs: w = 8, 16, 32, 64 select int8..int64; w = 0 selects int.
	calls["xmath.Abs"] = func(a []any, res map[string]any) {
		x := num(a[1])
		switch num(a[0]) {
		case 8:
			res["r"] = []any{"int", int(xmath.Abs(int8(x)))}
		case 16:
			res["r"] = []any{"int", int(xmath.Abs(int16(x)))}
		case 32:
			res["r"] = []any{"int", int(xmath.Abs(int32(x)))}
		case 64:
			res["r"] = []any{"int", int(xmath.Abs(int64(x)))}
		case 0:
			res["r"] = []any{"int", xmath.Abs(x)}
		default:
			panic("harness: bad width")
		}
	}
	calls["xmath.Min"] = func(a []any, res map[string]any) {
		res["r"] = []any{"int", xmath.Min(num(a[0]), num(a[1]))}
	}
	calls["xmath.Max"] = func(a []any, res map[string]any) {
		res["r"] = []any{"int", xmath.Max(num(a[0]), num(a[1]))}
	}
	calls["xmath.Clamp"] = func(a []any, res map[string]any) {
		res["r"] = []any{"int", xmath.Clamp(num(a[0]), num(a[1]), num(a[2]))}
	}

	// ---- xerrors
	calls["xerrors.WithStack"] = func(a []any, res map[string]any) {
		reg := newReg()
		e, ok := reg.build(a[0])
		if !ok {
			res["r"] = []any{"skip"}
			return
		}
		out := xerrors.WithStack(e)
		res["r"] = []any{"err", reg.describe(out)}
		if out != nil && e != nil {
			// "adds the call stack of the call to WithStack to Error()"
			res["error_has_inner_text"] = strings.HasPrefix(out.Error(), e.Error())
			res["error_mentions_harness"] = strings.Contains(out.Error(), "harness_pure") || strings.Contains(out.Error(), "main.")
		}
	}
	// [depth]: WithStack called below `depth` extra frames; the functions Error() lists against runtime.Callers at the same site
	calls["xerrors.WithStackDeep"] = func(a []any, res map[string]any) {
		var listed, own []string
		deepCall(num(a[0]), func() {
			own = callerFuncs()
			out := xerrors.WithStack(errors.New("deep"))
			for _, line := range strings.Split(out.Error(), "\n") {
				if strings.HasSuffix(line, "(...)") {
					listed = append(listed, strings.TrimSuffix(line, "(...)"))
				}
			}
		})
		same := len(listed) == len(own)
		diff := -1
		for i := 0; i < len(listed) && i < len(own); i++ {
			if listed[i] != own[i] {
				same = false
				if diff < 0 {
					diff = i
				}
			}
		}
		if !same && diff < 0 {
			diff = len(listed)
			if len(own) < diff {
				diff = len(own)
			}
		}
		res["r"] = []any{"bool", same}
		res["frames"] = len(own)
		res["listed"] = len(listed)
		res["first_diff"] = diff
	}
	calls["xerrors.WithStackTwice"] = func(a []any, res map[string]any) {
		reg := newReg()
		e, ok := reg.build(a[0])
		if !ok {
			res["r"] = []any{"skip"}
			return
		}
		once := xerrors.WithStack(e)
		res["once"] = reg.describe(once)
		res["r"] = []any{"err", reg.describe(xerrors.WithStack(once))}
	}
	calls["xerrors.WithStackIs"] = func(a []any, res map[string]any) {
		reg := newReg()
		e, ok := reg.build(a[0])
		t, ok2 := reg.build(a[1])
		if !ok || !ok2 {
			res["r"] = []any{"skip"}
			return
		}
		res["r"] = []any{"bool", errors.Is(xerrors.WithStack(e), t)}
		res["is_before"] = errors.Is(e, t)
	}

	// ---- xrand: seed >= 0 selects the R* variant with rand.New(rand.NewSource(seed)); seed < 0
	// the variant over the default source
	calls["xrand.Sample"] = func(a []any, res map[string]any) {
		n, k, seed := num(a[0]), num(a[1]), num(a[2])
		if seed >= 0 {
			res["r"] = []any{"list", nn(xrand.RSample(rng(seed), n, k))}
		} else {
			res["r"] = []any{"list", nn(xrand.Sample(n, k))}
		}
	}
	calls["xrand.SampleSlice"] = func(a []any, res map[string]any) {
		s, k, seed := ints(a[0]), num(a[1]), num(a[2])
		if seed >= 0 {
			res["r"] = []any{"list", nn(xrand.RSampleSlice(rng(seed), s, k))}
		} else {
			res["r"] = []any{"list", nn(xrand.SampleSlice(s, k))}
		}
		res["after"] = nn(s)
	}
	calls["xrand.SampleIterator"] = func(a []any, res map[string]any) {
		s, k, seed := ints(a[0]), num(a[1]), num(a[2])
		if seed >= 0 {
			res["r"] = []any{"list", nn(xrand.RSampleIterator(rng(seed), iterator.Slice(s), k))}
		} else {
			res["r"] = []any{"list", nn(xrand.SampleIterator(iterator.Slice(s), k))}
		}
		res["after"] = nn(s)
	}
	calls["xrand.Shuffle"] = func(a []any, res map[string]any) {
		s, seed := ints(a[0]), num(a[1])
		if seed >= 0 {
			xrand.RShuffle(rng(seed), s)
		} else {
			xrand.Shuffle(s)
		}
		res["r"] = []any{"list", nn(s)}
	}
	// frequency table (supporting data only): [which, n, k, draws, seed] -> counts per sorted subset
	calls["xrand.Freq"] = func(a []any, res map[string]any) {
		which, n, k, draws, seed := a[0].(string), num(a[1]), num(a[2]), num(a[3]), num(a[4])
		r := rng(seed)
		items := make([]int, n)
		for i := range items {
			items[i] = i
		}
		counts := map[string]int{}
		first := map[string]int{} // how often each position comes first in the returned order
		for d := 0; d < draws; d++ {
			var out []int
			switch which {
			case "sample":
				out = xrand.RSample(r, n, k)
			case "slice":
				out = xrand.RSampleSlice(r, items, k)
			case "iterator":
				out = xrand.RSampleIterator(r, iterator.Slice(items), k)
			default:
				panic("harness: bad freq variant")
			}
			if len(out) > 0 {
				first[fmt.Sprint(out[0])]++
			}
			c := clone(out)
			sort.Ints(c)
			counts[fmt.Sprint(c)]++
		}
		res["r"] = []any{"freq", counts, first}
	}
}

// deepCall runs f below n extra stack frames.
//
//go:noinline
func deepCall(n int, f func()) {
	if n <= 0 {
		f()
		return
	}
	deepCall(n-1, f)
	deepSink++
}

var deepSink int

// callerFuncs returns the function names of the caller's call stack, innermost first (the caller itself included).
func callerFuncs() []string {
	pcs := make([]uintptr, 1<<16)
	n := runtime.Callers(2, pcs)
	frames := runtime.CallersFrames(pcs[:n])
	var out []string
	for {
		fr, more := frames.Next()
		out = append(out, fr.Function)
		if !more {
			break
		}
	}
	return out
}
