// Oracle-trace comparison for xmath/xrand.  This file is copied to ../xrand_trace_gen.go by
// props/c19.py when the hook /repo/xmath/xrand/xrand_verif_export.go is present (it does not
// compile without it).
//
// A traceRand wraps a seeded *rand.Rand, records every Float64 / Intn it hands out and the swaps
// its Shuffle performs.  From the recorded Float64 values the harness recomputes, with the very
// formulas of sampler.Next, the (skip, replace) pair of every call of Next past the reservoir
// phase: this is the ORACLE stream the Coq model of Pure/Rand.v is evaluated on.
package main

import (
	"math"
	"math/rand"

	"github.com/bradenaw/juniper/iterator"
	"github.com/bradenaw/juniper/xmath/xrand"
)

type traceRand struct {
	src    *rand.Rand
	mode   int // 0: uniform; 1: values close to 1 (skip 0); 2: values close to 0 (large skips); 3: mixture
	floats []float64
	intns  []int
	swaps  [][2]int
}

func (t *traceRand) Float64() float64 {
	u := t.src.Float64()
	m := t.mode
	if m == 3 {
		m = t.src.Intn(3)
	}
	switch m {
	case 1:
		u = 1 - u*1e-3
		if u >= 1 {
			u = math.Nextafter(1, 0)
		}
	case 2:
		u = u * 1e-4
	}
	t.floats = append(t.floats, u)
	return u
}

func (t *traceRand) Intn(n int) int {
	v := t.src.Intn(n)
	t.intns = append(t.intns, v)
	return v
}

func (t *traceRand) Shuffle(n int, swap func(int, int)) {
	for i := n - 1; i > 0; i-- {
		j := t.src.Intn(i + 1)
		t.swaps = append(t.swaps, [2]int{i, j})
		swap(i, j)
	}
}

// draws recomputes the oracle stream: ["stop"] or ["skip", skip, replace] per call of Next past the
// reservoir phase, from the recorded values, with the formulas of newSampler / sampler.Next.
func (t *traceRand) draws(k int) []any {
	out := []any{}
	if len(t.floats) == 0 {
		return out
	}
	w := math.Exp(math.Log(t.floats[0]) / float64(k))
	fi, ii := 1, 0
	for fi < len(t.floats) {
		skip := math.Floor(math.Log(t.floats[fi]) / math.Log(1-w))
		fi++
		if math.IsInf(skip, 0) || math.IsNaN(skip) {
			out = append(out, []any{"stop"})
			continue
		}
		if fi >= len(t.floats) || ii >= len(t.intns) {
			panic("harness: draw trace does not match the structure of sampler.Next")
		}
		w *= math.Exp(math.Log(t.floats[fi]) / float64(k))
		fi++
		out = append(out, []any{"skip", int(skip), t.intns[ii]})
		ii++
	}
	if ii != len(t.intns) {
		panic("harness: unused Intn draws in the trace")
	}
	return out
}

func init() {
	// [which, n-or-items, k, seed, mode] -> result, draws, swaps
	calls["xrand.Trace"] = func(a []any, res map[string]any) {
		which, k, seed, mode := a[0].(string), num(a[2]), num(a[3]), num(a[4])
		t := &traceRand{src: rng(seed), mode: mode}
		var out []int
		switch which {
		case "sample":
			out = xrand.VerifRSample(t, num(a[1]), k)
		case "slice":
			out = xrand.VerifRSampleSlice(t, ints(a[1]), k)
		case "iterator":
			out = xrand.VerifRSampleIterator(t, iterator.Slice(ints(a[1])), k)
		case "shuffle":
			s := ints(a[1])
			xrand.VerifRShuffle(t, s)
			out = s
		default:
			panic("harness: bad trace variant")
		}
		sw := t.swaps
		if sw == nil {
			sw = [][2]int{}
		}
		if which == "shuffle" {
			res["r"] = []any{"trace", nn(out), []any{}, sw}
		} else {
			res["r"] = []any{"trace", nn(out), t.draws(k), sw}
		}
	}
}
