package main

import (
	"sort"
	"unsafe"

	"github.com/bradenaw/juniper/xslices"
)

// offset of the start of inner within s's array, in elements (also defined for empty slices)
func offsetIn(s, inner []int) int {
	a := dataPtr(s)
	b := dataPtr(inner)
	return int(int64(b)-int64(a)) / int(unsafe.Sizeof(int(0)))
}

// the data pointer of a slice (first word of the slice header; go.mod pins the language to go1.18,
// so unsafe.SliceData is not available)
func dataPtr(s []int) uintptr { return *(*uintptr)(unsafe.Pointer(&s)) }

// both slices start at the same array element (two slices without an array count as the same)
func sameArray(a, b []int) bool {
	if cap(a) == 0 || cap(b) == 0 {
		return cap(a) == 0 && cap(b) == 0
	}
	return dataPtr(a) == dataPtr(b)
}

func ranges(s []int, inner [][]int) (rs [][2]int, ls [][]int) {
	rs = [][2]int{}
	ls = [][]int{}
	for _, x := range inner {
		off := offsetIn(s, x)
		rs = append(rs, [2]int{off, off + len(x)})
		ls = append(ls, nn(clone(x)))
	}
	return
}

func sortedMapL(m map[int][]int, sortValues bool) [][]any {
	keys := make([]int, 0, len(m))
	for k := range m {
		keys = append(keys, k)
	}
	sort.Ints(keys)
	out := [][]any{}
	for _, k := range keys {
		v := clone(m[k])
		if sortValues {
			sort.Ints(v)
		}
		out = append(out, []any{k, v})
	}
	return out
}

func init() {
	// non-mutating functions report "after" = the input slice after the call (must be unchanged)
	calls["xslices.All"] = func(a []any, res map[string]any) {
		s := ints(a[0])
		res["r"] = []any{"bool", xslices.All(s, decodePred(a[1]))}
		res["after"] = nn(s)
	}
	calls["xslices.Any"] = func(a []any, res map[string]any) {
		s := ints(a[0])
		res["r"] = []any{"bool", xslices.Any(s, decodePred(a[1]))}
		res["after"] = nn(s)
	}
	calls["xslices.Chunk"] = func(a []any, res map[string]any) {
		s := ints(a[0])
		out := xslices.Chunk(s, num(a[1]))
		rs, ls := ranges(s, out)
		res["r"] = []any{"ranges", rs}
		res["lists"] = ls
		res["after"] = nn(s)
	}
	calls["xslices.Clear"] = func(a []any, res map[string]any) {
		s := ints(a[0])
		xslices.Clear(s)
		res["r"] = []any{"list", nn(s)}
	}
	calls["xslices.Clone"] = func(a []any, res map[string]any) {
		s := ints(a[0])
		out := xslices.Clone(s)
		res["r"] = []any{"list", nn(out)}
		res["alias"] = sameArray(s, out)
		res["after"] = nn(s)
	}
	calls["xslices.Compact"] = func(a []any, res map[string]any) {
		s := ints(a[0])
		out := xslices.Compact(s)
		res["r"] = []any{"list", nn(out)}
		res["alias"] = sameArray(s, out)
		res["after"] = nn(s)
	}
	calls["xslices.CompactInPlace"] = func(a []any, res map[string]any) {
		s := ints(a[0])
		out := xslices.CompactInPlace(s)
		res["r"] = []any{"inplace", nn(out), nn(s)}
		res["alias"] = sameArray(s, out)
	}
	calls["xslices.CompactFunc"] = func(a []any, res map[string]any) {
		s := ints(a[0])
		out := xslices.CompactFunc(s, decodeRel(a[1]))
		res["r"] = []any{"list", nn(out)}
		res["alias"] = sameArray(s, out)
		res["after"] = nn(s)
	}
	calls["xslices.CompactInPlaceFunc"] = func(a []any, res map[string]any) {
		s := ints(a[0])
		out := xslices.CompactInPlaceFunc(s, decodeRel(a[1]))
		res["r"] = []any{"inplace", nn(out), nn(s)}
		res["alias"] = sameArray(s, out)
	}
	calls["xslices.Count"] = func(a []any, res map[string]any) {
		s := ints(a[0])
		res["r"] = []any{"int", xslices.Count(s, num(a[1]))}
		res["after"] = nn(s)
	}
	calls["xslices.CountFunc"] = func(a []any, res map[string]any) {
		s := ints(a[0])
		res["r"] = []any{"int", xslices.CountFunc(s, decodePred(a[1]))}
		res["after"] = nn(s)
	}
	calls["xslices.Equal"] = func(a []any, res map[string]any) {
		res["r"] = []any{"bool", xslices.Equal(ints(a[0]), ints(a[1]))}
	}
	calls["xslices.EqualFunc"] = func(a []any, res map[string]any) {
		res["r"] = []any{"bool", xslices.EqualFunc(ints(a[0]), ints(a[1]), decodeRel(a[2]))}
	}
	calls["xslices.Fill"] = func(a []any, res map[string]any) {
		s := ints(a[0])
		xslices.Fill(s, num(a[1]))
		res["r"] = []any{"list", nn(s)}
	}
	calls["xslices.Filter"] = func(a []any, res map[string]any) {
		s := ints(a[0])
		out := xslices.Filter(s, decodePred(a[1]))
		res["r"] = []any{"list", nn(out)}
		res["alias"] = sameArray(s, out)
		res["after"] = nn(s)
	}
	calls["xslices.FilterInPlace"] = func(a []any, res map[string]any) {
		s := ints(a[0])
		out := xslices.FilterInPlace(s, decodePred(a[1]))
		res["r"] = []any{"inplace", nn(out), nn(s)}
		res["alias"] = sameArray(s, out)
	}
	calls["xslices.Group"] = func(a []any, res map[string]any) {
		s := ints(a[0])
		m := xslices.Group(s, decodeFn1(a[1]))
		res["r"] = []any{"mapl", sortedMapL(m, false)}
		res["after"] = nn(s)
	}
	calls["xslices.Grow"] = func(a []any, res map[string]any) {
		s, full := withCap(ints(a[0]), ints(a[1]))
		out := xslices.Grow(s, num(a[2]))
		res["r"] = []any{"cap", nn(clone(out)), cap(out), sameArray(s, out)}
		res["after"] = nn(full)
	}
	calls["xslices.Index"] = func(a []any, res map[string]any) {
		s := ints(a[0])
		res["r"] = []any{"int", xslices.Index(s, num(a[1]))}
		res["after"] = nn(s)
	}
	calls["xslices.IndexFunc"] = func(a []any, res map[string]any) {
		s := ints(a[0])
		res["r"] = []any{"int", xslices.IndexFunc(s, decodePred(a[1]))}
		res["after"] = nn(s)
	}
	calls["xslices.Insert"] = func(a []any, res map[string]any) {
		s, full := withCap(ints(a[0]), ints(a[1]))
		out := xslices.Insert(s, num(a[2]), ints(a[3])...)
		res["r"] = []any{"insert", nn(clone(out)), sameArray(s, out), nn(full)}
	}
	// Insert whose values are a sub-slice s[lo:hi] of s itself (s has spare capacity): a = [s, extra, idx, lo, hi]
	calls["xslices.InsertAliased"] = func(a []any, res map[string]any) {
		s, _ := withCap(ints(a[0]), ints(a[1]))
		lo, hi := num(a[3]), num(a[4])
		out := xslices.Insert(s, num(a[2]), s[lo:hi]...)
		res["r"] = []any{"list", nn(clone(out))}
	}
	calls["xslices.Join"] = func(a []any, res map[string]any) {
		res["r"] = []any{"list", nn(xslices.Join(intss(a[0])...))}
	}
	calls["xslices.LastIndex"] = func(a []any, res map[string]any) {
		s := ints(a[0])
		res["r"] = []any{"int", xslices.LastIndex(s, num(a[1]))}
		res["after"] = nn(s)
	}
	calls["xslices.LastIndexFunc"] = func(a []any, res map[string]any) {
		s := ints(a[0])
		res["r"] = []any{"int", xslices.LastIndexFunc(s, decodePred(a[1]))}
		res["after"] = nn(s)
	}
	calls["xslices.Map"] = func(a []any, res map[string]any) {
		s := ints(a[0])
		res["r"] = []any{"list", nn(xslices.Map(s, decodeFn1(a[1])))}
		res["after"] = nn(s)
	}
	calls["xslices.Partition"] = func(a []any, res map[string]any) {
		s := ints(a[0])
		r := xslices.Partition(s, decodePred(a[1]))
		res["r"] = []any{"intlist", r, nn(s)}
	}
	calls["xslices.Reduce"] = func(a []any, res map[string]any) {
		s := ints(a[0])
		m := num(a[2])
		res["r"] = []any{"int", xslices.Reduce(s, num(a[1]), func(acc int, x int) int { return acc*m + x })}
		res["after"] = nn(s)
	}
	calls["xslices.Remove"] = func(a []any, res map[string]any) {
		s := ints(a[0])
		out := xslices.Remove(s, num(a[1]), num(a[2]))
		res["r"] = []any{"inplace", nn(out), nn(s)}
		res["alias"] = sameArray(s, out)
	}
	calls["xslices.RemoveUnordered"] = func(a []any, res map[string]any) {
		s := ints(a[0])
		out := xslices.RemoveUnordered(s, num(a[1]), num(a[2]))
		res["r"] = []any{"inplace", nn(out), nn(s)}
		res["alias"] = sameArray(s, out)
	}
	calls["xslices.Repeat"] = func(a []any, res map[string]any) {
		res["r"] = []any{"list", nn(xslices.Repeat(num(a[0]), num(a[1])))}
	}
	calls["xslices.Reverse"] = func(a []any, res map[string]any) {
		s := ints(a[0])
		xslices.Reverse(s)
		res["r"] = []any{"list", nn(s)}
	}
	calls["xslices.Runs"] = func(a []any, res map[string]any) {
		s := ints(a[0])
		out := xslices.Runs(s, decodeRel(a[1]))
		rs, ls := ranges(s, out)
		res["r"] = []any{"ranges", rs}
		res["lists"] = ls
		res["after"] = nn(s)
	}
	calls["xslices.Shrink"] = func(a []any, res map[string]any) {
		s, full := withCap(ints(a[0]), ints(a[1]))
		out := xslices.Shrink(s, num(a[2]))
		res["r"] = []any{"cap", nn(clone(out)), cap(out), sameArray(s, out)}
		res["after"] = nn(full)
	}
	calls["xslices.Unique"] = func(a []any, res map[string]any) {
		s := ints(a[0])
		out := xslices.Unique(s)
		res["r"] = []any{"list", nn(out)}
		res["alias"] = sameArray(s, out)
		res["after"] = nn(s)
	}
	calls["xslices.UniqueInPlace"] = func(a []any, res map[string]any) {
		s := ints(a[0])
		out := xslices.UniqueInPlace(s)
		res["r"] = []any{"inplace", nn(out), nn(s)}
		res["alias"] = sameArray(s, out)
	}
}
