#!/bin/sh
# usage: tools/try_patch.sh <patch.diff> <property> [tier]   -- applies the patch to a scratch worktree of /repo's HEAD,
# runs the check with VERIF_REPO pointing at it, removes the worktree. Prints the check's output.
set -e
P=$(readlink -f "$1"); PROP=$2; TIER=${3:-quick}
W=/tmp/seedrun-$$-$PROP
git -C /repo worktree add -q --detach "$W" HEAD
trap 'git -C /repo worktree remove --force "$W" >/dev/null 2>&1 || true' EXIT
git -C "$W" apply "$P"
cd /verif
VERIF_REPO="$W" ./check "$PROP" --tier "$TIER" || true
