#!/bin/sh
# Full audit as a stranger would do it: clean rebuild of the whole Coq development, global grep gate,
# Print Assumptions of every property theorem, coqchk -o over every property module.
set -e
cd "$(dirname "$0")/.."
python3 - <<'PY'
import sys, os, json, time
sys.path.insert(0, "lib")
import vlib
vlib.gofacts()
vlib.coq_project()
t = time.time()
rc, out = vlib.sh("make clean >/dev/null 2>&1; make -j%d" % vlib.NPROC, cwd=vlib.COQ, timeout=7200)
print("full build: rc=%d in %.0fs" % (rc, time.time() - t))
if rc != 0:
    print(out[-3000:]); sys.exit(1)
bad = vlib.grep_gate()
print("global grep gate:", "clean" if not bad else bad)
props = sorted(f[:-2] for f in os.listdir(os.path.join(vlib.COQ, "Properties")) if f.endswith(".v"))
names = vlib.theorem_names(props)
pa, raw = vlib.print_assumptions(props, names)
notclosed = {n: t for n, t in (pa or {}).items() if "Closed under the global context" not in t}
print("property theorems: %d, not closed: %s" % (len(names), notclosed or "none"))
r = vlib.coqchk(props, timeout=7200)
print("coqchk:", r.get("ok"), r.get("wall_s"), "axioms:", r.get("axioms_reported"))
sys.exit(0 if (not bad and not notclosed and r.get("ok")) else 1)
PY
