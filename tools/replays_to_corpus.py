#!/usr/bin/env python3
"""usage: replays_to_corpus.py <PROP> <name> <since-epoch>: stores the cases of replays written since then
(with a failing input) as corpus/<PROP>/<name>-<k>.json so that they run first on every later run."""
import json, os, sys, glob
ROOT = os.path.dirname(os.path.dirname(os.path.abspath(__file__)))
prop, name, since = sys.argv[1], sys.argv[2], float(sys.argv[3])
k = 0
for f in sorted(glob.glob(os.path.join(ROOT, "replays", prop + "-*.json")), key=os.path.getmtime):
    if os.path.getmtime(f) < since:
        continue
    r = json.load(open(f))
    case = (r.get("replay") or {}).get("case")
    if not r.get("failing_input_found") or not isinstance(case, dict):
        continue
    tag = r["signature"].split(":", 1)[0]
    case = dict(case)
    case.pop("id", None)
    case["component"] = tag            # corpus cases are selected by the part tag
    case["corpus_origin"] = "%s: %s" % (name, r["signature"])
    d = os.path.join(ROOT, "corpus", prop)
    os.makedirs(d, exist_ok=True)
    json.dump(case, open(os.path.join(d, "%s-%d.json" % (name, k)), "w"))
    k += 1
print("stored", k, "corpus cases for", name)
if k:
    import subprocess
    subprocess.run([sys.executable, os.path.join(ROOT, "tools", "validate_corpus.py"), prop], env=dict(os.environ, REPEAT="3"))
