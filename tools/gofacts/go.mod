module gofacts

go 1.18
