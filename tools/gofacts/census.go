package main

// Synchronisation census: for every function the concurrency models (theories/Conc/*.v) transcribe, the bag of
// synchronisation-relevant operations found in its body (nested function literals included): select statements and
// their arms, channel sends/receives/closes, go statements, range loops, len/cap of channels, and calls into
// time, context, sync, atomic, errgroup, runtime, of cancel functions and of Lock/Unlock/Wait/Signal/... methods.
// It is regenerated into theories/Generated/Census.v on every run; theories/Translated/Census*.v state the census
// each model was written against. The bag ignores order, control flow and the difference between `defer x.Unlock()`
// and `x.Unlock()`, so that restructuring a function leaves it unchanged, while a new timer, select arm, channel
// operation, goroutine or cancel() call - the things a model of the function would have to account for - changes it.
// Operands are not part of the census (renaming a variable or a field changes nothing).

import (
	"fmt"
	"go/ast"
	"go/token"
	"sort"
	"strings"
)

type censusSpec struct {
	prop, file, recv, name string
}

var censusSpecs = []censusSpec{
	{"C10", "stream/stream.go", "", "Pipe"},
	{"C10", "stream/stream.go", "PipeSender", "Send"},
	{"C10", "stream/stream.go", "PipeSender", "TrySend"},
	{"C10", "stream/stream.go", "PipeSender", "Close"},
	{"C10", "stream/stream.go", "pipeStream", "Next"},
	{"C10", "stream/stream.go", "pipeStream", "Close"},
	{"C11", "stream/stream.go", "", "Batch"},
	{"C11", "stream/stream.go", "", "BatchFunc"},
	{"C11", "stream/stream.go", "batchStream", "Next"},
	{"C11", "stream/stream.go", "batchStream", "Close"},
	{"C12", "chans/chans.go", "", "Merge"},
	{"C12", "chans/chans.go", "", "merge2"},
	{"C12", "chans/chans.go", "", "merge3"},
	{"C12", "chans/chans.go", "", "Replicate"},
	{"C12", "stream/stream.go", "", "Merge"},
	{"C12", "stream/stream.go", "mergeStream", "Next"},
	{"C12", "stream/stream.go", "mergeStream", "Close"},
	{"C13", "parallel/parallel.go", "", "Do"},
	{"C13", "parallel/parallel.go", "", "DoContext"},
	{"C13", "parallel/parallel.go", "", "Map"},
	{"C13", "parallel/parallel.go", "", "MapContext"},
	{"C14", "parallel/parallel.go", "", "MapIterator"},
	{"C14", "parallel/parallel.go", "mapIterator", "Next"},
	{"C14", "parallel/parallel.go", "", "MapStream"},
	{"C14", "parallel/parallel.go", "mapStream", "Next"},
	{"C14", "parallel/parallel.go", "mapStream", "Close"},
	{"C16", "xsync/xsync.go", "", "NewContextCond"},
	{"C16", "xsync/xsync.go", "ContextCond", "Broadcast"},
	{"C16", "xsync/xsync.go", "ContextCond", "Signal"},
	{"C16", "xsync/xsync.go", "ContextCond", "Wait"},
	{"C17", "xsync/xsync.go", "", "NewGroup"},
	{"C17", "xsync/xsync.go", "Group", "spawn"},
	{"C17", "xsync/xsync.go", "Group", "Do"},
	{"C17", "xsync/xsync.go", "Group", "Periodic"},
	{"C17", "xsync/xsync.go", "Group", "Trigger"},
	{"C17", "xsync/xsync.go", "Group", "PeriodicOrTrigger"},
	{"C17", "xsync/xsync.go", "Group", "Stop"},
	{"C17", "xsync/xsync.go", "Group", "StopAndWait"},
	{"C18", "xsync/xsync.go", "", "NewFuture"},
	{"C18", "xsync/xsync.go", "Future", "Fill"},
	{"C18", "xsync/xsync.go", "Future", "Wait"},
	{"C18", "xsync/xsync.go", "Future", "WaitContext"},
	{"C18", "xsync/xsync_go1.19.go", "Watchable", "Set"},
	{"C18", "xsync/xsync_go1.19.go", "Watchable", "Value"},
	{"C18", "xsync/xsync_go1.21.go", "", "Lazy"},
	{"C20", "xtime/xtime.go", "", "SleepContext"},
	{"C20", "xtime/xtime.go", "", "NewJitterTicker"},
	{"C20", "xtime/xtime.go", "JitterTicker", "schedule"},
	{"C20", "xtime/xtime.go", "JitterTicker", "Reset"},
	{"C20", "xtime/xtime.go", "JitterTicker", "Stop"},
}

var syncMethods = map[string]bool{
	"Lock": true, "Unlock": true, "RLock": true, "RUnlock": true, "TryLock": true, "Wait": true, "Signal": true, "Broadcast": true,
	"Add": true, "Done": true, "Go": true, "Store": true, "Load": true, "CompareAndSwap": true, "Swap": true,
	"Stop": true, "Reset": true, "Err": true, "Do": true, "SetLimit": true,
}
var syncPackages = map[string]bool{"time": true, "context": true, "sync": true, "atomic": true, "errgroup": true, "runtime": true, "reflect": true}

func censusOf(fd *ast.FuncDecl) map[string]int {
	bag := map[string]int{}
	armComm := map[ast.Node]bool{} // nodes that are the communication of a select arm
	chans := map[string]bool{}     // printed operands of channel operations
	note := func(e ast.Expr) string {
		s := strings.Join(strings.Fields(goText(e)), " ")
		chans[s] = true
		return s
	}
	// pass 1: select arms
	ast.Inspect(fd.Body, func(n ast.Node) bool {
		sel, ok := n.(*ast.SelectStmt)
		if !ok {
			return true
		}
		bag["select"]++
		for _, cl := range sel.Body.List {
			cc := cl.(*ast.CommClause)
			switch c := cc.Comm.(type) {
			case nil:
				bag["arm:default"]++
			case *ast.SendStmt:
				armComm[c] = true
				note(c.Chan)
				bag["arm:send"]++
			case *ast.ExprStmt:
				if u, ok := c.X.(*ast.UnaryExpr); ok && u.Op == token.ARROW {
					armComm[u] = true
					note(u.X)
					bag["arm:recv"]++
				}
			case *ast.AssignStmt:
				if len(c.Rhs) == 1 {
					if u, ok := c.Rhs[0].(*ast.UnaryExpr); ok && u.Op == token.ARROW {
						armComm[u] = true
						note(u.X)
						bag["arm:recv"]++
					}
				}
			}
		}
		return true
	})
	// pass 2: everything else
	type lencap struct{ fn, arg string }
	var lencaps []lencap
	ast.Inspect(fd.Body, func(n ast.Node) bool {
		switch x := n.(type) {
		case *ast.GoStmt:
			bag["go"]++
		case *ast.SendStmt:
			if !armComm[x] {
				note(x.Chan)
				bag["send"]++
			}
		case *ast.UnaryExpr:
			if x.Op == token.ARROW && !armComm[x] {
				note(x.X)
				bag["recv"]++
			}
		case *ast.RangeStmt:
			bag["range"]++
		case *ast.CallExpr:
			switch f := x.Fun.(type) {
			case *ast.Ident:
				switch {
				case f.Name == "close" && len(x.Args) == 1:
					note(x.Args[0])
					bag["close"]++
				case f.Name == "make" && len(x.Args) >= 1:
					if _, ok := x.Args[0].(*ast.ChanType); ok {
						bag["makechan"]++
					}
				case (f.Name == "len" || f.Name == "cap") && len(x.Args) == 1:
					lencaps = append(lencaps, lencap{f.Name, strings.Join(strings.Fields(goText(x.Args[0])), " ")})
				case strings.Contains(strings.ToLower(f.Name), "cancel"):
					bag["call:cancel"]++
				}
			case *ast.SelectorExpr:
				if id, ok := f.X.(*ast.Ident); ok && syncPackages[id.Name] {
					bag["call:"+id.Name+"."+f.Sel.Name]++
				} else if strings.Contains(strings.ToLower(f.Sel.Name), "cancel") {
					bag["call:cancel"]++
				} else if syncMethods[f.Sel.Name] {
					bag["call:."+f.Sel.Name]++
				}
			}
		}
		return true
	})
	for _, lc := range lencaps {
		if chans[lc.arg] {
			bag[lc.fn+"-of-channel"]++
		}
	}
	return bag
}

// censusAll returns the text of Generated/Census.v.
func censusAll(parse func(rel string) *ast.File) string {
	var out strings.Builder
	out.WriteString("(* GENERATED by tools/gofacts (census.go) from the Go source on every run. Do not edit.\n")
	out.WriteString("   The bag of synchronisation-relevant operations of every function the concurrency models transcribe;\n")
	out.WriteString("   theories/Translated/Census*.v state the census each model was written against. *)\n")
	out.WriteString("From Coq Require Import String List ZArith.\nImport ListNotations.\nOpen Scope string_scope.\nOpen Scope Z_scope.\n\n")
	files := map[string]*ast.File{}
	for _, sp := range censusSpecs {
		f, ok := files[sp.file]
		if !ok {
			f = parse(sp.file)
			files[sp.file] = f
		}
		var fd *ast.FuncDecl
		for _, d := range f.Decls {
			if x, ok := d.(*ast.FuncDecl); ok && x.Name.Name == sp.name && recvName(x) == sp.recv && x.Body != nil {
				fd = x
			}
		}
		name := "census_" + sp.prop + "_" + strings.ReplaceAll(strings.TrimSuffix(strings.ReplaceAll(sp.file, "/", "_"), ".go"), ".", "_")
		if sp.recv != "" {
			name += "_" + sp.recv
		}
		name += "_" + sp.name
		if fd == nil {
			// a function the models transcribe no longer exists: the obligation that mentions it will fail
			fmt.Fprintf(&out, "(* %s: func %s %s NOT FOUND *)\n\n", sp.file, sp.recv, sp.name)
			continue
		}
		bag := censusOf(fd)
		keys := make([]string, 0, len(bag))
		for k := range bag {
			keys = append(keys, k)
		}
		sort.Strings(keys)
		items := make([]string, 0, len(keys))
		for _, k := range keys {
			items = append(items, fmt.Sprintf("(\"%s\", %d)", strings.ReplaceAll(k, "\"", "'"), bag[k]))
		}
		fmt.Fprintf(&out, "(* %s: func %s%s *)\nDefinition %s : list (string * Z) :=\n  [%s].\n\n", sp.file,
			map[bool]string{true: "(" + sp.recv + ") ", false: ""}[sp.recv != ""], sp.name, name, strings.Join(items, ";\n   "))
	}
	return out.String()
}
