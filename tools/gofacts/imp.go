package main

// imp.go: a Go -> Gallina translator for IMPERATIVE functions (field and slice writes, method calls that
// mutate their receiver, panics, early returns, loops).  It regenerates coq/theories/Generated/Imp<Pkg>.v from the
// Go source on every run.  Each Go function becomes a Gallina function in explicit state-passing style over the
// `result` type of Common/Base.v (Ok / Panic):
//
//   - the receiver is a record value that is rebound (`let d := ... in`) by every field write;
//   - every partial operation (index read/write, slicing, %, /, make, a call of another translated function) is
//     hoisted out of its expression in evaluation order and sequenced with `rbind`; a partial operation below the
//     right operand of && or || is refused (the hoisting would change when it panics);
//   - int arithmetic (+, -, *, unary -, ++, --) wraps at 64 bits (wadd, wsub, wmul, wneg of Translated/GoImp.v);
//   - `if` without a return inside becomes a join point over the variables assigned in it, `if` with a return
//     duplicates the continuation; loops become `goloop fuel body state` with CNext/CBreak/CRet control values;
//   - anything outside this subset makes the translation of that file FAIL (the generated file is then a stub and
//     the proof obligations that use it break).
//
// theories/Translated/Imp<Pkg>OK.v proves, for all reachable states, that the translated functions compute what the
// hand-written model computes.

import (
	"bytes"
	"fmt"
	"go/ast"
	"go/token"
	"sort"
	"strings"
)

type recField struct {
	goName  string
	coqName string
	kind    string // "int", "val", "bool", "optslice" (option (list T): nil-able slice), "slice", "skip", "state"
	def     string // value in a composite literal that does not mention the field ("" = 0 / false)
}

type recSpec struct {
	ctor   string
	goType string // Go struct name (for composite literals)
	fields []recField
}

type impFn struct {
	file    string
	recv    string // Go receiver type name ("" = plain function)
	name    string
	coqName string
	recvRec string // key of recSpecs for the receiver ("" = none)
	mut     bool   // the function may write its receiver: result carries the new receiver
	binders string // Coq binders for the Go parameters, in order
	retTy   string // Coq type of the returned value ("" = no value)
	fuel    string // Coq term for the fuel of loops in this function
	// extra read-only record variables: Go expression text -> (variable name, record spec key)
	aliases map[string][2]string
	// printed Go expression -> Coq term (escape hatch, kept small and listed in DESIGN.md)
	rewrite map[string]string
	// printed argument of panic(...) -> pclass constructor
	panics map[string]string
	// extra leading binders (e.g. the deque an iterator points to)
	preBinders string
	// the record variable written by the function when it is not the receiver's own name
	stateVars []string
	// the function has no side effect and never panics (an obligation of the OK file: <coqName>_safe), so a call
	// may be evaluated early, out of the right operand of && and ||
	safe bool
	// slice parameters the function writes through: their final contents are returned next to the value
	outVars []string
	outTy   string // Coq type of the packed result when outVars is set
}

type impPkg struct {
	out     string // file name under Generated/
	imports string
	section string // Context line(s)
	recs    map[string]recSpec
	fns     []impFn
	// calls of plain identifiers / selectors that are total and pure: printed callee -> Coq function
	pureCalls map[string]string
	// calls of a function-valued field that acts on state the record carries (a callback closing over its own
	// state): printed callee -> (record field holding that state, Coq function : args -> state -> state)
	effectCalls map[string][2]string
	// translated functions of another package that this one calls (coqName carries their section arguments)
	extern []impFn
	// Go struct types modelled as Coq pairs: type name -> field name -> projection
	pairTypes map[string]map[string]string
	// equality test of the key type of map-kind fields
	mapEq string
	// Go receiver type of the methods called through an alias expression (e.g. "h.inner" -> "Heap")
	aliasRecv map[string]string
}

type bindT struct{ pat, rhs string }

type impT struct {
	pkg   *impPkg
	fn    *impFn
	recvN string // Go name of the receiver variable
	err   error
	pre   []bindT
	fresh int
	byKey map[string]*impFn // "Recv.name" -> spec
	// >0 while translating the right operand of && / ||; unsafeHoist records a hoisted operation that may panic
	safeOnly    int
	unsafeHoist bool
}

func (t *impT) fail(n ast.Node, what string) string {
	if t.err == nil {
		t.err = fmt.Errorf("%s.%s: cannot translate %s: %s", t.fn.recv, t.fn.name, what, goText(n))
	}
	return "?"
}

func (t *impT) newVar(prefix string) string {
	t.fresh++
	return fmt.Sprintf("%s%d_", prefix, t.fresh)
}

func (t *impT) hoist(prefix, rhs string) string {
	if t.safeOnly > 0 {
		t.unsafeHoist = true
	}
	v := t.newVar(prefix)
	t.pre = append(t.pre, bindT{v, rhs})
	return v
}

func (t *impT) takePre() []bindT {
	p := t.pre
	t.pre = nil
	return p
}

func wrapPre(pre []bindT, body string) string {
	for i := len(pre) - 1; i >= 0; i-- {
		body = "rbind " + pre[i].rhs + " (fun " + pre[i].pat + " =>\n  " + body + ")"
	}
	return body
}

// recOf returns the record spec and Coq variable when e denotes a record variable (the receiver or an alias).
func (t *impT) recOf(e ast.Expr) (string, *recSpec) {
	txt := goText(e)
	if a, ok := t.fn.aliases[txt]; ok {
		r := t.pkg.recs[a[1]]
		return a[0], &r
	}
	if id, ok := e.(*ast.Ident); ok && id.Name == t.recvN && t.fn.recvRec != "" {
		r := t.pkg.recs[t.fn.recvRec]
		return id.Name, &r
	}
	return "", nil
}

func (r *recSpec) field(name string) *recField {
	for i := range r.fields {
		if r.fields[i].goName == name {
			return &r.fields[i]
		}
	}
	return nil
}

// sliceExpr translates an expression of slice type to a Coq list term.
func (t *impT) sliceTerm(e ast.Expr) string {
	if p, ok := e.(*ast.ParenExpr); ok {
		return t.sliceTerm(p.X)
	}
	if sel, ok := e.(*ast.SelectorExpr); ok {
		if v, r := t.recOf(sel.X); r != nil {
			if f := r.field(sel.Sel.Name); f != nil {
				switch f.kind {
				case "optslice":
					return "(buf " + v + ")"
				case "slice":
					return "(" + f.coqName + " " + v + ")"
				}
			}
		}
	}
	return t.expr(e)
}

func (t *impT) expr(e ast.Expr) string {
	if r, ok := t.fn.rewrite[goText(e)]; ok {
		return "(" + r + ")"
	}
	switch x := e.(type) {
	case *ast.BasicLit:
		if x.Kind == token.INT {
			return x.Value
		}
	case *ast.Ident:
		return x.Name
	case *ast.ParenExpr:
		return t.expr(x.X)
	case *ast.SelectorExpr:
		if v, r := t.recOf(x); r != nil { // an alias such as iter.d
			_ = r
			return v
		}
		if v, r := t.recOf(x.X); r != nil {
			f := r.field(x.Sel.Name)
			if f == nil {
				return t.fail(e, "unknown field")
			}
			switch f.kind {
			case "optslice", "slice":
				return t.sliceTerm(e)
			case "skip":
				return t.fail(e, "field outside the model")
			}
			return "(" + f.coqName + " " + v + ")"
		}
		// a field of a struct modelled as a pair
		for _, flds := range t.pkg.pairTypes {
			if proj, ok := flds[x.Sel.Name]; ok {
				return "(" + proj + " " + t.expr(x.X) + ")"
			}
		}
	case *ast.UnaryExpr:
		switch x.Op {
		case token.SUB:
			return "(wneg " + t.expr(x.X) + ")"
		case token.NOT:
			return "(negb " + t.expr(x.X) + ")"
		}
	case *ast.BinaryExpr:
		// nil comparisons of nil-able slice fields
		if id, ok := x.Y.(*ast.Ident); ok && id.Name == "nil" && (x.Op == token.EQL || x.Op == token.NEQ) {
			if sel, ok := x.X.(*ast.SelectorExpr); ok {
				if v, r := t.recOf(sel.X); r != nil {
					if f := r.field(sel.Sel.Name); f != nil && f.kind == "optslice" {
						if x.Op == token.EQL {
							return "(isnil " + v + ")"
						}
						return "(negb (isnil " + v + "))"
					}
				}
			}
			return t.fail(e, "nil comparison")
		}
		a := t.expr(x.X)
		if x.Op == token.LAND || x.Op == token.LOR {
			n := len(t.pre)
			t.safeOnly++
			b := t.expr(x.Y)
			t.safeOnly--
			if len(t.pre) != n && t.unsafeHoist {
				// the right operand contains an operation that may panic: it is evaluated only when the left operand
				// does not decide -- (a && b) becomes a conditional whose branch carries b's hoisted operations
				if t.safeOnly > 0 {
					return t.fail(e, "nested partial operation under short-circuit operators")
				}
				t.unsafeHoist = false
				inner := append([]bindT{}, t.pre[n:]...)
				t.pre = t.pre[:n]
				v := t.newVar("b")
				if x.Op == token.LAND {
					t.pre = append(t.pre, bindT{v, "(if " + a + "\n  then " + wrapPre(inner, "Ok "+b) + "\n  else Ok false)"})
				} else {
					t.pre = append(t.pre, bindT{v, "(if " + a + "\n  then Ok true\n  else " + wrapPre(inner, "Ok "+b) + ")"})
				}
				return v
			}
			if x.Op == token.LAND {
				return "(" + a + " && " + b + ")"
			}
			return "(" + a + " || " + b + ")"
		}
		b := t.expr(x.Y)
		switch x.Op {
		case token.ADD:
			return "(wadd " + a + " " + b + ")"
		case token.SUB:
			return "(wsub " + a + " " + b + ")"
		case token.MUL:
			return "(wmul " + a + " " + b + ")"
		case token.QUO:
			return t.hoist("q", "(goquo "+a+" "+b+")")
		case token.REM:
			return t.hoist("r", "(gorem "+a+" "+b+")")
		case token.EQL:
			return "(" + a + " =? " + b + ")"
		case token.NEQ:
			return "(negb (" + a + " =? " + b + "))"
		case token.LSS:
			return "(" + a + " <? " + b + ")"
		case token.LEQ:
			return "(" + a + " <=? " + b + ")"
		case token.GTR:
			return "(" + a + " >? " + b + ")"
		case token.GEQ:
			return "(" + a + " >=? " + b + ")"
		}
	case *ast.IndexExpr:
		s := t.sliceTerm(x.X)
		i := t.expr(x.Index)
		return t.hoist("v", "(goget "+s+" "+i+")")
	case *ast.SliceExpr:
		if x.Slice3 {
			return t.fail(e, "3-index slice")
		}
		s := t.sliceTerm(x.X)
		lo, hi := "0", "(zlen "+s+")"
		if x.Low != nil {
			lo = t.expr(x.Low)
		}
		if x.High != nil {
			hi = t.expr(x.High)
		}
		return t.hoist("s", "(goslice "+s+" "+lo+" "+hi+")")
	case *ast.CallExpr:
		return t.call(x, true)
	case *ast.CompositeLit:
		// Heap[T]{a: initial, ...}: a record of the package; fields outside the model are dropped
		tyName := goText(x.Type)
		if i := strings.Index(tyName, "["); i >= 0 {
			tyName = tyName[:i]
		}
		if _, ok := t.pkg.pairTypes[tyName]; ok && len(x.Elts) == 2 {
			if _, kv := x.Elts[0].(*ast.KeyValueExpr); !kv {
				return "(" + t.expr(x.Elts[0]) + ", " + t.expr(x.Elts[1]) + ")"
			}
		}
		for _, r := range t.pkg.recs {
			if r.goType != tyName {
				continue
			}
			given := map[string]string{}
			for _, el := range x.Elts {
				kv, ok := el.(*ast.KeyValueExpr)
				if !ok {
					return t.fail(e, "positional composite literal")
				}
				k := kv.Key.(*ast.Ident).Name
				f := r.field(k)
				if f == nil {
					return t.fail(e, "unknown field in composite literal")
				}
				if f.kind != "skip" {
					given[k] = t.rhs(kv.Value)
				}
			}
			parts := []string{r.ctor}
			for _, f := range r.fields {
				if f.kind == "skip" {
					continue
				}
				if v, ok := given[f.goName]; ok {
					if f.kind == "optslice" {
						v = "(Some " + v + ")"
					}
					parts = append(parts, v)
				} else if f.def != "" {
					parts = append(parts, f.def)
				} else if f.kind == "bool" {
					parts = append(parts, "false")
				} else {
					parts = append(parts, "0")
				}
			}
			return "(" + strings.Join(parts, " ") + ")"
		}
	}
	return t.fail(e, "expression")
}

// call translates a call in expression position (value=true) and returns the Coq term of its value.
func (t *impT) call(c *ast.CallExpr, value bool) string {
	callee := goText(c.Fun)
	if id, ok := c.Fun.(*ast.Ident); ok {
		switch id.Name {
		case "len":
			return "(zlen " + t.sliceTerm(c.Args[0]) + ")"
		case "int":
			return t.expr(c.Args[0])
		case "make":
			if len(c.Args) == 2 {
				if at, ok := c.Args[0].(*ast.ArrayType); ok {
					if _, nested := at.Elt.(*ast.ArrayType); nested {
						// make([][]T, n): the zero value of the element type is the nil slice
						return t.hoist("m", "(gomake [] "+t.expr(c.Args[1])+")")
					}
					return t.hoist("m", "(gomake zero "+t.expr(c.Args[1])+")")
				}
			}
			return t.fail(c, "make")
		}
	}
	if ec, ok := t.pkg.effectCalls[callee]; ok {
		// h.indexChanged(x, i): the callback updates the state it closes over, carried in a record field
		if sel, ok := c.Fun.(*ast.SelectorExpr); ok {
			if v, r := t.recOf(sel.X); r != nil && v == t.recvN && t.fn.mut {
				var f *recField
				for i := range r.fields {
					if r.fields[i].coqName == ec[0] {
						f = &r.fields[i]
					}
				}
				if f != nil {
					parts := []string{ec[1]}
					for _, a := range c.Args {
						parts = append(parts, t.expr(a))
					}
					parts = append(parts, "("+f.coqName+" "+v+")")
					if t.safeOnly > 0 {
						t.unsafeHoist = true
					}
					t.pre = append(t.pre, bindT{v, "(Ok " + t.setField(v, r, f, "("+strings.Join(parts, " ")+")") + ")"})
					return "tt"
				}
			}
		}
		return t.fail(c, "effect call")
	}
	if f, ok := t.pkg.pureCalls[callee]; ok {
		parts := []string{f}
		for _, a := range c.Args {
			parts = append(parts, t.expr(a))
		}
		return "(" + strings.Join(parts, " ") + ")"
	}
	// a translated function of this package
	var key string
	var recvVar string
	switch f := c.Fun.(type) {
	case *ast.Ident:
		key = "." + f.Name
	case *ast.SelectorExpr:
		if v, r := t.recOf(f.X); r != nil {
			recvVar = v
			// the Go type of the callee's receiver: the current receiver's, or the one the spec gives for an alias
			rt := r.goType
			if a, ok := t.pkg.aliasRecv[goText(f.X)]; ok {
				rt = a
			}
			key = rt + "." + f.Sel.Name
		}
	}
	sp := t.byKey[key]
	if sp == nil {
		return t.fail(c, "call of an untranslated function")
	}
	parts := []string{sp.coqName}
	if sp.preBinders != "" {
		return t.fail(c, "call of a function with extra state")
	}
	for _, a := range c.Args {
		parts = append(parts, t.expr(a))
	}
	if recvVar != "" {
		parts = append(parts, recvVar)
	}
	app := "(" + strings.Join(parts, " ") + ")"
	switch {
	case sp.mut && recvVar != "" && recvVar != t.recvN:
		return t.fail(c, "mutation of an alias")
	case sp.mut && sp.retTy != "":
		if t.safeOnly > 0 {
			t.unsafeHoist = true
		}
		v := t.newVar("c")
		t.pre = append(t.pre, bindT{"'(" + v + ", " + recvVar + ")", app})
		return v
	case sp.mut:
		if t.safeOnly > 0 {
			t.unsafeHoist = true
		}
		t.pre = append(t.pre, bindT{recvVar, app})
		return "tt"
	case sp.safe:
		v := t.newVar("c")
		t.pre = append(t.pre, bindT{v, app})
		return v
	default:
		return t.hoist("c", app)
	}
}

// setField returns the Coq term of the receiver record with one field replaced.
func (t *impT) setField(v string, r *recSpec, f *recField, val string) string {
	parts := []string{r.ctor}
	for i := range r.fields {
		g := &r.fields[i]
		if g.kind == "skip" {
			continue
		}
		if g == f {
			parts = append(parts, val)
		} else {
			parts = append(parts, "("+g.coqName+" "+v+")")
		}
	}
	return "(" + strings.Join(parts, " ") + ")"
}

// assign1 translates `lhs = rhsTerm` (rhsTerm already translated); returns a function wrapping the continuation.
func (t *impT) assign1(lhs ast.Expr, rhs string) func(k string) string {
	switch l := lhs.(type) {
	case *ast.Ident:
		if l.Name == "_" {
			return func(k string) string { return k }
		}
		name := l.Name
		return func(k string) string { return "let " + name + " := " + rhs + " in\n  " + k }
	case *ast.ParenExpr:
		return t.assign1(l.X, rhs)
	case *ast.SelectorExpr:
		if v, r := t.recOf(l.X); r != nil && v == t.recvN {
			f := r.field(l.Sel.Name)
			if f == nil || f.kind == "skip" {
				t.fail(lhs, "assignment to a field outside the model")
				return func(k string) string { return k }
			}
			val := rhs
			if f.kind == "optslice" {
				val = "(Some " + rhs + ")"
			}
			term := t.setField(v, r, f, val)
			return func(k string) string { return "let " + v + " := " + term + " in\n  " + k }
		}
	case *ast.IndexExpr:
		// X[i] = rhs where X is a local slice or a slice field of the receiver
		base := l.X
		if p, ok := base.(*ast.ParenExpr); ok {
			base = p.X
		}
		idx := t.expr(l.Index)
		if sel, ok := base.(*ast.SelectorExpr); ok {
			if v, r := t.recOf(sel.X); r != nil && v == t.recvN {
				f := r.field(sel.Sel.Name)
				if f != nil && (f.kind == "optslice" || f.kind == "slice") {
					tmp := t.newVar("a")
					val := tmp
					if f.kind == "optslice" {
						val = "(Some " + tmp + ")"
					}
					term := t.setField(v, r, f, val)
					src := t.sliceTerm(base)
					return func(k string) string {
						return "rbind (goset " + src + " " + idx + " " + rhs + ") (fun " + tmp + " =>\n  let " + v + " := " + term + " in\n  " + k + ")"
					}
				}
			}
		}
		if id, ok := base.(*ast.Ident); ok {
			name := id.Name
			return func(k string) string {
				return "rbind (goset " + name + " " + idx + " " + rhs + ") (fun " + name + " =>\n  " + k + ")"
			}
		}
	}
	t.fail(lhs, "assignment target")
	return func(k string) string { return k }
}

// assigned collects the names (locals declared outside, and the receiver) written by the statements.
func (t *impT) assigned(l []ast.Stmt, declared map[string]bool, out map[string]bool) {
	var lhsName func(e ast.Expr)
	lhsName = func(e ast.Expr) {
		switch x := e.(type) {
		case *ast.Ident:
			if x.Name != "_" && !declared[x.Name] {
				out[x.Name] = true
			}
		case *ast.ParenExpr:
			lhsName(x.X)
		case *ast.SelectorExpr:
			if v, r := t.recOf(x.X); r != nil {
				out[v] = true
			}
		case *ast.IndexExpr:
			lhsName(x.X)
		}
	}
	for _, s := range l {
		ast.Inspect(s, func(n ast.Node) bool {
			switch x := n.(type) {
			case *ast.AssignStmt:
				if x.Tok == token.DEFINE {
					for _, e := range x.Lhs {
						if id, ok := e.(*ast.Ident); ok {
							declared[id.Name] = true
						}
					}
				} else {
					for _, e := range x.Lhs {
						lhsName(e)
					}
				}
			case *ast.IncDecStmt:
				lhsName(x.X)
			case *ast.CallExpr:
				if sel, ok := x.Fun.(*ast.SelectorExpr); ok {
					if v, r := t.recOf(sel.X); r != nil && v == t.recvN && t.fn.mut {
						out[v] = true
					}
				}
				if id, ok := x.Fun.(*ast.Ident); ok && id.Name == "copy" && len(x.Args) == 2 {
					d := x.Args[0]
					if se, ok := d.(*ast.SliceExpr); ok {
						d = se.X
					}
					lhsName(d)
				}
			case *ast.RangeStmt:
				if x.Tok == token.DEFINE {
					for _, e := range []ast.Expr{x.Key, x.Value} {
						if id, ok := e.(*ast.Ident); ok {
							declared[id.Name] = true
						}
					}
				}
			}
			return true
		})
	}
}

func hasReturn(n ast.Node) bool {
	found := false
	ast.Inspect(n, func(m ast.Node) bool {
		switch m.(type) {
		case *ast.ReturnStmt:
			found = true
		case *ast.FuncLit:
			return false
		}
		return true
	})
	return found
}

func hasBranch(n ast.Node) bool { // break/continue that belongs to an enclosing loop
	found := false
	ast.Inspect(n, func(m ast.Node) bool {
		switch m.(type) {
		case *ast.BranchStmt:
			found = true
		case *ast.ForStmt, *ast.RangeStmt, *ast.FuncLit:
			return false
		}
		return true
	})
	return found
}

func tuple(names []string) string {
	if len(names) == 0 {
		return "tt"
	}
	if len(names) == 1 {
		return names[0]
	}
	return "(" + strings.Join(names, ", ") + ")"
}

func tuplePat(names []string) string {
	if len(names) == 0 {
		return "_"
	}
	if len(names) == 1 {
		return names[0]
	}
	return "'(" + strings.Join(names, ", ") + ")"
}

func sortedKeys(m map[string]bool) []string {
	r := []string{}
	for k := range m {
		r = append(r, k)
	}
	sort.Strings(r)
	return r
}

// kont is what happens when a statement list completes normally / at break / at continue.
type kont struct {
	fall string // after the list
	brk  string // at `break` ("" = not in a loop)
	cont string // at `continue`
	// inside a loop body a `return e` yields CRet
	inLoop bool
}

func (t *impT) retText(results []ast.Expr, k kont) string {
	parts := []string{}
	for _, r := range results {
		parts = append(parts, t.expr(r))
	}
	val := "tt"
	if len(parts) == 1 {
		val = parts[0]
	} else if len(parts) > 1 {
		val = "(" + strings.Join(parts, ", ") + ")"
	}
	pre := t.takePre()
	var body string
	if k.inLoop {
		body = "Ok (CRet " + t.retPack(val) + ")"
	} else {
		body = "Ok " + t.retPack(val)
	}
	return wrapPre(pre, body)
}

// retPack pairs the returned value with the receiver when the function may write it.
func (t *impT) retPack(val string) string {
	if len(t.fn.outVars) > 0 {
		outs := strings.Join(t.fn.outVars, ", ")
		if t.fn.retTy == "" {
			if len(t.fn.outVars) == 1 {
				return outs
			}
			return "(" + outs + ")"
		}
		return "(" + val + ", " + outs + ")"
	}
	if t.fn.mut {
		if t.fn.retTy == "" {
			return t.recvN
		}
		return "(" + val + ", " + t.recvN + ")"
	}
	return val
}

func (t *impT) panicText(c *ast.CallExpr) string {
	cls := "POther"
	if len(c.Args) == 1 {
		if p, ok := t.fn.panics[goText(c.Args[0])]; ok {
			cls = p
		}
	}
	return "Panic " + cls
}

func (t *impT) stmts(l []ast.Stmt, k kont) string {
	if len(l) == 0 {
		return k.fall
	}
	rest := func() string { return t.stmts(l[1:], k) }
	switch s := l[0].(type) {
	case *ast.ReturnStmt:
		return t.retText(s.Results, k)
	case *ast.BranchStmt:
		if s.Label == nil && s.Tok == token.BREAK && k.brk != "" {
			return k.brk
		}
		if s.Label == nil && s.Tok == token.CONTINUE && k.cont != "" {
			return k.cont
		}
	case *ast.DeclStmt:
		// var zero T
		if g, ok := s.Decl.(*ast.GenDecl); ok && g.Tok == token.VAR && len(g.Specs) == 1 {
			vs := g.Specs[0].(*ast.ValueSpec)
			if len(vs.Names) == 1 && len(vs.Values) == 0 {
				if vs.Names[0].Name == "zero" {
					return rest()
				}
				if r, ok := t.fn.rewrite["var "+vs.Names[0].Name]; ok {
					return "let " + vs.Names[0].Name + " := " + r + " in\n  " + rest()
				}
			}
		}
	case *ast.IncDecStmt:
		cur := t.expr(s.X)
		op := "wadd"
		if s.Tok == token.DEC {
			op = "wsub"
		}
		w := t.assign1(s.X, "("+op+" "+cur+" 1)")
		pre := t.takePre()
		return wrapPre(pre, w(rest()))
	case *ast.AssignStmt:
		if s.Tok != token.DEFINE && s.Tok != token.ASSIGN {
			if len(s.Lhs) == 1 && len(s.Rhs) == 1 {
				ops := map[token.Token]string{token.ADD_ASSIGN: "wadd", token.SUB_ASSIGN: "wsub", token.MUL_ASSIGN: "wmul"}
				if op, ok := ops[s.Tok]; ok {
					cur := t.expr(s.Lhs[0])
					r := t.expr(s.Rhs[0])
					w := t.assign1(s.Lhs[0], "("+op+" "+cur+" "+r+")")
					pre := t.takePre()
					return wrapPre(pre, w(rest()))
				}
			}
			break
		}
		if len(s.Lhs) == len(s.Rhs) {
			// all right-hand sides first (Go evaluates index operands and the RHS before assigning)
			vals := []string{}
			for _, r := range s.Rhs {
				vals = append(vals, t.rhs(r))
			}
			temps := []bindT{}
			if len(s.Lhs) > 1 {
				// parallel assignment: every value is named before the first write
				for i := range vals {
					tmp := t.newVar("p")
					temps = append(temps, bindT{tmp, vals[i]})
					vals[i] = tmp
				}
			}
			ws := []func(string) string{}
			for i, lh := range s.Lhs {
				ws = append(ws, t.assign1(lh, vals[i]))
			}
			pre := t.takePre()
			body := rest()
			for i := len(ws) - 1; i >= 0; i-- {
				body = ws[i](body)
			}
			for i := len(temps) - 1; i >= 0; i-- {
				body = "let " + temps[i].pat + " := " + temps[i].rhs + " in\n  " + body
			}
			return wrapPre(pre, body)
		}
		if len(s.Lhs) == 2 && len(s.Rhs) == 1 {
			// v, ok := h.m[k] on a map-kind field
			if ix, ok := s.Rhs[0].(*ast.IndexExpr); ok {
				if sel, ok := ix.X.(*ast.SelectorExpr); ok {
					if v, r := t.recOf(sel.X); r != nil {
						if f := r.field(sel.Sel.Name); f != nil && f.kind == "map" {
							key := t.expr(ix.Index)
							names := []string{"_", "_"}
							for i, l := range s.Lhs {
								if id, ok := l.(*ast.Ident); ok && id.Name != "_" {
									names[i] = id.Name
								}
							}
							pre := t.takePre()
							return wrapPre(pre, "let '("+names[0]+", "+names[1]+") := gomapget "+t.pkg.mapEq+" ("+f.coqName+" "+v+") "+key+" in\n  "+rest())
						}
					}
				}
			}
			// a, b := f(x) for pair-valued calls
			if c, ok := s.Rhs[0].(*ast.CallExpr); ok {
				if _, pure := t.pkg.pureCalls[goText(c.Fun)]; !pure {
					a, aok := s.Lhs[0].(*ast.Ident)
					b, bok := s.Lhs[1].(*ast.Ident)
					if aok && bok {
						v := t.call(c, true)
						pre := t.takePre()
						return wrapPre(pre, "let '("+a.Name+", "+b.Name+") := "+v+" in\n  "+rest())
					}
				}
				if f, ok := t.pkg.pureCalls[goText(c.Fun)]; ok {
					parts := []string{f}
					for _, a := range c.Args {
						parts = append(parts, t.expr(a))
					}
					a, aok := s.Lhs[0].(*ast.Ident)
					b, bok := s.Lhs[1].(*ast.Ident)
					if aok && bok {
						pre := t.takePre()
						return wrapPre(pre, "let '("+a.Name+", "+b.Name+") := ("+strings.Join(parts, " ")+") in\n  "+rest())
					}
				}
			}
		}
	case *ast.ExprStmt:
		if c, ok := s.X.(*ast.CallExpr); ok {
			if id, ok := c.Fun.(*ast.Ident); ok {
				switch id.Name {
				case "panic":
					pre := t.takePre()
					return wrapPre(pre, t.panicText(c))
				case "delete":
					if len(c.Args) == 2 {
						if sel, ok := c.Args[0].(*ast.SelectorExpr); ok {
							if v, r := t.recOf(sel.X); r != nil && v == t.recvN {
								if f := r.field(sel.Sel.Name); f != nil && f.kind == "map" {
									key := t.expr(c.Args[1])
									pre := t.takePre()
									term := t.setField(v, r, f, "(gomapdel "+t.pkg.mapEq+" "+key+" ("+f.coqName+" "+v+"))")
									return wrapPre(pre, "let "+v+" := "+term+" in\n  "+rest())
								}
							}
						}
					}
				case "copy":
					if len(c.Args) == 2 {
						src := t.sliceTerm(c.Args[1])
						if se, ok := c.Args[0].(*ast.SliceExpr); ok && se.High == nil && !se.Slice3 {
							if d, ok := se.X.(*ast.Ident); ok {
								off := "0"
								if se.Low != nil {
									off = t.expr(se.Low)
								}
								pre := t.takePre()
								return wrapPre(pre, "rbind (gocopy_at "+d.Name+" "+off+" "+src+") (fun "+d.Name+" =>\n  "+rest()+")")
							}
						}
						if d, ok := c.Args[0].(*ast.Ident); ok {
							pre := t.takePre()
							return wrapPre(pre, "let "+d.Name+" := gocopy "+d.Name+" "+src+" in\n  "+rest())
						}
					}
				}
			}
			t.call(c, false)
			pre := t.takePre()
			return wrapPre(pre, rest())
		}
	case *ast.BlockStmt:
		return t.stmts(append(append([]ast.Stmt{}, s.List...), l[1:]...), k)
	case *ast.IfStmt:
		if s.Init != nil {
			break
		}
		cond := t.expr(s.Cond)
		pre := t.takePre()
		var elseList []ast.Stmt
		switch e := s.Else.(type) {
		case nil:
		case *ast.BlockStmt:
			elseList = e.List
		case *ast.IfStmt:
			elseList = []ast.Stmt{e}
		}
		if !hasReturn(s) && !hasBranch(s) && !t.endsInPanic(s.Body.List) {
			// join point over the variables assigned in either branch
			m := map[string]bool{}
			t.assigned(s.Body.List, map[string]bool{}, m)
			t.assigned(elseList, map[string]bool{}, m)
			names := sortedKeys(m)
			jk := kont{fall: "Ok " + tuple(names)}
			th := t.stmts(s.Body.List, jk)
			el := t.stmts(elseList, jk)
			return wrapPre(pre, "rbind (if "+cond+"\n  then "+th+"\n  else "+el+") (fun "+tuplePat(names)+" =>\n  "+rest()+")")
		}
		kk := k
		kk.fall = "" // computed lazily below
		restTxt := rest()
		kk.fall = restTxt
		th := t.stmts(s.Body.List, kk)
		el := t.stmts(elseList, kk)
		return wrapPre(pre, "if "+cond+"\n  then "+th+"\n  else "+el)
	case *ast.ForStmt:
		return t.forStmt(s, nil, rest, k)
	case *ast.RangeStmt:
		return t.forStmt(nil, s, rest, k)
	}
	return t.fail(l[0], "statement")
}

func (t *impT) endsInPanic(l []ast.Stmt) bool {
	if len(l) == 0 {
		return false
	}
	if es, ok := l[len(l)-1].(*ast.ExprStmt); ok {
		if c, ok := es.X.(*ast.CallExpr); ok {
			if id, ok := c.Fun.(*ast.Ident); ok && id.Name == "panic" {
				return true
			}
		}
	}
	return false
}

// rhs translates the right-hand side of an assignment (append is only allowed here).
func (t *impT) rhs(e ast.Expr) string {
	if c, ok := e.(*ast.CallExpr); ok {
		if id, ok := c.Fun.(*ast.Ident); ok && id.Name == "append" && len(c.Args) == 2 {
			s := t.sliceTerm(c.Args[0])
			if c.Ellipsis != token.NoPos {
				return "(" + s + " ++ " + t.sliceTerm(c.Args[1]) + ")"
			}
			return "(" + s + " ++ [" + t.expr(c.Args[1]) + "])"
		}
	}
	return t.expr(e)
}

// forStmt translates the three loop forms to goloop.
func (t *impT) forStmt(f *ast.ForStmt, r *ast.RangeStmt, rest func() string, k kont) string {
	var body []ast.Stmt
	var initTxt func(string) string = func(s string) string { return s }
	loopVars := map[string]bool{}
	var cond ast.Expr
	var post ast.Stmt
	var rangeKey, rangeVal, rangeOver string
	if f != nil {
		body = f.Body.List
		cond = f.Cond
		post = f.Post
		if f.Init != nil {
			as, ok := f.Init.(*ast.AssignStmt)
			if !ok || as.Tok != token.DEFINE || len(as.Lhs) != 1 {
				return t.fail(f, "loop initialiser")
			}
			name := as.Lhs[0].(*ast.Ident).Name
			v := t.expr(as.Rhs[0])
			pre := t.takePre()
			initTxt = func(s string) string { return wrapPre(pre, "let "+name+" := "+v+" in\n  "+s) }
			loopVars[name] = true
		}
	} else {
		body = r.Body.List
		if r.Tok != token.DEFINE && r.Key != nil {
			return t.fail(r, "range with assignment")
		}
		rangeOver = t.sliceTerm(r.X)
		if len(t.pre) != 0 {
			return t.fail(r, "partial range operand")
		}
		rangeKey = t.newVar("i")
		if id, ok := r.Key.(*ast.Ident); ok && id.Name != "_" {
			rangeKey = id.Name
		}
		if r.Value != nil {
			if id, ok := r.Value.(*ast.Ident); ok && id.Name != "_" {
				rangeVal = id.Name
			}
		}
		loopVars[rangeKey] = true
	}
	m := map[string]bool{}
	decl := map[string]bool{}
	t.assigned(body, decl, m)
	if post != nil {
		t.assigned([]ast.Stmt{post}, map[string]bool{}, m)
	}
	for v := range loopVars {
		m[v] = true
	}
	if rangeVal != "" && m[rangeOver] && rangeVal != rangeOver {
		return t.fail(r, "range with a value variable over a slice that the loop writes")
	}
	if rangeVal != "" && rangeVal == rangeOver {
		delete(m, rangeOver) // the element variable shadows the slice inside the body
	}
	names := sortedKeys(m)
	st := tuple(names)
	pat := tuplePat(names)
	next := "Ok (CNext " + st + ")"
	// continue = post statement then next
	contTxt := next
	if post != nil {
		contTxt = t.stmts([]ast.Stmt{post}, kont{fall: next})
	}
	if r != nil {
		contTxt = "let " + rangeKey + " := (" + rangeKey + " + 1) in\n  " + next
	}
	bk := kont{fall: contTxt, brk: "Ok (CBreak " + st + ")", cont: contTxt, inLoop: true}
	bodyTxt := t.stmts(body, bk)
	if rangeVal != "" {
		bodyTxt = "rbind (goget " + rangeOver + "0_ " + rangeKey + ") (fun " + rangeVal + " =>\n  " + bodyTxt + ")"
	}
	guard := ""
	if cond != nil {
		c := t.expr(cond)
		pre := t.takePre()
		guard = wrapPre(pre, "if "+c+"\n  then "+bodyTxt+"\n  else Ok (CBreak "+st+")")
	} else if r != nil {
		// the range operand is evaluated once, before the loop
		guard = "if (" + rangeKey + " <? zlen " + rangeOver + "0_)\n  then " + bodyTxt + "\n  else Ok (CBreak " + st + ")"
	} else {
		guard = bodyTxt
	}
	fuel := t.fn.fuel
	if fuel == "" {
		return t.fail(f, "loop without a fuel term in the spec")
	}
	after := rest()
	retK := "Ok r_"
	if k.inLoop {
		retK = "Ok (CRet r_)"
	}
	loop := "rbind (goloop " + fuel + " (fun " + pat + " =>\n  " + guard + ") " + st + ") (fun c_ =>\n  match c_ with\n  | CRet r_ => " + retK + "\n  | CNext " + pat2(names) + " | CBreak " + pat2(names) + " =>\n  " + after + "\n  end)"
	if r != nil {
		loop = "let " + rangeOver + "0_ := " + rangeOver + " in\n  let " + rangeKey + " := 0 in\n  " + loop
		if !isIdent(rangeOver) {
			return t.fail(r, "range over a non-identifier")
		}
	}
	return initTxt(loop)
}

func isIdent(s string) bool {
	for _, c := range s {
		if !(c == '_' || c >= 'a' && c <= 'z' || c >= 'A' && c <= 'Z' || c >= '0' && c <= '9') {
			return false
		}
	}
	return s != ""
}

func pat2(names []string) string {
	if len(names) == 0 {
		return "_"
	}
	if len(names) == 1 {
		return names[0]
	}
	return "(" + strings.Join(names, ", ") + ")"
}

func translateImp(pkg *impPkg, parse func(rel string) *ast.File) (string, error) {
	var out bytes.Buffer
	out.WriteString("(* GENERATED by tools/gofacts (imp.go) from the Go source on every run. Do not edit.\n")
	out.WriteString("   Statement-level translation of imperative Go functions into state-passing Gallina (see the header of\n")
	out.WriteString("   tools/gofacts/imp.go and Translated/GoImp.v for the primitives). *)\n")
	out.WriteString(pkg.imports + "\nOpen Scope Z_scope.\n\nSection Imp.\n" + pkg.section + "\n\n")
	byKey := map[string]*impFn{}
	for i := range pkg.fns {
		byKey[pkg.fns[i].recv+"."+pkg.fns[i].name] = &pkg.fns[i]
	}
	for i := range pkg.extern {
		byKey[pkg.extern[i].recv+"."+pkg.extern[i].name] = &pkg.extern[i]
	}
	for i := range pkg.fns {
		sp := &pkg.fns[i]
		f := parse(sp.file)
		var fd *ast.FuncDecl
		for _, d := range f.Decls {
			if x, ok := d.(*ast.FuncDecl); ok && x.Name.Name == sp.name && recvName(x) == sp.recv && x.Body != nil {
				fd = x
			}
		}
		if fd == nil {
			return "", fmt.Errorf("function %s.%s not found in %s", sp.recv, sp.name, sp.file)
		}
		renameReserved(fd)
		t := &impT{pkg: pkg, fn: sp, byKey: byKey}
		if fd.Recv != nil && len(fd.Recv.List) > 0 && len(fd.Recv.List[0].Names) > 0 {
			t.recvN = fd.Recv.List[0].Names[0].Name
		}
		if len(sp.stateVars) > 0 {
			t.recvN = sp.stateVars[0]
		}
		// the parameter list of the Go function must be the one the spec was written for
		var gotParams []string
		for _, p := range fd.Type.Params.List {
			for _, n := range p.Names {
				gotParams = append(gotParams, n.Name)
			}
		}
		fall := "Ok " + t.retPack("tt")
		if sp.retTy != "" {
			fall = "Panic POther (* falls off the end *)"
		}
		body := t.stmts(fd.Body.List, kont{fall: fall})
		if t.err != nil {
			return "", t.err
		}
		ret := "result " + sp.retTy
		recvTy := ""
		if sp.recvRec != "" {
			recvTy = sp.recvRec
		}
		if len(sp.outVars) > 0 {
			ret = "result (" + sp.outTy + ")"
		} else if sp.mut {
			if sp.retTy == "" {
				ret = "result (" + recvTy + ")"
			} else {
				ret = "result ((" + sp.retTy + ") * (" + recvTy + "))"
			}
		} else if sp.retTy == "" {
			ret = "result unit"
		} else {
			ret = "result (" + sp.retTy + ")"
		}
		recvB := ""
		if sp.recvRec != "" && len(sp.stateVars) == 0 {
			recvB = " (" + t.recvN + " : " + recvTy + ")"
		}
		fmt.Fprintf(&out, "(* %s: func %s%s(%s) *)\nDefinition %s %s %s%s : %s :=\n  %s.\n\n", sp.file,
			map[bool]string{true: "(" + sp.recv + ") ", false: ""}[sp.recv != ""], sp.name, strings.Join(gotParams, ", "),
			sp.coqName, sp.preBinders, sp.binders, recvB, ret, body)
	}
	out.WriteString("End Imp.\n")
	return out.String(), nil
}

// Go identifiers that are constructors or keywords on the Coq side get a suffix (local variables and parameters
// only: selectors and composite-literal keys are left alone).
var coqReserved = map[string]bool{"left": true, "right": true, "end": true, "fix": true, "fun": true, "at": true, "in": true,
	"as": true, "then": true, "with": true, "match": true, "let": true, "forall": true, "exists": true, "nil": false,
	"cons": true, "pair": true, "fst": true, "snd": true, "S": true, "O": true, "Some": true, "None": true, "Ok": true, "Panic": true}

func renameReserved(fd *ast.FuncDecl) {
	skip := map[*ast.Ident]bool{}
	ast.Inspect(fd, func(n ast.Node) bool {
		switch x := n.(type) {
		case *ast.SelectorExpr:
			skip[x.Sel] = true
		case *ast.KeyValueExpr:
			if id, ok := x.Key.(*ast.Ident); ok {
				skip[id] = true
			}
		case *ast.Ident:
			if coqReserved[x.Name] && !skip[x] {
				x.Name = x.Name + "_v"
			}
		}
		return true
	})
}
