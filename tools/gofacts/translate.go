package main

// A very small Go -> Gallina translator for straight-line pure functions (if/return, :=, integer
// and boolean expressions, calls). It regenerates coq/theories/Generated/Funcs.v from the Go source on
// every run; theories/Translated/FuncsOK.v proves each translated definition equal to the corresponding
// definition of the hand-written models, so an edit to one of these functions breaks a proof obligation.

import (
	"bytes"
	"fmt"
	"go/ast"
	"go/printer"
	"go/token"
	"strings"
)

type fnSpec struct {
	file    string
	recv    string // receiver type name ("" for plain functions)
	name    string
	coqName string
	binders string            // Coq binders
	ret     string            // Coq return type
	result  bool              // wrap returns in Ok, translate panic(...) to Panic POther
	rewrite map[string]string // printed Go expression -> Coq term
}

var fnSpecs = []fnSpec{
	{file: "container/deque/deque.go", name: "positiveMod", coqName: "go_positiveMod", binders: "(l d : Z)", ret: "Z"},
	{file: "container/deque/deque.go", recv: "Deque", name: "Len", coqName: "go_Deque_Len",
		binders: "{T : Type} (d : deque T)", ret: "Z",
		rewrite: map[string]string{"d.a == nil": "isnil d", "len(d.a)": "cap d", "d.back": "back d", "d.front": "front d"}},
	{file: "internal/heap/heap.go", name: "parent", coqName: "go_heap_parent", binders: "(i : Z)", ret: "Z"},
	{file: "internal/heap/heap.go", name: "children", coqName: "go_heap_children", binders: "(i : Z)", ret: "Z * Z"},
	{file: "xmath/xmath_go1.21.go", name: "Clamp", coqName: "go_Clamp", binders: "(x min max : Z)", ret: "Z"},
	// -x is computed in the w-bit type T and wraps around
	{file: "xmath/xmath.go", name: "Abs", coqName: "go_Abs", binders: "(wneg : Z -> Z) (x : Z)", ret: "result Z", result: true,
		rewrite: map[string]string{"-x": "wneg x"}},
	{file: "xsort/xsort.go", name: "Greater", coqName: "go_Greater", binders: "{T : Type} (less : T -> T -> bool) (a b : T)", ret: "bool"},
	{file: "xsort/xsort.go", name: "LessOrEqual", coqName: "go_LessOrEqual", binders: "{T : Type} (less : T -> T -> bool) (a b : T)", ret: "bool"},
	{file: "xsort/xsort.go", name: "GreaterOrEqual", coqName: "go_GreaterOrEqual", binders: "{T : Type} (less : T -> T -> bool) (a b : T)", ret: "bool"},
	{file: "xsort/xsort.go", name: "Equal", coqName: "go_Equal", binders: "{T : Type} (less : T -> T -> bool) (a b : T)", ret: "bool"},
}

type translator struct {
	spec fnSpec
	err  error
}

func (t *translator) fail(n ast.Node, what string) string {
	if t.err == nil {
		var b bytes.Buffer
		printer.Fprint(&b, token.NewFileSet(), n)
		t.err = fmt.Errorf("%s.%s: cannot translate %s: %s", t.spec.recv, t.spec.name, what, b.String())
	}
	return "?"
}

func goText(n ast.Node) string {
	var b bytes.Buffer
	printer.Fprint(&b, token.NewFileSet(), n)
	return b.String()
}

func (t *translator) expr(e ast.Expr) string {
	if r, ok := t.spec.rewrite[goText(e)]; ok {
		return "(" + r + ")"
	}
	switch x := e.(type) {
	case *ast.BasicLit:
		if x.Kind == token.INT {
			return x.Value
		}
	case *ast.Ident:
		switch x.Name {
		case "true", "false":
			return x.Name
		}
		return x.Name
	case *ast.ParenExpr:
		return "(" + t.expr(x.X) + ")"
	case *ast.UnaryExpr:
		switch x.Op {
		case token.SUB:
			return "(- " + t.expr(x.X) + ")"
		case token.NOT:
			return "(negb " + t.expr(x.X) + ")"
		}
	case *ast.BinaryExpr:
		a, b := t.expr(x.X), t.expr(x.Y)
		switch x.Op {
		case token.ADD:
			return "(" + a + " + " + b + ")"
		case token.SUB:
			return "(" + a + " - " + b + ")"
		case token.MUL:
			return "(" + a + " * " + b + ")"
		case token.QUO:
			return "(Z.quot " + a + " " + b + ")"
		case token.REM:
			return "(Z.rem " + a + " " + b + ")"
		case token.EQL:
			return "(" + a + " =? " + b + ")"
		case token.NEQ:
			return "(negb (" + a + " =? " + b + "))"
		case token.LSS:
			return "(" + a + " <? " + b + ")"
		case token.LEQ:
			return "(" + a + " <=? " + b + ")"
		case token.GTR:
			return "(" + a + " >? " + b + ")"
		case token.GEQ:
			return "(" + a + " >=? " + b + ")"
		case token.LAND:
			return "(" + a + " && " + b + ")"
		case token.LOR:
			return "(" + a + " || " + b + ")"
		}
	case *ast.CallExpr:
		if id, ok := x.Fun.(*ast.Ident); ok {
			if id.Name == "int" && len(x.Args) == 1 {
				return t.expr(x.Args[0])
			}
			parts := []string{id.Name}
			for _, a := range x.Args {
				parts = append(parts, t.expr(a))
			}
			return "(" + strings.Join(parts, " ") + ")"
		}
	}
	return t.fail(e, "expression")
}

func (t *translator) ret(results []ast.Expr) string {
	parts := []string{}
	for _, r := range results {
		parts = append(parts, t.expr(r))
	}
	s := strings.Join(parts, ", ")
	if len(parts) > 1 {
		s = "(" + s + ")"
	}
	if t.spec.result {
		return "(Ok " + s + ")"
	}
	return s
}

// stmts translates a statement list that ends by returning on every path.
func (t *translator) stmts(l []ast.Stmt, indent string) string {
	if len(l) == 0 {
		t.err = fmt.Errorf("%s: a path falls off the end of the function", t.spec.name)
		return "?"
	}
	switch s := l[0].(type) {
	case *ast.ReturnStmt:
		return t.ret(s.Results)
	case *ast.AssignStmt:
		if s.Tok == token.DEFINE && len(s.Lhs) == 1 && len(s.Rhs) == 1 {
			if id, ok := s.Lhs[0].(*ast.Ident); ok {
				return "let " + id.Name + " := " + t.expr(s.Rhs[0]) + " in\n" + indent + t.stmts(l[1:], indent)
			}
		}
	case *ast.ExprStmt:
		if c, ok := s.X.(*ast.CallExpr); ok {
			if id, ok := c.Fun.(*ast.Ident); ok && id.Name == "panic" && t.spec.result {
				return "(Panic POther)"
			}
		}
	case *ast.IfStmt:
		if s.Init == nil {
			thenPart := t.stmtsMaybe(s.Body.List, l[1:], indent+"  ")
			var elsePart string
			switch e := s.Else.(type) {
			case nil:
				elsePart = t.stmts(l[1:], indent+"  ")
			case *ast.BlockStmt:
				elsePart = t.stmtsMaybe(e.List, l[1:], indent+"  ")
			case *ast.IfStmt:
				elsePart = t.stmts(append([]ast.Stmt{e}, l[1:]...), indent+"  ")
			}
			return "if " + t.expr(s.Cond) + "\n" + indent + "then " + thenPart + "\n" + indent + "else " + elsePart
		}
	}
	return t.fail(l[0], "statement")
}

// stmtsMaybe translates block followed by the continuation rest when the block does not return itself.
func (t *translator) stmtsMaybe(block, rest []ast.Stmt, indent string) string {
	all := append(append([]ast.Stmt{}, block...), rest...)
	return t.stmts(all, indent)
}

func recvName(fd *ast.FuncDecl) string {
	if fd.Recv == nil || len(fd.Recv.List) == 0 {
		return ""
	}
	s := goText(fd.Recv.List[0].Type)
	s = strings.TrimPrefix(s, "*")
	if i := strings.Index(s, "["); i >= 0 {
		s = s[:i]
	}
	return s
}

// translateAll returns the text of Funcs.v.
func translateAll(parse func(rel string) *ast.File) (string, error) {
	var out bytes.Buffer
	out.WriteString("(* GENERATED by tools/gofacts (translate.go) from the Go source on every run. Do not edit.\n")
	out.WriteString("   Each definition is the literal translation of one small pure Go function; theories/Translated/FuncsOK.v\n")
	out.WriteString("   proves it equal to the definition used by the hand-written models. *)\n")
	out.WriteString("From Juniper Require Import Common.Base Deque.Model.\nOpen Scope Z_scope.\n\n")
	for _, sp := range fnSpecs {
		f := parse(sp.file)
		var fd *ast.FuncDecl
		for _, d := range f.Decls {
			if x, ok := d.(*ast.FuncDecl); ok && x.Name.Name == sp.name && recvName(x) == sp.recv && x.Body != nil {
				fd = x
			}
		}
		if fd == nil {
			return "", fmt.Errorf("function %s.%s not found in %s", sp.recv, sp.name, sp.file)
		}
		t := &translator{spec: sp}
		body := t.stmts(fd.Body.List, "  ")
		if t.err != nil {
			return "", t.err
		}
		fmt.Fprintf(&out, "(* %s: func %s%s *)\nDefinition %s %s : %s :=\n  %s.\n\n", sp.file,
			map[bool]string{true: "(" + sp.recv + ") ", false: ""}[sp.recv != ""], sp.name, sp.coqName, sp.binders, sp.ret, body)
	}
	return out.String(), nil
}
