package main

// Specifications of what imp.go translates: per package the record types (Go struct -> Coq record of the model),
// and per function the Coq binders.  Everything else comes from the Go source.

var dequeRec = recSpec{ctor: "mkDeque", goType: "Deque", fields: []recField{
	{goName: "a", coqName: "arr", kind: "optslice"}, {goName: "front", coqName: "front", kind: "int"},
	{goName: "back", coqName: "back", kind: "int"}, {goName: "gen", coqName: "gen", kind: "int"}}}

var dequeIterRec = recSpec{ctor: "mkIter", goType: "dequeIterator", fields: []recField{
	{goName: "d", kind: "skip"}, {goName: "i", coqName: "it_i", kind: "int"},
	{goName: "done", coqName: "it_done", kind: "bool"}, {goName: "gen", coqName: "it_gen", kind: "int"}}}

var dequePanics = map[string]string{
	"errDequeEmpty":                                 "PEmpty",
	"errDequeModified":                              "PModified",
	"\"deque index out of range\"":                  "PIndex",
	"\"Shrink() with a negative number of extras\"": "PNeg",
}

var impDeque = impPkg{
	out:     "ImpDeque.v",
	imports: "From Juniper Require Import Common.Base Deque.Model Translated.GoImp.",
	section: "Context {T : Type} (zero : T) (minSize : Z).",
	recs:    map[string]recSpec{"deque T": dequeRec, "Deque.Model.iter": dequeIterRec},
	pureCalls: map[string]string{
		"xmath.Max": "Z.max",
	},
	fns: []impFn{
		{file: "container/deque/deque.go", name: "positiveMod", coqName: "gi_positiveMod", binders: "(l d : Z)", retTy: "Z"},
		{file: "container/deque/deque.go", recv: "Deque", name: "Len", coqName: "gi_Deque_Len", recvRec: "deque T", retTy: "Z", safe: true},
		{file: "container/deque/deque.go", recv: "Deque", name: "resize", coqName: "gi_Deque_resize", recvRec: "deque T", mut: true, binders: "(n : Z)"},
		{file: "container/deque/deque.go", recv: "Deque", name: "maybeExpand", coqName: "gi_Deque_maybeExpand", recvRec: "deque T", mut: true},
		{file: "container/deque/deque.go", recv: "Deque", name: "Grow", coqName: "gi_Deque_Grow", recvRec: "deque T", mut: true, binders: "(n : Z)"},
		{file: "container/deque/deque.go", recv: "Deque", name: "Shrink", coqName: "gi_Deque_Shrink", recvRec: "deque T", mut: true, binders: "(n : Z)", panics: dequePanics},
		{file: "container/deque/deque.go", recv: "Deque", name: "PushFront", coqName: "gi_Deque_PushFront", recvRec: "deque T", mut: true, binders: "(item : T)"},
		{file: "container/deque/deque.go", recv: "Deque", name: "PushBack", coqName: "gi_Deque_PushBack", recvRec: "deque T", mut: true, binders: "(item : T)"},
		{file: "container/deque/deque.go", recv: "Deque", name: "PopFront", coqName: "gi_Deque_PopFront", recvRec: "deque T", mut: true, retTy: "T", panics: dequePanics},
		{file: "container/deque/deque.go", recv: "Deque", name: "PopBack", coqName: "gi_Deque_PopBack", recvRec: "deque T", mut: true, retTy: "T", panics: dequePanics},
		{file: "container/deque/deque.go", recv: "Deque", name: "Front", coqName: "gi_Deque_Front", recvRec: "deque T", retTy: "T", panics: dequePanics},
		{file: "container/deque/deque.go", recv: "Deque", name: "Back", coqName: "gi_Deque_Back", recvRec: "deque T", retTy: "T", panics: dequePanics},
		{file: "container/deque/deque.go", recv: "Deque", name: "Item", coqName: "gi_Deque_Item", recvRec: "deque T", retTy: "T", binders: "(i : Z)", panics: dequePanics},
		{file: "container/deque/deque.go", recv: "Deque", name: "Set", coqName: "gi_Deque_Set", recvRec: "deque T", mut: true, binders: "(i : Z) (t : T)", panics: dequePanics},
		// the iterator: the receiver is the iterator record, the deque it points to is a read-only second record
		{file: "container/deque/deque.go", recv: "dequeIterator", name: "Next", coqName: "gi_dequeIterator_Next", recvRec: "Deque.Model.iter", mut: true,
			preBinders: "(d : deque T)", retTy: "T * bool", panics: dequePanics,
			aliases: map[string][2]string{"iter.d": {"d", "deque T"}}},
	},
	aliasRecv: map[string]string{"iter.d": "Deque"},
}

// internal/heap: the record carries the slice, the generation and the state the indexChanged callback closes over
var heapRec = recSpec{ctor: "mkHeap", goType: "Heap", fields: []recField{
	{goName: "lessFn", kind: "skip"}, {goName: "indexChanged", kind: "skip"},
	{goName: "a", coqName: "ha", kind: "slice"}, {goName: "gen", coqName: "hgen", kind: "int"},
	{goName: "", coqName: "hs", kind: "state", def: "s0"}}}

const heapFile = "internal/heap/heap.go"

var impHeap = impPkg{
	out:     "ImpHeap.v",
	imports: "From Juniper Require Import Common.Base Heap.Model Translated.GoImp.",
	section: "Context {T IS : Type} (zero : T) (less : T -> T -> bool) (on_index : T -> Z -> IS -> IS).",
	recs:    map[string]recSpec{"heap T IS": heapRec},
	pureCalls: map[string]string{
		"h.lessFn": "less",
	},
	effectCalls: map[string][2]string{
		"h.indexChanged": {"hs", "on_index"},
	},
	fns: []impFn{
		{file: heapFile, name: "parent", coqName: "gi_heap_parent", binders: "(i : Z)", retTy: "Z", safe: true},
		{file: heapFile, name: "children", coqName: "gi_heap_children", binders: "(i : Z)", retTy: "Z * Z", safe: true},
		{file: heapFile, recv: "Heap", name: "Len", coqName: "gi_Heap_Len", recvRec: "heap T IS", retTy: "Z", safe: true},
		{file: heapFile, recv: "Heap", name: "notifyIndexChanged", coqName: "gi_Heap_notify", recvRec: "heap T IS", mut: true, binders: "(i : Z)"},
		{file: heapFile, recv: "Heap", name: "less", coqName: "gi_Heap_less", recvRec: "heap T IS", binders: "(i j : Z)", retTy: "bool"},
		{file: heapFile, recv: "Heap", name: "swap", coqName: "gi_Heap_swap", recvRec: "heap T IS", mut: true, binders: "(i j : Z)"},
		{file: heapFile, recv: "Heap", name: "percolateUp", coqName: "gi_Heap_percolateUp", recvRec: "heap T IS", mut: true, binders: "(i : Z)",
			fuel: "(S (length (ha h)))"},
		{file: heapFile, recv: "Heap", name: "percolateDown", coqName: "gi_Heap_percolateDown", recvRec: "heap T IS", mut: true, binders: "(i : Z)",
			fuel: "(S (S (length (ha h))))"},
		{file: heapFile, name: "New", coqName: "gi_Heap_New", recvRec: "heap T IS", mut: true, stateVars: []string{"h"},
			binders: "(initial : list T) (s0 : IS)", fuel: "(S (length initial))",
			rewrite: map[string]string{"less": "tt", "indexChanged": "tt"}},
		{file: heapFile, recv: "Heap", name: "Push", coqName: "gi_Heap_Push", recvRec: "heap T IS", mut: true, binders: "(item : T)"},
		{file: heapFile, recv: "Heap", name: "Pop", coqName: "gi_Heap_Pop", recvRec: "heap T IS", mut: true, retTy: "T"},
		{file: heapFile, recv: "Heap", name: "Peek", coqName: "gi_Heap_Peek", recvRec: "heap T IS", retTy: "T"},
		{file: heapFile, recv: "Heap", name: "RemoveAt", coqName: "gi_Heap_RemoveAt", recvRec: "heap T IS", mut: true, binders: "(i : Z)"},
		{file: heapFile, recv: "Heap", name: "Item", coqName: "gi_Heap_Item", recvRec: "heap T IS", binders: "(i : Z)", retTy: "T"},
		{file: heapFile, recv: "Heap", name: "UpdateAt", coqName: "gi_Heap_UpdateAt", recvRec: "heap T IS", mut: true, binders: "(i : Z) (item : T)"},
	},
}

// xslices: the loops over one slice; callbacks are pure functions of the model
const xslicesFile = "xslices/xslices.go"

var impSlices = impPkg{
	out:       "ImpSlices.v",
	imports:   "From Juniper Require Import Common.Base Translated.GoImp.",
	section:   "Context {T U : Type} (zero : T).",
	recs:      map[string]recSpec{},
	pureCalls: map[string]string{"f": "f", "same": "same", "keep": "keep"},
	fns: []impFn{
		{file: xslicesFile, name: "All", coqName: "gi_xslices_All", binders: "(s : list T) (f : T -> bool)", retTy: "bool", fuel: "(S (length s))"},
		{file: xslicesFile, name: "CountFunc", coqName: "gi_xslices_CountFunc", binders: "(s : list T) (f : T -> bool)", retTy: "Z", fuel: "(S (length s))"},
		{file: xslicesFile, name: "Fill", coqName: "gi_xslices_Fill", binders: "(s : list T) (x : T)", fuel: "(S (length s))",
			outVars: []string{"s"}, outTy: "list T"},
		{file: xslicesFile, name: "LastIndexFunc", coqName: "gi_xslices_LastIndexFunc", binders: "(s : list T) (f : T -> bool)", retTy: "Z", fuel: "(S (length s))"},
		{file: xslicesFile, name: "Partition", coqName: "gi_xslices_Partition", binders: "(s : list T) (f : T -> bool)", retTy: "Z", fuel: "(S (length s))",
			outVars: []string{"s"}, outTy: "Z * list T"},
		{file: xslicesFile, name: "Reduce", coqName: "gi_xslices_Reduce", binders: "(s : list T) (initial : U) (f : U -> T -> U)", retTy: "U", fuel: "(S (length s))"},
		{file: xslicesFile, name: "Chunk", coqName: "gi_xslices_Chunk", binders: "(s : list T) (chunkSize : Z)", retTy: "list (list T)", fuel: "(S (length s))",
			panics: map[string]string{"\"xslices.Chunk: chunkSize must be positive\"": "PNeg"}},
		{file: xslicesFile, name: "Runs", coqName: "gi_xslices_Runs", binders: "(s : list T) (same : T -> T -> bool)", retTy: "list (list T)", fuel: "(S (length s))",
			rewrite: map[string]string{"var runs": "[]"}},
		{file: xslicesFile, name: "Reverse", coqName: "gi_xslices_Reverse", binders: "(s : list T)", fuel: "(S (length s))",
			outVars: []string{"s"}, outTy: "list T"},
	},
}

// container/xheap PriorityQueue: the queue is its inner heap together with the key->index map, which is the state
// the heap's indexChanged callback closes over (Heap/Model.v: pq = heap kp imap)
const xheapFile = "container/xheap/xheap.go"

var pqRec = recSpec{ctor: "mkHeap", goType: "PriorityQueue", fields: []recField{
	{goName: "inner", kind: "skip"},
	{goName: "", coqName: "ha", kind: "slice"}, {goName: "", coqName: "hgen", kind: "int"},
	{goName: "m", coqName: "hs", kind: "map"}}}

const pqTy = "pq K P"
const pqArgs = " (kpzero kzero pzero) (kpless pless) (kp_index keqb)"

var pqAliases = map[string][2]string{"h.inner": {"h", pqTy}}

var impPQ = impPkg{
	out:       "ImpPQ.v",
	imports:   "From Juniper Require Import Common.Base Heap.Model Translated.GoImp Generated.ImpHeap.",
	section:   "Context {K P : Type} (keqb : K -> K -> bool) (kzero : K) (pzero : P) (pless : P -> P -> bool).",
	recs:      map[string]recSpec{pqTy: pqRec},
	mapEq:     "keqb",
	aliasRecv: map[string]string{"h.inner": "Heap"},
	pairTypes: map[string]map[string]string{"KP": {"K": "fst", "P": "snd"}},
	extern: []impFn{
		{recv: "Heap", name: "Len", coqName: "gi_Heap_Len", recvRec: pqTy, retTy: "Z", safe: true},
		{recv: "Heap", name: "Push", coqName: "gi_Heap_Push" + " (kpless pless) (kp_index keqb)", recvRec: pqTy, mut: true},
		{recv: "Heap", name: "Pop", coqName: "gi_Heap_Pop" + pqArgs, recvRec: pqTy, mut: true, retTy: "K * P"},
		{recv: "Heap", name: "Peek", coqName: "gi_Heap_Peek", recvRec: pqTy, retTy: "K * P"},
		{recv: "Heap", name: "RemoveAt", coqName: "gi_Heap_RemoveAt" + pqArgs, recvRec: pqTy, mut: true},
		{recv: "Heap", name: "Item", coqName: "gi_Heap_Item", recvRec: pqTy, retTy: "K * P"},
		{recv: "Heap", name: "UpdateAt", coqName: "gi_Heap_UpdateAt" + " (kpless pless) (kp_index keqb)", recvRec: pqTy, mut: true},
	},
	fns: []impFn{
		{file: xheapFile, recv: "PriorityQueue", name: "Len", coqName: "gi_PQ_Len", recvRec: pqTy, retTy: "Z", aliases: pqAliases},
		{file: xheapFile, recv: "PriorityQueue", name: "Update", coqName: "gi_PQ_Update", recvRec: pqTy, mut: true, binders: "(k : K) (p : P)", aliases: pqAliases},
		{file: xheapFile, recv: "PriorityQueue", name: "Pop", coqName: "gi_PQ_Pop", recvRec: pqTy, mut: true, retTy: "K", aliases: pqAliases},
		{file: xheapFile, recv: "PriorityQueue", name: "Peek", coqName: "gi_PQ_Peek", recvRec: pqTy, retTy: "K", aliases: pqAliases},
		{file: xheapFile, recv: "PriorityQueue", name: "Contains", coqName: "gi_PQ_Contains", recvRec: pqTy, retTy: "bool", binders: "(k : K)", aliases: pqAliases},
		{file: xheapFile, recv: "PriorityQueue", name: "Priority", coqName: "gi_PQ_Priority", recvRec: pqTy, retTy: "P", binders: "(k : K)", aliases: pqAliases,
			rewrite: map[string]string{"zero": "pzero"}},
		{file: xheapFile, recv: "PriorityQueue", name: "Remove", coqName: "gi_PQ_Remove", recvRec: pqTy, mut: true, binders: "(k : K)", aliases: pqAliases},
	},
}

var impPkgs = []*impPkg{&impDeque, &impHeap, &impSlices, &impPQ}
