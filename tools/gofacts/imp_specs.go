package main

// Specifications of what imp.go translates: per package the record types (Go struct -> Coq record of the model),
// and per function the Coq binders.  Everything else comes from the Go source.

var dequeRec = recSpec{ctor: "mkDeque", fields: []recField{
	{"a", "arr", "optslice"}, {"front", "front", "int"}, {"back", "back", "int"}, {"gen", "gen", "int"}}}

var dequeIterRec = recSpec{ctor: "mkIter", fields: []recField{
	{"d", "", "skip"}, {"i", "it_i", "int"}, {"done", "it_done", "bool"}, {"gen", "it_gen", "int"}}}

var dequePanics = map[string]string{
	"errDequeEmpty":    "PEmpty",
	"errDequeModified": "PModified",
	"\"deque index out of range\"":                  "PIndex",
	"\"Shrink() with a negative number of extras\"": "PNeg",
}

var impDeque = impPkg{
	out:     "ImpDeque.v",
	imports: "From Juniper Require Import Common.Base Deque.Model Translated.GoImp.",
	section: "Context {T : Type} (zero : T) (minSize : Z).",
	recs:    map[string]recSpec{"deque T": dequeRec, "Deque.Model.iter": dequeIterRec},
	pureCalls: map[string]string{
		"xmath.Max": "Z.max",
	},
	fns: []impFn{
		{file: "container/deque/deque.go", name: "positiveMod", coqName: "gi_positiveMod", binders: "(l d : Z)", retTy: "Z"},
		{file: "container/deque/deque.go", recv: "Deque", name: "Len", coqName: "gi_Deque_Len", recvRec: "deque T", retTy: "Z", safe: true},
		{file: "container/deque/deque.go", recv: "Deque", name: "resize", coqName: "gi_Deque_resize", recvRec: "deque T", mut: true, binders: "(n : Z)"},
		{file: "container/deque/deque.go", recv: "Deque", name: "maybeExpand", coqName: "gi_Deque_maybeExpand", recvRec: "deque T", mut: true},
		{file: "container/deque/deque.go", recv: "Deque", name: "Grow", coqName: "gi_Deque_Grow", recvRec: "deque T", mut: true, binders: "(n : Z)"},
		{file: "container/deque/deque.go", recv: "Deque", name: "Shrink", coqName: "gi_Deque_Shrink", recvRec: "deque T", mut: true, binders: "(n : Z)", panics: dequePanics},
		{file: "container/deque/deque.go", recv: "Deque", name: "PushFront", coqName: "gi_Deque_PushFront", recvRec: "deque T", mut: true, binders: "(item : T)"},
		{file: "container/deque/deque.go", recv: "Deque", name: "PushBack", coqName: "gi_Deque_PushBack", recvRec: "deque T", mut: true, binders: "(item : T)"},
		{file: "container/deque/deque.go", recv: "Deque", name: "PopFront", coqName: "gi_Deque_PopFront", recvRec: "deque T", mut: true, retTy: "T", panics: dequePanics},
		{file: "container/deque/deque.go", recv: "Deque", name: "PopBack", coqName: "gi_Deque_PopBack", recvRec: "deque T", mut: true, retTy: "T", panics: dequePanics},
		{file: "container/deque/deque.go", recv: "Deque", name: "Front", coqName: "gi_Deque_Front", recvRec: "deque T", retTy: "T", panics: dequePanics},
		{file: "container/deque/deque.go", recv: "Deque", name: "Back", coqName: "gi_Deque_Back", recvRec: "deque T", retTy: "T", panics: dequePanics},
		{file: "container/deque/deque.go", recv: "Deque", name: "Item", coqName: "gi_Deque_Item", recvRec: "deque T", retTy: "T", binders: "(i : Z)", panics: dequePanics},
		{file: "container/deque/deque.go", recv: "Deque", name: "Set", coqName: "gi_Deque_Set", recvRec: "deque T", mut: true, binders: "(i : Z) (t : T)", panics: dequePanics},
		// the iterator: the receiver is the iterator record, the deque it points to is a read-only second record
		{file: "container/deque/deque.go", recv: "dequeIterator", name: "Next", coqName: "gi_dequeIterator_Next", recvRec: "Deque.Model.iter", mut: true,
			preBinders: "(d : deque T)", retTy: "T * bool", panics: dequePanics,
			aliases: map[string][2]string{"iter.d": {"d", "deque T"}}},
	},
}

var impPkgs = []*impPkg{&impDeque}
