#!/usr/bin/env python3
"""Runs every harness component on quick-tier cases under the Go race detector: a data race inside the harness
(or the library) would make checks flaky. usage: race_selftest.py [Cxx ...]"""
import importlib, json, os, random, subprocess, sys
ROOT = os.path.dirname(os.path.dirname(os.path.abspath(__file__)))
sys.path.insert(0, os.path.join(ROOT, "lib")); sys.path.insert(0, os.path.join(ROOT, "props"))
os.chdir(ROOT)
import vlib
props = sys.argv[1:] or ["C%02d" % i for i in range(1, 21)]
bad = 0
for pid in props:
    mod = importlib.import_module(pid.lower())
    for tag, (spec, module, exe_name) in getattr(mod, "SPECS", {}).items():
        ok, out, exe = vlib.build_runner(race=True, module=module, exe_name=exe_name)
        if not ok:
            print(pid, tag, "race build failed", out[-300:]); bad += 1; continue
        cases = spec.gen(random.Random(99), "quick", 0.5)
        for i, c in enumerate(cases):
            c["id"] = i
        inp = "".join(json.dumps(c) + "\n" for c in cases)
        try:
            p = subprocess.run([exe, spec.component], input=inp, capture_output=True, text=True, timeout=1200,
                               env=dict(os.environ, GORACE="halt_on_error=1 exitcode=66"))
        except subprocess.TimeoutExpired:
            print(pid, tag, "TIMEOUT"); bad += 1; continue
        n = len([l for l in p.stdout.split("\n") if l.strip()])
        status = "ok" if p.returncode == 0 else "rc=%d" % p.returncode
        print(pid, tag, status, "%d/%d cases" % (n, len(cases)), flush=True)
        if p.returncode != 0:
            bad += 1
            print(p.stderr[-2500:])
print("problems:", bad)
