#!/usr/bin/env python3
"""Prints the per-property summary table of DESIGN.md D-15 from the committed artefacts (property files, evidence,
seeded/, known_findings.jsonl)."""
import glob
import json
import os
import re
import sys

ROOT = os.path.dirname(os.path.dirname(os.path.abspath(__file__)))
sys.path.insert(0, os.path.join(ROOT, "lib"))


def strip(txt):
    out, depth, i = [], 0, 0
    while i < len(txt):
        if txt.startswith("(*", i):
            depth += 1; i += 2
        elif txt.startswith("*)", i) and depth:
            depth -= 1; i += 2
        else:
            if not depth:
                out.append(txt[i])
            i += 1
    return "".join(out)


known = [json.loads(l) for l in open(os.path.join(ROOT, "known_findings.jsonl")) if l.startswith("{")]
rows = []
for i in range(1, 21):
    pid = "C%02d" % i
    files = sorted(glob.glob(os.path.join(ROOT, "coq/Properties/%s*.v" % pid)))
    nth = sum(len(re.findall(r"^\s*(?:Theorem|Lemma)\s+%s" % pid[:3], strip(open(f).read()), flags=re.M)) for f in files)
    ev = {}
    try:
        ev = json.load(open(os.path.join(ROOT, "evidence/%s.json" % pid)))
    except Exception:
        pass
    parts = sorted((ev.get("coverage") or {}).get("parts", {}))
    seeds = [json.load(open(m)) for m in glob.glob(os.path.join(ROOT, "seeded/*/meta.json"))]
    mine = [s for s in seeds if s.get("check_run", {}).get("check") == pid]
    caught = sum(1 for s in mine if s.get("check_run", {}).get("violations_reported", 0) > 0)
    kf = [k for k in known if k.get("property") == pid]
    rows.append("| %s | %d | %s | %d/%d | %d fixed, %d known |" % (pid, nth, ", ".join(parts) or "-", caught, len(mine),
                                                                  sum(1 for k in kf if k.get("status") == "fixed"),
                                                                  sum(1 for k in kf if k.get("status", "known") == "known")))
print("| property | theorems in Properties/ | parts of the check (evidence) | seeded changes reported | findings |")
print("|---|---|---|---|---|")
print("\n".join(rows))
