#!/usr/bin/env python3
"""Regenerates MANIFEST.json from tools/manifest_src.json + the list of claimed properties."""
import json, os, sys
ROOT = os.path.dirname(os.path.dirname(os.path.abspath(__file__)))
src = json.load(open(os.path.join(ROOT, "tools", "manifest_src.json")))
props = [json.loads(l) for l in open(os.path.join(ROOT, "properties.jsonl"))]
checks = []
na = []
for p in props:
    pid = p["id"]
    c = src["claims"].get(pid)
    if c is None or c.get("claimed") is False:
        na.append({"property_id": pid, "reason": (c or {}).get("reason", "check not built yet (work in progress; see DESIGN.md)")})
        continue
    checks.append({
        "property_id": pid,
        "quick_cmd": "./check %s --tier quick" % pid,
        "thorough_cmd": "./check %s --tier thorough" % pid,
        "evidence_file": "evidence/%s.json" % pid,
        "replay_cmd_template": "./check %s --replay {path}" % pid,
        "engine": "coq-proof+correspondence",
        "level_claimed": {"category": "proof", "text": c["text"], "design_ref": "DESIGN.md Part B, section %s" % pid},
        "level_note": c["note"],
        "technique": c.get("technique", "machine-checked proof in Coq 8.16.1 of the property over an executable Gallina model, tied to the Go code by a differential correspondence check (model evaluated with vm_compute on recorded implementation runs)"),
    })
m = {
    "version": 1,
    "setup_cmd": "./setup.sh",
    "hooks": {
        "guard": "verif",
        "enable": "go build -tags verif (the harness module replaces github.com/bradenaw/juniper by /repo)",
        "baseline_off_cmd": src["baseline_off_cmd"],
        "source_commits": src["hook_commits"],
        "add_only": True,
    },
    "engines": [{"name": "coq-proof+correspondence", "path": "check", "serves_properties": [c["property_id"] for c in checks],
                 "kind_free_text": "Coq 8.16.1 theorems over hand-written executable models (coq/), constants regenerated from the Go AST (tools/gofacts), differential correspondence check model<->implementation (harness/, lib/, props/)"}],
    "checks": checks,
    "notes": src.get("notes", ""),
    "not_applicable": na,
}
json.dump(m, open(os.path.join(ROOT, "MANIFEST.json"), "w"), indent=1)
print("claimed:", [c["property_id"] for c in checks])
