#!/bin/bash
# usage: tools/keep_seed.sh <PROP> <name> <worktree> <patch.diff> <demo dir> <check-id to run> [needs text]
# Confirms in the scratch worktree: builds, existing tests pass with the patch, demo fails with / passes without;
# runs the check against it; stores seeded/<name>/{patch.diff,demo/,meta.json}.
set -u
PROP=$1; NAME=$2; W=$3; PATCH=$(readlink -f "$4"); DEMO=$(readlink -f "$5"); CHK=$6; NEEDS=${7:-}
export GOFLAGS=-mod=mod GOPROXY=off GOSUMDB=off GOTOOLCHAIN=local
OUT=/verif/seeded/$NAME; mkdir -p "$OUT"
git -C "$W" checkout -q -- . ; git -C "$W" clean -fdq
demo() { if [ -f "$DEMO/run.sh" ]; then (cd "$DEMO" && timeout 300 sh ./run.sh "$W" >/tmp/keep_seed_demo.$$ 2>&1; echo $?); return; fi; (cd "$DEMO" && cp "$W/go.sum" . 2>/dev/null; timeout 300 go test -count=1 $(cat "$DEMO/GOTESTFLAGS" 2>/dev/null) ./... >/tmp/keep_seed_demo.$$ 2>&1; echo $?); }
CLEAN_DEMO=$(demo)
git -C "$W" apply "$PATCH" || { echo "patch does not apply"; exit 2; }
(cd "$W" && go build ./... >/tmp/keep_seed_build.$$ 2>&1); BUILD=$?
(cd "$W" && timeout 1500 go test -count=1 $(go list ./... | grep -v /xtime$) >/tmp/keep_seed_tests.$$ 2>&1); TESTS=$?
MUT_DEMO=$(demo)
git -C "$W" checkout -q -- . ; git -C "$W" clean -fdq
cd /verif
SINCE=$(date +%s)
RES=$(tools/try_patch.sh "$PATCH" "$CHK" 2>&1)
python3 tools/replays_to_corpus.py "$CHK" "$NAME" "$SINCE"
VIOL=$(echo "$RES" | grep -c '^VIOLATION')
SIGS=$(echo "$RES" | grep '^violation:' | cut -c1-300 | head -5)
[ "$PATCH" = "$OUT/patch.diff" ] || cp "$PATCH" "$OUT/patch.diff"; if [ "$DEMO" != "$OUT/demo" ]; then rm -rf "$OUT/demo"; cp -r "$DEMO" "$OUT/demo"; fi; rm -f "$OUT/demo/go.sum"
PROP="$PROP" NAME="$NAME" NEEDS="$NEEDS" BUILD="$BUILD" TESTS="$TESTS" CLEAN_DEMO="$CLEAN_DEMO" MUT_DEMO="$MUT_DEMO" CHK="$CHK" VIOL="$VIOL" SIGS="$SIGS" python3 - "$OUT/meta.json" <<'PY'
import json, os, sys
e = os.environ
json.dump({"property": e["PROP"], "name": e["NAME"], "breaks": e["PROP"], "needs_to_manifest": e["NEEDS"],
 "confirmed": {"builds": e["BUILD"] == "0", "existing_tests_pass_with_change": e["TESTS"] == "0",
   "demo_exit_on_clean_tree": int(e["CLEAN_DEMO"] or -1), "demo_exit_with_change": int(e["MUT_DEMO"] or -1),
   "commands": ["git apply patch.diff (scratch worktree)", "go build ./...", "go test -count=1 ./... (xtime excluded: TestJitterTicker is unstable on the pinned tree)", "demo/run.sh <worktree> (or: cd demo && go test -count=1 ./... with go.mod replacing the module by the worktree)"]},
 "check_run": {"check": e["CHK"], "violations_reported": int(e["VIOL"] or 0), "detail": e["SIGS"]}}, open(sys.argv[1], "w"), indent=1)
PY
echo "$NAME: build=$BUILD tests=$TESTS demo clean=$CLEAN_DEMO mutated=$MUT_DEMO check-violations=$VIOL"
rm -f /tmp/keep_seed_*.$$
