#!/usr/bin/env python3
"""Re-runs every seeded change against its check (scratch worktree), updates meta.json check_run, refreshes the
corpus and SEEDED.md. usage: rerun_seeds.py [name-prefix ...]"""
import json, os, sys, glob, subprocess, time
ROOT = os.path.dirname(os.path.dirname(os.path.abspath(__file__)))
os.chdir(ROOT)
sel = sys.argv[1:]
for f in sorted(glob.glob("seeded/*/meta.json")):
    name = os.path.basename(os.path.dirname(f))
    if sel and not any(name.startswith(s) for s in sel):
        continue
    m = json.load(open(f))
    chk = (m.get("check_run") or {}).get("check") or m.get("property", "").split("+")[0]
    if not chk or not os.path.exists("props/%s.py" % chk.lower()):
        print(name, "no check", chk)
        continue
    since = time.time()
    seeds = os.environ.get("SEEDS", "1").split()
    hits, v, detail = 0, 0, ""
    for sd in seeds:
        p = subprocess.run(["tools/try_patch.sh", "seeded/%s/patch.diff" % name, chk], stdout=subprocess.PIPE, stderr=subprocess.STDOUT,
                           text=True, env=dict(os.environ, VERIF_SEED=sd))
        vv = sum(1 for l in p.stdout.split("\n") if l.startswith("VIOLATION"))
        if vv:
            hits += 1
            v = max(v, vv)
            detail = detail or "\n".join([l[:300] for l in p.stdout.split("\n") if l.startswith("violation:")][:5])
    m["check_run"] = {"check": chk, "violations_reported": v, "detail": detail, "detected_in_runs": "%d/%d (VERIF_SEED in %s)" % (hits, len(seeds), ",".join(seeds))}
    json.dump(m, open(f, "w"), indent=1)
    subprocess.run(["python3", "tools/replays_to_corpus.py", chk, name, str(since)])
    print(name, chk, v, flush=True)
subprocess.run(["python3", "tools/seed_matrix.py"])
