#!/usr/bin/env python3
"""Re-validates every corpus case on the clean tree (/repo): each must pass the direct oracle and agree with the
models in REPEAT runs; cases that do not are removed (a shrunk scenario can be invalid or race dependent in a way
that would raise a false alarm). usage: validate_corpus.py [PROP ...]"""
import glob, importlib, json, os, sys
ROOT = os.path.dirname(os.path.dirname(os.path.abspath(__file__)))
sys.path.insert(0, os.path.join(ROOT, "lib")); sys.path.insert(0, os.path.join(ROOT, "props"))
os.chdir(ROOT)
import vlib
REPEAT = int(os.environ.get("REPEAT", "4"))
props = sys.argv[1:] or sorted(os.listdir("corpus"))
removed = kept = 0
for pid in props:
    mod = importlib.import_module(pid.lower())
    specs = getattr(mod, "SPECS", {})
    files = sorted(glob.glob("corpus/%s/*.json" % pid))
    by_tag = {}
    for f in files:
        c = json.load(open(f))
        by_tag.setdefault(c.get("component"), []).append((f, c))
    for tag, lst in by_tag.items():
        if tag not in specs:
            print(pid, tag, "no spec; keeping", len(lst)); kept += len(lst); continue
        spec, module, exe_name = specs[tag]
        ok, out, exe = vlib.build_runner(module=module, exe_name=exe_name)
        bad = set()
        for rep in range(REPEAT):
            cases = [dict(c, id=i) for i, (f, c) in enumerate(lst)]
            obs, err = vlib.run_runner(exe, spec.component, cases, timeout=900)
            if err or len(obs) != len(cases):
                print(pid, tag, "runner problem:", err); bad |= set(range(len(obs or []), len(cases))); continue
            if hasattr(spec, "post_run"):
                spec.post_run(cases, {o["id"]: o for o in obs})
            for i, (c, o) in enumerate(zip(cases, obs)):
                if spec.oracle(c, o):
                    bad.add(i)
            if spec.checkers:
                failing, cerr = vlib.eval_failing_multi(spec.imports, [spec.coq_case(c, o) for c, o in zip(cases, obs)], spec.checkers,
                                                        "corpusval_%s_%s" % (pid, tag), preamble=spec.preamble)
                for k, v in failing.items():
                    if k not in getattr(spec, "informational", ()):
                        bad |= set(v)
        for i, (f, c) in enumerate(lst):
            if i in bad:
                os.remove(f); removed += 1; print("removed", f)
            else:
                kept += 1
print("kept", kept, "removed", removed)
