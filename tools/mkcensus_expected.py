#!/usr/bin/env python3
"""Writes coq/theories/Translated/Census<Cxx>.v from the CURRENT coq/theories/Generated/Census.v: the record of the
synchronisation census each concurrency model was written against. Run deliberately (after checking that the models in
theories/Conc still transcribe the functions), never by a check."""
import os
import re
import sys

ROOT = os.path.dirname(os.path.dirname(os.path.abspath(__file__)))
src = open(os.path.join(ROOT, "coq/theories/Generated/Census.v")).read()
MODEL = {"C10": "Conc/Pipe.v", "C11": "Conc/Batch.v", "C12": "Conc/Merge.v", "C13": "Conc/ParDo.v", "C14": "Conc/ParMap.v",
         "C16": "Conc/Cond.v", "C17": "Conc/Group.v", "C18": "Conc/Watch.v and Conc/Future.v", "C20": "Conc/XTime.v"}
defs = re.findall(r"\(\* ([^\n]*?) \*\)\nDefinition (census_(C\d\d)_\w+) : list \(string \* Z\) :=\n  (\[.*?\])\.\n", src, re.S)
by = {}
for comment, name, prop, body in defs:
    by.setdefault(prop, []).append((comment, name, body))
for prop, items in sorted(by.items()):
    out = ["(* The synchronisation census (see tools/gofacts/census.go) that the model %s was written against:" % MODEL[prop],
           "   per transcribed Go function, the bag of channel operations, select arms, goroutine starts, timer/context/",
           "   sync/atomic calls in its body. Generated/Census.v is re-extracted from the Go source on every run; a function",
           "   that gains or loses such an operation no longer matches, and the obligation below fails: the model then has",
           "   to be re-read against the new code (and this record updated by hand or tools/mkcensus_expected.py). *)",
           "From Coq Require Import String List ZArith.", "From Juniper Require Import Generated.Census.",
           "Import ListNotations.", "Open Scope string_scope.", "Open Scope Z_scope.", ""]
    names = []
    for comment, name, body in items:
        out.append("(* %s *)" % comment)
        out.append("Lemma %s_ok : %s =\n  %s.\nProof. reflexivity. Qed.\n" % (name, name, body))
        names.append(name)
    out.append("Definition census_expected_%s : Prop :=\n  %s.\n" % (prop, "\n  /\\ ".join(
        "%s =\n  %s" % (n, b) for _, n, b in items)))
    out.append("Lemma census_%s_ok : census_expected_%s.\nProof. unfold census_expected_%s. repeat split; reflexivity. Qed." % (prop, prop, prop))
    p = os.path.join(ROOT, "coq/theories/Translated/Census%s.v" % prop)
    open(p, "w").write("\n".join(out) + "\n")
    print("wrote", p, len(items), "functions")
