package main

// C14: parallel.MapIterator / parallel.MapStream scenarios.  A sequential controller executes the
// scenario's steps; the consumer is one goroutine that executes the requested Next/Close calls in
// order; f and the source are harness code with gates.

import (
	"context"
	"runtime"
	"sync"
	"time"

	"github.com/bradenaw/juniper/iterator"
	"github.com/bradenaw/juniper/parallel"
	"github.com/bradenaw/juniper/stream"
)

func init() {
	components["mapiter"] = runMapIter
	components["mapstream"] = runMapStream
}

const pmBase = 100

func pmF(x int) int { return x*3 + 7 }

func cfgInt(c *Case, k string, def int) int {
	if v, ok := c.Cfg[k]; ok {
		return num(v)
	}
	return def
}

func cfgSet(c *Case, k string) map[int]bool {
	m := map[int]bool{}
	if v, ok := c.Cfg[k]; ok && v != nil {
		for _, x := range v.([]any) {
			m[num(x)] = true
		}
	}
	return m
}

func cfgBool(c *Case, k string) bool {
	if v, ok := c.Cfg[k]; ok {
		b, _ := v.(bool)
		return b
	}
	return false
}

// waitDone waits until wg is done; gives up (false) as soon as the whole process is structurally
// quiescent (every goroutine blocked, twice) while wg is still not done: then it never will be.
func waitDone(h *hlog, wg *sync.WaitGroup) bool {
	done := make(chan struct{})
	go func() { wg.Wait(); close(done) }()
	for i := 0; i < 3; i++ {
		select {
		case <-done:
			return true
		default:
		}
		quiesce(h, 5*time.Second, nil)
		select {
		case <-done:
			return true
		case <-time.After(2 * time.Millisecond):
		}
	}
	select {
	case <-done:
		return true
	default:
		return false
	}
}

func waitGoroutines(base int, d time.Duration) int {
	deadline := time.Now().Add(d)
	for {
		n := runtime.NumGoroutine()
		if n <= base || time.Now().After(deadline) {
			return n - base
		}
		time.Sleep(200 * time.Microsecond)
	}
}

// ---------------------------------------------------------------- MapIterator

type pmIterSrc struct {
	h   *hlog
	n   int
	pos int
}

func (s *pmIterSrc) Next() (int, bool) {
	s.h.add("src-enter")
	if s.pos < s.n {
		k := s.pos
		s.pos++
		s.h.add("src-exit", k)
		return pmBase + k, true
	}
	s.h.add("src-exit", -1)
	return 0, false
}

// cfg: par, buf, gomaxprocs, n, fgated [k...]
// ops: ["next"] ["relf", k] ["quiesce"]
func runMapIter(c *Case) *Obs {
	h := &hlog{}
	par, bufsz, n := cfgInt(c, "par", 1), cfgInt(c, "buf", 0), cfgInt(c, "n", 0)
	gmp := cfgInt(c, "gomaxprocs", 0)
	if gmp > 0 {
		old := runtime.GOMAXPROCS(gmp)
		defer runtime.GOMAXPROCS(old)
	}
	baseG := runtime.NumGoroutine()
	gates := map[int]*gate{}
	for k := range cfgSet(c, "fgated") {
		gates[k] = newGate()
	}
	src := &pmIterSrc{h: h, n: n}
	f := func(x int) int {
		k := x - pmBase
		h.add("f-enter", k)
		if g, ok := gates[k]; ok {
			g.wait()
		}
		h.add("f-exit", k)
		return pmF(x)
	}
	var it iterator.Iterator[int] = parallel.MapIterator[int, int](src, par, bufsz, f)

	reqc := make(chan struct{}, 1024)
	var wg sync.WaitGroup
	wg.Add(1)
	ended := false
	go func() {
		defer wg.Done()
		for range reqc {
			h.add("call-next")
			v, ok := it.Next()
			if ok {
				h.add("ret-next", "val", v)
			} else {
				h.add("ret-next", "end", 0)
				ended = true
			}
		}
	}()
	quiet := true
	for _, op := range c.Ops {
		switch op[0].(string) {
		case "next":
			h.add("req-next")
			reqc <- struct{}{}
		case "relf":
			k := num(op[1])
			h.add("relf", k)
			if g, ok := gates[k]; ok {
				g.release()
			}
		case "quiesce":
			ok := quiesce(h, 5*time.Second, nil)
			quiet = quiet && ok
			h.add("quiesce", ok)
		}
	}
	ok := quiesce(h, 5*time.Second, nil)
	quiet = quiet && ok
	h.add("quiesce", ok)
	evs := h.snapshot()
	// clean up: release everything and drain the iterator (it leaks its goroutines otherwise)
	for _, g := range gates {
		g.release()
	}
	for i := 0; i < n+2; i++ {
		reqc <- struct{}{}
	}
	close(reqc)
	leaked := !waitDone(h, &wg)
	extra := 0
	if !leaked {
		extra = waitGoroutines(baseG, 2*time.Second)
	}
	_ = ended
	o := &Obs{}
	for _, e := range evs {
		o.Obs = append(o.Obs, e)
	}
	o.Aux = map[string]any{"quiescent": quiet, "cleanup_leak": leaked, "goroutines_left": extra}
	return o
}

// ---------------------------------------------------------------- MapStream

// tagCtx is a context whose cancellation error is recognisable (the caller's context and the
// per-call contexts of Next), so that it can be told apart from the library's own cancellations.
type tagCtx struct {
	mu        sync.Mutex
	done      chan struct{}
	err       error
	cancelled bool
}

type pmErr struct {
	s        string
	wrapsEnd bool
}

func (e *pmErr) Error() string { return e.s }

// Unwrap: the source's and f's errors wrap the library's end sentinel (errors.Is(err, stream.End) holds for them): they
// must be reported like any other error, never mistaken for the end.
func (e *pmErr) Unwrap() error {
	if e.wrapsEnd {
		return stream.End
	}
	return nil
}

func newTagCtx(err error) *tagCtx { return &tagCtx{done: make(chan struct{}), err: err} }

func (c *tagCtx) Deadline() (time.Time, bool) { return time.Time{}, false }
func (c *tagCtx) Done() <-chan struct{}       { return c.done }
func (c *tagCtx) Value(any) any               { return nil }
func (c *tagCtx) Err() error {
	c.mu.Lock()
	defer c.mu.Unlock()
	if c.cancelled {
		return c.err
	}
	return nil
}
func (c *tagCtx) cancel() {
	c.mu.Lock()
	defer c.mu.Unlock()
	if !c.cancelled {
		c.cancelled = true
		close(c.done)
	}
}

type pmStreamSrc struct {
	h         *hlog
	n         int
	pos       int
	serr      bool
	errSrc    error
	gates     map[int]*gate
	closed    int
	slowClose time.Duration
	// cfg "errorstream": the failing part of the source IS the library's stream.Error(errSrc): once the n items are
	// out, every Next is answered by that stream's Next (and Close reaches its Close)
	errStream stream.Stream[int]
}

func (s *pmStreamSrc) Next(ctx context.Context) (int, error) {
	s.h.add("src-enter")
	pos := s.pos
	if g, ok := s.gates[pos]; ok {
		select {
		case <-g.c:
		default:
			select {
			case <-g.c:
			case <-ctx.Done():
				s.h.add("src-exit", "ctx", 0)
				return 0, ctx.Err()
			}
		}
	}
	if pos < s.n {
		s.pos++
		s.h.add("src-exit", "item", pos)
		return pmBase + pos, nil
	}
	if s.serr {
		err := s.errSrc
		if s.errStream != nil {
			_, err = s.errStream.Next(ctx)
		}
		s.h.add("src-exit", "err", 0)
		return 0, err
	}
	s.h.add("src-exit", "end", 0)
	return 0, stream.End
}

func (s *pmStreamSrc) Close() {
	s.h.add("srcclose-enter")
	s.closed++
	if s.errStream != nil {
		s.errStream.Close()
	}
	if s.slowClose > 0 {
		time.Sleep(s.slowClose) // a Close that takes a while (cfg "slowclose_ms"): what is reported must not depend on it
	}
	s.h.add("srcclose-exit")
}

// cfg: par, buf, gomaxprocs, n, fgated [k...], sgated [pos...], ferr [k...], serr bool, errorstream bool, nctx
// ops: ["next", j] ["close"] ["relf", k] ["rels", pos] ["cancel-parent"] ["cancel-next", j] ["quiesce"]
func runMapStream(c *Case) *Obs {
	h := &hlog{}
	par, bufsz, n := cfgInt(c, "par", 1), cfgInt(c, "buf", 0), cfgInt(c, "n", 0)
	nctx := cfgInt(c, "nctx", 1)
	gmp := cfgInt(c, "gomaxprocs", 0)
	if gmp > 0 {
		old := runtime.GOMAXPROCS(gmp)
		defer runtime.GOMAXPROCS(old)
	}
	baseG := runtime.NumGoroutine()
	fgates := map[int]*gate{}
	for k := range cfgSet(c, "fgated") {
		fgates[k] = newGate()
	}
	sgates := map[int]*gate{}
	for k := range cfgSet(c, "sgated") {
		sgates[k] = newGate()
	}
	ferr := cfgSet(c, "ferr")
	errF := map[int]error{}
	for k := range ferr {
		errF[k] = &pmErr{s: "f failed", wrapsEnd: k%2 == 1}
	}
	errSrc := &pmErr{s: "source failed", wrapsEnd: n%2 == 0}
	errParent := &pmErr{s: "caller context cancelled"}
	errNext := &pmErr{s: "next context cancelled"}
	parent := newTagCtx(errParent)
	nctxs := make([]*tagCtx, nctx)
	for j := range nctxs {
		nctxs[j] = newTagCtx(errNext)
	}
	src := &pmStreamSrc{h: h, n: n, serr: cfgBool(c, "serr"), errSrc: errSrc, gates: sgates,
		slowClose: time.Duration(cfgInt(c, "slowclose_ms", 0)) * time.Millisecond}
	if src.serr && cfgBool(c, "errorstream") {
		src.errStream = stream.Error[int](errSrc)
	}
	f := func(ctx context.Context, x int) (int, error) {
		k := x - pmBase
		h.add("f-enter", k)
		if g, ok := fgates[k]; ok {
			select {
			case <-g.c:
			default:
				select {
				case <-g.c:
				case <-ctx.Done():
					h.add("f-exit", k, "ctx")
					return 0, ctx.Err()
				}
			}
		}
		if ferr[k] {
			h.add("f-exit", k, "err")
			return 0, errF[k]
		}
		h.add("f-exit", k, "ok")
		return pmF(x), nil
	}
	var st stream.Stream[int] = parallel.MapStream[int, int](parent, src, par, bufsz, f)

	classify := func(err error) (string, int) {
		switch {
		case err == stream.End:
			return "end", 0
		case err == errSrc:
			return "serr", 0
		case err == errParent:
			return "parent", 0
		case err == errNext:
			return "nextctx", 0
		case err == context.Canceled:
			return "canceled", 0
		}
		for k, e := range errF {
			if err == e {
				return "ferr", k
			}
		}
		return "other", 0
	}

	type req struct {
		close bool
		j     int
	}
	reqc := make(chan req, 1024)
	var wg sync.WaitGroup
	wg.Add(1)
	var cmu sync.Mutex
	closedByConsumer := false
	go func() {
		defer wg.Done()
		for r := range reqc {
			if r.close {
				h.add("call-close")
				st.Close()
				h.add("ret-close")
				cmu.Lock()
				closedByConsumer = true
				cmu.Unlock()
				for range reqc {
				}
				return
			}
			h.add("call-next", r.j)
			v, err := st.Next(nctxs[r.j])
			if err == nil {
				h.add("ret-next", "val", v)
			} else {
				kind, k := classify(err)
				h.add("ret-next", kind, k)
			}
		}
	}()
	quiet := true
	for _, op := range c.Ops {
		switch op[0].(string) {
		case "next":
			j := num(op[1])
			if j < 0 || j >= nctx {
				continue
			}
			h.add("req-next", j)
			reqc <- req{j: j}
		case "close":
			h.add("req-close")
			reqc <- req{close: true}
		case "relf":
			k := num(op[1])
			h.add("relf", k)
			if g, ok := fgates[k]; ok {
				g.release()
			}
		case "rels":
			k := num(op[1])
			h.add("rels", k)
			if g, ok := sgates[k]; ok {
				g.release()
			}
		case "cancel-parent":
			h.add("cancel-parent")
			parent.cancel()
		case "cancel-next":
			j := num(op[1])
			if j < 0 || j >= nctx {
				continue
			}
			h.add("cancel-next", j)
			nctxs[j].cancel()
		case "quiesce":
			ok := quiesce(h, 5*time.Second, nil)
			quiet = quiet && ok
			h.add("quiesce", ok)
		}
	}
	ok := quiesce(h, 5*time.Second, nil)
	quiet = quiet && ok
	h.add("quiesce", ok)
	evs := h.snapshot()
	srcClosedAtEnd := src.closed
	// clean up
	for _, g := range fgates {
		g.release()
	}
	for _, g := range sgates {
		g.release()
	}
	for _, cx := range nctxs {
		cx.cancel()
	}
	close(reqc)
	leaked := !waitDone(h, &wg)
	closeHung := false
	if !leaked {
		cmu.Lock()
		cbc := closedByConsumer
		cmu.Unlock()
		if !cbc {
			var cw sync.WaitGroup
			cw.Add(1)
			go func() { defer cw.Done(); st.Close() }()
			closeHung = !waitDone(h, &cw)
		}
	}
	parent.cancel()
	extra := 0
	if !leaked && !closeHung {
		extra = waitGoroutines(baseG, 2*time.Second)
	}
	o := &Obs{}
	for _, e := range evs {
		o.Obs = append(o.Obs, e)
	}
	o.Aux = map[string]any{"quiescent": quiet, "cleanup_leak": leaked, "cleanup_close_hung": closeHung,
		"goroutines_left": extra, "src_closed": srcClosedAtEnd, "src_closed_final": src.closed}
	return o
}
