import random, sys
seed=int(sys.argv[1]); n=int(sys.argv[2]); rng=random.Random(seed)
mode=rng.choice(['rand','asc','desc','saw','drain'])
K=rng.choice([40,300,3000])
keys=set(); out=[]
def p(k): out.append(f"p {k} {rng.randrange(1000)}"); keys.add(k)
def d(k): out.append(f"d {k} 0"); keys.discard(k)
if mode in('asc','desc','saw','drain'):
    m=rng.choice([15,16,17,127,128,129,255,256,600,2100])
    seq=list(range(m))
    if mode=='desc': seq.reverse()
    if mode=='saw': seq=[x for pair in zip(seq[:m//2],reversed(seq[m//2:])) for x in pair]
    for k in seq: p(k)
    K=m+5
for _ in range(n):
    r=rng.random()
    if mode=='drain' and keys and r<0.7:
        k=rng.choice([min(keys),max(keys),sorted(keys)[len(keys)//2]]); d(k)
    elif r<0.45: p(rng.randrange(K))
    elif r<0.9: d(rng.randrange(K))
    else: out.append(f"g {rng.randrange(K)} 0")
print("\n".join(out))
