package main

import (
	"bufio"
	"fmt"
	"os"

	"github.com/bradenaw/juniper/container/tree"
	"github.com/bradenaw/juniper/iterator"
)

func bound(kind, k int) tree.Bound[int] {
	switch kind {
	case 0:
		return tree.Unbounded[int]()
	case 1:
		return tree.Included(k)
	default:
		return tree.Excluded(k)
	}
}

func main() {
	coarse := len(os.Args) > 1 && os.Args[1] == "coarse"
	cmp := func(a, b int) int { return a - b }
	if coarse {
		cmp = func(a, b int) int { return a/4 - b/4 }
	}
	m := tree.NewMapCmp[int, int](cmp)
	var its []iterator.Iterator[tree.KVPair[int, int]]
	in := bufio.NewScanner(os.Stdin)
	out := bufio.NewWriter(os.Stdout)
	defer out.Flush()
	for in.Scan() {
		var op string
		var a, b, c, d int
		fmt.Sscan(in.Text(), &op, &a, &b, &c, &d)
		func() {
			defer func() {
				if r := recover(); r != nil {
					fmt.Fprintf(out, "panic %v\n", r)
				}
			}()
			switch op {
			case "p":
				m.Put(a, b)
				fmt.Fprintf(out, "ok %d\n", m.Len())
			case "d":
				m.Delete(a)
				fmt.Fprintf(out, "ok %d\n", m.Len())
			case "r":
				its = append(its, m.Range(bound(a, b), bound(c, d)))
				fmt.Fprintf(out, "it %d\n", len(its)-1)
			case "R":
				its = append(its, m.RangeReverse(bound(a, b), bound(c, d)))
				fmt.Fprintf(out, "it %d\n", len(its)-1)
			case "n":
				kv, ok := its[a].Next()
				if ok {
					fmt.Fprintf(out, "y %d %d\n", kv.Key, kv.Value)
				} else {
					fmt.Fprintf(out, "end\n")
				}
			}
		}()
	}
}
