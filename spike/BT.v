From Coq Require Import List ZArith Bool Lia.
Import ListNotations.
Open Scope Z_scope.

Definition maxKVs : nat := 15.
Definition minKVs : nat := 7.
Definition med : nat := 8.

Inductive node := Node (kvs : list (Z*Z)) (cs : list node).
Definition dummy := Node [] [].
Definition kvs_of x := match x with Node k _ => k end.
Definition cs_of x := match x with Node _ c => c end.

Fixpoint search (k : Z) (kvs : list (Z*Z)) (i : nat) : nat * bool :=
  match kvs with
  | [] => (i, false)
  | (k', _) :: r => match Z.compare k k' with Lt => (i, false) | Eq => (i, true) | Gt => search k r (S i) end
  end.

Definition insert_at {A} (i : nat) (x : A) (l : list A) := firstn i l ++ x :: skipn i l.
Definition remove_at {A} (i : nat) (l : list A) := firstn i l ++ skipn (S i) l.
Definition set_at {A} (i : nat) (x : A) (l : list A) := firstn i l ++ x :: skipn (S i) l.

Inductive ins_res := Upd (x : node) | Ins (x : node) | Split (l : node) (s : Z*Z) (r : node).

Definition split (kvs : list (Z*Z)) (cs : list node) : ins_res :=
  let l := Node (firstn med kvs) (firstn (S med) cs) in
  let r := Node (skipn (S med) kvs) (skipn (S med) cs) in
  Split l (nth med kvs (0,0)) r.

Fixpoint ins (fuel : nat) (x : node) (k v : Z) : ins_res :=
  match fuel with O => Upd x | S f =>
  let kvs := kvs_of x in let cs := cs_of x in
  let (idx, found) := search k kvs 0%nat in
  if found then Upd (Node (set_at idx (fst (nth idx kvs (0,0)), v) kvs) cs)
  else match cs with
  | [] => let kvs' := insert_at idx (k,v) kvs in
          if Nat.ltb (length kvs) maxKVs then Ins (Node kvs' []) else split kvs' []
  | _ => match ins f (nth idx cs dummy) k v with
         | Upd c => Upd (Node kvs (set_at idx c cs))
         | Ins c => Ins (Node kvs (set_at idx c cs))
         | Split l s r =>
             let kvs' := insert_at idx s kvs in
             let cs' := firstn idx cs ++ l :: r :: skipn (S idx) cs in
             if Nat.ltb (length kvs) maxKVs then Ins (Node kvs' cs') else split kvs' cs'
         end
  end end.

Definition put (t : node) k v : node * bool :=
  match ins 64 t k v with
  | Upd x => (x, false) | Ins x => (x, true) | Split l s r => (Node [s] [l; r], true) end.

Definition nkeys x := length (kvs_of x).

(* repair child i of (kvs, cs) if underfull *)
Definition fix_child (kvs : list (Z*Z)) (cs : list node) (i : nat) : node :=
  let c := nth i cs dummy in
  if Nat.leb minKVs (nkeys c) then Node kvs cs else
  let n := length kvs in
  let has_r := Nat.ltb i n in
  let has_l := Nat.ltb 0 i in
  let r := nth (S i) cs dummy in
  let l := nth (pred i) cs dummy in
  if has_r && Nat.ltb minKVs (nkeys r) then
    (* rotateLeft c r *)
    let sep := nth i kvs (0,0) in
    let c' := Node (kvs_of c ++ [sep]) (cs_of c ++ firstn 1 (cs_of r)) in
    let r' := Node (skipn 1 (kvs_of r)) (skipn 1 (cs_of r)) in
    Node (set_at i (nth 0 (kvs_of r) (0,0)) kvs) (set_at (S i) r' (set_at i c' cs))
  else if has_l && Nat.ltb minKVs (nkeys l) then
    (* rotateRight l c *)
    let sep := nth (pred i) kvs (0,0) in
    let ln := nkeys l in
    let c' := Node (sep :: kvs_of c) (skipn ln (cs_of l) ++ cs_of c) in
    let l' := Node (firstn (pred ln) (kvs_of l)) (firstn ln (cs_of l)) in
    Node (set_at (pred i) (nth (pred ln) (kvs_of l) (0,0)) kvs) (set_at i c' (set_at (pred i) l' cs))
  else
    let j := if has_l then pred i else i in   (* merge children j and j+1 *)
    let a := nth j cs dummy in let b := nth (S j) cs dummy in
    let m := Node (kvs_of a ++ nth j kvs (0,0) :: kvs_of b) (cs_of a ++ cs_of b) in
    Node (remove_at j kvs) (remove_at (S j) (set_at j m cs)).

Fixpoint remove_rightmost (fuel : nat) (x : node) : node * (Z*Z) :=
  match fuel with O => (x, (0,0)) | S f =>
  let kvs := kvs_of x in let cs := cs_of x in
  match cs with
  | [] => (Node (removelast kvs) [], last kvs (0,0))
  | _ => let i := length kvs in
         let (c', kv) := remove_rightmost f (nth i cs dummy) in
         (fix_child kvs (set_at i c' cs) i, kv)
  end end.

Fixpoint del (fuel : nat) (x : node) (k : Z) : node * bool :=
  match fuel with O => (x, false) | S f =>
  let kvs := kvs_of x in let cs := cs_of x in
  let (idx, found) := search k kvs 0%nat in
  match cs with
  | [] => if found then (Node (remove_at idx kvs) [], true) else (x, false)
  | _ => if found then
           let (c', kv) := remove_rightmost f (nth idx cs dummy) in
           (fix_child (set_at idx kv kvs) (set_at idx c' cs) idx, true)
         else
           let (c', b) := del f (nth idx cs dummy) k in
           if b then (fix_child kvs (set_at idx c' cs) idx, true) else (x, false)
  end end.

Definition delete (t : node) k : node * bool :=
  let (x, b) := del 64 t k in
  match x with
  | Node [] (c :: _) => (c, b)
  | _ => (x, b)
  end.

Fixpoint get (fuel : nat) (x : node) (k : Z) : Z :=
  match fuel with O => 0 | S f =>
  let (idx, found) := search k (kvs_of x) 0%nat in
  if found then snd (nth idx (kvs_of x) (0,0))
  else match cs_of x with [] => 0 | cs => get f (nth idx cs dummy) k end end.

Require Extraction.
Require Import ExtrOcamlBasic.
Extraction "bt.ml" put delete get.
