//go:build verif

package tree

import (
	"fmt"
	"strings"
)

func shapeNode[K any, V any](x *node[K, V], sb *strings.Builder) {
	sb.WriteString("(")
	for i := 0; i < int(x.n); i++ {
		if i > 0 {
			sb.WriteString(" ")
		}
		fmt.Fprintf(sb, "%v", x.keys[i])
	}
	if !x.leaf() {
		for i := 0; i <= int(x.n); i++ {
			shapeNode(x.children[i], sb)
		}
	}
	sb.WriteString(")")
}

// VerifShape returns a canonical rendering of the node structure.
func (m Map[K, V]) VerifShape() string {
	var sb strings.Builder
	shapeNode(m.t.root, &sb)
	return sb.String()
}
