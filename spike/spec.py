import random, sys, subprocess
# abstract re-seek iterator semantics (DESIGN C02 layer S), keys compared through cls()
def run(seed, nops, coarse):
    rng=random.Random(seed)
    cls=(lambda k:k//4) if coarse else (lambda k:k)
    m={}   # cls -> (key,value)
    its=[]; ops=[]; exp=[]
    K=rng.choice([30,200,1500])
    def sortedcls(): return sorted(m)
    def inlo(c,kind,k): return kind==0 or (c>=cls(k) if kind==1 else c>cls(k))
    def inhi(c,kind,k): return kind==0 or (c<=cls(k) if kind==1 else c<cls(k))
    pre=rng.choice([0,20,200,1200])
    for k in rng.sample(range(K*4 if coarse else K), min(pre,K)):
        ops.append(f"p {k} {k}"); c=cls(k)
        m[c]=(m[c][0] if c in m else k, k); exp.append(f"ok {len(m)}")
    for _ in range(nops):
        r=rng.random()
        if r<0.08 or not its:
            rev=rng.random()<0.5; lk,hk=rng.randrange(3),rng.randrange(3)
            lo,hi=rng.randrange(K),rng.randrange(K)
            ops.append(f"{'R' if rev else 'r'} {lk} {lo} {hk} {hi}")
            s=sortedcls()
            if not rev:
                cand=[c for c in s if inlo(c,lk,lo)]; pos=cand[0] if cand else None
            else:
                cand=[c for c in s if inhi(c,hk,hi)]; pos=cand[-1] if cand else None
            its.append(dict(rev=rev,pos=pos,lk=lk,lo=lo,hk=hk,hi=hi,cut=False)); exp.append(f"it {len(its)-1}")
        elif r<0.45:
            j=rng.randrange(len(its)); it=its[j]; ops.append(f"n {j}")
            if it['cut'] or it['pos'] is None: exp.append("end"); continue
            s=sortedcls()
            if not it['rev']:
                cand=[c for c in s if c>=it['pos']]; f=cand[0] if cand else None
                nxt=(cand[1] if len(cand)>1 else None)
            else:
                cand=[c for c in s if c<=it['pos']]; f=cand[-1] if cand else None
                nxt=(cand[-2] if len(cand)>1 else None)
            if f is None: it['pos']=None; exp.append("end"); continue
            it['pos']=nxt
            ok = inhi(f,it['hk'],it['hi']) if not it['rev'] else inlo(f,it['lk'],it['lo'])
            if not ok: it['cut']=True; exp.append("end"); continue
            exp.append(("y",f,m[f][1]))
        else:
            # mutate near an iterator position with high probability
            if its and rng.random()<0.6:
                it=rng.choice(its); base=it['pos'] if it['pos'] is not None else rng.randrange(K)
                base = base*4 if coarse else base
                k=max(0,base+rng.randrange(-6,7))
            else: k=rng.randrange(K*4 if coarse else K)
            if rng.random()<0.5:
                v=rng.randrange(10**6); ops.append(f"p {k} {v}"); c=cls(k)
                m[c]=(m[c][0] if c in m else k, v); exp.append(f"ok {len(m)}")
            else:
                ops.append(f"d {k} 0"); m.pop(cls(k),None); exp.append(f"ok {len(m)}")
    res=subprocess.run(["./run/runner2"]+(["coarse"] if coarse else []),input="\n".join(ops)+"\n",capture_output=True,text=True).stdout.split("\n")
    for i,(e,o) in enumerate(zip(exp,res)):
        if isinstance(e,tuple):
            p=o.split()
            good = len(p)==3 and p[0]=="y" and cls(int(p[1]))==e[1] and int(p[2])==e[2]
        else: good = (o==e)
        if not good: return (i,ops[i],e,o)
    return None
bad=0; n=0
for seed in range(int(sys.argv[1])):
    for coarse in (False,True):
        r=run(seed,400,coarse); n+=1
        if r: bad+=1; print("MISMATCH",seed,coarse,r)
print("histories",n,"mismatches",bad)
