open Bt
let rec pos_of_int n = if n = 1 then XH else if n land 1 = 0 then XO (pos_of_int (n/2)) else XI (pos_of_int (n/2))
let z_of_int n = if n = 0 then Z0 else if n > 0 then Zpos (pos_of_int n) else Zneg (pos_of_int (-n))
let rec int_of_pos = function XH -> 1 | XO p -> 2 * int_of_pos p | XI p -> 2 * int_of_pos p + 1
let int_of_z = function Z0 -> 0 | Zpos p -> int_of_pos p | Zneg p -> - int_of_pos p
let rec shape b (Node (kvs, cs)) =
  Buffer.add_char b '(';
  List.iteri (fun i (k,_) -> if i > 0 then Buffer.add_char b ' '; Buffer.add_string b (string_of_int (int_of_z k))) kvs;
  List.iter (shape b) cs;
  Buffer.add_char b ')'
let () =
  let t = ref (Node ([], [])) and size = ref 0 in
  (try while true do
    let line = input_line stdin in
    Scanf.sscanf line "%s %d %d" (fun op k v ->
      match op with
      | "p" -> let (t', b) = put !t (z_of_int k) (z_of_int v) in t := t'; if b then incr size;
               let bf = Buffer.create 256 in shape bf !t; Printf.printf "%d %s\n" !size (Buffer.contents bf)
      | "d" -> let (t', b) = delete !t (z_of_int k) in t := t'; if b then decr size;
               let bf = Buffer.create 256 in shape bf !t; Printf.printf "%d %s\n" !size (Buffer.contents bf)
      | _ -> Printf.printf "%d\n" (int_of_z (get (S (S (S (S (S (S (S (S O)))))))) !t (z_of_int k))))
  done with End_of_file -> ())
