(* C02, one Next of the model iterators on an arbitrary tree satisfying [tree_ok] (possibly mutated
   since the cursor was parked), from a cursor satisfying the cursor invariant [cur_ok]:
   forward_next / backward_next never panic and do exactly what AIter.ai_next does on the in-order
   list with pending position (ck c): the candidates are the positions at or beyond (ck c) in the
   direction of travel, the first one is yielded with its CURRENT value (under a key equivalent to
   the stored one), and the cursor ends up parked on the second one. *)
From Juniper Require Import Common.Base Tree.Bound Tree.BTree Tree.Cursor Tree.SMap Tree.AIter
  Tree.CProofsOrder Tree.CProofsTree Tree.CProofsCursor Tree.CProofsSeek.
From Coq Require Import Sorted.

Section Step.
  Context {K V : Type} (cmp : K -> K -> comparison).
  Hypothesis laws : cmp_laws cmp.

  Notation node := (@node K V).
  Notation btree := (@btree K V).
  Notation cursor := (@cursor K).
  Notation pos := (nat * Z * (K * V))%type.
  Notation tree_ok := (tree_ok cmp).
  Notation pkey := (@pkey K V).

  (* ---------------- the cursor invariant ---------------- *)

  (* a parked cursor has a non-negative index, a generation not ahead of the tree's, and if its
     generation is the tree's then it points at a live slot holding a key equivalent to c.k *)
  Definition cur_ok (t : btree) (c : cursor) : Prop :=
    match curr c with
    | None => True
    | Some id =>
        0 <= ci c /\ cgen c <= gen t /\
        (cgen c = gen t ->
         exists y kv, find_node id (root t) = Some y /\ zget (nkvs y) (ci c) = Some kv
                      /\ cmp (ck c) (fst kv) = Eq)
    end.

  (* the remembered key is exactly the stored one (true of every freshly parked cursor) *)
  Definition cur_exact (t : btree) (c : cursor) : Prop :=
    forall id y kv, curr c = Some id -> find_node id (root t) = Some y ->
                    zget (nkvs y) (ci c) = Some kv -> ck c = fst kv.

  Lemma cur_ok_nil t c : curr c = None -> cur_ok t c.
  Proof. unfold cur_ok. intros ->. exact I. Qed.

  (* lost() never panics under the invariant; "not lost" means the slot is live and equivalent *)
  Lemma lost_ok (t : btree) (c : cursor) id :
    cur_ok t c -> curr c = Some id ->
    lost K V cmp t c = Ok true
    \/ (lost K V cmp t c = Ok false
        /\ exists y kv, find_node id (root t) = Some y /\ zget (nkvs y) (ci c) = Some kv
                        /\ cmp (ck c) (fst kv) = Eq).
  Proof.
    unfold cur_ok, lost. intros Hok Hc. rewrite Hc in *. destruct Hok as (Hi & Hg & Hv).
    destruct (cgen c =? gen t) eqn:E.
    - apply Z.eqb_eq in E. right. split; auto.
    - destruct (find_node id (root t)) as [x|] eqn:Hf.
      + destruct (ci c >=? node_n K V x) eqn:En; [left; reflexivity|].
        assert (Hlt : ci c < node_n K V x).
        { destruct (Z.geb_spec (ci c) (node_n K V x)); [discriminate|lia]. }
        assert (Hrange : 0 <= ci c < zlen (nkvs x)) by (unfold node_n in Hlt; lia).
        destruct (zget_in_range (nkvs x) (ci c) Hrange) as [kv Hkv].
        unfold key_at. rewrite Hkv. simpl.
        destruct (cmp (ck c) (fst kv)) eqn:Ec; simpl; auto.
        right. split; auto. exists x, kv. auto.
      + replace (ci c >=? 0) with true by (symmetry; apply Z.geb_le; lia). left. reflexivity.
  Qed.

  (* a cursor parked on a position of the tree satisfies both invariants *)
  Lemma parked_ok (t : btree) (c : cursor) g l1 l2 :
    tree_ok t -> inorder_pos (root t) = l1 ++ l2 -> parked_hd c g l2 -> g <= gen t ->
    cur_ok t c /\ cur_exact t c.
  Proof.
    intros Hok Hdec Hp Hg. destruct l2 as [|[[id i] kv] l2]; simpl in Hp.
    - split; [apply cur_ok_nil; exact Hp|]. intros id y kv Hc. congruence.
    - subst c.
      destruct (pos_step cmp t (cur_at (id, i, kv) g) l1 id i kv l2 Hok Hdec eq_refl eq_refl)
        as ((y & Hf & Hz) & _ & _).
      split.
      + unfold cur_ok, cur_at, p_id, p_i, p_kv. simpl.
        split; [apply zget_Some_range in Hz; lia|]. split; [exact Hg|].
        intros _. exists y, kv. repeat split; auto. apply (c_refl cmp laws).
      + intros id' y' kv' Hc Hf' Hz'. unfold cur_at, p_id, p_i, p_kv in *. simpl in *.
        injection Hc as <-.
        rewrite Hf in Hf'. injection Hf' as <-. rewrite Hz in Hz'. injection Hz' as <-. reflexivity.
  Qed.

  (* ---------------- filters of a split sorted list ---------------- *)

  Lemma filter_app_true_false {A} (f : A -> bool) l1 l2 :
    (forall x, In x l1 -> f x = true) -> (forall x, In x l2 -> f x = false) ->
    filter f (l1 ++ l2) = l1.
  Proof.
    intros H1 H2. rewrite filter_app, (filter_all_true f l1 H1).
    assert (E : filter f l2 = []).
    { clear H1. induction l2 as [|a l2 IH]; simpl; auto.
      rewrite (H2 a (or_introl eq_refl)). apply IH. intros x Hx. apply H2. right. exact Hx. }
    rewrite E. apply app_nil_r.
  Qed.

  Lemma filter_app_false_true {A} (f : A -> bool) l1 l2 :
    (forall x, In x l1 -> f x = false) -> (forall x, In x l2 -> f x = true) ->
    filter f (l1 ++ l2) = l2.
  Proof.
    intros H1 H2. rewrite filter_app, (filter_all_true f l2 H2).
    assert (E : filter f l1 = []).
    { clear H2. induction l1 as [|a l1 IH]; simpl; auto.
      rewrite (H1 a (or_introl eq_refl)). apply IH. intros x Hx. apply H1. right. exact Hx. }
    rewrite E. reflexivity.
  Qed.

  Lemma cands_fwd (P1 P2 : list pos) p :
    Forall (plt cmp p) P1 -> Forall (pge cmp p) P2 ->
    ai_cands K V cmp false p (map snd (P1 ++ P2)) = map snd P2.
  Proof.
    intros H1 H2. unfold ai_cands. rewrite map_app. apply filter_app_false_true.
    - intros x Hx. apply in_map_iff in Hx. destruct Hx as (q & <- & Hq).
      rewrite Forall_forall in H1. specialize (H1 q Hq). unfold plt, pkey in H1. rewrite H1. reflexivity.
    - intros x Hx. apply in_map_iff in Hx. destruct Hx as (q & <- & Hq).
      rewrite Forall_forall in H2. specialize (H2 q Hq). unfold pge, pkey in H2.
      apply (is_ge_true cmp laws). exact H2.
  Qed.

  Lemma cands_bwd (P1 P2 : list pos) p :
    Forall (ple cmp p) P1 -> Forall (pgt cmp p) P2 ->
    ai_cands K V cmp true p (map snd (P1 ++ P2)) = map snd (rev P1).
  Proof.
    intros H1 H2. unfold ai_cands. rewrite map_rev. f_equal. rewrite map_app.
    apply filter_app_true_false.
    - intros x Hx. apply in_map_iff in Hx. destruct Hx as (q & <- & Hq).
      rewrite Forall_forall in H1. specialize (H1 q Hq). unfold ple, pkey in H1.
      apply (is_le_true cmp). exact H1.
    - intros x Hx. apply in_map_iff in Hx. destruct Hx as (q & <- & Hq).
      rewrite Forall_forall in H2. specialize (H2 q Hq). unfold pgt, pkey in H2.
      apply (c_lt_gt cmp laws) in H2. rewrite H2. reflexivity.
  Qed.

  (* ---------------- the outcome of one inner Next ---------------- *)

  (* L = the candidates in the order of travel.  Empty: end, cursor off the edge.  Otherwise the
     head f is yielded: current value, key equivalent to the stored key (and equal to it when the
     cursor was exact); the new cursor is parked on the second candidate. *)
  Definition step_out (t : btree) (c : cursor) (L : list pos) (c' : cursor)
      (r : option (K * V)) : Prop :=
    match L with
    | [] => r = None /\ curr c' = None
    | f :: rest =>
        (exists k', r = Some (k', snd (snd f)) /\ cmp k' (pkey f) = Eq
                    /\ (cur_exact t c -> k' = pkey f))
        /\ exists g, g <= gen t /\ parked_hd c' g rest
    end.

  Lemma value_at (t : btree) (c : cursor) id y kv :
    curr c = Some id -> find_node id (root t) = Some y -> zget (nkvs y) (ci c) = Some kv ->
    value_unchecked K V t c = Ok (snd kv).
  Proof. intros Hc Hf Hz. unfold value_unchecked, val_at. rewrite Hc, Hf, Hz. reflexivity. Qed.

  (* yielding from a live slot (not lost): common to both directions *)
  Lemma live_slot (t : btree) (c : cursor) id y kv :
    tree_ok t -> curr c = Some id -> find_node id (root t) = Some y ->
    zget (nkvs y) (ci c) = Some kv ->
    exists l1 l2, inorder_pos (root t) = l1 ++ (id, ci c, kv) :: l2.
  Proof.
    intros Hok Hc Hf Hz. destruct Hok as [Hroot _ _].
    destruct (root_ok_cases _ Hroot) as [[Hs _]|[_ Hn]].
    - eapply pos_of_node; eauto.
    - exfalso. destruct Hroot as [Hs|[Hk Hcs]].
      + destruct (root t) as [ir kr cr]. apply shape_ok_inv in Hs. destruct Hs as (Hne & _).
        unfold node_n, zlen in Hn. simpl in Hn. destruct kr; [congruence|simpl in Hn; lia].
      + destruct (root t) as [ir kr cr]. simpl in *. subst. simpl in Hf.
        destruct (ir =? id)%nat; [|discriminate]. injection Hf as <-. simpl in Hz.
        unfold zget in Hz. destruct (ci c <? 0); [discriminate|]. destruct (Z.to_nat (ci c)); discriminate.
  Qed.

  Lemma forward_next_sim (t : btree) (c : cursor) id :
    tree_ok t -> cur_ok t c -> curr c = Some id ->
    exists L c' r,
      forward_next K V cmp t c = Ok (c', r)
      /\ map snd L = ai_cands K V cmp false (ck c) (inorder (root t))
      /\ (exists A, inorder_pos (root t) = A ++ L)
      /\ step_out t c L c' r.
  Proof.
    intros Hok Hcur Hc. unfold forward_next.
    destruct (lost_ok t c id Hcur Hc) as [Hl|(Hl & y & kv & Hf & Hz & He)]; rewrite Hl; simpl.
    - (* lost: re-seek by the remembered key *)
      destruct (sfge_spec cmp laws t c (ck c) Hok) as (c1 & P1 & P2 & -> & Hdec & H1 & H2 & Hp).
      simpl.
      assert (Hm : map snd P2 = ai_cands K V cmp false (ck c) (inorder (root t))).
      { rewrite <- inorder_pos_inorder, Hdec. symmetry. apply cands_fwd; auto. }
      destruct P2 as [|[[id1 i1] kv1] rest]; simpl in Hp.
      + rewrite Hp. exists [], c1, None. repeat split; auto. exists P1. exact Hdec.
      + subst c1. simpl curr. cbv iota.
        destruct (pos_step cmp t (cur_at (id1, i1, kv1) (gen t)) P1 id1 i1 kv1 rest Hok Hdec
                    eq_refl eq_refl) as ((y1 & Hf1 & Hz1) & (c' & Hn & Hp') & _).
        rewrite (value_at t (cur_at (id1, i1, kv1) (gen t)) id1 y1 kv1 eq_refl Hf1 Hz1). simpl.
        unfold cursor_next, next_with. rewrite (lost_fresh cmp t (cur_at (id1, i1, kv1) (gen t)) eq_refl). simpl. rewrite Hn. simpl.
        exists ((id1, i1, kv1) :: rest), c', (Some (fst kv1, snd kv1)).
        split; [reflexivity|]. split; [exact Hm|]. split; [exists P1; exact Hdec|].
        split.
        * exists (fst kv1). repeat split; auto. apply (c_refl cmp laws).
        * exists (gen t). split; [lia|exact Hp'].
    - (* not lost: the slot is live and holds an equivalent key *)
      destruct (live_slot t c id y kv Hok Hc Hf Hz) as (l1 & l2 & Hdec).
      rewrite Hc.
      destruct (pos_step cmp t c l1 id (ci c) kv l2 Hok Hdec Hc eq_refl)
        as (_ & (c' & Hn & Hp') & _).
      rewrite (value_at t c id y kv Hc Hf Hz). simpl.
      unfold cursor_next, next_with. rewrite Hl. simpl. rewrite Hn. simpl.
      assert (Hsort : psorted cmp (l1 ++ (id, ci c, kv) :: l2)).
      { rewrite <- Hdec. apply psorted_inorder. apply Hok. }
      destruct (psorted_mid cmp laws l1 (id, ci c, kv) l2 (ck c) Hsort) as [Hlt Hgt].
      assert (H1 : Forall (plt cmp (ck c)) l1).
      { apply Hlt. unfold CProofsSeek.pkey. simpl. rewrite (c_eq_sym cmp laws _ _ He). congruence. }
      assert (H2 : Forall (pge cmp (ck c)) ((id, ci c, kv) :: l2)).
      { constructor; [unfold pge, CProofsSeek.pkey; simpl; congruence|].
        eapply Forall_impl; [apply pgt_pge|]. apply Hgt. unfold CProofsSeek.pkey. simpl. congruence. }
      exists ((id, ci c, kv) :: l2), c', (Some (ck c, snd kv)).
      split; [reflexivity|]. split.
      { rewrite <- inorder_pos_inorder, Hdec. symmetry. apply cands_fwd; auto. }
      split; [exists l1; exact Hdec|].
      split.
      + exists (ck c). repeat split; auto. intros Hex. apply (Hex id y kv Hc Hf Hz).
      + unfold cur_ok in Hcur. rewrite Hc in Hcur. exists (cgen c). split; [tauto|exact Hp'].
  Qed.

  Lemma backward_next_sim (t : btree) (c : cursor) id :
    tree_ok t -> cur_ok t c -> curr c = Some id ->
    exists L c' r,
      backward_next K V cmp t c = Ok (c', r)
      /\ map snd L = ai_cands K V cmp true (ck c) (inorder (root t))
      /\ (exists A, inorder_pos (root t) = rev L ++ A)
      /\ step_out t c L c' r.
  Proof.
    intros Hok Hcur Hc. unfold backward_next.
    destruct (lost_ok t c id Hcur Hc) as [Hl|(Hl & y & kv & Hf & Hz & He)]; rewrite Hl; simpl.
    - destruct (slle_spec cmp laws t c (ck c) Hok) as (c1 & P1 & P2 & -> & Hdec & H1 & H2 & Hp).
      simpl.
      assert (Hm : map snd (rev P1) = ai_cands K V cmp true (ck c) (inorder (root t))).
      { rewrite <- inorder_pos_inorder, Hdec. symmetry. apply cands_bwd; auto. }
      destruct (rev P1) as [|[[id1 i1] kv1] rest] eqn:Hrev; simpl in Hp.
      + rewrite Hp. exists [], c1, None. repeat split; auto. exists (P1 ++ P2). exact Hdec.
      + subst c1. simpl curr. cbv iota.
        assert (HP1 : P1 = rev rest ++ [(id1, i1, kv1)]).
        { rewrite <- (rev_involutive P1), Hrev. reflexivity. }
        assert (Hdec' : inorder_pos (root t) = rev rest ++ (id1, i1, kv1) :: P2).
        { rewrite Hdec, HP1, <- app_assoc. reflexivity. }
        destruct (pos_step cmp t (cur_at (id1, i1, kv1) (gen t)) (rev rest) id1 i1 kv1 P2 Hok Hdec'
                    eq_refl eq_refl) as ((y1 & Hf1 & Hz1) & _ & (c' & Hn & Hp')).
        rewrite rev_involutive in Hp'.
        rewrite (value_at t (cur_at (id1, i1, kv1) (gen t)) id1 y1 kv1 eq_refl Hf1 Hz1). simpl.
        unfold cursor_prev, prev_with. rewrite (lost_fresh cmp t (cur_at (id1, i1, kv1) (gen t)) eq_refl). simpl. rewrite Hn. simpl.
        exists ((id1, i1, kv1) :: rest), c', (Some (fst kv1, snd kv1)).
        split; [reflexivity|]. split; [exact Hm|].
        split; [exists P2; simpl; rewrite <- app_assoc; exact Hdec'|].
        split.
        * exists (fst kv1). repeat split; auto. apply (c_refl cmp laws).
        * exists (gen t). split; [lia|exact Hp'].
    - destruct (live_slot t c id y kv Hok Hc Hf Hz) as (l1 & l2 & Hdec).
      rewrite Hc.
      destruct (pos_step cmp t c l1 id (ci c) kv l2 Hok Hdec Hc eq_refl)
        as (_ & _ & (c' & Hn & Hp')).
      rewrite (value_at t c id y kv Hc Hf Hz). simpl.
      unfold cursor_prev, prev_with. rewrite Hl. simpl. rewrite Hn. simpl.
      assert (Hsort : psorted cmp (l1 ++ (id, ci c, kv) :: l2)).
      { rewrite <- Hdec. apply psorted_inorder. apply Hok. }
      destruct (psorted_mid cmp laws l1 (id, ci c, kv) l2 (ck c) Hsort) as [Hlt Hgt].
      assert (H1 : Forall (ple cmp (ck c)) (l1 ++ [(id, ci c, kv)])).
      { apply Forall_app. split.
        - eapply Forall_impl; [apply plt_ple|]. apply Hlt. unfold CProofsSeek.pkey. simpl.
          rewrite (c_eq_sym cmp laws _ _ He). congruence.
        - constructor; [|constructor]. unfold ple, CProofsSeek.pkey. simpl.
          rewrite (c_eq_sym cmp laws _ _ He). congruence. }
      assert (H2 : Forall (pgt cmp (ck c)) l2).
      { apply Hgt. unfold CProofsSeek.pkey. simpl. congruence. }
      assert (Hdec' : inorder_pos (root t) = (l1 ++ [(id, ci c, kv)]) ++ l2).
      { rewrite Hdec, <- app_assoc. reflexivity. }
      exists ((id, ci c, kv) :: rev l1), c', (Some (ck c, snd kv)).
      split; [reflexivity|]. split.
      { rewrite <- inorder_pos_inorder, Hdec'.
        transitivity (map snd (rev (l1 ++ [(id, ci c, kv)]))); [rewrite rev_unit; reflexivity|].
        symmetry. apply cands_bwd; auto. }
      split; [exists l2; simpl; rewrite rev_involutive; exact Hdec'|].
      split.
      + exists (ck c). repeat split; auto. intros Hex. apply (Hex id y kv Hc Hf Hz).
      + unfold cur_ok in Hcur. rewrite Hc in Hcur. exists (cgen c). split; [tauto|exact Hp'].
  Qed.

End Step.
