(* Seeking on an unchanging well-formed tree: find_in / seek land next to the key, the four Seek*
   functions of Cursor.v split the in-order list at the key, forward / backward iterators yield
   the entries one by one, Range / RangeReverse start at the right place. *)
From Juniper Require Import Common.Base Tree.Bound Tree.BTree Tree.Cursor Tree.SMap
  Tree.ProofsLists Tree.ProofsSMap Tree.ProofsCases Tree.ProofsWf Tree.ProofsIds Tree.ProofsInorder
  Tree.ProofsLookup Tree.ProofsPath Tree.ProofsCursor.
Local Open Scope nat_scope.

Lemma filter_split_r {A} (P : A -> bool) b l :
  (forall x, In x b -> P x = false) -> (forall x, In x l -> P x = true) -> filter P (b ++ l) = l.
Proof.
  intros Hb Hl. rewrite filter_app.
  assert (E1 : filter P b = []).
  { induction b as [|x b IH]; [reflexivity|]. simpl. rewrite (Hb x (or_introl eq_refl)).
    apply IH. intros y Hy. apply Hb. right; assumption. }
  assert (E2 : filter P l = l).
  { induction l as [|x l IH]; [reflexivity|]. simpl. rewrite (Hl x (or_introl eq_refl)).
    f_equal. apply IH. intros y Hy. apply Hl. right; assumption. }
  rewrite E1, E2. reflexivity.
Qed.

Lemma filter_split_l {A} (P : A -> bool) b l :
  (forall x, In x b -> P x = true) -> (forall x, In x l -> P x = false) -> filter P (b ++ l) = b.
Proof.
  intros Hb Hl. rewrite filter_app.
  assert (E1 : filter P b = b).
  { induction b as [|x b IH]; [reflexivity|]. simpl. rewrite (Hb x (or_introl eq_refl)).
    f_equal. apply IH. intros y Hy. apply Hb. right; assumption. }
  assert (E2 : filter P l = []).
  { induction l as [|x l IH]; [reflexivity|]. simpl. rewrite (Hl x (or_introl eq_refl)).
    apply IH. intros y Hy. apply Hl. right; assumption. }
  rewrite E1, E2. apply app_nil_r.
Qed.

Section Seek.
  Context {K V : Type}.
  Variable cmp : K -> K -> comparison.
  Hypothesis L : cmp_laws cmp.
  Variables (kzero : K) (vzero : V).
  Variables minKVs maxKVs : nat.
  Hypothesis Hmin : 1 <= minKVs.

  Notation node := (@node K V).
  Notation shaped := (shaped minKVs maxKVs).
  Notation okc := (okc minKVs maxKVs).
  Notation at_path := (@at_path K V).
  Notation sorted := (@sorted K V cmp).
  Notation gt_all := (@gt_all K V cmp).
  Notation lt_hd := (@lt_hd K V cmp).
  Notation find_in := (find_in K V cmp).
  Notation search_node := (search_node K V cmp).

  (* ---------------- where find_in lands ---------------- *)

  (* the entry kv found for key k, with the entries before / after it:
     true: kv is equivalent to k; false: kv is the successor of k, or (at the right end of a
     leaf) its predecessor *)
  Inductive seek_pos (k : K) (before : list (K * V)) (kv : K * V) (after : list (K * V))
    : bool -> Prop :=
  | SP_eq : cmp k (fst kv) = Eq -> gt_all k before -> seek_pos k before kv after true
  | SP_succ : cmp k (fst kv) = Lt -> gt_all k before -> seek_pos k before kv after false
  | SP_pred : cmp k (fst kv) = Gt -> gt_all k before -> lt_hd k after ->
              seek_pos k before kv after false.

  Lemma find_in_unfold id kvs cs k :
    find_in (Node id kvs cs) k =
    let (idx, found) := search_node k kvs in
    if found then (Node id kvs cs, Z.of_nat idx, true)
    else
      match cs with
      | [] => (Node id kvs cs,
               if idx =? length kvs then (Z.of_nat idx - 1)%Z else Z.of_nat idx, false)
      | _ => nth_map (fun c => find_in c k) (dummy, (-1)%Z, false) cs idx
      end.
  Proof. reflexivity. Qed.

  Lemma lt_hd_app k (a b : list (K * V)) : lt_hd k a -> (a = [] -> lt_hd k b) -> lt_hd k (a ++ b).
  Proof. destruct a; simpl; auto. Qed.

  Theorem find_in_spec d : forall (x : node) k,
      shaped d x -> sorted (inorder x) -> 1 <= nkeys x ->
      exists y pi i kv f,
        find_in x k = (y, Z.of_nat i, f) /\ at_path x pi y /\
        nth_error (nkvs y) i = Some kv /\
        seek_pos k (pre_of pi ++ HL y i) kv (HR y i ++ post_of pi) f.
  Proof.
    induction d as [|d IH]; intros [id kvs cs] k Hs Hso Hne;
      rewrite find_in_unfold;
      destruct (search_node k kvs) as [idx found] eqn:Es;
      destruct (search_node_spec cmp _ _ _ _ Es) as (KA & KB & Hk & Hl & Hg & Hf);
      destruct found.
    - (* leaf, found *)
      destruct Hf as (k' & v' & KB' & -> & He). subst kvs.
      assert (Hn : nth_error (KA ++ (k', v') :: KB') idx = Some (k', v'))
        by (apply nth_error_app_mid; assumption).
      exists (Node id (KA ++ (k', v') :: KB') cs), [], idx, (k', v'), true.
      split; [reflexivity|]. split; [constructor|]. split; [exact Hn|].
      cbn [pre_of post_of app]. rewrite app_nil_r. apply SP_eq; [exact He|].
      rewrite (node_at_key minKVs maxKVs _ _ idx _ Hs Hn) in Hso.
      eapply (found_pre cmp L); eassumption.
    - (* leaf, not found *)
      apply shaped_0_inv in Hs. destruct Hs as [_ ->]. subst kvs.
      unfold nkeys in Hne. cbn [nkvs] in Hne. rewrite app_length in Hne.
      destruct KB as [|kvb KB'].
      + rewrite app_nil_r in *. rewrite Hl, Nat.eqb_refl.
        destruct (rev_case KA) as [->|(KA' & kvl & ->)]; [simpl in Hne; lia|].
        rewrite length_snoc in Hl. subst idx.
        replace (Z.of_nat (S (length KA')) - 1)%Z with (Z.of_nat (length KA')) by lia.
        assert (Hn : nth_error (KA' ++ [kvl]) (length KA') = Some kvl)
          by (apply nth_error_app_mid; reflexivity).
        exists (Node id (KA' ++ [kvl]) []), [], (length KA'), kvl, false.
        split; [reflexivity|]. split; [constructor|]. split; [exact Hn|].
        cbn [pre_of post_of app]. rewrite app_nil_r.
        unfold HL, HR. cbn [ncs nkvs].
        rewrite firstn_app_exact by reflexivity.
        rewrite (skipn_S_app_mid KA' [] kvl (length KA') eq_refl).
        unfold ProofsSMap.gt_all in Hg. apply Forall_app in Hg. destruct Hg as [Hg1 Hg2].
        inversion Hg2 as [|? ? Hgl _]; subst.
        apply SP_pred; [exact Hgl|exact Hg1|exact I].
      + assert (Hneq : (idx =? length (KA ++ kvb :: KB')) = false)
          by (apply Nat.eqb_neq; rewrite app_length; simpl; lia).
        rewrite Hneq.
        assert (Hn : nth_error (KA ++ kvb :: KB') idx = Some kvb)
          by (apply nth_error_app_mid; assumption).
        exists (Node id (KA ++ kvb :: KB') []), [], idx, kvb, false.
        split; [reflexivity|]. split; [constructor|]. split; [exact Hn|].
        cbn [pre_of post_of app]. rewrite app_nil_r.
        unfold HL. cbn [ncs nkvs]. rewrite firstn_app_exact by assumption.
        apply SP_succ; [exact Hf|exact Hg].
    - (* internal, found *)
      destruct Hf as (k' & v' & KB' & -> & He). subst kvs.
      assert (Hn : nth_error (KA ++ (k', v') :: KB') idx = Some (k', v'))
        by (apply nth_error_app_mid; assumption).
      exists (Node id (KA ++ (k', v') :: KB') cs), [], idx, (k', v'), true.
      split; [reflexivity|]. split; [constructor|]. split; [exact Hn|].
      cbn [pre_of post_of app]. rewrite app_nil_r. apply SP_eq; [exact He|].
      rewrite (node_at_key minKVs maxKVs _ _ idx _ Hs Hn) in Hso.
      eapply (found_pre cmp L); eassumption.
    - (* internal, not found: descend *)
      pose proof Hs as Hs0. apply shaped_S_inv in Hs. destruct Hs as (_ & Hlc & F). subst kvs.
      destruct (split_children minKVs Hmin KA KB cs Hlc) as (A & c & B & -> & HlA & HlB).
      assert (Hnc : nth_error (A ++ c :: B) idx = Some c) by (apply nth_error_app_mid; lia).
      destruct (node_mid cmp L id KA KB A c B k HlA HlB Hso Hg Hf) as (Hio & Hgp & Hlp & Hsc).
      apply Forall_app in F. destruct F as [FA F]. inversion F as [|? ? [Hcm Hcs'] FB]; subst.
      destruct (IH c k Hcs' Hsc ltac:(lia)) as (y & pi & i & kv & f & Hfi & Hp & Hn & Hpos).
      assert (Hm : match A ++ c :: B with
                   | [] => (Node id (KA ++ KB) (A ++ c :: B),
                            if length KA =? length (KA ++ KB)
                            then (Z.of_nat (length KA) - 1)%Z else Z.of_nat (length KA), false)
                   | _ :: _ => nth_map (fun c => find_in c k) (dummy, (-1)%Z, false)
                                 (A ++ c :: B) (length KA)
                   end = find_in c k).
      { rewrite (nth_map_some _ _ _ _ _ Hnc). destruct A; reflexivity. }
      rewrite Hm, Hfi.
      exists y, ((Node id (KA ++ KB) (A ++ c :: B), length KA) :: pi), i, kv, f.
      split; [reflexivity|]. split; [econstructor; [exact Hnc|exact Hp]|]. split; [exact Hn|].
      cbn [pre_of post_of].
      assert (EPL : PL (Node id (KA ++ KB) (A ++ c :: B)) (length KA) = ileft (map inorder A) KA).
      { unfold PL. cbn [ncs nkvs]. rewrite !firstn_app_exact by lia. reflexivity. }
      assert (EPR : PR (Node id (KA ++ KB) (A ++ c :: B)) (length KA) = iright KB (map inorder B)).
      { unfold PR. cbn [ncs nkvs]. rewrite skipn_app_exact by lia.
        rewrite skipn_S_app_mid by lia. reflexivity. }
      rewrite EPL, EPR, <- !app_assoc.
      assert (Hga : forall b, gt_all k b -> gt_all k (ileft (map inorder A) KA ++ b)).
      { intros b Hb. apply Forall_app. split; assumption. }
      inversion Hpos as [He Hb|He Hb|He Hb Ha]; subst.
      + apply SP_eq; auto.
      + apply SP_succ; auto.
      + apply SP_pred; auto. rewrite app_assoc. apply lt_hd_app; [assumption|].
        intros _. assumption.
  Qed.

  (* ---------------- tree level ---------------- *)

  Variable t : @btree K V.
  Variable d : nat.
  Hypothesis Hd : shaped d (root t).
  Hypothesis Hr : root_ok (root t).
  Hypothesis Hu : forall a, idc a (root t) <= 1.
  Hypothesis Hso : sorted (inorder (root t)).

  Notation R := (root t).
  Notation cur_at := (cur_at t).
  Notation seek := (seek K V cmp t).
  Notation cursor_next1 := (cursor_next1 K V cmp t).
  Notation cursor_prev1 := (cursor_prev1 K V cmp t).
  Notation cursor_next := (cursor_next K V cmp t).
  Notation cursor_prev := (cursor_prev K V cmp t).

  Lemma root_empty : nkeys R = 0 -> inorder R = [].
  Proof.
    destruct (root t) as [id kvs cs] eqn:ER. unfold root_ok in Hr. unfold nkeys in *.
    cbn [nkvs ncs] in *. intros Hn.
    destruct cs as [|c cs].
    - rewrite inorder_leaf. destruct kvs; [reflexivity|discriminate].
    - specialize (Hr ltac:(discriminate)). lia.
  Qed.

  Lemma node_n_zero : (node_n K V R =? 0)%Z = (nkeys R =? 0).
  Proof.
    unfold node_n, zlen, nkeys. destruct (length (nkvs R)); reflexivity.
  Qed.

  (* the cursor is in front of the list l: b are the entries already passed *)
  Definition fwd_at (c : cursor K) (b l : list (K * V)) : Prop :=
    inorder R = b ++ l /\
    ((l = [] /\ curr c = None) \/ exists kv after, l = kv :: after /\ cur_at c b kv after).

  (* the cursor is on the last entry of b (reverse travel): l are the entries already passed *)
  Definition bwd_at (c : cursor K) (b l : list (K * V)) : Prop :=
    inorder R = b ++ l /\
    ((b = [] /\ curr c = None) \/ exists b' kv, b = b' ++ [kv] /\ cur_at c b' kv l).

  Lemma cur_at_fwd c b kv a : cur_at c b kv a -> fwd_at c b (kv :: a).
  Proof.
    intros H. split; [eapply cur_at_inorder; eassumption|]. right. eauto.
  Qed.

  Lemma cur_at_bwd c b kv a : cur_at c b kv a -> bwd_at c (b ++ [kv]) a.
  Proof.
    intros H. split.
    - rewrite <- app_assoc. eapply cur_at_inorder; eassumption.
    - right. eauto.
  Qed.

  Lemma cur_at_gen c b kv a : cur_at c b kv a -> cgen c = gen t /\ ck c = fst kv /\ curr c <> None.
  Proof. intros (y & pi & i & _ & Hc & _ & _ & Hk & Hg & _). rewrite Hc. repeat split; auto. discriminate. Qed.

  Lemma next1_spec c b kv a :
    cur_at c b kv a ->
    exists c', cursor_next1 c = Ok c' /\ cursor_next c = Ok c' /\ fwd_at c' (b ++ [kv]) a.
  Proof.
    intros H. pose proof (cur_at_inorder minKVs maxKVs t d Hd _ _ _ _ H) as Hio.
    destruct (cur_at_gen _ _ _ _ H) as (Hg & _ & _).
    destruct (next_body_spec cmp kzero minKVs maxKVs Hmin t d Hd Hu c b kv a H) as (c' & Hn & Hm).
    exists c'. unfold Cursor.cursor_next1, Cursor.cursor_next, next_with.
    rewrite (lost_fresh cmp t c Hg). cbn [bind]. split; [exact Hn|]. split; [exact Hn|].
    split; [rewrite <- app_assoc; exact Hio|].
    destruct a as [|kv' a']; [left; auto|right; eauto].
  Qed.

  Lemma prev1_spec c b kv a :
    cur_at c b kv a ->
    exists c', cursor_prev1 c = Ok c' /\ cursor_prev c = Ok c' /\ bwd_at c' b (kv :: a).
  Proof.
    intros H. pose proof (cur_at_inorder minKVs maxKVs t d Hd _ _ _ _ H) as Hio.
    destruct (cur_at_gen _ _ _ _ H) as (Hg & _ & _).
    destruct (prev_body_spec cmp kzero minKVs maxKVs Hmin t d Hd Hu c b kv a H) as (c' & Hn & Hm).
    exists c'. unfold Cursor.cursor_prev1, Cursor.cursor_prev, prev_with.
    rewrite (lost_fresh cmp t c Hg). cbn [bind]. split; [exact Hn|]. split; [exact Hn|].
    split; [exact Hio|].
    destruct Hm as [[-> Hc]|(b' & kv' & -> & Hcur)]; [left; auto|right; eauto].
  Qed.

  (* ---------------- seek ---------------- *)

  Theorem seek_spec c k :
    (inorder R = [] /\ exists c', seek c k = Ok (c', false) /\ curr c' = None) \/
    (exists c' before kv after f,
        seek c k = Ok (c', true) /\ cur_at c' before kv after /\ seek_pos k before kv after f).
  Proof.
    unfold Cursor.seek, find. rewrite node_n_zero.
    destruct (nkeys R =? 0) eqn:E.
    - apply Nat.eqb_eq in E. left. split; [apply root_empty; assumption|].
      eexists. split; reflexivity.
    - apply Nat.eqb_neq in E. right.
      destruct (find_in_spec d R k Hd Hso ltac:(lia)) as (y & pi & i & kv & f & Hfi & Hp & Hn & Hpos).
      rewrite Hfi. rewrite (key_at_nat y i kv Hn). cbn [bind].
      eexists _, _, kv, _, f. split; [reflexivity|]. split; [|exact Hpos].
      exists y, pi, i. cbn [curr ci ck cgen]. repeat split; auto.
  Qed.

  Definition hd_ngt (k : K) (l : list (K * V)) : Prop :=
    match l with [] => True | h :: _ => cmp k (fst h) <> Gt end.

  (* b = the entries smaller than k *)
  Definition split_lt (k : K) (b l : list (K * V)) : Prop := gt_all k b /\ hd_ngt k l.
  (* b = the entries not greater than k *)
  Definition split_le (k : K) (b l : list (K * V)) : Prop :=
    Forall (fun x => cmp k (fst x) <> Lt) b /\ lt_hd k l.

  Lemma gt_all_nlt k b : gt_all k b -> Forall (fun x : K * V => cmp k (fst x) <> Lt) b.
  Proof. intros H. eapply Forall_impl; [|exact H]. simpl. intros x E. rewrite E. discriminate. Qed.

  Lemma snoc_nlt k b (kv : K * V) :
    gt_all k b -> cmp k (fst kv) <> Lt -> Forall (fun x : K * V => cmp k (fst x) <> Lt) (b ++ [kv]).
  Proof.
    intros Hb Hk. apply Forall_app. split; [apply gt_all_nlt; assumption|].
    constructor; [assumption|constructor].
  Qed.

  Lemma snoc_gt k b (kv : K * V) : gt_all k b -> cmp k (fst kv) = Gt -> gt_all k (b ++ [kv]).
  Proof. intros Hb Hk. apply Forall_app. split; [assumption|]. constructor; [assumption|constructor]. Qed.

  Lemma lt_hd_ngt k l : lt_hd k l -> hd_ngt k l.
  Proof. destruct l; simpl; auto. intros ->. discriminate. Qed.

  (* after an entry equivalent to k everything is greater than k *)
  Lemma eq_lt_hd k b (kv : K * V) a :
    sorted (b ++ kv :: a) -> cmp k (fst kv) = Eq -> lt_hd k a.
  Proof.
    intros Hs He. apply sorted_app_r in Hs. destruct a as [|h a]; [exact I|].
    destruct Hs as [F _]. inversion F as [|? ? Fh _]; subst. unfold klt in Fh. simpl.
    rewrite (cmp_eq_compat cmp L _ _ _ He). assumption.
  Qed.

  Notation sfge := (seek_first_greater_or_equal K V cmp t).
  Notation sfg := (seek_first_greater K V cmp t).
  Notation slle := (seek_last_less_or_equal K V cmp t).
  Notation sll := (seek_last_less K V cmp t).

  Lemma fwd_nil c : curr c = None -> inorder R = [] -> fwd_at c [] [].
  Proof. intros Hc Hio. split; [rewrite Hio; reflexivity|]. left; auto. Qed.

  Lemma bwd_nil c : curr c = None -> inorder R = [] -> bwd_at c [] [].
  Proof. intros Hc Hio. split; [rewrite Hio; reflexivity|]. left; auto. Qed.

  Theorem sfge_spec c k :
    exists c' b l, sfge c k = Ok c' /\ fwd_at c' b l /\ split_lt k b l.
  Proof.
    unfold seek_first_greater_or_equal.
    destruct (seek_spec c k) as [(Hio & c' & Hs & Hc')|(c' & b & kv & a & f & Hs & Hcur & Hpos)];
      rewrite Hs; cbn [bind negb].
    - exists c', [], []. split; [reflexivity|]. split; [apply fwd_nil; assumption|].
      split; [constructor|exact I].
    - destruct (cur_at_gen _ _ _ _ Hcur) as (_ & Hck & _). rewrite Hck.
      pose proof (cur_at_inorder minKVs maxKVs t d Hd _ _ _ _ Hcur) as Hio.
      inversion Hpos as [He Hb|He Hb|He Hb Ha]; subst; rewrite He; cbn [is_gt].
      + exists c', b, (kv :: a). split; [reflexivity|]. split; [apply cur_at_fwd; assumption|].
        split; [assumption|]. simpl. rewrite He. discriminate.
      + exists c', b, (kv :: a). split; [reflexivity|]. split; [apply cur_at_fwd; assumption|].
        split; [assumption|]. simpl. rewrite He. discriminate.
      + destruct (next1_spec c' b kv a Hcur) as (c2 & Hn & _ & Hf).
        exists c2, (b ++ [kv]), a. split; [exact Hn|]. split; [exact Hf|].
        split; [apply snoc_gt; assumption|apply lt_hd_ngt; assumption].
  Qed.

  Theorem sfg_spec c k :
    exists c' b l, sfg c k = Ok c' /\ fwd_at c' b l /\ split_le k b l.
  Proof.
    unfold seek_first_greater.
    destruct (seek_spec c k) as [(Hio & c' & Hs & Hc')|(c' & b & kv & a & f & Hs & Hcur & Hpos)];
      rewrite Hs; cbn [bind negb].
    - exists c', [], []. split; [reflexivity|]. split; [apply fwd_nil; assumption|].
      split; [constructor|exact I].
    - destruct (cur_at_gen _ _ _ _ Hcur) as (_ & Hck & _). rewrite Hck.
      pose proof (cur_at_inorder minKVs maxKVs t d Hd _ _ _ _ Hcur) as Hio.
      inversion Hpos as [He Hb|He Hb|He Hb Ha]; subst; rewrite He; cbn [is_ge].
      + destruct (next1_spec c' b kv a Hcur) as (c2 & Hn & _ & Hf).
        exists c2, (b ++ [kv]), a. split; [exact Hn|]. split; [exact Hf|]. split.
        * apply snoc_nlt; [assumption|]. rewrite He. discriminate.
        * rewrite Hio in Hso. eapply eq_lt_hd; eassumption.
      + exists c', b, (kv :: a). split; [reflexivity|]. split; [apply cur_at_fwd; assumption|].
        split; [apply gt_all_nlt; assumption|exact He].
      + destruct (next1_spec c' b kv a Hcur) as (c2 & Hn & _ & Hf).
        exists c2, (b ++ [kv]), a. split; [exact Hn|]. split; [exact Hf|]. split.
        * apply snoc_nlt; [assumption|]. rewrite He. discriminate.
        * assumption.
  Qed.

  Theorem slle_spec c k :
    exists c' b l, slle c k = Ok c' /\ bwd_at c' b l /\ split_le k b l.
  Proof.
    unfold seek_last_less_or_equal.
    destruct (seek_spec c k) as [(Hio & c' & Hs & Hc')|(c' & b & kv & a & f & Hs & Hcur & Hpos)];
      rewrite Hs; cbn [bind negb].
    - exists c', [], []. split; [reflexivity|]. split; [apply bwd_nil; assumption|].
      split; [constructor|exact I].
    - destruct (cur_at_gen _ _ _ _ Hcur) as (_ & Hck & _). rewrite Hck.
      pose proof (cur_at_inorder minKVs maxKVs t d Hd _ _ _ _ Hcur) as Hio.
      inversion Hpos as [He Hb|He Hb|He Hb Ha]; subst; rewrite He; cbn [is_lt].
      + exists c', (b ++ [kv]), a. split; [reflexivity|]. split; [apply cur_at_bwd; assumption|].
        split.
        * apply snoc_nlt; [assumption|]. rewrite He. discriminate.
        * rewrite Hio in Hso. eapply eq_lt_hd; eassumption.
      + destruct (prev1_spec c' b kv a Hcur) as (c2 & Hn & _ & Hf).
        exists c2, b, (kv :: a). split; [exact Hn|]. split; [exact Hf|].
        split; [apply gt_all_nlt; assumption|exact He].
      + exists c', (b ++ [kv]), a. split; [reflexivity|]. split; [apply cur_at_bwd; assumption|].
        split; [|assumption]. apply snoc_nlt; [assumption|]. rewrite He. discriminate.
  Qed.

  Theorem sll_spec c k :
    exists c' b l, sll c k = Ok c' /\ bwd_at c' b l /\ split_lt k b l.
  Proof.
    unfold seek_last_less.
    destruct (seek_spec c k) as [(Hio & c' & Hs & Hc')|(c' & b & kv & a & f & Hs & Hcur & Hpos)];
      rewrite Hs; cbn [bind negb].
    - exists c', [], []. split; [reflexivity|]. split; [apply bwd_nil; assumption|].
      split; [constructor|exact I].
    - destruct (cur_at_gen _ _ _ _ Hcur) as (_ & Hck & _). rewrite Hck.
      pose proof (cur_at_inorder minKVs maxKVs t d Hd _ _ _ _ Hcur) as Hio.
      inversion Hpos as [He Hb|He Hb|He Hb Ha]; subst; rewrite He; cbn [is_le].
      + destruct (prev1_spec c' b kv a Hcur) as (c2 & Hn & _ & Hf).
        exists c2, b, (kv :: a). split; [exact Hn|]. split; [exact Hf|].
        split; [assumption|]. simpl. rewrite He. discriminate.
      + destruct (prev1_spec c' b kv a Hcur) as (c2 & Hn & _ & Hf).
        exists c2, b, (kv :: a). split; [exact Hn|]. split; [exact Hf|].
        split; [assumption|]. simpl. rewrite He. discriminate.
      + exists c', (b ++ [kv]), a. split; [reflexivity|]. split; [apply cur_at_bwd; assumption|].
        split; [apply snoc_gt; assumption|apply lt_hd_ngt; assumption].
  Qed.

End Seek.
