(* C02_refinement: for every history (any interleaving of Put / Delete / reads / range scans with
   the creation and the Next calls of any number of live forward and reverse iterators), layer M
   (BTree + Cursor, Hist.run_M) and layer S (SMap + AIter, Hist.run_S) give the same outputs up
   to equivalence of the yielded keys; and layer M never panics.

   The simulation relation between the two interpreters' states:
     the tree is well-formed (ProofsRefine.wf, the invariant of C01/C03),
     inorder (root tree) = the abstract map,
     the i-th model iterator and the i-th abstract iterator are related by CProofsSim.iter_rel.
   Mutations keep every parked cursor inside the cursor invariant: a Put that only overwrites a
   value keeps the generation AND the skeleton (ids, keys) of the tree (CProofsIds), every other
   effective mutation bumps the generation, which makes the "same generation => live slot"
   clause vacuous. *)
From Juniper Require Import Common.Base Tree.Bound Tree.BTree Tree.Cursor Tree.SMap Tree.AIter
  Tree.Hist Tree.Corr Tree.CProofsOrder Tree.CProofsSpec Tree.CProofsTree Tree.CProofsCursor
  Tree.CProofsSeek Tree.CProofsStep Tree.CProofsSim Tree.CProofsDrain Tree.CProofsHist
  Tree.CProofsIds Tree.CProofsJoin.
From Juniper Require Tree.ProofsLists Tree.ProofsSMap Tree.ProofsWf Tree.ProofsRefine.

(* ---------------- list helpers ---------------- *)

Lemma Forall2_nth_error {A B} (R : A -> B -> Prop) : forall l l' j,
  Forall2 R l l' ->
  match nth_error l j, nth_error l' j with
  | Some a, Some b => R a b
  | None, None => True
  | _, _ => False
  end.
Proof.
  induction l as [|a l IH]; intros l' j H; inversion H; subst.
  - destruct j; exact I.
  - destruct j as [|j]; simpl; [assumption|]. apply IH. assumption.
Qed.

Lemma Forall2_impl' {A B} (R R' : A -> B -> Prop) l l' :
  (forall a b, R a b -> R' a b) -> Forall2 R l l' -> Forall2 R' l l'.
Proof. intros H F. induction F; constructor; auto. Qed.

Lemma Forall2_firstn {A B} (R : A -> B -> Prop) : forall n l l',
  Forall2 R l l' -> Forall2 R (firstn n l) (firstn n l').
Proof.
  induction n as [|n IH]; intros l l' H; simpl; [constructor|].
  inversion H; subst; constructor; auto.
Qed.

Lemma Forall2_skipn {A B} (R : A -> B -> Prop) : forall n l l',
  Forall2 R l l' -> Forall2 R (skipn n l) (skipn n l').
Proof.
  induction n as [|n IH]; intros l l' H; simpl; [exact H|].
  inversion H; subst; [constructor|auto].
Qed.

Lemma Forall2_set_at {A B} (R : A -> B -> Prop) j a b l l' :
  Forall2 R l l' -> R a b -> Forall2 R (set_at j a l) (set_at j b l').
Proof.
  intros H Hab. unfold set_at. apply Forall2_app.
  - apply Forall2_firstn. exact H.
  - constructor; [exact Hab|]. apply Forall2_skipn. exact H.
Qed.

Lemma list_eqb_refl {A} (eq : A -> A -> bool) (l : list A) :
  (forall x, In x l -> eq x x = true) -> list_eqb eq l l = true.
Proof.
  induction l as [|a l IH]; simpl; intros H; auto.
  rewrite (H a (or_introl eq_refl)). simpl. apply IH. intros x Hx. apply H. right. exact Hx.
Qed.

(* ---------------- cursors survive mutations ---------------- *)

Section Mut.
  Context {K V : Type} (cmp : K -> K -> comparison) (kzero : K) (vzero : V).
  Hypothesis laws : cmp_laws cmp.
  Variables minKVs maxKVs : nat.

  Notation btree := (@btree K V).
  Notation put := (put K V cmp kzero vzero maxKVs).
  Notation delete := (delete K V cmp kzero vzero minKVs).

  Lemma zget_map_fst (l l' : list (K * V)) i kv :
    map fst l = map fst l' -> zget l i = Some kv ->
    exists kv', zget l' i = Some kv' /\ fst kv' = fst kv.
  Proof.
    intros Hm Hz. apply zget_nat in Hz. destruct Hz as (n & -> & Hn).
    rewrite zget_of_nat.
    assert (E : nth_error (map fst l') n = Some (fst kv)).
    { rewrite <- Hm. apply map_nth_error. exact Hn. }
    rewrite nth_error_map in E. destruct (nth_error l' n) as [kv'|]; [|discriminate].
    simpl in E. injection E as E. eauto.
  Qed.

  Lemma cur_ok_put (t : btree) (c : cursor K) k v :
    root_ok (root t) -> cur_ok cmp t c -> cur_ok cmp (put t k v) c.
  Proof.
    intros Hroot. unfold cur_ok. destruct (curr c) as [id|]; [|auto].
    intros (Hi & Hg & Hv).
    destruct (put_gen cmp kzero vzero maxKVs t k v) as [Eg|Eg].
    - split; [exact Hi|]. split; [lia|]. intros Hc. rewrite Eg in Hc.
      destruct (Hv Hc) as (y & kv & Hf & Hz & He).
      pose proof (put_same_gen_skel cmp kzero vzero maxKVs t k v Hroot Eg) as Hsk.
      pose proof (skel_find_node id (root (put t k v)) (root t) Hsk) as Hfn.
      rewrite Hf in Hfn. destruct (find_node id (root (put t k v))) as [y'|]; [|discriminate].
      simpl in Hfn. injection Hfn as Hy.
      destruct (skel_node_keys y' y Hy) as (_ & Hkeys & _).
      destruct (zget_map_fst (nkvs y) (nkvs y') (ci c) kv (eq_sym Hkeys) Hz) as (kv' & Hz' & Hk').
      exists y', kv'. rewrite Hk'. auto.
    - split; [exact Hi|]. split; [lia|]. intros Hc. lia.
  Qed.

  Lemma cur_ok_delete (t : btree) (c : cursor K) k :
    cur_ok cmp t c -> cur_ok cmp (delete t k) c.
  Proof.
    unfold cur_ok. destruct (curr c) as [id|]; [|auto].
    intros (Hi & Hg & Hv).
    destruct (delete_gen cmp kzero vzero minKVs t k) as [Eg|Eg].
    - rewrite (delete_same_gen cmp kzero vzero minKVs t k Eg). auto.
    - split; [exact Hi|]. split; [lia|]. intros Hc. lia.
  Qed.

  Lemma iter_rel_put (t : btree) it a k v :
    root_ok (root t) -> iter_rel cmp t it a -> iter_rel cmp (put t k v) it a.
  Proof. intros Hr [H1 H2 H3 H4 H5 H6]. constructor; auto. apply cur_ok_put; auto. Qed.

  Lemma iter_rel_delete (t : btree) it a k :
    iter_rel cmp t it a -> iter_rel cmp (delete t k) it a.
  Proof. intros [H1 H2 H3 H4 H5 H6]. constructor; auto. apply cur_ok_delete; auto. Qed.

End Mut.

(* ---------------- the history-level simulation ---------------- *)

Section Refine.
  Variables minKVs maxKVs : nat.
  Hypothesis Hmin : (1 <= minKVs)%nat.
  Hypothesis Hmax : (2 * minKVs <= maxKVs)%nat.
  Variable mode : Z.

  Notation cmp := (mode_cmp mode).
  Notation wf := (ProofsRefine.wf cmp minKVs maxKVs).
  Notation step_M := (step_M minKVs maxKVs mode).
  Notation steps_M := (steps_M minKVs maxKVs mode).
  Notation run_M := (run_M minKVs maxKVs mode).

  Let L : cmp_laws cmp := mode_cmp_laws mode.
  Let LR : ProofsSMap.cmp_laws cmp := laws_to_refine cmp L.

  Definition keq (a b : Z) : bool := is_eq (cmp a b).

  Record hsim (sm : mstate) (ss : sstate) : Prop := mk_hsim {
    hs_wf : wf (m_t sm);
    hs_map : inorder (root (m_t sm)) = s_m ss;
    hs_its : Forall2 (iter_rel cmp (m_t sm)) (m_its sm) (s_its ss)
  }.

  Definition probe (o : top) : bool := is_shape o || is_cost o.

  Lemma keq_refl a : keq a a = true.
  Proof. unfold keq. rewrite (c_refl cmp L). reflexivity. Qed.

  Lemma tout_eqb_refl o : tout_eqb keq o o = true.
  Proof.
    destruct o; simpl; auto.
    - apply Z.eqb_refl.
    - apply eqb_reflx.
    - unfold pair_eqb. simpl. rewrite keq_refl, Z.eqb_refl. reflexivity.
    - apply list_eqb_refl. intros x _. unfold pair_eqb. rewrite keq_refl, Z.eqb_refl. reflexivity.
    - apply list_eqb_refl. intros x _. apply Z.eqb_refl.
  Qed.

  Lemma hsim0 : hsim (m0 (* empty tree, no iterators *)) s0.
  Proof.
    constructor; simpl.
    - apply ProofsRefine.wf_empty; assumption.
    - reflexivity.
    - constructor.
  Qed.

  (* one operation: the states stay related, layer M does not panic, and (unless the operation is
     a TShape / TGetCost probe, which layer S does not answer) the outputs agree *)
  Lemma step_sim (sm : mstate) (ss : sstate) (o : top) :
    hsim sm ss ->
    hsim (fst (step_M sm o)) (fst (step_S mode ss o))
    /\ snd (step_M sm o) <> OPanic
    /\ (probe o = false -> tout_eqb keq (snd (step_M sm o)) (snd (step_S mode ss o)) = true).
  Proof.
    intros [Hw Hm Hits].
    pose proof (wf_tree_ok cmp L minKVs maxKVs Hmin (m_t sm) Hw) as Hok.
    destruct o; simpl.
    - (* TPut *)
      destruct (ProofsRefine.put_spec cmp LR 0 0 minKVs maxKVs Hmin Hmax (m_t sm) k v Hw) as [Hw' Hio].
      split; [|split; [discriminate|reflexivity]].
      constructor; simpl; auto.
      + rewrite Hio, Hm. reflexivity.
      + eapply Forall2_impl'; [|exact Hits]. intros it a Hr.
        apply iter_rel_put; [apply Hok|exact Hr].
    - (* TDel *)
      destruct (ProofsRefine.delete_spec cmp LR 0 0 minKVs maxKVs Hmin Hmax (m_t sm) k Hw) as [Hw' Hio].
      split; [|split; [discriminate|reflexivity]].
      constructor; simpl; auto.
      + rewrite Hio, Hm. reflexivity.
      + eapply Forall2_impl'; [|exact Hits]. intros it a Hr. apply iter_rel_delete; exact Hr.
    - (* TGet *)
      split; [constructor; auto|]. split; [discriminate|]. intros _. simpl.
      rewrite (ProofsRefine.get_spec cmp LR 0 0 minKVs maxKVs Hmin (m_t sm) k Hw), Hm.
      apply Z.eqb_refl.
    - (* TContains *)
      split; [constructor; auto|]. split; [discriminate|]. intros _. simpl.
      rewrite (ProofsRefine.contains_spec cmp LR 0 0 minKVs maxKVs Hmin (m_t sm) k Hw), Hm.
      apply eqb_reflx.
    - (* TLen *)
      split; [constructor; auto|]. split; [discriminate|]. intros _. simpl.
      rewrite (ProofsRefine.len_spec cmp minKVs maxKVs (m_t sm) Hw), Hm. apply Z.eqb_refl.
    - (* TFirst *)
      split; [constructor; auto|]. split; [unfold pair_out; discriminate|]. intros _.
      rewrite (ProofsRefine.first_spec cmp LR 0 0 minKVs maxKVs Hmin Hmax (m_t sm) Hw), Hm.
      unfold pair_eqb; simpl; rewrite keq_refl, Z.eqb_refl; reflexivity.
    - (* TLast *)
      split; [constructor; auto|]. split; [unfold pair_out; discriminate|]. intros _.
      rewrite (ProofsRefine.last_spec cmp LR 0 0 minKVs maxKVs Hmin Hmax (m_t sm) Hw), Hm.
      unfold pair_eqb; simpl; rewrite keq_refl, Z.eqb_refl; reflexivity.
    - (* TRange *)
      pose proof (step_M_range minKVs maxKVs Hmin mode sm lo hi Hw) as Hr. simpl in Hr. rewrite Hr.
      simpl. split; [constructor; auto|]. split; [discriminate|]. intros _.
      rewrite Hm. apply (tout_eqb_refl (OList _)).
    - (* TRangeRev *)
      pose proof (step_M_range_rev minKVs maxKVs Hmin mode sm lo hi Hw) as Hr. simpl in Hr. rewrite Hr.
      simpl. split; [constructor; auto|]. split; [discriminate|]. intros _.
      rewrite Hm. apply (tout_eqb_refl (OList _)).
    - (* TIterNew *)
      destruct rev.
      + destruct (range_rev_sim cmp 0 L (m_t sm) lo hi Hok) as (it & -> & Hrel & _). simpl.
        split; [|split; [discriminate|reflexivity]].
        constructor; simpl; auto. apply Forall2_app; [exact Hits|].
        constructor; [|constructor]. rewrite <- Hm. exact Hrel.
      + destruct (range_sim cmp 0 L (m_t sm) lo hi Hok) as (it & -> & Hrel & _). simpl.
        split; [|split; [discriminate|reflexivity]].
        constructor; simpl; auto. apply Forall2_app; [exact Hits|].
        constructor; [|constructor]. rewrite <- Hm. exact Hrel.
    - (* TIterNext *)
      pose proof (Forall2_nth_error _ _ _ j Hits) as Hj.
      destruct (nth_error (m_its sm) j) as [it|] eqn:Ei;
        destruct (nth_error (s_its ss) j) as [a|] eqn:Ea; try contradiction.
      + destruct (iter_next_sim cmp L (m_t sm) it a Hok Hj) as (it' & r & -> & Hrel' & Hout & _).
        rewrite Hm in Hrel', Hout.
        destruct (ai_next Z Z cmp (s_m ss) a) as [a' r'] eqn:Hn. simpl in *.
        split; [constructor; simpl; auto; apply Forall2_set_at; auto|].
        split; [destruct r; unfold pair_out; discriminate|]. intros _.
        unfold out_rel in Hout. destruct r as [kv|], r' as [kv'|]; try contradiction; simpl; auto.
        destruct Hout as [Hk Hv]. unfold pair_eqb. simpl. unfold keq. rewrite Hk, Hv, Z.eqb_refl.
        reflexivity.
      + simpl. split; [constructor; auto|]. split; [discriminate|reflexivity].
    - (* TGetCost *)
      split; [constructor; auto|]. split; [discriminate|]. intros H. discriminate.
    - (* TShape *)
      split; [constructor; auto|]. split; [discriminate|]. intros H. discriminate.
  Qed.

  (* position by position: outputs agree except at probes *)
  Fixpoint outs_ok (ops : list top) (a b : list tout) : Prop :=
    match ops, a, b with
    | [], [], [] => True
    | o :: ops', x :: a', y :: b' =>
        (probe o = false -> tout_eqb keq x y = true) /\ outs_ok ops' a' b'
    | _, _, _ => False
    end.

  Lemma steps_sim : forall ops sm ss,
    hsim sm ss ->
    hsim (fst (steps_M sm ops)) (fst (steps_S mode ss ops))
    /\ ~ In OPanic (snd (steps_M sm ops))
    /\ outs_ok ops (snd (steps_M sm ops)) (snd (steps_S mode ss ops)).
  Proof.
    induction ops as [|o ops IH]; intros sm ss H; simpl.
    - split; [exact H|]. split; [tauto|exact I].
    - destruct (step_sim sm ss o H) as (H1 & Hnp & Hout).
      destruct (step_M sm o) as [sm1 om] eqn:EM. destruct (step_S mode ss o) as [ss1 os] eqn:ES.
      simpl in *.
      destruct (IH sm1 ss1 H1) as (H2 & Hnp2 & Hout2).
      destruct (steps_M sm1 ops) as [sm2 oms]. destruct (steps_S mode ss1 ops) as [ss2 oss].
      simpl in *. split; [exact H2|]. split.
      + intros [E|E]; [apply Hnp; exact E|apply Hnp2; exact E].
      + split; assumption.
  Qed.

  Lemma outs_ok_noprobe : forall ops a b,
    outs_ok ops a b -> forallb (fun o => negb (probe o)) ops = true ->
    list_eqb (tout_eqb keq) a b = true.
  Proof.
    induction ops as [|o ops IH]; intros [|x a] [|y b] H Hall; simpl in *; try contradiction; auto.
    destruct H as [Ho H]. apply andb_true_iff in Hall. destruct Hall as [Hp Hall].
    apply negb_true_iff in Hp. rewrite (Ho Hp). simpl. apply IH; assumption.
  Qed.

  Lemma outs_ok_nth : forall ops a b i o,
    outs_ok ops a b -> nth_error ops i = Some o -> probe o = false ->
    exists x y, nth_error a i = Some x /\ nth_error b i = Some y /\ tout_eqb keq x y = true.
  Proof.
    induction ops as [|o0 ops IH]; intros [|x a] [|y b] i o H Hi Hp; simpl in H; try contradiction.
    - destruct i; discriminate.
    - destruct H as [Ho H]. destruct i as [|i]; simpl in Hi |- *.
      + injection Hi as ->. exists x, y. auto.
      + eapply IH; eauto.
  Qed.

  (* C02_refinement: layer M simulates layer S on every history without TShape / TGetCost probes
     (layer S does not answer those; they do not change any state). *)
  Theorem refinement (ops : list top) :
    forallb (fun o => negb (is_shape o || is_cost o)) ops = true ->
    outs_equiv mode (run_M ops) (run_S mode ops) = true.
  Proof.
    intros H. destruct (steps_sim ops m0 s0 hsim0) as (_ & _ & Hout).
    unfold outs_equiv, Hist.run_M, run_S. eapply outs_ok_noprobe; eauto.
  Qed.

  (* the outputs of the Next calls agree position by position in EVERY history (probes included) *)
  Theorem next_outputs_agree (ops : list top) i j :
    nth_error ops i = Some (TIterNext j) ->
    exists x y, nth_error (run_M ops) i = Some x /\ nth_error (run_S mode ops) i = Some y
                /\ tout_eqb keq x y = true.
  Proof.
    intros Hi. destruct (steps_sim ops m0 s0 hsim0) as (_ & _ & Hout).
    eapply outs_ok_nth; eauto.
  Qed.

  (* ---- the clauses read off the outputs of layer M ---- *)

  Theorem run_M_sticky_end (ops : list top) j i1 i2 :
    (i1 < i2)%nat ->
    nth_error ops i1 = Some (TIterNext j) ->
    nth_error ops i2 = Some (TIterNext j) ->
    nth_error (run_M ops) i1 = Some OEnd ->
    nth_error (run_M ops) i2 = Some OEnd.
  Proof.
    intros Hlt H1 H2 He.
    destruct (next_outputs_agree ops i1 j H1) as (x1 & y1 & Hx1 & Hy1 & E1).
    destruct (next_outputs_agree ops i2 j H2) as (x2 & y2 & Hx2 & Hy2 & E2).
    rewrite Hx1 in He. injection He as ->.
    assert (y1 = OEnd) by (destruct y1; simpl in E1; try discriminate; reflexivity). subst y1.
    pose proof (run_S_sticky_end mode ops j i1 i2 Hlt H1 H2 Hy1) as Hs.
    rewrite Hy2 in Hs. injection Hs as ->.
    rewrite Hx2. destruct x2; simpl in E2; try discriminate; reflexivity.
  Qed.

  Theorem run_M_monotone ops1 rev lo hi ops2 i1 i2 k1 v1 k2 v2 :
    let ops := ops1 ++ TIterNew rev lo hi :: ops2 in
    let j := count_new ops1 in
    (i1 < i2)%nat ->
    nth_error ops i1 = Some (TIterNext j) ->
    nth_error ops i2 = Some (TIterNext j) ->
    nth_error (run_M ops) i1 = Some (OPair k1 v1) ->
    nth_error (run_M ops) i2 = Some (OPair k2 v2) ->
    dcmp cmp rev k1 k2 = Lt
    /\ in_range Z cmp lo hi k1 = true
    /\ in_range Z cmp lo hi k2 = true.
  Proof.
    intros ops j Hlt H1 H2 Hr1 Hr2.
    destruct (next_outputs_agree ops i1 j H1) as (x1 & y1 & Hx1 & Hy1 & E1).
    destruct (next_outputs_agree ops i2 j H2) as (x2 & y2 & Hx2 & Hy2 & E2).
    rewrite Hx1 in Hr1. injection Hr1 as ->. rewrite Hx2 in Hr2. injection Hr2 as ->.
    destruct y1 as [| | |k1' v1'| | | | |]; simpl in E1; try discriminate.
    destruct y2 as [| | |k2' v2'| | | | |]; simpl in E2; try discriminate.
    unfold pair_eqb in E1, E2. simpl in E1, E2.
    apply andb_true_iff in E1. destruct E1 as [E1 _].
    apply andb_true_iff in E2. destruct E2 as [E2 _].
    unfold keq in E1, E2. apply (is_eq_true cmp) in E1. apply (is_eq_true cmp) in E2.
    destruct (run_S_monotone mode ops1 rev lo hi ops2 i1 i2 k1' v1' k2' v2' Hlt H1 H2 Hy1 Hy2)
      as (Hm & Hb1 & Hb2).
    pose proof (dcmp_laws cmp rev L) as LD.
    assert (D1 : dcmp cmp rev k1 k1' = Eq).
    { unfold dcmp. destruct rev; [apply (c_eq_sym cmp L)|]; exact E1. }
    assert (D2 : dcmp cmp rev k2 k2' = Eq).
    { unfold dcmp. destruct rev; [apply (c_eq_sym cmp L)|]; exact E2. }
    split; [|split].
    - rewrite (c_eq_l _ LD k1 k1' k2 D1), (c_eq_r _ LD k2 k2' k1' D2). exact Hm.
    - unfold in_range in *. rewrite (in_lo_equiv cmp L lo k1 k1' E1), (in_hi_equiv cmp L hi k1 k1' E1).
      exact Hb1.
    - unfold in_range in *. rewrite (in_lo_equiv cmp L lo k2 k2' E2), (in_hi_equiv cmp L hi k2 k2' E2).
      exact Hb2.
  Qed.

  (* C02_total at history level: no operation of any history makes layer M panic; every tree
     reached is well-formed and every live iterator satisfies the iterator invariant. *)
  Theorem no_panic (ops : list top) : ~ In OPanic (run_M ops).
  Proof. destruct (steps_sim ops m0 s0 hsim0) as (_ & H & _). exact H. Qed.

  Theorem reachable_ok (ops : list top) :
    let st := fst (steps_M m0 ops) in
    tree_ok cmp (m_t st) /\ Forall (iter_ok cmp (m_t st)) (m_its st).
  Proof.
    destruct (steps_sim ops m0 s0 hsim0) as ([Hw _ Hits] & _ & _). simpl. split.
    - apply (wf_tree_ok cmp L minKVs maxKVs Hmin). exact Hw.
    - clear - Hits. induction Hits as [|it a l l' Hr _ IH]; constructor; auto.
      eapply iter_rel_ok. exact Hr.
  Qed.

End Refine.
