(* History level (Hist.v, K = V = Z): the key orders of all modes satisfy cmp_laws; the tree of
   layer M is well-formed after every history; run_M = run_S for histories of plain calls
   (Put, Delete, Get, Contains, Len, First, Last). *)
From Juniper Require Import Common.Base Tree.Bound Tree.BTree Tree.Cursor Tree.SMap Tree.AIter Tree.Hist
  Tree.ProofsLists Tree.ProofsSMap Tree.ProofsCases Tree.ProofsWf Tree.ProofsIds
  Tree.ProofsInorder Tree.ProofsLookup Tree.ProofsRefine.
Local Open Scope nat_scope.

(* ---------------- the key orders of Hist.v ---------------- *)

Lemma cmp_laws_Z_rev : cmp_laws (fun a b : Z => Z.compare b a).
Proof. exact (cmp_laws_flip Z.compare cmp_laws_Z). Qed.

Lemma cmp_laws_Z_coarse : cmp_laws (fun a b : Z => Z.compare (Z.quot a 4) (Z.quot b 4)).
Proof. exact (cmp_laws_on Z.compare cmp_laws_Z (fun a => Z.quot a 4)). Qed.

Lemma mode_less_swo mode : strict_weak_order (mode_less mode).
Proof.
  unfold mode_less. destruct (mode =? 4)%Z.
  - exact (swo_on Z.ltb coarse swo_Zltb).
  - exact swo_Zltb.
Qed.

Lemma mode_cmp_laws mode : cmp_laws (mode_cmp mode).
Proof.
  unfold mode_cmp.
  destruct (mode =? 0)%Z; [exact cmp_laws_Z|].
  destruct (mode =? 1)%Z; [exact cmp_laws_Z_rev|].
  destruct (mode =? 2)%Z; [exact cmp_laws_Z_coarse|].
  apply less_cmp_laws, mode_less_swo.
Qed.

Section Hist.
  Variables minKVs maxKVs : nat.
  Hypothesis Hmin : 1 <= minKVs.
  Hypothesis Hmax : 2 * minKVs <= maxKVs.
  Variable mode : Z.

  Notation cmpm := (mode_cmp mode).
  Notation wfm := (@wf Z Z cmpm minKVs maxKVs).
  Notation step_M := (step_M minKVs maxKVs mode).
  Notation steps_M := (steps_M minKVs maxKVs mode).
  Notation run_M := (run_M minKVs maxKVs mode).

  Let Lm : cmp_laws cmpm := mode_cmp_laws mode.

  (* ---------------- C03: wf after every step ---------------- *)

  Lemma step_M_wf st o : wfm (m_t st) -> wfm (m_t (fst (step_M st o))).
  Proof.
    intros Hw. destruct o; unfold Hist.step_M; cbv beta iota zeta; try exact Hw.
    - cbn [fst m_t]. apply (put_spec cmpm Lm 0%Z 0%Z minKVs maxKVs Hmin Hmax); assumption.
    - cbn [fst m_t]. apply (delete_spec cmpm Lm 0%Z 0%Z minKVs maxKVs Hmin Hmax); assumption.
    - destruct (range Z Z cmpm 0%Z (m_t st) lo hi); exact Hw.
    - destruct (range_rev Z Z cmpm 0%Z (m_t st) lo hi); exact Hw.
    - destruct (if rev then range_rev Z Z cmpm 0%Z (m_t st) lo hi
                else range Z Z cmpm 0%Z (m_t st) lo hi); exact Hw.
    - destruct (nth_error (m_its st) j); [|exact Hw].
      destruct (iter_next Z Z cmpm (m_t st) i) as [[it' r]|]; exact Hw.
  Qed.

  Lemma steps_M_wf ops : forall st, wfm (m_t st) -> wfm (m_t (fst (steps_M st ops))).
  Proof.
    induction ops as [|o ops IH]; intros st Hw; [exact Hw|].
    cbn [Hist.steps_M]. pose proof (step_M_wf st o Hw) as H1.
    destruct (step_M st o) as [st1 out]. cbn [fst] in H1.
    specialize (IH st1 H1). destruct (steps_M st1 ops) as [st2 outs]. exact IH.
  Qed.

  Theorem wf_after_every_step ops : wfm (m_t (fst (steps_M (m0) ops))).
  Proof.
    apply steps_M_wf. unfold m0. cbn [m_t].
    apply (wf_empty cmpm minKVs maxKVs Hmin Hmax).
  Qed.

  (* ---------------- C01: refinement for plain calls ---------------- *)

  Definition plain_op (o : top) : bool :=
    match o with
    | TPut _ _ | TDel _ | TGet _ | TContains _ | TLen | TFirst | TLast => true
    | _ => false
    end.

  (* abstraction relation between the states of the two layers *)
  Definition absR (st : mstate) (ss : sstate) : Prop :=
    wfm (m_t st) /\ inorder (root (m_t st)) = s_m ss.

  Lemma step_sim_plain st ss o :
    plain_op o = true -> absR st ss ->
    snd (step_M st o) = snd (step_S mode ss o) /\
    absR (fst (step_M st o)) (fst (step_S mode ss o)).
  Proof.
    intros Hp [Hw Hio].
    destruct o; try discriminate; unfold Hist.step_M, step_S; cbv beta iota zeta; cbn [fst snd].
    - destruct (put_spec cmpm Lm 0%Z 0%Z minKVs maxKVs Hmin Hmax (m_t st) k v Hw) as [Hw' Hio'].
      split; [reflexivity|]. split; cbn [m_t s_m]; [assumption|]. rewrite Hio', Hio. reflexivity.
    - destruct (delete_spec cmpm Lm 0%Z 0%Z minKVs maxKVs Hmin Hmax (m_t st) k Hw) as [Hw' Hio'].
      split; [reflexivity|]. split; cbn [m_t s_m]; [assumption|]. rewrite Hio', Hio. reflexivity.
    - rewrite (get_spec cmpm Lm 0%Z 0%Z minKVs maxKVs Hmin (m_t st) k Hw), Hio.
      split; [reflexivity|split; assumption].
    - rewrite (contains_spec cmpm Lm 0%Z 0%Z minKVs maxKVs Hmin (m_t st) k Hw), Hio.
      split; [reflexivity|split; assumption].
    - rewrite (len_spec cmpm minKVs maxKVs (m_t st) Hw), Hio.
      split; [reflexivity|split; assumption].
    - rewrite (first_spec cmpm Lm 0%Z 0%Z minKVs maxKVs Hmin Hmax (m_t st) Hw), Hio.
      split; [reflexivity|split; assumption].
    - rewrite (last_spec cmpm Lm 0%Z 0%Z minKVs maxKVs Hmin Hmax (m_t st) Hw), Hio.
      split; [reflexivity|split; assumption].
  Qed.

  Lemma steps_sim (ok : top -> bool)
      (Hstep : forall st ss o, ok o = true -> absR st ss ->
                 snd (step_M st o) = snd (step_S mode ss o) /\
                 absR (fst (step_M st o)) (fst (step_S mode ss o))) :
    forall ops st ss, forallb ok ops = true -> absR st ss ->
      snd (steps_M st ops) = snd (steps_S mode ss ops).
  Proof.
    induction ops as [|o ops IH]; intros st ss Hall HR; [reflexivity|].
    cbn [forallb] in Hall. apply andb_true_iff in Hall. destruct Hall as [Ho Hall].
    cbn [Hist.steps_M steps_S].
    destruct (Hstep st ss o Ho HR) as [Hout HR'].
    destruct (step_M st o) as [st1 out]. destruct (step_S mode ss o) as [ss1 out'].
    cbn [fst snd] in *. specialize (IH st1 ss1 Hall HR').
    destruct (steps_M st1 ops) as [st2 outs]. destruct (steps_S mode ss1 ops) as [ss2 outs'].
    cbn [snd] in *. congruence.
  Qed.

  Lemma absR_init : absR m0 s0.
  Proof.
    split; [|reflexivity]. unfold m0. cbn [m_t]. apply (wf_empty cmpm minKVs maxKVs Hmin Hmax).
  Qed.

  Theorem refinement_no_range ops :
    forallb plain_op ops = true -> run_M ops = run_S mode ops.
  Proof.
    intros Hall. unfold Hist.run_M, run_S.
    apply (steps_sim plain_op step_sim_plain ops m0 s0 Hall absR_init).
  Qed.

End Hist.
