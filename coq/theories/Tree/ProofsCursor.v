(* Cursors over an UNCHANGING well-formed tree (Cursor.v): a cursor that sits on an entry of the
   in-order list moves with Next / Prev to the neighbouring entry; seek lands next to the key.
   Used for Range / RangeReverse that are drained at once (C01); cursors that survive
   modifications of the tree (C02) are not treated here. *)
From Juniper Require Import Common.Base Tree.Bound Tree.BTree Tree.Cursor Tree.SMap
  Tree.ProofsLists Tree.ProofsSMap Tree.ProofsCases Tree.ProofsWf Tree.ProofsIds Tree.ProofsInorder
  Tree.ProofsPath.
Local Open Scope nat_scope.

Lemma zget_of_nat {A} (l : list A) i : zget l (Z.of_nat i) = nth_error l i.
Proof.
  unfold zget. destruct (Z.of_nat i <? 0)%Z eqn:E; [apply Z.ltb_lt in E; lia|].
  rewrite Nat2Z.id. reflexivity.
Qed.

Section CursorStatic.
  Context {K V : Type}.
  Variable cmp : K -> K -> comparison.
  Variables (kzero : K) (vzero : V).
  Variables minKVs maxKVs : nat.
  Hypothesis Hmin : 1 <= minKVs.
  Variable t : @btree K V.
  Variable d : nat.
  Hypothesis Hd : shaped minKVs maxKVs d (root t).
  Hypothesis Hu : forall a, idc a (root t) <= 1.

  Notation node := (@node K V).
  Notation shaped := (shaped minKVs maxKVs).
  Notation okc := (okc minKVs maxKVs).
  Notation at_path := (@at_path K V).
  Notation R := (root t).
  Notation lost := (lost K V cmp).
  Notation next_body := (next_body K V).
  Notation prev_body := (prev_body K V).
  Notation climb_next := (climb_next K V).
  Notation climb_prev := (climb_prev K V).
  Notation key_at := (key_at K V).
  Notation val_at := (val_at K V).
  Notation child_at := (child_at K V).
  Notation node_n := (node_n K V).

  (* ---------------- basic reads ---------------- *)

  Lemma key_at_nat (y : node) i kv : nth_error (nkvs y) i = Some kv -> key_at y (Z.of_nat i) = Ok (fst kv).
  Proof. intros H. unfold Cursor.key_at. rewrite zget_of_nat, H. reflexivity. Qed.

  Lemma val_at_nat (y : node) i kv : nth_error (nkvs y) i = Some kv -> val_at y (Z.of_nat i) = Ok (snd kv).
  Proof. intros H. unfold Cursor.val_at. rewrite zget_of_nat, H. reflexivity. Qed.

  Lemma child_at_nat (y : node) i c : nth_error (ncs y) i = Some c -> child_at y (Z.of_nat i) = Ok c.
  Proof. intros H. unfold Cursor.child_at. rewrite zget_of_nat, H. reflexivity. Qed.

  Lemma node_n_nat (y : node) : node_n y = Z.of_nat (nkeys y).
  Proof. reflexivity. Qed.

  Lemma lost_fresh c : cgen c = gen t -> lost t c = Ok false.
  Proof. intros H. unfold Cursor.lost. rewrite H, Z.eqb_refl. reflexivity. Qed.

  Lemma lost_nil c : curr c = None -> lost t c = Ok false.
  Proof. intros H. unfold Cursor.lost. rewrite H. destruct (cgen c =? gen t)%Z; reflexivity. Qed.

  Lemma is_leaf_true (y : node) : is_leaf y = true -> ncs y = [].
  Proof. unfold is_leaf. destruct (ncs y); [reflexivity|discriminate]. Qed.
  Lemma is_leaf_false (y : node) : is_leaf y = false -> ncs y <> [].
  Proof. unfold is_leaf. destruct (ncs y); [discriminate|intros _; discriminate]. Qed.

  Lemma HL_leaf (y : node) i : ncs y = [] -> HL y i = firstn i (nkvs y).
  Proof. unfold HL. intros ->. reflexivity. Qed.
  Lemma HR_leaf (y : node) i : ncs y = [] -> HR y i = skipn (S i) (nkvs y).
  Proof. unfold HR. intros ->. reflexivity. Qed.
  Lemma HL_internal (y : node) i c :
    nth_error (ncs y) i = Some c -> HL y i = PL y i ++ inorder c.
  Proof.
    unfold HL. intros H. rewrite (nth_map_some _ _ _ _ _ H).
    destruct (ncs y); [destruct i; discriminate|reflexivity].
  Qed.
  Lemma HR_internal (y : node) i c :
    nth_error (ncs y) (S i) = Some c -> HR y i = inorder c ++ PR y (S i).
  Proof.
    unfold HR. intros H. rewrite (nth_map_some _ _ _ _ _ H).
    destruct (ncs y); [discriminate|reflexivity].
  Qed.

  (* ---------------- the cursor sits on an entry ---------------- *)

  (* c points at the entry kv; `before` / `after` are the entries of the tree before / after it *)
  Definition cur_at (c : cursor K) (before : list (K * V)) (kv : K * V) (after : list (K * V)) : Prop :=
    exists y pi i,
      at_path R pi y /\ curr c = Some (nid y) /\ ci c = Z.of_nat i /\
      nth_error (nkvs y) i = Some kv /\ ck c = fst kv /\ cgen c = gen t /\
      before = pre_of pi ++ HL y i /\ after = HR y i ++ post_of pi.

  Lemma cur_at_inorder c before kv after :
    cur_at c before kv after -> inorder R = before ++ kv :: after.
  Proof.
    intros (y & pi & i & Hp & _ & _ & Hk & _ & _ & -> & ->).
    destruct (at_path_shaped minKVs maxKVs d R pi y Hd Hp) as (d' & Hd' & _).
    rewrite (at_path_inorder minKVs maxKVs d R pi y Hd Hp).
    rewrite (node_at_key minKVs maxKVs d' y i kv Hd' Hk).
    rewrite <- !app_assoc. reflexivity.
  Qed.

  Lemma cur_at_value c before kv after :
    cur_at c before kv after -> value_unchecked K V t c = Ok (snd kv).
  Proof.
    intros (y & pi & i & Hp & Hc & Hi & Hk & _).
    destruct (lookup_correct R pi y Hu Hp) as [Hf _].
    unfold value_unchecked. rewrite Hc, Hf, Hi. apply val_at_nat. assumption.
  Qed.

  Lemma at_path_snoc_inv (x : node) pi p idx y :
    at_path x (pi ++ [(p, idx)]) y -> at_path x pi p /\ nth_error (ncs p) idx = Some y.
  Proof.
    revert x; induction pi as [|[q j] pi IH]; intros x H; simpl in H.
    - inversion H as [|? ? c ? ? Hn Hp]; subst. inversion Hp; subst. split; [constructor|assumption].
    - inversion H as [|? ? c ? ? Hn Hp]; subst. destruct (IH c Hp) as [H1 H2].
      split; [econstructor; eassumption|assumption].
  Qed.

  (* a node on a path that has a child is internal *)
  Lemma path_parent_shape pi (p : node) idx (y : node) :
    at_path R pi p -> nth_error (ncs p) idx = Some y ->
    exists d', shaped (S d') p /\ length (ncs p) = S (length (nkvs p)) /\ okc d' y.
  Proof.
    intros Hp Hn. destruct (at_path_shaped minKVs maxKVs d R pi p Hd Hp) as (d' & Hd' & _).
    destruct p as [id kvs cs]. cbn [ncs nkvs] in *. destruct d' as [|d'].
    - apply shaped_0_inv in Hd'. destruct Hd' as [_ ->]. destruct idx; discriminate.
    - exists d'. split; [assumption|]. apply shaped_S_inv in Hd'. destruct Hd' as (_ & Hl & F).
      split; [assumption|]. eapply Forall_nth_error; eassumption.
  Qed.

  (* ---------------- climbing ---------------- *)

  Lemma climb_next_spec : forall pi (y : node) c,
      at_path R pi y -> cgen c = gen t ->
      exists c', climb_next (rev pi) c = Ok c' /\
        match post_of pi with
        | [] => curr c' = None
        | kv' :: after' => cur_at c' (pre_of pi ++ inorder y) kv' after'
        end.
  Proof.
    induction pi as [|[p idx] pi IH] using rev_ind; intros y c Hp Hg.
    - simpl. eexists. split; [reflexivity|]. reflexivity.
    - apply at_path_snoc_inv in Hp. destruct Hp as [Hp Hn].
      destruct (path_parent_shape pi p idx y Hp Hn) as (d' & Hsp & Hlp & Hy).
      rewrite rev_app_distr. cbn [rev app Cursor.climb_next].
      rewrite post_of_snoc, pre_of_snoc, node_n_nat.
      pose proof (nth_error_some_lt _ _ _ Hn) as Hidx.
      destruct (Z.of_nat idx <? Z.of_nat (nkeys p))%Z eqn:E.
      + apply Z.ltb_lt in E. assert (Hi : idx < length (nkvs p)) by (unfold nkeys in E; lia).
        destruct (nth_error_lt_some _ _ Hi) as [kv' Hk].
        destruct (nth_error_lt_some (ncs p) (S idx) ltac:(lia)) as [c1 Hc1].
        rewrite (key_at_nat p idx kv' Hk). cbn [bind].
        eexists. split; [reflexivity|].
        rewrite (PR_step p idx c1 kv' Hlp Hc1 Hk). cbn [app].
        exists p, pi, idx. cbn [curr ci ck cgen].
        repeat split; auto.
        * rewrite (HL_internal p idx y Hn), <- !app_assoc. reflexivity.
        * rewrite (HR_internal p idx c1 Hc1), <- !app_assoc. reflexivity.
      + apply Z.ltb_ge in E. assert (Hi : idx = length (nkvs p)) by (unfold nkeys in E; lia).
        assert (HPR : PR p idx = []) by (subst idx; apply PR_end; lia).
        rewrite HPR. cbn [app].
        destruct (IH p (mkCursor (Some (nid p)) (Z.of_nat idx) (ck c) (cgen c)) Hp Hg)
          as (c' & Hc' & Hm).
        exists c'. split; [exact Hc'|].
        destruct (post_of pi) as [|kv' after']; [assumption|].
        assert (E2 : (pre_of pi ++ PL p idx) ++ inorder y = pre_of pi ++ inorder p).
        { destruct p as [pid pk pc]. cbn [ncs nkvs] in *.
          rewrite (node_split pid pk pc idx y Hlp Hn), HPR, <- !app_assoc, app_nil_r. reflexivity. }
        rewrite E2. assumption.
  Qed.

  Lemma climb_prev_spec : forall pi (y : node) c,
      at_path R pi y -> cgen c = gen t ->
      exists c', climb_prev (rev pi) c = Ok c' /\
        ((pre_of pi = [] /\ curr c' = None) \/
         (exists b' kv', pre_of pi = b' ++ [kv'] /\ cur_at c' b' kv' (inorder y ++ post_of pi))).
  Proof.
    induction pi as [|[p idx] pi IH] using rev_ind; intros y c Hp Hg.
    - simpl. eexists. split; [reflexivity|]. left. split; reflexivity.
    - apply at_path_snoc_inv in Hp. destruct Hp as [Hp Hn].
      destruct (path_parent_shape pi p idx y Hp Hn) as (d' & Hsp & Hlp & Hy).
      rewrite rev_app_distr. cbn [rev app Cursor.climb_prev].
      rewrite post_of_snoc, pre_of_snoc.
      pose proof (nth_error_some_lt _ _ _ Hn) as Hidx.
      destruct (Z.of_nat idx - 1 >=? 0)%Z eqn:E.
      + apply Z.geb_le in E. destruct idx as [|j]; [lia|].
        replace (Z.of_nat (S j) - 1)%Z with (Z.of_nat j) by lia.
        assert (Hi : j < length (nkvs p)) by lia.
        destruct (nth_error_lt_some _ _ Hi) as [kv' Hk].
        destruct (nth_error_lt_some (ncs p) j ltac:(lia)) as [c0 Hc0].
        rewrite (key_at_nat p j kv' Hk). cbn [bind].
        eexists. split; [reflexivity|]. right.
        exists (pre_of pi ++ HL p j), kv'. split.
        * rewrite (PL_step p j c0 kv' Hlp Hc0 Hk), (HL_internal p j c0 Hc0), <- !app_assoc.
          reflexivity.
        * exists p, pi, j. cbn [curr ci ck cgen]. repeat split; auto.
          rewrite (HR_internal p j y Hn), <- !app_assoc. reflexivity.
      + rewrite Z.geb_leb in E. apply Z.leb_gt in E. assert (idx = 0) by lia. subst idx.
        rewrite PL_0, app_nil_r.
        destruct (IH p (mkCursor (Some (nid p)) (Z.of_nat 0 - 1) (ck c) (cgen c)) Hp Hg)
          as (c' & Hc' & Hm).
        exists c'. split; [exact Hc'|].
        destruct Hm as [Hm|(b' & kv' & Hb & Hcur)]; [left; assumption|right].
        exists b', kv'. split; [assumption|].
        assert (E2 : inorder p ++ post_of pi = inorder y ++ PR p 0 ++ post_of pi).
        { destruct p as [pid pk pc]. cbn [ncs nkvs] in *.
          rewrite (node_split pid pk pc 0 y Hlp Hn), PL_0, <- !app_assoc. reflexivity. }
        rewrite <- E2. assumption.
  Qed.

  (* ---------------- Next / Prev ---------------- *)

  Theorem next_body_spec c before kv after :
    cur_at c before kv after ->
    exists c', next_body t c = Ok c' /\
      match after with
      | [] => curr c' = None
      | kv' :: after' => cur_at c' (before ++ [kv]) kv' after'
      end.
  Proof.
    intros (y & pi & i & Hp & Hc & Hi & Hk & Hck & Hg & -> & ->).
    destruct (lookup_correct R pi y Hu Hp) as [Hf Hpt].
    destruct (at_path_shaped minKVs maxKVs d R pi y Hd Hp) as (d' & Hd' & _).
    pose proof (nth_error_some_lt _ _ _ Hk) as Hin.
    unfold Cursor.next_body. rewrite Hc, Hf.
    destruct (is_leaf y) eqn:El.
    - (* leaf *)
      pose proof (is_leaf_true y El) as Ecs.
      rewrite (HL_leaf y i Ecs), (HR_leaf y i Ecs).
      cbn [ci set_ci curr ck cgen]. rewrite Hi, node_n_nat.
      destruct (Z.of_nat i + 1 <? Z.of_nat (nkeys y))%Z eqn:E.
      + apply Z.ltb_lt in E. assert (Hi1 : S i < length (nkvs y)) by (unfold nkeys in E; lia).
        destruct (nth_error_lt_some _ _ Hi1) as [kv' Hk'].
        replace (Z.of_nat i + 1)%Z with (Z.of_nat (S i)) by lia.
        rewrite (key_at_nat y (S i) kv' Hk'). cbn [bind].
        eexists. split; [reflexivity|].
        rewrite (skipn_nth_cons _ _ _ Hk'). cbn [app].
        exists y, pi, (S i). cbn [curr ci ck cgen]. repeat split; auto.
        * rewrite (HL_leaf y (S i) Ecs), (firstn_S_snoc _ _ _ Hk), <- !app_assoc. reflexivity.
        * rewrite (HR_leaf y (S i) Ecs). reflexivity.
      + apply Z.ltb_ge in E. assert (Hi1 : S i = length (nkvs y)) by (unfold nkeys in E; lia).
        rewrite Hi1, skipn_all. cbn [app].
        unfold ancestors. rewrite Hpt. cbn [bind].
        destruct (climb_next_spec pi y (set_ci K c (Z.of_nat i + 1)) Hp Hg) as (c' & Hc' & Hm).
        exists c'. split; [exact Hc'|].
        destruct (post_of pi) as [|kv' after']; [assumption|].
        assert (E2 : (pre_of pi ++ firstn i (nkvs y)) ++ [kv] = pre_of pi ++ inorder y).
        { destruct y as [yid yk yc]. cbn [ncs nkvs] in *. subst yc. rewrite inorder_leaf.
          rewrite <- app_assoc, <- (firstn_S_snoc _ _ _ Hk), Hi1, firstn_all. reflexivity. }
        rewrite E2. assumption.
    - (* internal *)
      pose proof (is_leaf_false y El) as Hne.
      destruct d' as [|d'].
      { destruct y as [yid yk yc]. apply shaped_0_inv in Hd'. destruct Hd' as [_ H0].
        cbn [ncs] in Hne. congruence. }
      assert (Hly : length (ncs y) = S (length (nkvs y)) /\ Forall (okc d') (ncs y)).
      { destruct y as [yid yk yc]. apply shaped_S_inv in Hd'. cbn [ncs nkvs]. tauto. }
      destruct Hly as [Hly Fy].
      destruct (nth_error_lt_some (ncs y) i ltac:(lia)) as [ci0 Hci0].
      destruct (nth_error_lt_some (ncs y) (S i) ltac:(lia)) as [c1 Hc1].
      rewrite Hi, node_n_nat.
      assert (E : (Z.of_nat i <? Z.of_nat (nkeys y))%Z = true)
        by (apply Z.ltb_lt; unfold nkeys; lia).
      rewrite E. replace (Z.of_nat i + 1)%Z with (Z.of_nat (S i)) by lia.
      rewrite (child_at_nat y (S i) c1 Hc1). cbn [bind].
      destruct (Forall_nth_error _ _ _ _ Fy Hc1) as [Hc1m Hc1s].
      destruct (leftmost_path minKVs maxKVs Hmin d' c1 Hc1s ltac:(lia))
        as (pil & kv' & Hpl & Hprel & Hleafl & Hkl & _).
      change 0%Z with (Z.of_nat 0). rewrite (key_at_nat _ 0 kv' Hkl). cbn [bind].
      eexists. split; [reflexivity|].
      rewrite (HR_internal y i c1 Hc1).
      assert (Hio1 : inorder c1 = kv' :: skipn 1 (nkvs (leftmost_leaf c1)) ++ post_of pil).
      { rewrite (at_path_inorder minKVs maxKVs d' c1 pil _ Hc1s Hpl), Hprel. cbn [app].
        destruct (leftmost_leaf c1) as [lid lk lc]. cbn [ncs nkvs] in *. subst lc.
        rewrite inorder_leaf. destruct lk as [|k0 lk]; [discriminate|]. injection Hkl as ->.
        reflexivity. }
      rewrite Hio1. cbn [app].
      exists (leftmost_leaf c1), (pi ++ (y, S i) :: pil), 0. cbn [curr ci ck cgen].
      repeat split; auto.
      + apply (at_path_app R pi y). assumption. econstructor; eassumption.
      + rewrite (HL_leaf _ 0 Hleafl). cbn [firstn]. rewrite app_nil_r.
        rewrite pre_of_app. cbn [pre_of]. rewrite Hprel, app_nil_r.
        rewrite (PL_step y i ci0 kv Hly Hci0 Hk), (HL_internal y i ci0 Hci0), <- !app_assoc.
        reflexivity.
      + rewrite (HR_leaf _ 0 Hleafl). rewrite post_of_app. cbn [post_of].
        rewrite <- !app_assoc. reflexivity.
  Qed.

  Theorem prev_body_spec c before kv after :
    cur_at c before kv after ->
    exists c', prev_body t c = Ok c' /\
      ((before = [] /\ curr c' = None) \/
       (exists b' kv', before = b' ++ [kv'] /\ cur_at c' b' kv' (kv :: after))).
  Proof.
    intros (y & pi & i & Hp & Hc & Hi & Hk & Hck & Hg & -> & ->).
    destruct (lookup_correct R pi y Hu Hp) as [Hf Hpt].
    destruct (at_path_shaped minKVs maxKVs d R pi y Hd Hp) as (d' & Hd' & _).
    pose proof (nth_error_some_lt _ _ _ Hk) as Hin.
    unfold Cursor.prev_body. rewrite Hc, Hf.
    destruct (is_leaf y) eqn:El.
    - (* leaf *)
      pose proof (is_leaf_true y El) as Ecs.
      rewrite (HL_leaf y i Ecs), (HR_leaf y i Ecs).
      cbn [ci set_ci curr ck cgen]. rewrite Hi.
      destruct (Z.of_nat i - 1 >=? 0)%Z eqn:E.
      + apply Z.geb_le in E. destruct i as [|j]; [lia|].
        replace (Z.of_nat (S j) - 1)%Z with (Z.of_nat j) by lia.
        destruct (nth_error_lt_some (nkvs y) j ltac:(lia)) as [kv' Hk'].
        rewrite (key_at_nat y j kv' Hk'). cbn [bind].
        eexists. split; [reflexivity|]. right.
        exists (pre_of pi ++ firstn j (nkvs y)), kv'. split.
        * rewrite (firstn_S_snoc _ _ _ Hk'), <- !app_assoc. reflexivity.
        * exists y, pi, j. cbn [curr ci ck cgen]. repeat split; auto.
          -- rewrite (HL_leaf y j Ecs). reflexivity.
          -- rewrite (HR_leaf y j Ecs), (skipn_nth_cons _ _ _ Hk). reflexivity.
      + rewrite Z.geb_leb in E. apply Z.leb_gt in E. assert (i = 0) by lia. subst i.
        cbn [firstn]. rewrite app_nil_r.
        unfold ancestors. rewrite Hpt. cbn [bind].
        destruct (climb_prev_spec pi y (set_ci K c (Z.of_nat 0 - 1)) Hp Hg) as (c' & Hc' & Hm).
        exists c'. split; [exact Hc'|].
        destruct Hm as [Hm|(b' & kv' & Hb & Hcur)]; [left; assumption|right].
        exists b', kv'. split; [assumption|].
        assert (E2 : inorder y ++ post_of pi = kv :: skipn 1 (nkvs y) ++ post_of pi).
        { destruct y as [yid yk yc]. cbn [ncs nkvs] in *. subst yc. rewrite inorder_leaf.
          destruct yk as [|k0 yk]; [discriminate|]. injection Hk as ->. reflexivity. }
        rewrite <- E2. assumption.
    - (* internal *)
      pose proof (is_leaf_false y El) as Hne.
      destruct d' as [|d'].
      { destruct y as [yid yk yc]. apply shaped_0_inv in Hd'. destruct Hd' as [_ H0].
        cbn [ncs] in Hne. congruence. }
      assert (Hly : length (ncs y) = S (length (nkvs y)) /\ Forall (okc d') (ncs y)).
      { destruct y as [yid yk yc]. apply shaped_S_inv in Hd'. cbn [ncs nkvs]. tauto. }
      destruct Hly as [Hly Fy].
      destruct (nth_error_lt_some (ncs y) i ltac:(lia)) as [ci0 Hci0].
      destruct (nth_error_lt_some (ncs y) (S i) ltac:(lia)) as [c1 Hc1].
      rewrite Hi.
      assert (E : (Z.of_nat i >=? 0)%Z = true) by (apply Z.geb_le; lia).
      rewrite E. rewrite (child_at_nat y i ci0 Hci0). cbn [bind].
      destruct (Forall_nth_error _ _ _ _ Fy Hci0) as [Hc0m Hc0s].
      destruct (rightmost_path minKVs maxKVs Hmin d' ci0 Hc0s ltac:(lia))
        as (pir & kv' & Hpr & Hpostr & Hleafr & Hkr & Hner).
      set (lf := rightmost_leaf ci0) in *.
      rewrite node_n_nat.
      replace (Z.of_nat (nkeys lf) - 1)%Z with (Z.of_nat (pred (nkeys lf))) by lia.
      rewrite (key_at_nat _ _ kv' Hkr). cbn [bind].
      eexists. split; [reflexivity|]. right.
      assert (Hio0 : inorder ci0 = pre_of pir ++ firstn (pred (nkeys lf)) (nkvs lf) ++ [kv']).
      { rewrite (at_path_inorder minKVs maxKVs d' ci0 pir _ Hc0s Hpr), Hpostr, app_nil_r.
        fold lf. f_equal.
        destruct lf as [lid lk lc]. cbn [ncs nkvs] in *. subst lc.
        rewrite inorder_leaf. unfold nkeys in *. cbn [nkvs] in *.
        rewrite <- (firstn_S_snoc _ _ _ Hkr).
        replace (S (pred (length lk))) with (length lk) by lia. rewrite firstn_all. reflexivity. }
      exists (pre_of (pi ++ (y, i) :: pir) ++ HL lf (pred (nkeys lf))), kv'. split.
      + rewrite (HL_internal y i ci0 Hci0), Hio0, (HL_leaf _ _ Hleafr).
        rewrite pre_of_app. cbn [pre_of]. rewrite <- !app_assoc. reflexivity.
      + exists lf, (pi ++ (y, i) :: pir), (pred (nkeys lf)). cbn [curr ci ck cgen].
        repeat split; auto.
        * apply (at_path_app R pi y). assumption. econstructor; eassumption.
        * rewrite (HR_leaf _ _ Hleafr).
          replace (S (pred (nkeys lf))) with (length (nkvs lf)) by (unfold nkeys in *; lia).
          rewrite skipn_all. cbn [app].
          rewrite post_of_app. cbn [post_of]. rewrite Hpostr. cbn [app].
          rewrite (PR_step y i c1 kv Hly Hc1 Hk), (HR_internal y i c1 Hc1).
          cbn [app]. rewrite <- ?app_assoc. reflexivity.
  Qed.

End CursorStatic.
