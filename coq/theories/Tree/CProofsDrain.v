(* C02 / C01: draining an iterator on an UNCHANGING map / tree.
   Layer S: [ai_drain_range]: draining ai_new rev lo hi m on the same sorted map m yields exactly
     sm_range lo hi m (sm_range_rev for rev), within (length m + 1) Next calls.
   Layer M: [range_drain] / [range_rev_drain]: on a tree satisfying tree_ok, Range / RangeReverse
     followed by Hist.drain_M with enough fuel yields OList (sm_range lo hi (inorder (root t)))
     (resp. sm_range_rev), EXACTLY (same key objects): this is the unmodified-tree instance of the
     simulation, and what Hist.step_M computes for TRange / TRangeRev. *)
From Juniper Require Import Common.Base Tree.Bound Tree.BTree Tree.Cursor Tree.SMap Tree.AIter
  Tree.Hist Tree.CProofsOrder Tree.CProofsSpec Tree.CProofsTree Tree.CProofsCursor
  Tree.CProofsSeek Tree.CProofsStep Tree.CProofsSim.
From Coq Require Import Sorted.

Section DrainS.
  Context {K V : Type} (cmp : K -> K -> comparison).
  Hypothesis laws : cmp_laws cmp.

  Notation ksorted := (ksorted (V:=V) cmp).
  Notation ai_next := (ai_next K V cmp).
  Notation ai_new := (ai_new K V cmp).

  Fixpoint take_while (f : K * V -> bool) (l : list (K * V)) : list (K * V) :=
    match l with
    | [] => []
    | a :: r => if f a then a :: take_while f r else []
    end.

  Lemma take_while_ext (f g : K * V -> bool) l :
    (forall x, f x = g x) -> take_while f l = take_while g l.
  Proof.
    intros H. induction l as [|a l IH]; simpl; auto. rewrite (H a), IH. reflexivity.
  Qed.

  (* filter of an upward-closed predicate over a sorted list is a suffix of it *)
  Lemma filter_up_suffix (c : K -> K -> comparison) (P : K -> bool) (l : list (K * V)) :
    cmp_laws c -> CProofsOrder.ksorted c l ->
    (forall a b, P a = true -> c a b <> Gt -> P b = true) ->
    exists l0, l = l0 ++ filter (fun kv => P (fst kv)) l.
  Proof.
    intros Lc Hs Hup. induction l as [|a r IH]; [exists []; reflexivity|].
    apply ksorted_cons_inv in Hs. destruct Hs as [Hr Hf]. simpl.
    destruct (P (fst a)) eqn:E.
    - exists []. simpl. f_equal. symmetry. apply filter_all_true. intros x Hx.
      rewrite Forall_forall in Hf. specialize (Hf x Hx). unfold klt in Hf.
      apply (Hup (fst a)); [exact E|congruence].
    - destruct (IH Hr) as [l0 Hl0]. exists (a :: l0). simpl. f_equal. exact Hl0.
  Qed.

  (* filter of a downward-closed predicate over a sorted list is take_while *)
  Lemma filter_down_take (c : K -> K -> comparison) (Q : K -> bool) (l : list (K * V)) :
    cmp_laws c -> CProofsOrder.ksorted c l ->
    (forall a b, Q b = true -> c a b <> Gt -> Q a = true) ->
    filter (fun kv => Q (fst kv)) l = take_while (fun kv => Q (fst kv)) l.
  Proof.
    intros Lc Hs Hdown. induction l as [|a r IH]; [reflexivity|].
    apply ksorted_cons_inv in Hs. destruct Hs as [Hr Hf]. simpl.
    destruct (Q (fst a)) eqn:E.
    - f_equal. apply IH. exact Hr.
    - clear IH. induction r as [|b r IHr]; [reflexivity|]. simpl.
      inversion Hf as [|b' r' Hb Hfr]; subst. apply ksorted_cons_inv in Hr. destruct Hr as [Hr _].
      destruct (Q (fst b)) eqn:Eb.
      + unfold klt in Hb. rewrite (Hdown (fst a) (fst b) Eb) in E; [discriminate|congruence].
      + apply IHr; assumption.
  Qed.

  Lemma filter_filter {A} (f g : A -> bool) (l : list A) :
    filter f (filter g l) = filter (fun x => g x && f x) l.
  Proof.
    induction l as [|a l IH]; simpl; auto.
    destruct (g a); simpl; [destruct (f a); rewrite IH; reflexivity|exact IH].
  Qed.

  (* draining from a suffix of the map (in travel order) whose head is the pending position *)
  Lemma ai_drain_suffix : forall (l l0 : list (K * V)) m (a : aiter K) fuel,
    ksorted m -> trav (ai_rev a) m = l0 ++ l ->
    ai_cut a = false -> ai_pos a = option_map fst (hd_error l) ->
    (length l < fuel)%nat ->
    ai_drain K V cmp fuel m a = Some (take_while (fun kv => ai_far_ok K cmp a (fst kv)) l).
  Proof.
    induction l as [|f rest IH]; intros l0 m a fuel Hs Ht Hcut Hpos Hfuel.
    - destruct fuel as [|fu]; [simpl in Hfuel; lia|]. simpl.
      rewrite (finished_next cmp m a (or_intror Hpos)). reflexivity.
    - destruct fuel as [|fu]; [simpl in Hfuel; lia|]. simpl in Hpos, Hfuel.
      pose proof (trav_sorted cmp (ai_rev a) m Hs) as Hts. rewrite Ht in Hts.
      apply (ksorted_app (dcmp cmp (ai_rev a))) in Hts. destruct Hts as (_ & Hs2 & H12).
      apply ksorted_cons_inv in Hs2 as Hs2'. destruct Hs2' as [_ Hfr].
      pose proof (dcmp_laws cmp (ai_rev a) laws) as LD.
      assert (Hc : ai_cands K V cmp (ai_rev a) (fst f) m = f :: rest).
      { rewrite (ai_cands_trav cmp laws), Ht. apply filter_app_false_true.
        - intros x Hx. specialize (H12 x f Hx (or_introl eq_refl)). unfold klt in H12.
          rewrite H12. reflexivity.
        - intros x [<-|Hx].
          + rewrite (c_refl _ LD). reflexivity.
          + rewrite Forall_forall in Hfr. specialize (Hfr x Hx). unfold klt in Hfr.
            apply (c_lt_gt _ LD) in Hfr. rewrite Hfr. reflexivity. }
      simpl. unfold AIter.ai_next. rewrite Hcut, Hpos, Hc.
      destruct (ai_far_ok K cmp a (fst f)) eqn:Hfar; [|reflexivity].
      set (a' := mkAIter (ai_rev a) (option_map fst (hd_error rest)) (ai_lo a) (ai_hi a) false).
      assert (Ht' : trav (ai_rev a') m = (l0 ++ [f]) ++ rest).
      { simpl. rewrite <- app_assoc. exact Ht. }
      assert (Hlt : (length rest < fu)%nat) by lia.
      rewrite (IH (l0 ++ [f]) m a' fu Hs Ht' eq_refl eq_refl Hlt). reflexivity.
  Qed.

  (* C02 (layer S, unchanging map): the abstract iterator drains exactly the range *)
  Theorem ai_drain_range rev lo hi (m : list (K * V)) fuel :
    ksorted m -> (length m < fuel)%nat ->
    ai_drain K V cmp fuel m (ai_new rev lo hi m)
    = Some (if rev then sm_range_rev K V cmp lo hi m else sm_range K V cmp lo hi m).
  Proof.
    intros Hs Hfuel. pose proof (dcmp_laws cmp rev laws) as LD.
    pose proof (trav_sorted cmp rev m Hs) as Hts.
    set (nearb := fun k : K => if rev then in_hi K cmp hi k else in_lo K cmp lo k).
    set (farb := fun k : K => if rev then in_lo K cmp lo k else in_hi K cmp hi k).
    assert (Hup : forall a b, nearb a = true -> dcmp cmp rev a b <> Gt -> nearb b = true).
    { unfold nearb, dcmp. destruct rev; intros a b H1 H2.
      - eapply (in_hi_down cmp laws); eauto.
      - eapply (in_lo_up cmp laws); eauto. }
    assert (Hdown : forall a b, farb b = true -> dcmp cmp rev a b <> Gt -> farb a = true).
    { unfold farb, dcmp. destruct rev; intros a b H1 H2.
      - eapply (in_lo_up cmp laws); eauto.
      - eapply (in_hi_down cmp laws); eauto. }
    destruct (filter_up_suffix (dcmp cmp rev) nearb (trav rev m) LD Hts Hup) as [l0 Hl0].
    set (l := filter (fun kv : K * V => nearb (fst kv)) (trav rev m)) in *.
    assert (Hnew : ai_new rev lo hi m = mkAIter rev (option_map fst (hd_error l)) lo hi false).
    { rewrite (ai_new_trav cmp). unfold l, nearb. destruct rev; reflexivity. }
    rewrite Hnew.
    rewrite (ai_drain_suffix l l0 m _ fuel Hs); simpl; auto.
    2:{ assert (length (trav rev m) = length m) by (destruct rev; simpl; [apply rev_length|reflexivity]).
        assert (length l <= length (trav rev m))%nat.
        { pose proof (f_equal (@length _) Hl0) as HL. rewrite app_length in HL. lia. }
        lia. }
    f_equal.
    assert (Hfar : forall kv : K * V,
               ai_far_ok K cmp (mkAIter rev (option_map fst (hd_error l)) lo hi false) (fst kv)
               = farb (fst kv)).
    { intros kv. unfold ai_far_ok, farb. simpl. reflexivity. }
    assert (Htw : take_while (fun kv => ai_far_ok K cmp
                     (mkAIter rev (option_map fst (hd_error l)) lo hi false) (fst kv)) l
                  = take_while (fun kv => farb (fst kv)) l).
    { apply take_while_ext. exact Hfar. }
    rewrite Htw.
    rewrite <- (filter_down_take (dcmp cmp rev) farb l LD); auto.
    2:{ unfold l. apply ksorted_filter. exact Hts. }
    unfold l. rewrite filter_filter.
    unfold sm_range_rev, sm_range, in_range, nearb, farb. destruct rev; simpl.
    - rewrite filter_rev'. f_equal. apply filter_ext. intros kv. apply andb_comm.
    - reflexivity.
  Qed.

End DrainS.

(* ---------------- layer M (K = V = Z as in Hist.v) ---------------- *)

Section DrainM.
  Variable cmp : Z -> Z -> comparison.
  Hypothesis laws : cmp_laws cmp.

  Notation btree := (@btree Z Z).

  Lemma drain_M_sim : forall fuel (t : btree) (it : iter Z) (a : aiter Z) l,
    tree_ok cmp t -> iter_rel cmp t it a -> cur_exact t (it_c it) ->
    ai_drain Z Z cmp fuel (inorder (root t)) a = Some l ->
    drain_M cmp fuel t it = OList l.
  Proof.
    induction fuel as [|fu IH]; intros t it a l Hok Hrel Hex Hd; [discriminate|].
    simpl in Hd |- *.
    destruct (iter_next_sim cmp laws t it a Hok Hrel) as (it' & r & -> & Hrel' & _ & Hx).
    destruct (Hx Hex) as [-> Hex'].
    destruct (ai_next Z Z cmp (inorder (root t)) a) as [a' r'] eqn:Hn. simpl in *.
    destruct r' as [kv|].
    - destruct (ai_drain Z Z cmp fu (inorder (root t)) a') as [l'|] eqn:Hd'; [|discriminate].
      simpl in Hd. injection Hd as <-.
      rewrite (IH t it' a' l' Hok Hrel' Hex' Hd'). reflexivity.
    - injection Hd as <-. reflexivity.
  Qed.

  (* C02_refinement_partial (unmodified tree) = the TRange case of C01 *)
  Theorem range_drain (t : btree) lo hi fuel :
    tree_ok cmp t -> (length (inorder (root t)) < fuel)%nat ->
    exists it, range Z Z cmp 0 t lo hi = Ok it
      /\ drain_M cmp fuel t it = OList (sm_range Z Z cmp lo hi (inorder (root t))).
  Proof.
    intros Hok Hfuel.
    destruct (range_sim cmp 0 laws t lo hi Hok) as (it & Hr & Hrel & Hex).
    exists it. split; [exact Hr|].
    apply (drain_M_sim fuel t it _ _ Hok Hrel Hex).
    apply (ai_drain_range cmp laws false lo hi); [apply Hok|exact Hfuel].
  Qed.

  Theorem range_rev_drain (t : btree) lo hi fuel :
    tree_ok cmp t -> (length (inorder (root t)) < fuel)%nat ->
    exists it, range_rev Z Z cmp 0 t lo hi = Ok it
      /\ drain_M cmp fuel t it = OList (sm_range_rev Z Z cmp lo hi (inorder (root t))).
  Proof.
    intros Hok Hfuel.
    destruct (range_rev_sim cmp 0 laws t lo hi Hok) as (it & Hr & Hrel & Hex).
    exists it. split; [exact Hr|].
    apply (drain_M_sim fuel t it _ _ Hok Hrel Hex).
    apply (ai_drain_range cmp laws true lo hi); [apply Hok|exact Hfuel].
  Qed.

End DrainM.
