(* C02, searching: Cursor.find_in characterised through [inorder_pos] on a sorted tree, and the
   resulting specifications of seek_first / seek_last / SeekFirstGreaterOrEqual / SeekFirstGreater /
   SeekLastLessOrEqual / SeekLastLess: the cursor ends up parked on the first position of the
   suffix (resp. the last position of the prefix) determined by the key. *)
From Juniper Require Import Common.Base Tree.Bound Tree.BTree Tree.Cursor
  Tree.CProofsOrder Tree.CProofsTree Tree.CProofsCursor.
From Coq Require Import Sorted.

Section Seek.
  Context {K V : Type} (cmp : K -> K -> comparison).
  Hypothesis laws : cmp_laws cmp.

  Notation node := (@node K V).
  Notation btree := (@btree K V).
  Notation cursor := (@cursor K).
  Notation pos := (nat * Z * (K * V))%type.
  Notation ksorted := (ksorted (V:=V) cmp).

  Definition pkey (p : pos) : K := fst (snd p).
  (* the key of position p is strictly below / strictly above / at or above / at or below k *)
  Definition plt (k : K) (p : pos) : Prop := cmp (pkey p) k = Lt.
  Definition pgt (k : K) (p : pos) : Prop := cmp k (pkey p) = Lt.
  Definition pge (k : K) (p : pos) : Prop := cmp k (pkey p) <> Gt.
  Definition ple (k : K) (p : pos) : Prop := cmp (pkey p) k <> Gt.

  Definition psorted (l : list pos) : Prop := ksorted (map snd l).

  Lemma psorted_app l1 l2 :
    psorted (l1 ++ l2) ->
    psorted l1 /\ psorted l2 /\ (forall a b, In a l1 -> In b l2 -> cmp (pkey a) (pkey b) = Lt).
  Proof.
    unfold psorted. rewrite map_app. intros H. apply (ksorted_app cmp) in H.
    destruct H as (H1 & H2 & H3). repeat split; auto.
    intros a b Ha Hb. apply (H3 (snd a) (snd b)); apply in_map; assumption.
  Qed.

  Lemma psorted_cons_gt s l k :
    psorted (s :: l) -> cmp k (pkey s) <> Gt -> Forall (pgt k) l.
  Proof.
    intros Hs Hk. change (s :: l) with ([s] ++ l) in Hs. apply psorted_app in Hs.
    destruct Hs as (_ & _ & H). rewrite Forall_forall. intros b Hb. unfold pgt.
    eapply (c_le_lt_trans cmp laws); [exact Hk|]. apply H; [left; reflexivity|exact Hb].
  Qed.

  Lemma psorted_snoc_lt l s k :
    psorted (l ++ [s]) -> cmp (pkey s) k <> Gt -> Forall (plt k) l.
  Proof.
    intros Hs Hk. apply psorted_app in Hs.
    destruct Hs as (_ & _ & H). rewrite Forall_forall. intros a Ha. unfold plt.
    eapply (c_lt_le_trans cmp laws); [|exact Hk]. apply H; [exact Ha|left; reflexivity].
  Qed.

  Lemma psorted_mid l1 p l2 k :
    psorted (l1 ++ p :: l2) ->
    (cmp (pkey p) k <> Gt -> Forall (plt k) l1) /\ (cmp k (pkey p) <> Gt -> Forall (pgt k) l2).
  Proof.
    intros Hs. split; intros Hk.
    - change (l1 ++ p :: l2) with (l1 ++ [p] ++ l2) in Hs. rewrite app_assoc in Hs.
      apply psorted_app in Hs. destruct Hs as (Hs & _ & _). eapply psorted_snoc_lt; eauto.
    - apply psorted_app in Hs. destruct Hs as (_ & Hs & _). eapply psorted_cons_gt; eauto.
  Qed.

  (* ---------------- searchNode ---------------- *)

  Lemma search_node_spec k (kvs : list (K * V)) : forall idx found,
    search_node K V cmp k kvs = (idx, found) ->
    (idx <= length kvs)%nat
    /\ (forall j kv, (j < idx)%nat -> nth_error kvs j = Some kv -> cmp k (fst kv) = Gt)
    /\ (found = true -> exists kv, nth_error kvs idx = Some kv /\ cmp k (fst kv) = Eq)
    /\ (found = false -> forall kv, nth_error kvs idx = Some kv -> cmp k (fst kv) = Lt).
  Proof.
    induction kvs as [|[k' v'] r IH]; intros idx found H; simpl in H.
    - injection H as <- <-. simpl.
      split; [lia|]. split; [intros j kv Hj; lia|]. split; [discriminate|].
      intros _ kv Hkv. discriminate.
    - destruct (cmp k k') eqn:E.
      + injection H as <- <-. simpl.
        split; [lia|]. split; [intros j kv Hj; lia|]. split; [|discriminate].
        intros _. exists (k', v'). auto.
      + injection H as <- <-. simpl.
        split; [lia|]. split; [intros j kv Hj; lia|]. split; [discriminate|].
        intros _ kv [= <-]. exact E.
      + destruct (search_node K V cmp k r) as [i f] eqn:Hr. injection H as <- <-.
        destruct (IH i f eq_refl) as (H1 & H2 & H3 & H4). simpl.
        split; [lia|]. split; [|split; [exact H3|exact H4]].
        intros [|j] kv Hj Hkv; simpl in Hkv.
        * injection Hkv as <-. exact E.
        * apply (H2 j kv); [lia|exact Hkv].
  Qed.

  Lemma In_firstn_nth {A} (a : A) : forall n (l : list A),
    In a (firstn n l) -> exists j, (j < n)%nat /\ nth_error l j = Some a.
  Proof.
    induction n as [|n IH]; intros l H; simpl in H; [contradiction|].
    destruct l as [|x l]; simpl in H; [contradiction|].
    destruct H as [->|H].
    - exists O. split; [lia|reflexivity].
    - destruct (IH l H) as (j & Hj & Hn). exists (S j). split; [lia|exact Hn].
  Qed.

  (* ---------------- positions of a node ---------------- *)

  Lemma own_pos_at id (kvs : list (K * V)) n kv :
    nth_error kvs n = Some kv ->
    own_pos id 0 kvs
    = own_pos id 0 (firstn n kvs) ++ (id, Z.of_nat n, kv) :: own_pos id (S n) (skipn (S n) kvs).
  Proof.
    intros H. rewrite <- (firstn_skipn n kvs) at 1. rewrite own_pos_app.
    rewrite (skipn_nth_error_cons kvs n kv H). simpl.
    assert (Hlen : length (firstn n kvs) = n).
    { apply firstn_length_le. apply Nat.lt_le_incl. apply nth_error_Some. congruence. }
    rewrite Hlen. reflexivity.
  Qed.

  Lemma own_pos_keys id j (kvs : list (K * V)) p :
    In p (own_pos id j kvs) -> In (snd p) kvs.
  Proof.
    revert j. induction kvs as [|kv r IH]; simpl; intros j; [contradiction|].
    intros [<-|H]; [left; reflexivity|right; eauto].
  Qed.

  (* the separator j of an internal node sits between child j and the rest *)
  Lemma inorder_pos_sep ix (kvs : list (K * V)) (cs : list node) j kvj cj :
    cs <> [] -> length cs = S (length kvs) ->
    nth_error kvs j = Some kvj -> nth_error cs j = Some cj ->
    inorder_pos (Node ix kvs cs)
    = (ipre j (map inorder_pos cs) (own_pos ix 0 kvs) ++ inorder_pos cj)
      ++ (ix, Z.of_nat j, kvj)
         :: interleave (skipn (S j) (map inorder_pos cs)) (skipn (S j) (own_pos ix 0 kvs)).
  Proof.
    intros Hne Hlen Hk Hc.
    assert (E : inorder_pos (Node ix kvs cs) = interleave (map inorder_pos cs) (own_pos ix 0 kvs)).
    { destruct cs; [congruence|reflexivity]. }
    rewrite E. rewrite (interleave_child j _ _ (inorder_pos cj)).
    - unfold ipost. rewrite own_pos_nth, Hk. simpl. rewrite <- app_assoc. reflexivity.
    - rewrite nth_error_map, Hc. reflexivity.
    - rewrite map_length, own_pos_length. exact Hlen.
  Qed.

  Lemma inorder_pos_child ix (kvs : list (K * V)) (cs : list node) j cj :
    length cs = S (length kvs) -> nth_error cs j = Some cj ->
    inorder_pos (Node ix kvs cs)
    = ipre j (map inorder_pos cs) (own_pos ix 0 kvs) ++ inorder_pos cj
      ++ ipost j (map inorder_pos cs) (own_pos ix 0 kvs).
  Proof.
    intros Hlen Hc.
    assert (E : inorder_pos (Node ix kvs cs) = interleave (map inorder_pos cs) (own_pos ix 0 kvs)).
    { destruct cs; [destruct j; discriminate|reflexivity]. }
    rewrite E. apply interleave_child.
    - rewrite nth_error_map, Hc. reflexivity.
    - rewrite map_length, own_pos_length. exact Hlen.
  Qed.

  Lemma psorted_inorder (x : node) : psorted (inorder_pos x) <-> ksorted (inorder x).
  Proof. unfold psorted. rewrite inorder_pos_inorder. tauto. Qed.

  (* ---------------- find_in ---------------- *)

  Lemma find_in_eq id kvs cs k :
    find_in K V cmp (Node id kvs cs) k =
    let (idx, found) := search_node K V cmp k kvs in
    if found then (Node id kvs cs, Z.of_nat idx, true)
    else match cs with
         | [] => (Node id kvs cs,
                  if (idx =? length kvs)%nat then Z.of_nat idx - 1 else Z.of_nat idx, false)
         | _ => nth_map (fun c => find_in K V cmp c k) (dummy, -1, false) cs idx
         end.
  Proof. destruct cs; reflexivity. Qed.

  (* find_in lands on a position such that everything before it is below k and everything after
     it is above k; the flag says whether the position's key is equivalent to k. *)
  Lemma find_in_spec (x : node) k :
    shape_ok x -> psorted (inorder_pos x) ->
    forall y i found, find_in K V cmp x k = (y, i, found) ->
    exists l1 kv l2,
      inorder_pos x = l1 ++ (nid y, i, kv) :: l2 /\ zget (nkvs y) i = Some kv
      /\ Forall (plt k) l1 /\ Forall (pgt k) l2 /\ found = is_eq (cmp k (fst kv)).
  Proof.
    induction x as [ix kvs cs IH] using node_ind'.
    intros Hs Hsort y i found Hf. rewrite find_in_eq in Hf.
    destruct (search_node K V cmp k kvs) as [idx fnd] eqn:Hsn.
    destruct (search_node_spec k kvs idx fnd Hsn) as (Hidx & Hbefore & Hfound & Hnot).
    apply shape_ok_inv in Hs as Hs'. destruct Hs' as (Hne & Hcs & Hall).
    destruct fnd.
    - (* found in this node *)
      injection Hf as <- <- <-. destruct (Hfound eq_refl) as (kv & Hkv & Heq).
      assert (Hdec : exists l1 l2, inorder_pos (Node ix kvs cs) = l1 ++ (ix, Z.of_nat idx, kv) :: l2).
      { destruct cs as [|c0 cs0].
        - simpl. rewrite (own_pos_at ix kvs idx kv Hkv). eauto.
        - destruct Hcs as [Hcs|Hcs]; [discriminate|].
          destruct (nth_error (c0 :: cs0) idx) as [cj|] eqn:Hcj.
          2:{ apply nth_error_None in Hcj. lia. }
          rewrite (inorder_pos_sep ix kvs (c0 :: cs0) idx kv cj); eauto. discriminate. }
      destruct Hdec as (l1 & l2 & Hdec). exists l1, kv, l2.
      rewrite Hdec in Hsort. destruct (psorted_mid l1 _ l2 k Hsort) as [Hl Hg].
      split; [exact Hdec|]. split; [simpl; rewrite zget_of_nat; exact Hkv|].
      split; [apply Hl; unfold pkey; simpl; apply (c_eq_sym cmp laws) in Heq; congruence|].
      split; [apply Hg; unfold pkey; simpl; congruence|].
      rewrite Heq. reflexivity.
    - destruct cs as [|c0 cs0].
      + (* leaf, not found *)
        injection Hf as <- <- <-.
        destruct (idx =? length kvs)%nat eqn:Elen.
        * apply Nat.eqb_eq in Elen. subst idx.
          destruct (exists_last Hne) as (front & kvl & Hk).
          assert (Hnth : nth_error kvs (length front) = Some kvl).
          { rewrite Hk. rewrite nth_error_app2 by lia. rewrite Nat.sub_diag. reflexivity. }
          assert (Hlenk : length kvs = S (length front)).
          { rewrite Hk, app_length. simpl. lia. }
          exists (own_pos ix 0 (firstn (length front) kvs)), kvl,
                 (own_pos ix (S (length front)) (skipn (S (length front)) kvs)).
          replace (Z.of_nat (length kvs) - 1) with (Z.of_nat (length front)) by lia.
          split; [simpl; apply own_pos_at; exact Hnth|].
          split; [simpl; rewrite zget_of_nat; exact Hnth|].
          assert (Hgt : cmp k (fst kvl) = Gt) by (apply (Hbefore (length front)); [lia|exact Hnth]).
          split.
          { rewrite Forall_forall. intros p Hp. apply own_pos_keys in Hp.
            apply In_firstn_nth in Hp. destruct Hp as (j & Hjl & Hj).
            unfold plt, pkey. apply (c_gt_lt cmp laws). apply (Hbefore j); [lia|exact Hj]. }
          split.
          { rewrite skipn_all2 by lia. constructor. }
          rewrite Hgt. reflexivity.
        * apply Nat.eqb_neq in Elen.
          destruct (nth_error kvs idx) as [kv|] eqn:Hkv.
          2:{ apply nth_error_None in Hkv. lia. }
          pose proof (Hnot eq_refl kv eq_refl) as Hlt.
          exists (own_pos ix 0 (firstn idx kvs)), kv, (own_pos ix (S idx) (skipn (S idx) kvs)).
          assert (Hdec := own_pos_at ix kvs idx kv Hkv).
          split; [exact Hdec|]. split; [simpl; rewrite zget_of_nat; exact Hkv|].
          simpl in Hsort. rewrite Hdec in Hsort.
          destruct (psorted_mid _ _ _ k Hsort) as [_ Hg].
          split.
          { rewrite Forall_forall. intros p Hp. apply own_pos_keys in Hp.
            apply In_firstn_nth in Hp. destruct Hp as (j & Hjl & Hj).
            unfold plt, pkey. apply (c_gt_lt cmp laws). apply (Hbefore j); [lia|exact Hj]. }
          split; [apply Hg; unfold pkey; simpl; congruence|].
          rewrite Hlt. reflexivity.
      + (* internal, not found: descend into child idx *)
        set (cs := c0 :: cs0) in *.
        destruct Hcs as [Hcs|Hlen]; [discriminate|].
        destruct (nth_error cs idx) as [cj|] eqn:Hcj.
        2:{ apply nth_error_None in Hcj. lia. }
        rewrite (nth_map_nth _ _ cs idx cj Hcj) in Hf.
        rewrite (inorder_pos_child ix kvs cs idx cj Hlen Hcj) in Hsort |- *.
        set (pre := ipre idx (map inorder_pos cs) (own_pos ix 0 kvs)) in *.
        set (post := ipost idx (map inorder_pos cs) (own_pos ix 0 kvs)) in *.
        apply psorted_app in Hsort as Hs1. destruct Hs1 as (Hpre & Hrest & Hpr).
        apply psorted_app in Hrest as Hs2. destruct Hs2 as (Hcjs & Hpost & Hcp).
        rewrite Forall_forall in IH, Hall.
        destruct (IH cj (nth_error_In _ _ Hcj) (Hall cj (nth_error_In _ _ Hcj)) Hcjs y i found Hf)
          as (l1 & kv & l2 & Hdec & Hz & Hl1 & Hl2 & Hfd).
        exists (pre ++ l1), kv, (l2 ++ post).
        split; [rewrite Hdec, <- !app_assoc; reflexivity|]. split; [exact Hz|].
        split; [|split; [|exact Hfd]].
        * (* everything before child idx is below k *)
          apply Forall_app. split; [|exact Hl1].
          subst pre. destruct idx as [|j]; [constructor|].
          assert (Hjk : (j < length kvs)%nat).
          { assert (S j < length cs)%nat by (apply nth_error_Some; congruence). lia. }
          destruct (nth_error kvs j) as [kvj|] eqn:Hkj.
          2:{ apply nth_error_None in Hkj. lia. }
          destruct (nth_error (map inorder_pos cs) j) as [lj|] eqn:Hlj.
          2:{ apply nth_error_None in Hlj. rewrite map_length in Hlj. lia. }
          rewrite (ipre_snoc j _ _ lj (ix, Z.of_nat j, kvj) Hlj) in Hpre |- *.
          2,3: rewrite own_pos_nth, Hkj; reflexivity.
          rewrite app_assoc in Hpre |- *.
          assert (Hsep : cmp (fst kvj) k = Lt).
          { apply (c_gt_lt cmp laws). apply (Hbefore j); [lia|exact Hkj]. }
          apply Forall_app. split.
          -- eapply psorted_snoc_lt; [exact Hpre|]. unfold pkey. simpl. congruence.
          -- constructor; [exact Hsep|constructor].
        * (* everything after child idx is above k *)
          apply Forall_app. split; [exact Hl2|].
          subst post. unfold ipost in *. rewrite own_pos_nth in *.
          destruct (nth_error kvs idx) as [kvi|] eqn:Hki; simpl in *; [|constructor].
          pose proof (Hnot eq_refl kvi eq_refl) as Hlt.
          constructor; [exact Hlt|].
          eapply psorted_cons_gt; [exact Hpost|]. unfold pkey. simpl. congruence.
  Qed.

End Seek.
