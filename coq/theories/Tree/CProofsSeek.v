(* C02, searching: Cursor.find_in characterised through [inorder_pos] on a sorted tree, and the
   resulting specifications of seek_first / seek_last / SeekFirstGreaterOrEqual / SeekFirstGreater /
   SeekLastLessOrEqual / SeekLastLess: the cursor ends up parked on the first position of the
   suffix (resp. the last position of the prefix) determined by the key. *)
From Juniper Require Import Common.Base Tree.Bound Tree.BTree Tree.Cursor
  Tree.CProofsOrder Tree.CProofsTree Tree.CProofsCursor.
From Coq Require Import Sorted.

Section Seek.
  Context {K V : Type} (cmp : K -> K -> comparison).
  Hypothesis laws : cmp_laws cmp.

  Notation node := (@node K V).
  Notation btree := (@btree K V).
  Notation cursor := (@cursor K).
  Notation pos := (nat * Z * (K * V))%type.
  Notation ksorted := (ksorted (V:=V) cmp).

  Definition pkey (p : pos) : K := fst (snd p).
  (* the key of position p is strictly below / strictly above / at or above / at or below k *)
  Definition plt (k : K) (p : pos) : Prop := cmp (pkey p) k = Lt.
  Definition pgt (k : K) (p : pos) : Prop := cmp k (pkey p) = Lt.
  Definition pge (k : K) (p : pos) : Prop := cmp k (pkey p) <> Gt.
  Definition ple (k : K) (p : pos) : Prop := cmp (pkey p) k <> Gt.

  Definition psorted (l : list pos) : Prop := ksorted (map snd l).

  Lemma psorted_app l1 l2 :
    psorted (l1 ++ l2) ->
    psorted l1 /\ psorted l2 /\ (forall a b, In a l1 -> In b l2 -> cmp (pkey a) (pkey b) = Lt).
  Proof.
    unfold psorted. rewrite map_app. intros H. apply (ksorted_app cmp) in H.
    destruct H as (H1 & H2 & H3). repeat split; auto.
    intros a b Ha Hb. apply (H3 (snd a) (snd b)); apply in_map; assumption.
  Qed.

  Lemma psorted_cons_gt s l k :
    psorted (s :: l) -> cmp k (pkey s) <> Gt -> Forall (pgt k) l.
  Proof.
    intros Hs Hk. change (s :: l) with ([s] ++ l) in Hs. apply psorted_app in Hs.
    destruct Hs as (_ & _ & H). rewrite Forall_forall. intros b Hb. unfold pgt.
    eapply (c_le_lt_trans cmp laws); [exact Hk|]. apply H; [left; reflexivity|exact Hb].
  Qed.

  Lemma psorted_snoc_lt l s k :
    psorted (l ++ [s]) -> cmp (pkey s) k <> Gt -> Forall (plt k) l.
  Proof.
    intros Hs Hk. apply psorted_app in Hs.
    destruct Hs as (_ & _ & H). rewrite Forall_forall. intros a Ha. unfold plt.
    eapply (c_lt_le_trans cmp laws); [|exact Hk]. apply H; [exact Ha|left; reflexivity].
  Qed.

  Lemma psorted_mid l1 p l2 k :
    psorted (l1 ++ p :: l2) ->
    (cmp (pkey p) k <> Gt -> Forall (plt k) l1) /\ (cmp k (pkey p) <> Gt -> Forall (pgt k) l2).
  Proof.
    intros Hs. split; intros Hk.
    - change (l1 ++ p :: l2) with (l1 ++ [p] ++ l2) in Hs. rewrite app_assoc in Hs.
      apply psorted_app in Hs. destruct Hs as (Hs & _ & _). eapply psorted_snoc_lt; eauto.
    - apply psorted_app in Hs. destruct Hs as (_ & Hs & _). eapply psorted_cons_gt; eauto.
  Qed.

  (* ---------------- searchNode ---------------- *)

  Lemma search_node_spec k (kvs : list (K * V)) : forall idx found,
    search_node K V cmp k kvs = (idx, found) ->
    (idx <= length kvs)%nat
    /\ (forall j kv, (j < idx)%nat -> nth_error kvs j = Some kv -> cmp k (fst kv) = Gt)
    /\ (found = true -> exists kv, nth_error kvs idx = Some kv /\ cmp k (fst kv) = Eq)
    /\ (found = false -> forall kv, nth_error kvs idx = Some kv -> cmp k (fst kv) = Lt).
  Proof.
    induction kvs as [|[k' v'] r IH]; intros idx found H; simpl in H.
    - injection H as <- <-. simpl.
      split; [lia|]. split; [intros j kv Hj; lia|]. split; [discriminate|].
      intros _ kv Hkv. discriminate.
    - destruct (cmp k k') eqn:E.
      + injection H as <- <-. simpl.
        split; [lia|]. split; [intros j kv Hj; lia|]. split; [|discriminate].
        intros _. exists (k', v'). auto.
      + injection H as <- <-. simpl.
        split; [lia|]. split; [intros j kv Hj; lia|]. split; [discriminate|].
        intros _ kv [= <-]. exact E.
      + destruct (search_node K V cmp k r) as [i f] eqn:Hr. injection H as <- <-.
        destruct (IH i f eq_refl) as (H1 & H2 & H3 & H4). simpl.
        split; [lia|]. split; [|split; [exact H3|exact H4]].
        intros [|j] kv Hj Hkv; simpl in Hkv.
        * injection Hkv as <-. exact E.
        * apply (H2 j kv); [lia|exact Hkv].
  Qed.

  Lemma In_firstn_nth {A} (a : A) : forall n (l : list A),
    In a (firstn n l) -> exists j, (j < n)%nat /\ nth_error l j = Some a.
  Proof.
    induction n as [|n IH]; intros l H; simpl in H; [contradiction|].
    destruct l as [|x l]; simpl in H; [contradiction|].
    destruct H as [->|H].
    - exists O. split; [lia|reflexivity].
    - destruct (IH l H) as (j & Hj & Hn). exists (S j). split; [lia|exact Hn].
  Qed.

  (* ---------------- positions of a node ---------------- *)

  Lemma own_pos_at id (kvs : list (K * V)) n kv :
    nth_error kvs n = Some kv ->
    own_pos id 0 kvs
    = own_pos id 0 (firstn n kvs) ++ (id, Z.of_nat n, kv) :: own_pos id (S n) (skipn (S n) kvs).
  Proof.
    intros H. rewrite <- (firstn_skipn n kvs) at 1. rewrite own_pos_app.
    rewrite (skipn_nth_error_cons kvs n kv H). simpl.
    assert (Hlen : length (firstn n kvs) = n).
    { apply firstn_length_le. apply Nat.lt_le_incl. apply nth_error_Some. congruence. }
    rewrite Hlen. reflexivity.
  Qed.

  Lemma own_pos_keys id j (kvs : list (K * V)) p :
    In p (own_pos id j kvs) -> In (snd p) kvs.
  Proof.
    revert j. induction kvs as [|kv r IH]; simpl; intros j; [contradiction|].
    intros [<-|H]; [left; reflexivity|right; eauto].
  Qed.

  (* the separator j of an internal node sits between child j and the rest *)
  Lemma inorder_pos_sep ix (kvs : list (K * V)) (cs : list node) j kvj cj :
    cs <> [] -> length cs = S (length kvs) ->
    nth_error kvs j = Some kvj -> nth_error cs j = Some cj ->
    inorder_pos (Node ix kvs cs)
    = (ipre j (map inorder_pos cs) (own_pos ix 0 kvs) ++ inorder_pos cj)
      ++ (ix, Z.of_nat j, kvj)
         :: interleave (skipn (S j) (map inorder_pos cs)) (skipn (S j) (own_pos ix 0 kvs)).
  Proof.
    intros Hne Hlen Hk Hc.
    assert (E : inorder_pos (Node ix kvs cs) = interleave (map inorder_pos cs) (own_pos ix 0 kvs)).
    { destruct cs; [congruence|reflexivity]. }
    rewrite E. rewrite (interleave_child j _ _ (inorder_pos cj)).
    - unfold ipost. rewrite own_pos_nth, Hk. simpl. rewrite <- app_assoc. reflexivity.
    - rewrite nth_error_map, Hc. reflexivity.
    - rewrite map_length, own_pos_length. exact Hlen.
  Qed.

  Lemma inorder_pos_child ix (kvs : list (K * V)) (cs : list node) j cj :
    length cs = S (length kvs) -> nth_error cs j = Some cj ->
    inorder_pos (Node ix kvs cs)
    = ipre j (map inorder_pos cs) (own_pos ix 0 kvs) ++ inorder_pos cj
      ++ ipost j (map inorder_pos cs) (own_pos ix 0 kvs).
  Proof.
    intros Hlen Hc.
    assert (E : inorder_pos (Node ix kvs cs) = interleave (map inorder_pos cs) (own_pos ix 0 kvs)).
    { destruct cs; [destruct j; discriminate|reflexivity]. }
    rewrite E. apply interleave_child.
    - rewrite nth_error_map, Hc. reflexivity.
    - rewrite map_length, own_pos_length. exact Hlen.
  Qed.

  Lemma psorted_inorder (x : node) : psorted (inorder_pos x) <-> ksorted (inorder x).
  Proof. unfold psorted. rewrite inorder_pos_inorder. tauto. Qed.

  (* ---------------- find_in ---------------- *)

  Lemma find_in_eq id kvs cs k :
    find_in K V cmp (Node id kvs cs) k =
    let (idx, found) := search_node K V cmp k kvs in
    if found then (Node id kvs cs, Z.of_nat idx, true)
    else match cs with
         | [] => (Node id kvs cs,
                  if (idx =? length kvs)%nat then Z.of_nat idx - 1 else Z.of_nat idx, false)
         | _ => nth_map (fun c => find_in K V cmp c k) (dummy, -1, false) cs idx
         end.
  Proof. destruct cs; reflexivity. Qed.

  (* find_in lands on a position such that everything before it is below k and everything after
     it is above k; the flag says whether the position's key is equivalent to k. *)
  Lemma find_in_spec (x : node) k :
    shape_ok x -> psorted (inorder_pos x) ->
    forall y i found, find_in K V cmp x k = (y, i, found) ->
    exists l1 kv l2,
      inorder_pos x = l1 ++ (nid y, i, kv) :: l2 /\ zget (nkvs y) i = Some kv
      /\ Forall (plt k) l1 /\ Forall (pgt k) l2 /\ found = is_eq (cmp k (fst kv)).
  Proof.
    induction x as [ix kvs cs IH] using node_ind'.
    intros Hs Hsort y i found Hf. rewrite find_in_eq in Hf.
    destruct (search_node K V cmp k kvs) as [idx fnd] eqn:Hsn.
    destruct (search_node_spec k kvs idx fnd Hsn) as (Hidx & Hbefore & Hfound & Hnot).
    apply shape_ok_inv in Hs as Hs'. destruct Hs' as (Hne & Hcs & Hall).
    destruct fnd.
    - (* found in this node *)
      injection Hf as <- <- <-. destruct (Hfound eq_refl) as (kv & Hkv & Heq).
      assert (Hdec : exists l1 l2, inorder_pos (Node ix kvs cs) = l1 ++ (ix, Z.of_nat idx, kv) :: l2).
      { destruct cs as [|c0 cs0].
        - simpl. rewrite (own_pos_at ix kvs idx kv Hkv). eauto.
        - destruct Hcs as [Hcs|Hcs]; [discriminate|].
          destruct (nth_error (c0 :: cs0) idx) as [cj|] eqn:Hcj.
          2:{ apply nth_error_None in Hcj. lia. }
          rewrite (inorder_pos_sep ix kvs (c0 :: cs0) idx kv cj); eauto. discriminate. }
      destruct Hdec as (l1 & l2 & Hdec). exists l1, kv, l2.
      rewrite Hdec in Hsort. destruct (psorted_mid l1 _ l2 k Hsort) as [Hl Hg].
      split; [exact Hdec|]. split; [simpl; rewrite zget_of_nat; exact Hkv|].
      split; [apply Hl; unfold pkey; simpl; apply (c_eq_sym cmp laws) in Heq; congruence|].
      split; [apply Hg; unfold pkey; simpl; congruence|].
      rewrite Heq. reflexivity.
    - destruct cs as [|c0 cs0].
      + (* leaf, not found *)
        injection Hf as <- <- <-.
        destruct (idx =? length kvs)%nat eqn:Elen.
        * apply Nat.eqb_eq in Elen. subst idx.
          destruct (exists_last Hne) as (front & kvl & Hk).
          assert (Hnth : nth_error kvs (length front) = Some kvl).
          { rewrite Hk. rewrite nth_error_app2 by lia. rewrite Nat.sub_diag. reflexivity. }
          assert (Hlenk : length kvs = S (length front)).
          { rewrite Hk, app_length. simpl. lia. }
          exists (own_pos ix 0 (firstn (length front) kvs)), kvl,
                 (own_pos ix (S (length front)) (skipn (S (length front)) kvs)).
          replace (Z.of_nat (length kvs) - 1) with (Z.of_nat (length front)) by lia.
          split; [simpl; apply own_pos_at; exact Hnth|].
          split; [simpl; rewrite zget_of_nat; exact Hnth|].
          assert (Hgt : cmp k (fst kvl) = Gt) by (apply (Hbefore (length front)); [lia|exact Hnth]).
          split.
          { rewrite Forall_forall. intros p Hp. apply own_pos_keys in Hp.
            apply In_firstn_nth in Hp. destruct Hp as (j & Hjl & Hj).
            unfold plt, pkey. apply (c_gt_lt cmp laws). apply (Hbefore j); [lia|exact Hj]. }
          split.
          { rewrite skipn_all2 by lia. constructor. }
          rewrite Hgt. reflexivity.
        * apply Nat.eqb_neq in Elen.
          destruct (nth_error kvs idx) as [kv|] eqn:Hkv.
          2:{ apply nth_error_None in Hkv. lia. }
          pose proof (Hnot eq_refl kv eq_refl) as Hlt.
          exists (own_pos ix 0 (firstn idx kvs)), kv, (own_pos ix (S idx) (skipn (S idx) kvs)).
          assert (Hdec := own_pos_at ix kvs idx kv Hkv).
          split; [exact Hdec|]. split; [simpl; rewrite zget_of_nat; exact Hkv|].
          simpl in Hsort. rewrite Hdec in Hsort.
          destruct (psorted_mid _ _ _ k Hsort) as [_ Hg].
          split.
          { rewrite Forall_forall. intros p Hp. apply own_pos_keys in Hp.
            apply In_firstn_nth in Hp. destruct Hp as (j & Hjl & Hj).
            unfold plt, pkey. apply (c_gt_lt cmp laws). apply (Hbefore j); [lia|exact Hj]. }
          split; [apply Hg; unfold pkey; simpl; congruence|].
          rewrite Hlt. reflexivity.
      + (* internal, not found: descend into child idx *)
        set (cs := c0 :: cs0) in *.
        destruct Hcs as [Hcs|Hlen]; [discriminate|].
        destruct (nth_error cs idx) as [cj|] eqn:Hcj.
        2:{ apply nth_error_None in Hcj. lia. }
        rewrite (nth_map_nth _ _ cs idx cj Hcj) in Hf.
        rewrite (inorder_pos_child ix kvs cs idx cj Hlen Hcj) in Hsort |- *.
        set (pre := ipre idx (map inorder_pos cs) (own_pos ix 0 kvs)) in *.
        set (post := ipost idx (map inorder_pos cs) (own_pos ix 0 kvs)) in *.
        apply psorted_app in Hsort as Hs1. destruct Hs1 as (Hpre & Hrest & Hpr).
        apply psorted_app in Hrest as Hs2. destruct Hs2 as (Hcjs & Hpost & Hcp).
        rewrite Forall_forall in IH, Hall.
        destruct (IH cj (nth_error_In _ _ Hcj) (Hall cj (nth_error_In _ _ Hcj)) Hcjs y i found Hf)
          as (l1 & kv & l2 & Hdec & Hz & Hl1 & Hl2 & Hfd).
        exists (pre ++ l1), kv, (l2 ++ post).
        split; [rewrite Hdec, <- !app_assoc; reflexivity|]. split; [exact Hz|].
        split; [|split; [|exact Hfd]].
        * (* everything before child idx is below k *)
          apply Forall_app. split; [|exact Hl1].
          subst pre. destruct idx as [|j]; [constructor|].
          assert (Hjk : (j < length kvs)%nat).
          { assert (S j < length cs)%nat by (apply nth_error_Some; congruence). lia. }
          destruct (nth_error kvs j) as [kvj|] eqn:Hkj.
          2:{ apply nth_error_None in Hkj. lia. }
          destruct (nth_error (map inorder_pos cs) j) as [lj|] eqn:Hlj.
          2:{ apply nth_error_None in Hlj. rewrite map_length in Hlj. lia. }
          rewrite (ipre_snoc j _ _ lj (ix, Z.of_nat j, kvj) Hlj) in Hpre |- *.
          2,3: rewrite own_pos_nth, Hkj; reflexivity.
          rewrite app_assoc in Hpre |- *.
          assert (Hsep : cmp (fst kvj) k = Lt).
          { apply (c_gt_lt cmp laws). apply (Hbefore j); [lia|exact Hkj]. }
          apply Forall_app. split.
          -- eapply psorted_snoc_lt; [exact Hpre|]. unfold pkey. simpl. congruence.
          -- constructor; [exact Hsep|constructor].
        * (* everything after child idx is above k *)
          apply Forall_app. split; [exact Hl2|].
          subst post. unfold ipost in *. rewrite own_pos_nth in *.
          destruct (nth_error kvs idx) as [kvi|] eqn:Hki; simpl in *; [|constructor].
          pose proof (Hnot eq_refl kvi eq_refl) as Hlt.
          constructor; [exact Hlt|].
          eapply psorted_cons_gt; [exact Hpost|]. unfold pkey. simpl. congruence.
  Qed.

  (* ---------------- a valid (node, index) is a position of the list and conversely ------------- *)

  Lemma zget_nat {A} (l : list A) i a :
    zget l i = Some a -> exists n, i = Z.of_nat n /\ nth_error l n = Some a.
  Proof.
    unfold zget. destruct (i <? 0) eqn:E; [discriminate|]. apply Z.ltb_ge in E.
    intros H. exists (Z.to_nat i). split; [lia|exact H].
  Qed.

  Lemma pos_of_node (x : node) :
    shape_ok x -> forall id y i kv,
    find_node id x = Some y -> zget (nkvs y) i = Some kv ->
    exists l1 l2, inorder_pos x = l1 ++ (id, i, kv) :: l2.
  Proof.
    induction x as [ix kvs cs IH] using node_ind'. intros Hs id y i kv Hf Hz.
    apply shape_ok_inv in Hs as Hs'. destruct Hs' as (Hne & Hcs & Hall).
    simpl in Hf. destruct (ix =? id)%nat eqn:E.
    - apply Nat.eqb_eq in E. subst id. injection Hf as <-. simpl in Hz.
      apply zget_nat in Hz. destruct Hz as (n & -> & Hn).
      destruct cs as [|c0 cs0].
      + simpl. rewrite (own_pos_at ix kvs n kv Hn). eauto.
      + destruct Hcs as [Hcs|Hcs]; [discriminate|].
        assert (Hlt : (n < length kvs)%nat) by (apply nth_error_Some; congruence).
        destruct (nth_error (c0 :: cs0) n) as [cj|] eqn:Hcj.
        2:{ apply nth_error_None in Hcj. lia. }
        rewrite (inorder_pos_sep ix kvs (c0 :: cs0) n kv cj); eauto. discriminate.
    - apply first_some_i_some in Hf. destruct Hf as (j & c & Hj & Hfc). simpl in Hfc.
      destruct Hcs as [->|Hlen]; [destruct j; discriminate|].
      rewrite Forall_forall in IH, Hall.
      destruct (IH c (nth_error_In _ _ Hj) (Hall c (nth_error_In _ _ Hj)) id y i kv Hfc Hz)
        as (l1 & l2 & Hdec).
      rewrite (inorder_pos_child ix kvs cs j c Hlen Hj), Hdec.
      exists (ipre j (map inorder_pos cs) (own_pos ix 0 kvs) ++ l1),
             (l2 ++ ipost j (map inorder_pos cs) (own_pos ix 0 kvs)).
      rewrite <- !app_assoc. reflexivity.
  Qed.

  (* ---------------- the tree invariant used by the cursor proofs ---------------- *)

  Record tree_ok (t : btree) : Prop := mk_tree_ok {
    tk_root : root_ok (root t);
    tk_ids : NoDup (ids (root t));
    tk_sorted : ksorted (inorder (root t))
  }.

  Lemma root_empty_pos (x : node) : nkvs x = [] -> ncs x = [] -> inorder_pos x = [].
  Proof. destruct x as [id kvs cs]. simpl. intros -> ->. reflexivity. Qed.

  Lemma root_ok_cases (x : node) :
    root_ok x -> (shape_ok x /\ node_n K V x <> 0) \/ (inorder_pos x = [] /\ node_n K V x = 0).
  Proof.
    intros [Hs|[Hk Hc]].
    - left. split; auto. destruct x as [id kvs cs]. apply shape_ok_inv in Hs.
      destruct Hs as (Hne & _). unfold node_n, zlen. simpl. destruct kvs; [congruence|simpl; lia].
    - right. split; [apply root_empty_pos; auto|]. unfold node_n. rewrite Hk. reflexivity.
  Qed.

  (* the cursor is parked on the head of l (with generation g), or off the edge if l is empty *)
  Definition parked_hd (c : cursor) (g : Z) (l : list pos) : Prop :=
    match l with
    | p :: _ => c = cur_at p g
    | [] => curr c = None
    end.

  (* a position of the list is a valid cursor position; Next/Prev from it *)
  Lemma pos_step (t : btree) (c : cursor) l1 id i kv l2 :
    tree_ok t -> inorder_pos (root t) = l1 ++ (id, i, kv) :: l2 ->
    curr c = Some id -> ci c = i ->
    (exists y, find_node id (root t) = Some y /\ zget (nkvs y) i = Some kv)
    /\ (exists c', next_body K V t c = Ok c' /\ parked_hd c' (cgen c) l2)
    /\ (exists c', prev_body K V t c = Ok c' /\ parked_hd c' (cgen c) (rev l1)).
  Proof.
    intros [Hroot Hnd _] Hdec Hc Hi.
    destruct (root_ok_cases _ Hroot) as [[Hs _]|[He _]].
    2:{ rewrite He in Hdec. destruct l1; discriminate. }
    destruct (next_in_subtree (root t) Hs Hnd [] c l1 id i kv l2 Hdec Hc Hi)
      as (y & q & Hf & Hp & Hz & Hn1 & Hn2).
    destruct (prev_in_subtree (root t) Hs Hnd [] c l1 id i kv l2 Hdec Hc Hi)
      as (y' & q' & Hf' & Hp' & _ & Hp1 & Hp2).
    rewrite Hf in Hf'. injection Hf' as <-. rewrite Hp in Hp'. injection Hp' as <-.
    rewrite app_nil_r in *.
    split; [eauto|]. split.
    - rewrite (next_body_nb t c id y q Hc Hf Hp).
      destruct l2 as [|p' l2'].
      + destruct (Hn2 eq_refl) as (c1 & Hg & ->). simpl. eexists. split; [reflexivity|]. reflexivity.
      + rewrite (Hn1 p' l2' eq_refl). eexists. split; [reflexivity|]. reflexivity.
    - rewrite (prev_body_pb t c id y q Hc Hf Hp).
      destruct (snoc_cases l1) as [->|(l1' & p' & ->)].
      + destruct (Hp2 eq_refl) as (c1 & Hg & ->). simpl. eexists. split; [reflexivity|]. reflexivity.
      + rewrite (Hp1 p' l1' eq_refl). rewrite rev_unit. eexists. split; [reflexivity|]. reflexivity.
  Qed.

  Lemma lost_fresh (t : btree) (c : cursor) : cgen c = gen t -> lost K V cmp t c = Ok false.
  Proof. intros H. unfold lost. rewrite H, Z.eqb_refl. reflexivity. Qed.

  Lemma lost_nil (t : btree) (c : cursor) : curr c = None -> lost K V cmp t c = Ok false.
  Proof. intros H. unfold lost. rewrite H. destruct (cgen c =? gen t); reflexivity. Qed.

  (* ---------------- seek ---------------- *)

  Lemma seek_spec (t : btree) (c : cursor) k :
    tree_ok t ->
    (inorder_pos (root t) = [] /\ seek K V cmp t c k = Ok (mkCursor None 0 (ck c) (cgen c), false))
    \/ (exists l1 p l2, inorder_pos (root t) = l1 ++ p :: l2
          /\ Forall (plt k) l1 /\ Forall (pgt k) l2
          /\ seek K V cmp t c k = Ok (cur_at p (gen t), true)).
  Proof.
    intros [Hroot Hnd Hsort]. unfold seek, find.
    destruct (root_ok_cases _ Hroot) as [[Hs Hn]|[He Hn]].
    - right. apply Z.eqb_neq in Hn. rewrite Hn.
      destruct (find_in K V cmp (root t) k) as [[y i] found] eqn:Hf.
      apply psorted_inorder in Hsort.
      destruct (find_in_spec (root t) k Hs Hsort y i found Hf)
        as (l1 & kv & l2 & Hdec & Hz & Hl1 & Hl2 & _).
      exists l1, (nid y, i, kv), l2. repeat split; auto.
      unfold key_at. rewrite Hz. reflexivity.
    - left. split; auto. rewrite Hn. reflexivity.
  Qed.

  Lemma plt_ple k p : plt k p -> ple k p.
  Proof. unfold plt, ple. congruence. Qed.
  Lemma pgt_pge k p : pgt k p -> pge k p.
  Proof. unfold pgt, pge. congruence. Qed.

  Lemma cursor_next1_fresh (t : btree) (c : cursor) :
    cgen c = gen t -> cursor_next1 K V cmp t c = next_body K V t c.
  Proof. intros H. unfold cursor_next1, next_with. rewrite (lost_fresh t c H). reflexivity. Qed.

  Lemma cursor_prev1_fresh (t : btree) (c : cursor) :
    cgen c = gen t -> cursor_prev1 K V cmp t c = prev_body K V t c.
  Proof. intros H. unfold cursor_prev1, prev_with. rewrite (lost_fresh t c H). reflexivity. Qed.

  (* the four seeks, as a split of the position list *)

  (* SeekFirstGreaterOrEqual: parked on the first position with key >= k *)
  Lemma sfge_spec (t : btree) (c : cursor) k :
    tree_ok t ->
    exists c' P1 P2,
      seek_first_greater_or_equal K V cmp t c k = Ok c'
      /\ inorder_pos (root t) = P1 ++ P2 /\ Forall (plt k) P1 /\ Forall (pge k) P2
      /\ parked_hd c' (gen t) P2.
  Proof.
    intros Hok. unfold seek_first_greater_or_equal.
    destruct (seek_spec t c k Hok) as [[He ->]|(l1 & p & l2 & Hdec & Hl1 & Hl2 & ->)]; simpl.
    - exists (mkCursor None 0 (ck c) (cgen c)), [], []. rewrite He. repeat split; auto.
    - destruct p as [[id i] kv].
      destruct (pos_step t (cur_at (id, i, kv) (gen t)) l1 id i kv l2 Hok Hdec eq_refl eq_refl)
        as (_ & (c' & Hn & Hp) & _).
      simpl.
      destruct (cmp k (fst kv)) eqn:E; simpl.
      + exists (cur_at (id, i, kv) (gen t)), l1, ((id, i, kv) :: l2). repeat split; auto.
        constructor; [unfold pge, pkey; simpl; congruence|]. eapply Forall_impl; [apply pgt_pge|exact Hl2].
      + exists (cur_at (id, i, kv) (gen t)), l1, ((id, i, kv) :: l2). repeat split; auto.
        constructor; [unfold pge, pkey; simpl; congruence|]. eapply Forall_impl; [apply pgt_pge|exact Hl2].
      + rewrite cursor_next1_fresh by reflexivity.
        exists c', (l1 ++ [(id, i, kv)]), l2. rewrite <- app_assoc. repeat split; auto.
        * apply Forall_app. split; auto. constructor; [|constructor].
          unfold plt, pkey. simpl in *. apply (c_gt_lt cmp laws). exact E.
        * eapply Forall_impl; [apply pgt_pge|exact Hl2].
  Qed.

  (* SeekFirstGreater: parked on the first position with key > k *)
  Lemma sfg_spec (t : btree) (c : cursor) k :
    tree_ok t ->
    exists c' P1 P2,
      seek_first_greater K V cmp t c k = Ok c'
      /\ inorder_pos (root t) = P1 ++ P2 /\ Forall (ple k) P1 /\ Forall (pgt k) P2
      /\ parked_hd c' (gen t) P2.
  Proof.
    intros Hok. unfold seek_first_greater.
    destruct (seek_spec t c k Hok) as [[He ->]|(l1 & p & l2 & Hdec & Hl1 & Hl2 & ->)]; simpl.
    - exists (mkCursor None 0 (ck c) (cgen c)), [], []. rewrite He. repeat split; auto.
    - assert (Hl1' : Forall (ple k) l1) by (eapply Forall_impl; [apply plt_ple|exact Hl1]).
      destruct p as [[id i] kv].
      destruct (pos_step t (cur_at (id, i, kv) (gen t)) l1 id i kv l2 Hok Hdec eq_refl eq_refl)
        as (_ & (c' & Hn & Hp) & _).
      simpl.
      destruct (cmp k (fst kv)) eqn:E; simpl.
      + rewrite cursor_next1_fresh by reflexivity.
        exists c', (l1 ++ [(id, i, kv)]), l2. rewrite <- app_assoc. repeat split; auto.
        apply Forall_app. split; auto. constructor; [|constructor].
        unfold ple, pkey. simpl in *. rewrite (c_eq_sym cmp laws _ _ E). congruence.
      + exists (cur_at (id, i, kv) (gen t)), l1, ((id, i, kv) :: l2). repeat split; auto.
      + rewrite cursor_next1_fresh by reflexivity.
        exists c', (l1 ++ [(id, i, kv)]), l2. rewrite <- app_assoc. repeat split; auto.
        apply Forall_app. split; auto. constructor; [|constructor].
        unfold ple, pkey. simpl in *. apply (c_gt_lt cmp laws) in E. congruence.
  Qed.

  (* SeekLastLessOrEqual: parked on the last position with key <= k *)
  Lemma slle_spec (t : btree) (c : cursor) k :
    tree_ok t ->
    exists c' P1 P2,
      seek_last_less_or_equal K V cmp t c k = Ok c'
      /\ inorder_pos (root t) = P1 ++ P2 /\ Forall (ple k) P1 /\ Forall (pgt k) P2
      /\ parked_hd c' (gen t) (rev P1).
  Proof.
    intros Hok. unfold seek_last_less_or_equal.
    destruct (seek_spec t c k Hok) as [[He ->]|(l1 & p & l2 & Hdec & Hl1 & Hl2 & ->)]; simpl.
    - exists (mkCursor None 0 (ck c) (cgen c)), [], []. rewrite He. repeat split; auto.
    - assert (Hl1' : Forall (ple k) l1) by (eapply Forall_impl; [apply plt_ple|exact Hl1]).
      destruct p as [[id i] kv].
      destruct (pos_step t (cur_at (id, i, kv) (gen t)) l1 id i kv l2 Hok Hdec eq_refl eq_refl)
        as (_ & _ & (c' & Hn & Hp)).
      simpl.
      destruct (cmp k (fst kv)) eqn:E; simpl.
      + exists (cur_at (id, i, kv) (gen t)), (l1 ++ [(id, i, kv)]), l2.
        rewrite <- app_assoc, rev_unit. repeat split; auto.
        apply Forall_app. split; auto. constructor; [|constructor].
        unfold ple, pkey. simpl in *. rewrite (c_eq_sym cmp laws _ _ E). congruence.
      + rewrite cursor_prev1_fresh by reflexivity.
        exists c', l1, ((id, i, kv) :: l2). repeat split; auto.
      + exists (cur_at (id, i, kv) (gen t)), (l1 ++ [(id, i, kv)]), l2.
        rewrite <- app_assoc, rev_unit. repeat split; auto.
        apply Forall_app. split; auto. constructor; [|constructor].
        unfold ple, pkey. simpl in *. apply (c_gt_lt cmp laws) in E. congruence.
  Qed.

  (* SeekLastLess: parked on the last position with key < k *)
  Lemma sll_spec (t : btree) (c : cursor) k :
    tree_ok t ->
    exists c' P1 P2,
      seek_last_less K V cmp t c k = Ok c'
      /\ inorder_pos (root t) = P1 ++ P2 /\ Forall (plt k) P1 /\ Forall (pge k) P2
      /\ parked_hd c' (gen t) (rev P1).
  Proof.
    intros Hok. unfold seek_last_less.
    destruct (seek_spec t c k Hok) as [[He ->]|(l1 & p & l2 & Hdec & Hl1 & Hl2 & ->)]; simpl.
    - exists (mkCursor None 0 (ck c) (cgen c)), [], []. rewrite He. repeat split; auto.
    - assert (Hl2' : Forall (pge k) l2) by (eapply Forall_impl; [apply pgt_pge|exact Hl2]).
      destruct p as [[id i] kv].
      destruct (pos_step t (cur_at (id, i, kv) (gen t)) l1 id i kv l2 Hok Hdec eq_refl eq_refl)
        as (_ & _ & (c' & Hn & Hp)).
      simpl.
      destruct (cmp k (fst kv)) eqn:E; simpl.
      + rewrite cursor_prev1_fresh by reflexivity.
        exists c', l1, ((id, i, kv) :: l2). repeat split; auto.
        constructor; auto. unfold pge, pkey. simpl in *. congruence.
      + rewrite cursor_prev1_fresh by reflexivity.
        exists c', l1, ((id, i, kv) :: l2). repeat split; auto.
        constructor; auto. unfold pge, pkey. simpl in *. congruence.
      + exists (cur_at (id, i, kv) (gen t)), (l1 ++ [(id, i, kv)]), l2.
        rewrite <- app_assoc, rev_unit. repeat split; auto.
        apply Forall_app. split; auto. constructor; [|constructor].
        unfold plt, pkey. simpl in *. apply (c_gt_lt cmp laws). exact E.
  Qed.

  Lemma seek_first_spec (t : btree) (c : cursor) :
    tree_ok t ->
    exists c', seek_first K V t c = Ok c' /\ parked_hd c' (gen t) (inorder_pos (root t)).
  Proof.
    intros [Hroot _ _]. unfold seek_first.
    destruct (root_ok_cases _ Hroot) as [[Hs Hn]|[He Hn]].
    - apply Z.eqb_neq in Hn. rewrite Hn.
      destruct (inorder_pos_head (root t) Hs) as (kv & rest & restp & Hk & _ & Hp).
      change 0 with (Z.of_nat 0).
      rewrite (key_at_nat (leftmost_leaf (root t)) 0 kv); [|rewrite Hk; reflexivity].
      simpl. eexists. split; [reflexivity|]. rewrite Hp. reflexivity.
    - rewrite Hn. simpl. eexists. split; [reflexivity|]. rewrite He. reflexivity.
  Qed.

  Lemma seek_last_spec (t : btree) (c : cursor) :
    tree_ok t ->
    exists c', seek_last K V t c = Ok c' /\ parked_hd c' (gen t) (rev (inorder_pos (root t))).
  Proof.
    intros [Hroot _ _]. unfold seek_last.
    destruct (root_ok_cases _ Hroot) as [[Hs Hn]|[He Hn]].
    - apply Z.eqb_neq in Hn. rewrite Hn.
      destruct (inorder_pos_last (root t) Hs) as (kv & front & frontp & Hk & _ & Hp).
      unfold node_n. rewrite Hk, zlen_app.
      replace (zlen front + zlen [kv] - 1) with (Z.of_nat (length front))
        by (unfold zlen; simpl; lia).
      rewrite (key_at_nat (rightmost_leaf (root t)) (length front) kv).
      2:{ rewrite Hk. rewrite nth_error_app2 by lia. rewrite Nat.sub_diag. reflexivity. }
      simpl. eexists. split; [reflexivity|]. rewrite Hp, rev_unit. reflexivity.
    - rewrite Hn. simpl. eexists. split; [reflexivity|]. rewrite He. reflexivity.
  Qed.

End Seek.
