(* C02, part A: the clauses of the property proved on layer S (AIter.ai_next over SMap) for an
   arbitrary comparison satisfying cmp_laws, for ALL interleavings of mutations and Next calls.

   An interleaving seen from one iterator is a "session": a list of rounds, each round being the
   list of mutations (sm_put / sm_del of any keys) applied since the previous Next call, followed
   by one Next call.  [ai_run m a rs] is its trace: for every Next call the map at that moment, the
   iterator state before the call and the result of the call.  (CProofsHist.v shows that the
   outputs of iterator j in [Hist.run_S] are exactly such a trace.)

   Everything is direction-generic: [dcmp cmp rev] is the comparison read in the direction of
   travel and [trav rev m] the map in that order. *)
From Juniper Require Import Common.Base Tree.Bound Tree.SMap Tree.AIter Tree.CProofsOrder.
From Coq Require Import Sorted.

Section Spec.
  Context {K V : Type} (cmp : K -> K -> comparison).
  Hypothesis laws : cmp_laws cmp.

  Notation smap := (smap K V).
  Notation aiter := (aiter K).
  Notation ai_next := (ai_next K V cmp).
  Notation ai_new := (ai_new K V cmp).
  Notation ksorted := (ksorted (V:=V) cmp).
  Notation has_key := (has_key (V:=V) cmp).
  Notation far_ok := (ai_far_ok K cmp).

  (* the map in the order of travel *)
  Definition trav (rev : bool) (m : smap) : smap := if rev then List.rev m else m.
  (* a is strictly before / not after b in the direction of travel *)
  Definition dlt (rev : bool) (a b : K) : Prop := dcmp cmp rev a b = Lt.
  Definition dle (rev : bool) (a b : K) : Prop := dcmp cmp rev a b <> Gt.
  (* the near bound: lower for forward, upper for reverse (the far bound is AIter.ai_far_ok) *)
  Definition near_ok (a : aiter) (k : K) : bool :=
    if ai_rev a then in_hi K cmp (ai_hi a) k else in_lo K cmp (ai_lo a) k.

  Let D (rev : bool) : cmp_laws (dcmp cmp rev) := dcmp_laws cmp rev laws.

  Lemma dlt_dle rev a b : dlt rev a b -> dle rev a b.
  Proof. unfold dlt, dle. congruence. Qed.

  Lemma dle_refl rev a : dle rev a a.
  Proof. unfold dle. rewrite (c_refl _ (D rev)). congruence. Qed.

  Lemma dle_trans rev a b c : dle rev a b -> dle rev b c -> dle rev a c.
  Proof. apply (c_le_trans _ (D rev)). Qed.

  Lemma dlt_dle_trans rev a b c : dlt rev a b -> dle rev b c -> dlt rev a c.
  Proof. apply (c_lt_le_trans _ (D rev)). Qed.

  Lemma dle_dlt_trans rev a b c : dle rev a b -> dlt rev b c -> dlt rev a c.
  Proof. apply (c_le_lt_trans _ (D rev)). Qed.

  Lemma dlt_asym rev a b : dlt rev a b -> dle rev b a -> False.
  Proof. apply (c_lt_not_ge _ (D rev)). Qed.

  Lemma dcmp_eq rev a b : dcmp cmp rev a b = Eq <-> cmp a b = Eq.
  Proof.
    destruct rev; simpl; [|tauto]. split; apply (c_eq_sym cmp laws).
  Qed.

  Lemma eq_dle rev a b : cmp a b = Eq -> dle rev a b.
  Proof. intros H. apply dcmp_eq with (rev := rev) in H. unfold dle. congruence. Qed.

  Lemma near_ok_up a k k' : near_ok a k = true -> dle (ai_rev a) k k' -> near_ok a k' = true.
  Proof.
    unfold near_ok, dle, dcmp. destruct (ai_rev a).
    - intros H1 H2. eapply (in_hi_down cmp laws); eauto.
    - intros H1 H2. eapply (in_lo_up cmp laws); eauto.
  Qed.

  Lemma far_ok_down a k k' : far_ok a k' = true -> dle (ai_rev a) k k' -> far_ok a k = true.
  Proof.
    unfold ai_far_ok, dle, dcmp. destruct (ai_rev a).
    - intros H1 H2. eapply (in_lo_up cmp laws); eauto.
    - intros H1 H2. eapply (in_hi_down cmp laws); eauto.
  Qed.

  Lemma far_ok_equiv a k k' : cmp k k' = Eq -> far_ok a k = far_ok a k'.
  Proof.
    intros H. unfold ai_far_ok. destruct (ai_rev a).
    - apply (in_lo_equiv cmp laws); auto.
    - apply (in_hi_equiv cmp laws); auto.
  Qed.

  Lemma near_ok_equiv a k k' : cmp k k' = Eq -> near_ok a k = near_ok a k'.
  Proof.
    intros H. unfold near_ok. destruct (ai_rev a).
    - apply (in_hi_equiv cmp laws); auto.
    - apply (in_lo_equiv cmp laws); auto.
  Qed.

  Lemma in_range_near_far a k :
    in_range K cmp (ai_lo a) (ai_hi a) k = true <-> near_ok a k = true /\ far_ok a k = true.
  Proof.
    unfold in_range, near_ok, ai_far_ok. rewrite andb_true_iff. destruct (ai_rev a); tauto.
  Qed.

  Lemma In_trav rev kv m : In kv (trav rev m) <-> In kv m.
  Proof. destruct rev; simpl; [|tauto]. symmetry. apply in_rev. Qed.

  Lemma trav_sorted rev m : ksorted m -> CProofsOrder.ksorted (dcmp cmp rev) (trav rev m).
  Proof.
    destruct rev; simpl; intros H.
    - apply ksorted_rev in H. exact H.
    - exact H.
  Qed.

  Lemma ai_cands_trav rev p m :
    ai_cands K V cmp rev p m
    = filter (fun kv => is_ge (dcmp cmp rev (fst kv) p)) (trav rev m).
  Proof.
    destruct rev; unfold ai_cands, trav, dcmp.
    - rewrite filter_rev'. f_equal. apply filter_ext. intros kv. apply (is_le_ge cmp laws).
    - reflexivity.
  Qed.

  (* ---- one Next call, read in the direction of travel ---- *)

  (* With pending position p and not cut: split the map (in travel order) at p; the first entry at
     or beyond p is examined; the new pending position is the key of the entry after it. *)
  Lemma ai_next_spec m a p :
    ksorted m -> ai_cut a = false -> ai_pos a = Some p ->
    exists l1 l2, trav (ai_rev a) m = l1 ++ l2
      /\ Forall (fun kv => dlt (ai_rev a) (fst kv) p) l1
      /\ Forall (fun kv => dle (ai_rev a) p (fst kv)) l2
      /\ CProofsOrder.ksorted (dcmp cmp (ai_rev a)) l2
      /\ ai_next m a =
         match l2 with
         | [] => (mkAIter (ai_rev a) None (ai_lo a) (ai_hi a) false, None)
         | f :: rest =>
             (mkAIter (ai_rev a) (option_map fst (hd_error rest)) (ai_lo a) (ai_hi a)
                      (negb (far_ok a (fst f))),
              if far_ok a (fst f) then Some f else None)
         end.
  Proof.
    intros Hs Hcut Hpos.
    pose proof (trav_sorted (ai_rev a) m Hs) as Hts.
    destruct (filter_ge_split (dcmp cmp (ai_rev a)) (D (ai_rev a)) p (trav (ai_rev a) m) Hts)
      as (l1 & l2 & Heq & H1 & H2 & Hf).
    exists l1, l2. split; [exact Heq|]. split; [exact H1|]. split; [exact H2|].
    split.
    { rewrite Heq in Hts. apply (ksorted_app (dcmp cmp (ai_rev a))) in Hts. tauto. }
    unfold AIter.ai_next. rewrite Hcut, Hpos, ai_cands_trav, Hf.
    destruct l2 as [|f rest]; [reflexivity|].
    destruct (far_ok a (fst f)); reflexivity.
  Qed.

  (* head of the rest of a sorted list is strictly beyond the head *)
  Lemma sorted_second rev (f : K * V) rest q :
    CProofsOrder.ksorted (dcmp cmp rev) (f :: rest) ->
    option_map fst (hd_error rest) = Some q -> dlt rev (fst f) q.
  Proof.
    intros Hs Hq. destruct rest as [|g rest]; simpl in Hq; [discriminate|].
    injection Hq as <-. apply ksorted_cons_inv in Hs. destruct Hs as [_ Hf].
    inversion Hf; subst. assumption.
  Qed.

  Definition finished (a : aiter) : Prop := ai_cut a = true \/ ai_pos a = None.

  Lemma finished_next m a : finished a -> ai_next m a = (a, None).
  Proof.
    unfold AIter.ai_next. intros [H|H].
    - rewrite H. reflexivity.
    - rewrite H. destruct (ai_cut a); reflexivity.
  Qed.

  Lemma next_none_finished m a a' : ksorted m -> ai_next m a = (a', None) -> finished a'.
  Proof.
    intros Hs H. destruct (ai_cut a) eqn:Hcut.
    - rewrite (finished_next m a (or_introl Hcut)) in H. injection H as <-. left; auto.
    - destruct (ai_pos a) as [p|] eqn:Hpos.
      + destruct (ai_next_spec m a p Hs Hcut Hpos) as (l1 & l2 & _ & _ & _ & _ & Hn).
        rewrite Hn in H. destruct l2 as [|f rest].
        * injection H as <-. right; reflexivity.
        * destruct (far_ok a (fst f)) eqn:Hfar; [discriminate|].
          injection H as <-. left; reflexivity.
      + rewrite (finished_next m a (or_intror Hpos)) in H. injection H as <-. right; auto.
  Qed.

  (* the static fields never change; the pending position only moves in the direction of travel *)
  Lemma ai_next_fields m a a' r :
    ksorted m -> ai_next m a = (a', r) ->
    ai_rev a' = ai_rev a /\ ai_lo a' = ai_lo a /\ ai_hi a' = ai_hi a
    /\ (ai_pos a = None -> ai_pos a' = None)
    /\ (forall p q, ai_pos a = Some p -> ai_pos a' = Some q -> dle (ai_rev a) p q).
  Proof.
    intros Hs H. destruct (ai_cut a) eqn:Hcut.
    - rewrite (finished_next m a (or_introl Hcut)) in H. injection H as <- <-.
      repeat split; auto. intros p q Hp Hq. rewrite Hp in Hq. injection Hq as <-. apply dle_refl.
    - destruct (ai_pos a) as [p|] eqn:Hpos.
      + destruct (ai_next_spec m a p Hs Hcut Hpos) as (l1 & l2 & _ & _ & H2 & Hs2 & Hn).
        rewrite Hn in H. destruct l2 as [|f rest].
        * injection H as <- <-. simpl. repeat split; auto; discriminate.
        * injection H as <- <-. simpl. repeat split; auto; try discriminate.
          intros p0 q [= <-] Hq.
          inversion H2 as [|x l Hx Hr]; subst.
          apply dlt_dle. eapply dle_dlt_trans; [exact Hx|].
          eapply sorted_second; eauto.
      + rewrite (finished_next m a (or_intror Hpos)) in H. injection H as <- <-.
        repeat split; auto. intros p q Hp. discriminate.
  Qed.

  (* what a yield tells *)
  Lemma ai_next_yield m a a' kv :
    ksorted m -> ai_next m a = (a', Some kv) ->
    ai_cut a = false /\ ai_cut a' = false /\ In kv m /\ far_ok a (fst kv) = true
    /\ (exists p, ai_pos a = Some p /\ dle (ai_rev a) p (fst kv))
    /\ (forall q, ai_pos a' = Some q -> dlt (ai_rev a) (fst kv) q).
  Proof.
    intros Hs H. destruct (ai_cut a) eqn:Hcut.
    - rewrite (finished_next m a (or_introl Hcut)) in H. discriminate.
    - destruct (ai_pos a) as [p|] eqn:Hpos.
      + destruct (ai_next_spec m a p Hs Hcut Hpos) as (l1 & l2 & Heq & _ & H2 & Hs2 & Hn).
        rewrite Hn in H. destruct l2 as [|f rest]; [discriminate|].
        destruct (far_ok a (fst f)) eqn:Hfar; [|discriminate].
        injection H as <- <-. simpl.
        inversion H2 as [|x l Hx Hr]; subst.
        repeat split; auto.
        * apply (In_trav (ai_rev a)). rewrite Heq. apply in_or_app. right. left. reflexivity.
        * exists p. split; auto.
        * intros q Hq. eapply sorted_second; eauto.
      + rewrite (finished_next m a (or_intror Hpos)) in H. discriminate.
  Qed.

  (* invariant: the pending position satisfies the near bound *)
  Definition near_pos_ok (a : aiter) : Prop := forall p, ai_pos a = Some p -> near_ok a p = true.

  Lemma near_ok_fields a a' k :
    ai_rev a' = ai_rev a -> ai_lo a' = ai_lo a -> ai_hi a' = ai_hi a -> near_ok a' k = near_ok a k.
  Proof. unfold near_ok. intros -> -> ->. reflexivity. Qed.

  Lemma far_ok_fields a a' k :
    ai_rev a' = ai_rev a -> ai_lo a' = ai_lo a -> ai_hi a' = ai_hi a -> far_ok a' k = far_ok a k.
  Proof. unfold ai_far_ok. intros -> -> ->. reflexivity. Qed.

  Lemma ai_next_near m a a' r :
    ksorted m -> near_pos_ok a -> ai_next m a = (a', r) -> near_pos_ok a'.
  Proof.
    intros Hs Hn H. destruct (ai_next_fields m a a' r Hs H) as (Hr & Hlo & Hhi & Hnone & Hmono).
    intros q Hq. rewrite (near_ok_fields a a' q Hr Hlo Hhi).
    destruct (ai_pos a) as [p|] eqn:Hpos.
    - eapply near_ok_up; [apply (Hn p Hpos)|]. apply (Hmono p q eq_refl Hq).
    - rewrite (Hnone eq_refl) in Hq. discriminate.
  Qed.

  (* ---- "x is still ahead": the invariant behind no-skip and inserted-beyond ---- *)

  (* the iterator is not cut and its pending position is at or before x in the direction of travel *)
  Definition pend (a : aiter) (x : K) : Prop :=
    ai_cut a = false /\ exists p, ai_pos a = Some p /\ dle (ai_rev a) p x.

  (* If x is ahead of (or at) the pending position, satisfies the far bound and its class is in
     the map at the moment of the Next call, then that call yields: either (the entry of) x, or an
     entry strictly before x, and then x is still ahead. *)
  Lemma ai_next_pend m a x :
    ksorted m -> pend a x -> far_ok a x = true -> has_key m x ->
    exists a' kv, ai_next m a = (a', Some kv) /\ In kv m /\
      (cmp (fst kv) x = Eq \/ (dlt (ai_rev a) (fst kv) x /\ pend a' x)).
  Proof.
    intros Hs (Hcut & p & Hpos & Hpx) Hfar (xe & Hxin & Hxe).
    destruct (ai_next_spec m a p Hs Hcut Hpos) as (l1 & l2 & Heq & H1 & H2 & Hs2 & Hn).
    (* the entry of x is in l2 *)
    assert (Hx2 : In xe l2).
    { apply (In_trav (ai_rev a)) in Hxin. rewrite Heq in Hxin. apply in_app_or in Hxin.
      destruct Hxin as [Hin1|Hin2]; auto. exfalso.
      rewrite Forall_forall in H1. specialize (H1 xe Hin1).
      eapply dlt_asym; [exact H1|]. eapply dle_trans; [exact Hpx|].
      apply eq_dle. apply (c_eq_sym cmp laws). exact Hxe. }
    destruct l2 as [|f rest]; [contradiction|].
    assert (Hfin : In f m).
    { apply (In_trav (ai_rev a)). rewrite Heq. apply in_or_app. right. left. reflexivity. }
    apply ksorted_cons_inv in Hs2 as Hs2'. destruct Hs2' as [Hsr Hfr].
    destruct Hx2 as [<-|Hxr].
    - (* x is the examined entry *)
      assert (Hf : far_ok a (fst f) = true) by (rewrite (far_ok_equiv a _ _ Hxe); exact Hfar).
      rewrite Hf in Hn. eexists _, f. split; [exact Hn|]. split; auto.
    - (* an earlier entry is examined *)
      rewrite Forall_forall in Hfr. specialize (Hfr xe Hxr). unfold klt in Hfr.
      assert (Hfx : dlt (ai_rev a) (fst f) x).
      { eapply dlt_dle_trans; [exact Hfr|]. apply eq_dle. exact Hxe. }
      assert (Hf : far_ok a (fst f) = true).
      { eapply far_ok_down; [exact Hfar|]. apply dlt_dle. exact Hfx. }
      rewrite Hf in Hn. eexists _, f. split; [exact Hn|]. split; auto.
      right. split; auto. split; [reflexivity|]. simpl.
      destruct rest as [|g rest']; [contradiction|]. simpl. exists (fst g). split; auto.
      destruct Hxr as [<-|Hxr'].
      + apply eq_dle. exact Hxe.
      + apply ksorted_cons_inv in Hsr. destruct Hsr as [_ Hgr].
        rewrite Forall_forall in Hgr. specialize (Hgr xe Hxr'). unfold klt in Hgr.
        apply dlt_dle. eapply dlt_dle_trans; [exact Hgr|]. apply eq_dle. exact Hxe.
  Qed.

  (* ---- creation ---- *)

  Lemma ai_new_trav rev lo hi m :
    ai_new rev lo hi m =
    mkAIter rev (option_map fst (hd_error (filter
       (fun kv => if rev then in_hi K cmp hi (fst kv) else in_lo K cmp lo (fst kv)) (trav rev m))))
       lo hi false.
  Proof. unfold AIter.ai_new. destruct rev; simpl; [|reflexivity]. rewrite filter_rev'. reflexivity. Qed.

  Lemma ai_new_near rev lo hi m : near_pos_ok (ai_new rev lo hi m).
  Proof.
    intros p Hp. rewrite ai_new_trav in *. unfold near_ok. simpl in *.
    destruct (filter _ (trav rev m)) as [|f r] eqn:E; simpl in Hp; [discriminate|].
    injection Hp as <-.
    assert (Hin : In f (filter (fun kv => if rev then in_hi K cmp hi (fst kv)
                                          else in_lo K cmp lo (fst kv)) (trav rev m))).
    { rewrite E. left. reflexivity. }
    apply filter_In in Hin. destruct Hin as [_ Hin]. exact Hin.
  Qed.

  Lemma ksorted_filter (c : K -> K -> comparison) (f : K * V -> bool) (l : list (K * V)) :
    CProofsOrder.ksorted c l -> CProofsOrder.ksorted c (filter f l).
  Proof.
    induction l as [|a l IH]; simpl; intros Hs; [constructor|].
    apply ksorted_cons_inv in Hs. destruct Hs as [Hl Hf].
    destruct (f a).
    - constructor; [apply IH; exact Hl|].
      rewrite Forall_forall in *. intros x Hx. apply filter_In in Hx. apply Hf. tauto.
    - apply IH. exact Hl.
  Qed.

  (* a key class that is in the map at creation and satisfies the near bound is ahead of the
     initial pending position *)
  Lemma ai_new_pend rev lo hi m x :
    ksorted m -> has_key m x -> near_ok (ai_new rev lo hi m) x = true ->
    pend (ai_new rev lo hi m) x.
  Proof.
    intros Hs (xe & Hxin & Hxe) Hnear.
    rewrite ai_new_trav in *. unfold pend, near_ok in *. simpl in *.
    split; [reflexivity|].
    set (g := fun kv : K * V => if rev then in_hi K cmp hi (fst kv) else in_lo K cmp lo (fst kv)) in *.
    assert (Hg : g xe = true).
    { unfold g. destruct rev.
      - rewrite (in_hi_equiv cmp laws hi _ _ Hxe). exact Hnear.
      - rewrite (in_lo_equiv cmp laws lo _ _ Hxe). exact Hnear. }
    assert (Hin : In xe (filter g (trav rev m))).
    { apply filter_In. split; auto. apply In_trav. exact Hxin. }
    pose proof (ksorted_filter (dcmp cmp rev) g _ (trav_sorted rev m Hs)) as Hfs.
    destruct (filter g (trav rev m)) as [|f r]; [contradiction|].
    simpl. exists (fst f). split; auto.
    destruct Hin as [<-|Hin].
    - apply eq_dle. exact Hxe.
    - apply ksorted_cons_inv in Hfs. destruct Hfs as [_ Hf].
      rewrite Forall_forall in Hf. specialize (Hf xe Hin). unfold klt in Hf.
      apply dlt_dle. eapply dlt_dle_trans; [exact Hf|]. apply eq_dle. exact Hxe.
  Qed.

  (* ================= sessions ================= *)

  Inductive mut : Type := MPut (k : K) (v : V) | MDel (k : K).

  Definition app_mut (m : smap) (u : mut) : smap :=
    match u with
    | MPut k v => sm_put K V cmp m k v
    | MDel k => sm_del K V cmp m k
    end.

  Definition app_muts (m : smap) (us : list mut) : smap := fold_left app_mut us m.

  Lemma app_muts_sorted us : forall m, ksorted m -> ksorted (app_muts m us).
  Proof.
    induction us as [|u us IH]; simpl; intros m Hs; auto.
    apply IH. destruct u; simpl.
    - apply (ksorted_put cmp laws); auto.
    - apply (ksorted_del cmp); auto.
  Qed.

  (* one Next call of the session: map at that moment, iterator state before, result *)
  Definition entry : Type := smap * aiter * option (K * V).
  Definition e_map (e : entry) : smap := fst (fst e).
  Definition e_it (e : entry) : aiter := snd (fst e).
  Definition e_out (e : entry) : option (K * V) := snd e.

  Fixpoint ai_run (m : smap) (a : aiter) (rs : list (list mut)) : list entry :=
    match rs with
    | [] => []
    | us :: rs' =>
        let m' := app_muts m us in
        let ar := ai_next m' a in
        (m', a, snd ar) :: ai_run m' (fst ar) rs'
    end.

  Definition yields (tr : list entry) : list (K * V) :=
    flat_map (fun e => match e_out e with Some kv => [kv] | None => [] end) tr.

  (* ---- clause 1: strictly monotone and inside the bounds ---- *)

  Lemma ai_run_monotone_gen : forall rs m a,
    ksorted m -> near_pos_ok a ->
    let ys := yields (ai_run m a rs) in
    StronglySorted (fun y1 y2 => dlt (ai_rev a) (fst y1) (fst y2)) ys
    /\ Forall (fun y => near_ok a (fst y) = true /\ far_ok a (fst y) = true) ys
    /\ (forall p, ai_pos a = Some p -> Forall (fun y => dle (ai_rev a) p (fst y)) ys)
    /\ (ai_pos a = None -> ys = []).
  Proof.
    induction rs as [|us rs IH]; intros m a Hs Hnear; simpl.
    - repeat split; auto; constructor.
    - set (m' := app_muts m us).
      assert (Hs' : ksorted m') by (apply app_muts_sorted; exact Hs).
      destruct (ai_next m' a) as [a' r] eqn:Hn. simpl.
      pose proof (ai_next_near m' a a' r Hs' Hnear Hn) as Hnear'.
      destruct (ai_next_fields m' a a' r Hs' Hn) as (Hr & Hlo & Hhi & Hnone & Hmono).
      destruct (IH m' a' Hs' Hnear') as (IH1 & IH2 & IH3 & IH4).
      rewrite Hr in IH1, IH3.
      assert (IH2' : Forall (fun y => near_ok a (fst y) = true /\ far_ok a (fst y) = true)
                            (yields (ai_run m' a' rs))).
      { revert IH2. apply Forall_impl. intros y.
        rewrite (near_ok_fields a a' _ Hr Hlo Hhi), (far_ok_fields a a' _ Hr Hlo Hhi). auto. }
      assert (Hge : forall p, ai_pos a = Some p ->
                 Forall (fun y => dle (ai_rev a) p (fst y)) (yields (ai_run m' a' rs))).
      { intros p Hp. destruct (ai_pos a') as [q|] eqn:Hq.
        - generalize (IH3 q eq_refl). apply Forall_impl. intros y Hy.
          eapply dle_trans; [|exact Hy]. apply (Hmono p q); auto.
        - rewrite (IH4 eq_refl). constructor. }
      destruct r as [kv|]; unfold e_out; simpl.
      + destruct (ai_next_yield m' a a' kv Hs' Hn)
          as (Hcut & Hcut' & Hin & Hfar & (p & Hp & Hpk) & Hnext).
        repeat split.
        * constructor; auto.
          destruct (ai_pos a') as [q|] eqn:Hq.
          -- generalize (IH3 q eq_refl). apply Forall_impl. intros y Hy.
             eapply dlt_dle_trans; [|exact Hy]. apply Hnext. reflexivity.
          -- rewrite (IH4 eq_refl). constructor.
        * constructor; auto. split; auto.
          eapply near_ok_up; [apply Hnear; exact Hp|exact Hpk].
        * intros p0 Hp0. constructor; auto. rewrite Hp in Hp0. injection Hp0 as <-. exact Hpk.
        * intros Hp0. rewrite Hp0 in Hp. discriminate.
      + split; [exact IH1|]. split; [exact IH2'|]. split; [exact Hge|].
        intros Hp0. apply IH4. apply Hnone. exact Hp0.
  Qed.

  (* C02_monotone_in_bounds.  For an iterator created on a (sorted) map m0 with direction rev and
     bounds lo hi, and ANY session rs: the keys it yields are strictly ascending in the direction of
     travel (every earlier yield strictly before every later one: cmp-ascending for Range,
     descending for RangeReverse) and each satisfies both bounds. *)
  Theorem ai_run_monotone_in_bounds rev lo hi m0 rs :
    ksorted m0 ->
    let ys := yields (ai_run m0 (ai_new rev lo hi m0) rs) in
    StronglySorted (fun y1 y2 => dcmp cmp rev (fst y1) (fst y2) = Lt) ys
    /\ Forall (fun y => in_range K cmp lo hi (fst y) = true) ys.
  Proof.
    intros Hs.
    destruct (ai_run_monotone_gen rs m0 (ai_new rev lo hi m0) Hs (ai_new_near rev lo hi m0))
      as (H1 & H2 & _ & _).
    split.
    - exact H1.
    - revert H2. apply Forall_impl. intros y Hy.
      apply (in_range_near_far (ai_new rev lo hi m0)) in Hy. exact Hy.
  Qed.

  (* ---- clause 2: every yield is an entry of the map at that moment ---- *)

  (* C02_present_current_value.  Whatever the state of the iterator and the session: every Next
     call that yields (k, v) yields an ENTRY of the map at that moment; in particular looking k up
     in that map finds exactly (k, v): the key is present and paired with its current value. *)
  Theorem ai_run_present_current_value : forall rs m a,
    ksorted m ->
    Forall (fun e => forall kv, e_out e = Some kv ->
                     In kv (e_map e) /\ sm_find K V cmp (e_map e) (fst kv) = Some kv)
           (ai_run m a rs).
  Proof.
    induction rs as [|us rs IH]; intros m a Hs; simpl; [constructor|].
    set (m' := app_muts m us).
    assert (Hs' : ksorted m') by (apply app_muts_sorted; exact Hs).
    constructor; [|apply IH; exact Hs'].
    unfold e_out, e_map. simpl. intros kv Hkv.
    destruct (ai_next m' a) as [a' r] eqn:Hn. simpl in Hkv. subst r.
    destruct (ai_next_yield m' a a' kv Hs' Hn) as (_ & _ & Hin & _).
    split; auto. apply (sm_find_sorted cmp laws); auto. apply (c_refl cmp laws).
  Qed.

  (* ---- clause 3: the end is sticky ---- *)

  Lemma ai_run_finished : forall rs m a,
    finished a -> Forall (fun e => e_out e = None) (ai_run m a rs).
  Proof.
    induction rs as [|us rs IH]; intros m a Hf; simpl; [constructor|].
    rewrite (finished_next (app_muts m us) a Hf). simpl. constructor; auto.
  Qed.

  (* C02_sticky_end.  Whatever the state of the iterator: once a Next call of the session reports
     exhaustion, every later Next call does, whatever mutations happen in between. *)
  Theorem ai_run_sticky_end : forall rs m a tr1 e tr2,
    ksorted m ->
    ai_run m a rs = tr1 ++ e :: tr2 -> e_out e = None ->
    Forall (fun e' => e_out e' = None) tr2.
  Proof.
    induction rs as [|us rs IH]; intros m a tr1 e tr2 Hs Heq He; simpl in Heq.
    - destruct tr1; discriminate.
    - set (m' := app_muts m us) in *.
      assert (Hs' : ksorted m') by (apply app_muts_sorted; exact Hs).
      destruct tr1 as [|e1 tr1]; simpl in Heq.
      + injection Heq as <- <-. unfold e_out in He. simpl in He.
        destruct (ai_next m' a) as [a' r] eqn:Hn. simpl in *. subst r.
        apply ai_run_finished. eapply next_none_finished; eauto.
      + injection Heq as _ Heq. eapply IH; eauto.
  Qed.

  (* ---- clauses 4 and 5: a key class that stays ahead is reached ---- *)

  (* the Next call e yields an entry strictly before x / the entry of x *)
  Definition before (rev : bool) (x : K) (e : entry) : Prop :=
    exists kv, e_out e = Some kv /\ dlt rev (fst kv) x.
  Definition hits (x : K) (e : entry) : Prop :=
    exists kv, e_out e = Some kv /\ cmp (fst kv) x = Eq /\ In kv (e_map e).

  (* As long as the class of x is in the map at every Next call, an iterator for which x is ahead
     keeps yielding entries strictly before x until it yields x's entry: it can neither end nor
     jump over x. *)
  Lemma ai_run_pend : forall rs m a x,
    ksorted m -> pend a x -> far_ok a x = true ->
    Forall (fun e => has_key (e_map e) x) (ai_run m a rs) ->
    Forall (before (ai_rev a) x) (ai_run m a rs)
    \/ exists tr1 e tr2, ai_run m a rs = tr1 ++ e :: tr2
         /\ Forall (before (ai_rev a) x) tr1 /\ hits x e.
  Proof.
    induction rs as [|us rs IH]; intros m a x Hs Hp Hfar Hall; simpl in *.
    - left. constructor.
    - set (m' := app_muts m us) in *.
      assert (Hs' : ksorted m') by (apply app_muts_sorted; exact Hs).
      inversion Hall as [|e0 l0 Hk Hall']; subst.
      unfold e_map in Hk. simpl in Hk.
      destruct (ai_next_pend m' a x Hs' Hp Hfar Hk) as (a' & kv & Hn & Hin & Hcase).
      rewrite Hn in *. simpl in *.
      destruct Hcase as [Heq|[Hlt Hp']].
      + right. exists [], (m', a, Some kv), (ai_run m' a' rs). repeat split; auto.
        exists kv. repeat split; auto.
      + destruct (ai_next_fields m' a a' _ Hs' Hn) as (Hr & Hlo & Hhi & _ & _).
        assert (Hfar' : far_ok a' x = true) by (rewrite (far_ok_fields a a' x Hr Hlo Hhi); exact Hfar).
        assert (Hb : before (ai_rev a) x (m', a, Some kv)) by (exists kv; split; auto).
        destruct (IH m' a' x Hs' Hp' Hfar' Hall') as [Hall2|(tr1 & e & tr2 & Heq & Hb1 & Hh)];
          rewrite Hr in *.
        * left. constructor; auto.
        * right. exists ((m', a, Some kv) :: tr1), e, tr2. rewrite Heq. repeat split; auto.
  Qed.

  Lemma last_split {A} (tr' : list A) (l : A) tr1 e tr2 :
    tr' ++ [l] = tr1 ++ e :: tr2 -> (tr2 = [] /\ e = l /\ tr1 = tr') \/ In e tr'.
  Proof.
    intros H. destruct (exists_last (l := e :: tr2)) as (t & z & Ht); [discriminate|].
    destruct tr2 as [|y tr2].
    - left. change (tr' ++ [l] = tr1 ++ [e]) in H. apply app_inj_tail in H.
      destruct H as [-> ->]. auto.
    - right. rewrite Ht in H.
      rewrite app_assoc in H. apply app_inj_tail in H. destruct H as [H _].
      destruct t as [|t0 t]; simpl in Ht.
      + discriminate.
      + injection Ht as <- _. rewrite H. apply in_or_app. right. left. reflexivity.
  Qed.

  (* C02_no_skip_of_persistent_keys.  Iterator created on m0 with direction rev and bounds lo hi;
     any session rs.  Let x be a key inside the bounds whose class is in the map at creation and at
     the moment of every Next call of the session.  (The property's hypothesis "stays in the
     collection at every moment" implies this; the abstract iterator only looks at the map during
     Next calls, so presence at those moments is all that matters.)  If the LAST Next call of the
     session yields a key strictly beyond x in the direction of travel, then an EARLIER Next call
     of the session yielded x's entry: x was not skipped.  Since every prefix of a session is a
     session, this covers every Next call of every session. *)
  Theorem ai_run_no_skip rev lo hi m0 rs x tr mn an y :
    ksorted m0 ->
    in_range K cmp lo hi x = true ->
    has_key m0 x ->
    Forall (fun e => has_key (e_map e) x) (ai_run m0 (ai_new rev lo hi m0) rs) ->
    ai_run m0 (ai_new rev lo hi m0) rs = tr ++ [(mn, an, Some y)] ->
    dcmp cmp rev x (fst y) = Lt ->
    exists e, In e tr /\ hits x e.
  Proof.
    intros Hs Hrange Hk0 Hall Htr Hxy.
    set (a0 := ai_new rev lo hi m0) in *.
    apply (in_range_near_far a0) in Hrange. destruct Hrange as [Hnear Hfar].
    pose proof (ai_new_pend rev lo hi m0 x Hs Hk0 Hnear) as Hp.
    destruct (ai_run_pend rs m0 a0 x Hs Hp Hfar Hall) as [Hb|(tr1 & e & tr2 & Heq & Hb1 & Hh)].
    - exfalso. rewrite Htr in Hb. rewrite Forall_app in Hb. destruct Hb as [_ Hb].
      inversion Hb as [|e0 l0 Hb0 _]; subst. destruct Hb0 as (kv & Hkv & Hlt).
      unfold e_out in Hkv. simpl in Hkv. injection Hkv as <-.
      eapply dlt_asym; [exact Hlt|]. apply dlt_dle. exact Hxy.
    - rewrite Htr in Heq. apply last_split in Heq. destruct Heq as [(_ & -> & _)|Hin].
      + exfalso. destruct Hh as (kv & Hkv & Heq & _).
        unfold e_out in Hkv. simpl in Hkv. injection Hkv as <-.
        apply (dcmp_eq rev) in Heq. apply (c_eq_sym _ (D rev)) in Heq.
        unfold a0 in *. simpl in *. congruence.
      + exists e. split; auto.
  Qed.

  (* C02_inserted_beyond_next_is_yielded.  Take the iterator at ANY moment (state a, not cut) with
     pending position p = the key it will yield next (if p is still there).  Let x be a key inside
     the bounds, at or beyond p in the direction of travel (the property says strictly beyond the
     next yielded key, which is at or beyond p: this is weaker a hypothesis), which has just been
     inserted and is not removed afterwards: its class is in the map at the moment of every later
     Next call.  Then for ANY continuation session (any mutations that do not remove x), when a
     Next call reports exhaustion, an earlier Next call of the continuation has yielded x's entry
     (with its value at that moment).  I.e. draining the iterator yields x. *)
  Theorem ai_run_inserted_beyond m a p x rs tr mn an :
    ksorted m ->
    ai_cut a = false -> ai_pos a = Some p -> dcmp cmp (ai_rev a) p x <> Gt ->
    in_range K cmp (ai_lo a) (ai_hi a) x = true ->
    Forall (fun e => has_key (e_map e) x) (ai_run m a rs) ->
    ai_run m a rs = tr ++ [(mn, an, None)] ->
    exists e, In e tr /\ hits x e.
  Proof.
    intros Hs Hcut Hpos Hpx Hrange Hall Htr.
    apply (in_range_near_far a) in Hrange. destruct Hrange as [Hnear Hfar].
    assert (Hp : pend a x) by (split; auto; exists p; split; auto).
    destruct (ai_run_pend rs m a x Hs Hp Hfar Hall) as [Hb|(tr1 & e & tr2 & Heq & Hb1 & Hh)].
    - exfalso. rewrite Htr in Hb. rewrite Forall_app in Hb. destruct Hb as [_ Hb].
      inversion Hb as [|e0 l0 Hb0 _]; subst. destruct Hb0 as (kv & Hkv & _).
      unfold e_out in Hkv. simpl in Hkv. discriminate.
    - rewrite Htr in Heq. apply last_split in Heq. destruct Heq as [(_ & -> & _)|Hin].
      + exfalso. destruct Hh as (kv & Hkv & _). unfold e_out in Hkv. simpl in Hkv. discriminate.
      + exists e. split; auto.
  Qed.

  (* The literal reading of the last clause: x lies strictly beyond the key y that the NEXT call
     yields.  Then x is ahead of the iterator after that call, and the theorem above applies to
     the rest of the session. *)
  Theorem ai_run_inserted_beyond_next_yield m a us rs x y tr mn an :
    ksorted m ->
    let m1 := app_muts m us in
    let a1 := fst (ai_next m1 a) in
    snd (ai_next m1 a) = Some y ->
    dcmp cmp (ai_rev a) (fst y) x = Lt ->
    has_key m1 x ->
    in_range K cmp (ai_lo a) (ai_hi a) x = true ->
    Forall (fun e => has_key (e_map e) x) (ai_run m1 a1 rs) ->
    ai_run m1 a1 rs = tr ++ [(mn, an, None)] ->
    exists e, In e tr /\ hits x e.
  Proof.
    intros Hs m1 a1 Hy Hyx Hk Hrange Hall Htr.
    assert (Hs1 : ksorted m1) by (apply app_muts_sorted; exact Hs).
    destruct (ai_next m1 a) as [a' r] eqn:Hn. simpl in Hy. subst r. subst a1. simpl in *.
    destruct (ai_next_yield m1 a a' y Hs1 Hn) as (Hcut & Hcut' & Hin & Hfar & (p & Hp & Hpy) & Hnext).
    destruct (ai_next_fields m1 a a' _ Hs1 Hn) as (Hr & Hlo & Hhi & _ & _).
    assert (Hpend : pend a x).
    { split; auto. exists p. split; auto. eapply dle_trans; [exact Hpy|]. apply dlt_dle. exact Hyx. }
    apply (in_range_near_far a) in Hrange as Hnf. destruct Hnf as [Hnear Hfarx].
    destruct (ai_next_pend m1 a x Hs1 Hpend Hfarx Hk) as (a2 & kv & Hn2 & _ & Hcase).
    rewrite Hn in Hn2. injection Hn2 as <- <-.
    destruct Hcase as [Heq|[_ (_ & q & Hq & Hqx)]].
    - exfalso. apply (dcmp_eq (ai_rev a)) in Heq. unfold dlt in *. congruence.
    - apply (ai_run_inserted_beyond m1 a' q x rs tr mn an); auto.
      rewrite Hlo, Hhi. exact Hrange.
  Qed.

  (* On an unchanging map the iterator ends within (number of entries + 1) Next calls and drains
     exactly the range: CProofsDrain.ai_drain_range. *)

End Spec.

Arguments MPut {K V} k v.
Arguments MDel {K V} k.
