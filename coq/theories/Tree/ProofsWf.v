(* Structural well-formedness of the B-tree model (C03): definition of `shaped` / `wf_shape` / `wf`
   and preservation of the shape by ins (Put) and del / remove_rightmost / fix_child (Delete).
   Node identities are in ProofsIds.v, the order part in ProofsInorder.v. *)
From Juniper Require Import Common.Base Tree.Bound Tree.BTree Tree.SMap
  Tree.ProofsLists Tree.ProofsSMap Tree.ProofsCases.
Local Open Scope nat_scope.

Ltac nk := unfold nkeys in *; cbn [nkvs ncs nid] in *.

Section Shaped.
  Context {K V : Type}.
  Variables minKVs maxKVs : nat.
  Notation node := (@node K V).

  (* x is the root of a subtree all of whose leaves are exactly d levels below x (d = 0: x is a
     leaf); every node has at most maxKVs keys and is a leaf or has one more child than keys;
     every node strictly below x has at least minKVs keys.  (Nothing is required of the number of
     keys of x itself: the root of the tree is exempt.) *)
  Fixpoint shaped (d : nat) (x : node) : Prop :=
    match x with
    | Node _ kvs cs =>
        length kvs <= maxKVs /\
        match d with
        | O => cs = []
        | S d' => length cs = S (length kvs) /\
                  allP (fun c => minKVs <= nkeys c /\ shaped d' c) cs
        end
    end.

  (* a non-root node *)
  Definition okc (d : nat) (c : node) : Prop := minKVs <= nkeys c /\ shaped d c.

  Lemma shaped_0 id kvs cs : shaped 0 (Node id kvs cs) <-> length kvs <= maxKVs /\ cs = [].
  Proof. simpl. tauto. Qed.

  Lemma shaped_S d id kvs cs :
    shaped (S d) (Node id kvs cs) <->
    length kvs <= maxKVs /\ length cs = S (length kvs) /\ Forall (okc d) cs.
  Proof.
    cbn [shaped]. rewrite allP_Forall. unfold okc. tauto.
  Qed.

  Lemma shaped_0_inv id kvs cs : shaped 0 (Node id kvs cs) -> length kvs <= maxKVs /\ cs = [].
  Proof. apply (proj1 (shaped_0 id kvs cs)). Qed.

  Lemma shaped_S_inv d id kvs cs :
    shaped (S d) (Node id kvs cs) ->
    length kvs <= maxKVs /\ length cs = S (length kvs) /\ Forall (okc d) cs.
  Proof. apply (proj1 (shaped_S d id kvs cs)). Qed.

  Lemma shaped_len d x : shaped d x -> nkeys x <= maxKVs.
  Proof. destruct x as [id kvs cs], d; simpl; tauto. Qed.

  Lemma shaped_cs d id kvs cs :
    shaped d (Node id kvs cs) -> cs = [] \/ length cs = S (length kvs).
  Proof. destruct d; [rewrite shaped_0|rewrite shaped_S]; tauto. Qed.

  Lemma shaped_cs_0 id kvs cs : shaped 0 (Node id kvs cs) -> cs = [].
  Proof. rewrite shaped_0; tauto. Qed.

  Lemma shaped_cs_S d id kvs cs : shaped (S d) (Node id kvs cs) -> cs <> [].
  Proof. rewrite shaped_S. intros (_ & H & _) ->. discriminate. Qed.

  Lemma shaped_height d x : shaped d x -> height x = S d.
  Proof.
    revert x; induction d as [|d IH]; intros [id kvs cs] H.
    - apply shaped_0_inv in H. destruct H as [_ ->]. reflexivity.
    - apply shaped_S_inv in H. destruct H as (_ & Hl & F). rewrite height_node. f_equal.
      apply list_max_all_eq.
      + destruct cs; [discriminate|simpl; congruence].
      + apply Forall_map. eapply Forall_impl; [|exact F]. intros c [_ Hc]. apply IH; assumption.
  Qed.

  Lemma shaped_unique d d' x : shaped d x -> shaped d' x -> d = d'.
  Proof. intros H H'. apply shaped_height in H, H'. congruence. Qed.

  (* every node of a shaped subtree, and every node strictly below its top *)
  Lemma shaped_nodes d x :
    shaped d x ->
    Forall (fun y => length (nkvs y) <= maxKVs /\
                     (ncs y = [] \/ length (ncs y) = S (length (nkvs y)))) (nodes x) /\
    Forall (fun y => minKVs <= nkeys y) (flat_map nodes (ncs x)).
  Proof.
    revert x; induction d as [|d IH]; intros [id kvs cs] H.
    - apply shaped_0_inv in H. destruct H as [Hl ->]. simpl. split; constructor; simpl; auto.
    - apply shaped_S_inv in H. destruct H as (Hl & Hc & F). rewrite nodes_node. cbn [ncs].
      assert (G : Forall (fun c => Forall (fun y => length (nkvs y) <= maxKVs /\
                     (ncs y = [] \/ length (ncs y) = S (length (nkvs y)))) (nodes c) /\
                     Forall (fun y => minKVs <= nkeys y) (nodes c)) cs).
      { eapply Forall_impl; [|exact F]. intros [cid ckvs ccs] [Hm Hs].
        destruct (IH _ Hs) as [H1 H2]. split; [exact H1|].
        rewrite nodes_node. constructor; [exact Hm|exact H2]. }
      split.
      + constructor; [simpl; auto|].
        clear -G. induction G as [|c cs [G1 _] _ IHG]; simpl; [constructor|].
        apply Forall_app; auto.
      + clear -G. induction G as [|c cs [_ G2] _ IHG]; simpl; [constructor|].
        apply Forall_app; auto.
  Qed.

  (* depths of the leaves below x (0 = x itself is a leaf) *)
  Fixpoint leaf_depths (x : node) : list nat :=
    match x with
    | Node _ _ [] => [0]
    | Node _ _ cs => map S (flat_map leaf_depths cs)
    end.

  Lemma shaped_leaf_depths d x : shaped d x -> Forall (fun h => h = d) (leaf_depths x).
  Proof.
    revert x; induction d as [|d IH]; intros [id kvs cs] H.
    - apply shaped_0_inv in H. destruct H as [_ ->]. simpl. constructor; [reflexivity|constructor].
    - apply shaped_S_inv in H. destruct H as (_ & Hl & F).
      destruct cs as [|c cs]; [discriminate|].
      change (leaf_depths (Node id kvs (c :: cs))) with (map S (flat_map leaf_depths (c :: cs))).
      apply Forall_map. apply Forall_flat_map.
      eapply Forall_impl; [|exact F]. intros y [_ Hy].
      eapply Forall_impl; [|apply IH; exact Hy]. intros h ->. reflexivity.
  Qed.

  (* the top node of a tree: an internal root has at least one key *)
  Definition root_ok (x : node) : Prop := ncs x <> [] -> 1 <= nkeys x.

  Definition wf_shape (t : @btree K V) : Prop :=
    (exists d, shaped d (root t)) /\ root_ok (root t) /\
    NoDup (map nid (nodes (root t))) /\
    Forall (fun i => i < next_id t) (map nid (nodes (root t))).

End Shaped.

Section ShapePres.
  Context {K V : Type}.
  Variable cmp : K -> K -> comparison.
  Variables (kzero : K) (vzero : V).
  Variables minKVs maxKVs : nat.
  Hypothesis Hmin : 1 <= minKVs.
  Hypothesis Hmax : 2 * minKVs <= maxKVs.

  Notation node := (@node K V).
  Notation ins := (ins K V cmp kzero vzero maxKVs).
  Notation del := (del K V cmp kzero vzero minKVs).
  Notation remove_rightmost := (remove_rightmost K V kzero vzero minKVs).
  Notation fix_child := (fix_child K V kzero vzero minKVs).
  Notation split_node := (split_node K V kzero vzero maxKVs).
  Notation kvzero := (kvzero K V kzero vzero).
  Notation shaped := (shaped minKVs maxKVs).
  Notation okc := (okc minKVs maxKVs).

  (* ---------------- Put ---------------- *)

  Definition ins_shape (d n : nat) (r : ins_res K V) : Prop :=
    match r with
    | Upd x' => shaped d x' /\ n <= nkeys x'
    | Ins x' => shaped d x' /\ n <= nkeys x'
    | Split l s r => okc d l /\ okc d r
    end.

  Lemma median_bounds :
    minKVs <= median_idx maxKVs /\ S (median_idx maxKVs) + minKVs <= S maxKVs.
  Proof.
    unfold median_idx.
    pose proof (Nat.div_mod (S maxKVs) 2 ltac:(lia)).
    pose proof (Nat.mod_upper_bound (S maxKVs) 2 ltac:(lia)). lia.
  Qed.

  Lemma split_shape d n id rid (kvs : list (K * V)) cs :
    length kvs = S maxKVs ->
    match d with
    | O => cs = []
    | S d' => length cs = S (length kvs) /\ Forall (okc d') cs
    end ->
    ins_shape d n (split_node id rid kvs cs).
  Proof.
    intros Hk Hc. pose proof median_bounds as [M1 M2].
    unfold BTree.split_node. set (m := median_idx maxKVs) in *.
    cbn [ins_shape].
    assert (L1 : length (firstn m kvs) = m) by (apply len_firstn_le; lia).
    assert (L2 : length (skipn (S m) kvs) = S maxKVs - S m) by (rewrite skipn_length; lia).
    destruct d as [|d].
    - subst cs. rewrite firstn_nil, skipn_nil.
      split; (split; [nk; lia|]); apply shaped_0; split; auto; lia.
    - destruct Hc as [Hlc F].
      split; (split; [nk; lia|]); apply shaped_S; repeat split; try lia.
      + rewrite firstn_length. lia.
      + apply Forall_firstn; assumption.
      + rewrite skipn_length. lia.
      + apply Forall_skipn; assumption.
  Qed.

  Theorem ins_shaped d : forall x k v fresh,
      shaped d x -> ins_shape d (nkeys x) (fst (ins x k v fresh)).
  Proof.
    induction d as [|d IH]; intros [id kvs cs] k v fresh Hs.
    - apply shaped_0_inv in Hs. destruct Hs as [Hlen ->].
      pose proof (ins_spec_holds cmp kzero vzero maxKVs id kvs [] k v fresh (or_introl eq_refl)) as HS.
      remember (ins (Node id kvs []) k v fresh) as res eqn:Eres. clear Eres.
      destruct HS as [KA k' v' KB Hk Hg He
                     |KA KB Hc Hk Hg Hl Hn
                     |KA KB Hc Hk Hg Hl Hn
                     |KA KB A c B c' fresh' Hk Hc
                     |KA KB A c B c' fresh' Hk Hc
                     |KA KB A c B l s r fresh' Hk Hc
                     |KA KB A c B l s r fresh' Hk Hc];
        try (destruct A; discriminate); cbn [fst].
      + subst kvs. cbn [ins_shape]; nk. rewrite !app_length in *. cbn [length] in *.
        split; [|lia]. apply shaped_0. rewrite app_length. cbn [length]. auto.
      + subst kvs. cbn [ins_shape]; nk. rewrite !app_length in *. cbn [length] in *.
        split; [|lia]. apply shaped_0. rewrite app_length. cbn [length]. split; [lia|reflexivity].
      + apply split_shape; [|reflexivity].
        subst kvs. rewrite !app_length in *. cbn [length] in *. lia.
    - pose proof (shaped_cs _ _ _ _ _ _ Hs) as Hcs.
      apply shaped_S_inv in Hs. destruct Hs as (Hlen & Hlc & F).
      pose proof (ins_spec_holds cmp kzero vzero maxKVs id kvs cs k v fresh Hcs) as HS.
      remember (ins (Node id kvs cs) k v fresh) as res eqn:Eres. clear Eres.
      destruct HS as [KA k' v' KB Hk Hg He
                     |KA KB Hc Hk Hg Hl Hn
                     |KA KB Hc Hk Hg Hl Hn
                     |KA KB A c B c' fresh' Hk Hc HlA HlB Hg Hl Hi
                     |KA KB A c B c' fresh' Hk Hc HlA HlB Hg Hl Hi
                     |KA KB A c B l s r fresh' Hk Hc HlA HlB Hg Hl Hi Hn
                     |KA KB A c B l s r fresh' Hk Hc HlA HlB Hg Hl Hi Hn];
        try (subst cs; discriminate); cbn [fst].
      + subst kvs. cbn [ins_shape]; nk. rewrite !app_length in *. cbn [length] in *.
        split; [|lia]. apply shaped_S. rewrite app_length. cbn [length]. auto.
      + subst cs. apply Forall_app in F. destruct F as [FA F].
        inversion F as [|? ? [Hcm Hcs'] FB]; subst.
        pose proof (IH c k v fresh Hcs') as Hc'. rewrite Hi in Hc'. cbn [fst ins_shape] in Hc'.
        destruct Hc' as [Hc'1 Hc'2].
        cbn [ins_shape]; nk. split; [|lia]. apply shaped_S.
        rewrite !app_length in *. cbn [length] in *. repeat split; auto.
        apply Forall_app. split; [assumption|]. constructor; [|assumption]. split; [nk; lia|assumption].
      + subst cs. apply Forall_app in F. destruct F as [FA F].
        inversion F as [|? ? [Hcm Hcs'] FB]; subst.
        pose proof (IH c k v fresh Hcs') as Hc'. rewrite Hi in Hc'. cbn [fst ins_shape] in Hc'.
        destruct Hc' as [Hc'1 Hc'2].
        cbn [ins_shape]; nk. split; [|lia]. apply shaped_S.
        rewrite !app_length in *. cbn [length] in *. repeat split; auto.
        apply Forall_app. split; [assumption|]. constructor; [|assumption]. split; [nk; lia|assumption].
      + subst cs. apply Forall_app in F. destruct F as [FA F].
        inversion F as [|? ? [Hcm Hcs'] FB]; subst.
        pose proof (IH c k v fresh Hcs') as Hc'. rewrite Hi in Hc'. cbn [fst ins_shape] in Hc'.
        destruct Hc' as [Hl' Hr'].
        cbn [ins_shape]; nk. rewrite !app_length in *. cbn [length] in *.
        split; [|lia]. apply shaped_S.
        rewrite !app_length. cbn [length]. repeat split; try lia.
        apply Forall_app. split; [assumption|]. constructor; [assumption|].
        constructor; assumption.
      + subst cs. apply Forall_app in F. destruct F as [FA F].
        inversion F as [|? ? [Hcm Hcs'] FB]; subst.
        pose proof (IH c k v fresh Hcs') as Hc'. rewrite Hi in Hc'. cbn [fst ins_shape] in Hc'.
        destruct Hc' as [Hl' Hr'].
        apply split_shape.
        * rewrite length_insert_at. lia.
        * rewrite !length_insert_at. rewrite !app_length in *. cbn [length] in *.
          split; [lia|]. apply Forall_insert_at; [|assumption].
          apply Forall_app. split; [assumption|]. constructor; assumption.
  Qed.

  (* ---------------- Delete ---------------- *)

  Lemma rotl_ok d (c r : node) (s : K * V) :
    shaped d c -> okc d r -> minKVs < nkeys r -> nkeys c < minKVs -> minKVs <= S (nkeys c) ->
    okc d (rotl_child c r s) /\ okc d (rotl_sib r).
  Proof.
    destruct c as [ci ck cc], r as [ri rk rc]. unfold rotl_child, rotl_sib, ProofsWf.okc. nk.
    intros Hc [Hrm Hr] Hlt Hc1 Hc2.
    assert (Lk : length (ck ++ [s]) = S (length ck)) by apply length_snoc.
    assert (Lr : length (skipn 1 rk) = length rk - 1) by apply skipn_length.
    destruct d as [|d].
    - apply shaped_0_inv in Hc. apply shaped_0_inv in Hr.
      destruct Hc as [Hcl ->], Hr as [Hrl ->]. rewrite firstn_nil, skipn_nil. cbn [app].
      split; (split; [lia|]); apply shaped_0; split; auto; lia.
    - apply shaped_S_inv in Hc. apply shaped_S_inv in Hr.
      destruct Hc as (Hcl & Hcc & Fc), Hr as (Hrl & Hrc & Fr).
      destruct rc as [|r0 rc]; [discriminate|].
      change (firstn 1 (r0 :: rc)) with [r0]. change (skipn 1 (r0 :: rc)) with rc.
      cbn [length] in Hrc.
      inversion Fr as [|? ? Fr0 Fr']; subst.
      split; (split; [lia|]); apply shaped_S; repeat split; try lia.
      + rewrite length_snoc. lia.
      + apply Forall_app. split; [assumption|]. constructor; [assumption|constructor].
      + assumption.
  Qed.

  Lemma rotr_ok d (l c : node) (s : K * V) :
    okc d l -> shaped d c -> minKVs < nkeys l -> nkeys c < minKVs -> minKVs <= S (nkeys c) ->
    okc d (rotr_sib l) /\ okc d (rotr_child l c s).
  Proof.
    destruct c as [ci ck cc], l as [li lk lc]. unfold rotr_child, rotr_sib, ProofsWf.okc. nk.
    intros [Hlm Hl] Hc Hlt Hc1 Hc2.
    assert (Lk : length (firstn (pred (length lk)) lk) = pred (length lk))
      by (apply len_firstn_le; lia).
    assert (Ls : length (s :: ck) = S (length ck)) by reflexivity.
    destruct d as [|d].
    - apply shaped_0_inv in Hc. apply shaped_0_inv in Hl.
      destruct Hc as [Hcl ->], Hl as [Hll ->]. rewrite firstn_nil, skipn_nil. cbn [app].
      split; (split; [lia|]); apply shaped_0; split; auto; lia.
    - apply shaped_S_inv in Hc. apply shaped_S_inv in Hl.
      destruct Hc as (Hcl & Hcc & Fc), Hl as (Hll & Hlc & Fl).
      split; (split; [lia|]); apply shaped_S; repeat split; try lia.
      + rewrite firstn_length. lia.
      + apply Forall_firstn; assumption.
      + rewrite app_length, skipn_length. lia.
      + apply Forall_app. split; [apply Forall_skipn|]; assumption.
  Qed.

  Lemma merged_ok d (a b : node) (s : K * V) :
    shaped d a -> shaped d b -> nkeys a + nkeys b < 2 * minKVs -> minKVs <= S (nkeys a + nkeys b) ->
    okc d (merged a b s).
  Proof.
    destruct a as [ai ak ac], b as [bi bk bc]. unfold merged, ProofsWf.okc. nk.
    intros Ha Hb Hlt Hge.
    assert (Lk : length (ak ++ s :: bk) = S (length ak + length bk))
      by (rewrite app_length; cbn [length]; lia).
    destruct d as [|d].
    - apply shaped_0_inv in Ha. apply shaped_0_inv in Hb.
      destruct Ha as [Hal ->], Hb as [Hbl ->]. cbn [app].
      split; [lia|]. apply shaped_0. split; auto; lia.
    - apply shaped_S_inv in Ha. apply shaped_S_inv in Hb.
      destruct Ha as (Hal & Hac & Fa), Hb as (Hbl & Hbc & Fb).
      split; [lia|]. apply shaped_S. repeat split; try lia.
      + rewrite app_length. lia.
      + apply Forall_app. split; assumption.
  Qed.

  Lemma fix_shaped d id (kvs : list (K * V)) (A : list node) (c : node) (B : list node) :
    length kvs <= maxKVs -> 1 <= length kvs -> length (A ++ c :: B) = S (length kvs) ->
    Forall (okc d) A -> Forall (okc d) B -> shaped d c -> minKVs <= S (nkeys c) ->
    shaped (S d) (fix_child id kvs (A ++ c :: B) (length A)) /\
    length kvs <= S (nkeys (fix_child id kvs (A ++ c :: B) (length A))).
  Proof.
    intros Hlen Hne Hl FA FB Hc Hcm.
    pose proof (fix_spec_holds kzero vzero minKVs id kvs A c B Hl Hne) as HS.
    remember (fix_child id kvs (A ++ c :: B) (length A)) as x' eqn:Ex. clear Ex.
    destruct HS as [Hok
                   |KA s KB r B' Hk HB HlK Hlt Hr
                   |KA s KB A' l Hk HA HlK Hlt Hll
                   |KA s KB A' l Hk HA HlK Hlt Hll
                   |s KB r B' Hk HA HB Hlt Hr].
    - nk. split; [|lia]. apply shaped_S. repeat split; auto.
      apply Forall_app. split; [assumption|]. constructor; [|assumption]. split; [nk; lia|assumption].
    - subst kvs B. inversion FB as [|? ? Fr FB']; subst.
      destruct (rotl_ok d c r s Hc Fr Hr Hlt Hcm) as [O1 O2].
      rewrite !app_length in *. cbn [length] in *.
      nk. rewrite !app_length. cbn [length]. split; [|lia].
      apply shaped_S. rewrite !app_length. cbn [length]. repeat split; try lia.
      apply Forall_app. split; [assumption|]. constructor; [assumption|]. constructor; assumption.
    - subst kvs A. apply Forall_app in FA. destruct FA as [FA' Fl].
      inversion Fl as [|? ? Fl0 _]; subst.
      destruct (rotr_ok d l c s Fl0 Hc Hll Hlt Hcm) as [O1 O2].
      rewrite !app_length in *. cbn [length] in *.
      nk. rewrite !app_length. cbn [length]. split; [|lia].
      apply shaped_S. rewrite !app_length. cbn [length]. repeat split; try lia.
      apply Forall_app. split; [assumption|]. constructor; [assumption|]. constructor; assumption.
    - subst kvs A. apply Forall_app in FA. destruct FA as [FA' Fl].
      inversion Fl as [|? ? [Fl0 Fl1] _]; subst.
      assert (O : okc d (merged l c s)) by (apply merged_ok; auto; lia).
      rewrite !app_length in *. cbn [length] in *.
      nk. rewrite !app_length. split; [|lia].
      apply shaped_S. rewrite !app_length. cbn [length]. repeat split; try lia.
      apply Forall_app. split; [assumption|]. constructor; assumption.
    - subst kvs A B. inversion FB as [|? ? [Fr0 Fr1] FB']; subst.
      assert (O : okc d (merged c r s)) by (apply merged_ok; auto; lia).
      cbn [app length] in *.
      nk. split; [|lia].
      apply shaped_S. cbn [length]. repeat split; try lia.
      constructor; assumption.
  Qed.

  Definition rr_shape (d : nat) (x : node) (r : node * (K * V)) : Prop :=
    shaped d (fst r) /\ nkeys x <= S (nkeys (fst r)).

  Theorem rr_shaped d : forall x, shaped d x -> 1 <= nkeys x -> rr_shape d x (remove_rightmost x).
  Proof.
    induction d as [|d IH]; intros [id kvs cs] Hs Hne; unfold rr_shape.
    - apply shaped_0_inv in Hs. destruct Hs as [Hlen ->]. rewrite rr_leaf_unfold. cbn [fst]. nk.
      assert (Hk : kvs <> []) by (destruct kvs; [simpl in Hne; lia|discriminate]).
      pose proof (length_removelast kvs Hk) as Hr.
      split; [|lia]. apply shaped_0. split; [lia|reflexivity].
    - apply shaped_S_inv in Hs. destruct Hs as (Hlen & Hlc & F).
      destruct (rev_case cs) as [->|(A & c & ->)]; [discriminate|].
      rewrite length_snoc in Hlc. apply Forall_app in F. destruct F as [FA Fc].
      inversion Fc as [|? ? [Hcm Hcs] _]; subst.
      pose proof (IH c Hcs ltac:(lia)) as Hc. unfold rr_shape in Hc.
      destruct (remove_rightmost c) as [c' kv] eqn:Er. cbn [fst] in Hc. destruct Hc as [Hc1 Hc2].
      rewrite (rr_internal kzero vzero minKVs id kvs A c c' kv ltac:(lia) Er). cbn [fst].
      nk. apply fix_shaped; auto.
      + rewrite length_snoc. lia.
      + nk. lia.
  Qed.

  Definition del_shape (d : nat) (x : node) (r : node * bool) : Prop :=
    shaped d (fst r) /\ nkeys x <= S (nkeys (fst r)).

  Theorem del_shaped d : forall x k,
      shaped d x -> (d <> 0 -> 1 <= nkeys x) -> del_shape d x (del x k).
  Proof.
    induction d as [|d IH]; intros [id kvs cs] k Hs Hne; unfold del_shape.
    - pose proof Hs as Hs0. apply shaped_0_inv in Hs. destruct Hs as [Hlen ->].
      pose proof (del_spec_holds cmp kzero vzero minKVs id kvs [] k (or_introl eq_refl)) as HS.
      remember (del (Node id kvs []) k) as res eqn:Eres. clear Eres.
      destruct HS as [KA k' v' KB Hc Hk Hg He
                     |KA KB Hc Hk Hg Hl
                     |KA k' v' KB A c B c' kv Hk Hc
                     |KA KB A c B c' Hk Hc
                     |KA KB A c B c' Hk Hc];
        try (destruct A; discriminate); cbn [fst].
      + subst kvs. nk. rewrite !app_length in *. cbn [length] in *.
        split; [|lia]. apply shaped_0. rewrite app_length. split; [lia|reflexivity].
      + split; [assumption|lia].
    - pose proof Hs as Hs0. pose proof (shaped_cs _ _ _ _ _ _ Hs) as Hcs.
      apply shaped_S_inv in Hs. destruct Hs as (Hlen & Hlc & F).
      specialize (Hne ltac:(lia)). nk.
      pose proof (del_spec_holds cmp kzero vzero minKVs id kvs cs k Hcs) as HS.
      remember (del (Node id kvs cs) k) as res eqn:Eres. clear Eres.
      destruct HS as [KA k' v' KB Hc Hk Hg He
                     |KA KB Hc Hk Hg Hl
                     |KA k' v' KB A c B c' kv Hk Hc HlA HlB Hg He Hr
                     |KA KB A c B c' Hk Hc HlA HlB Hg Hl Hd
                     |KA KB A c B c' Hk Hc HlA HlB Hg Hl Hd];
        try (subst cs; discriminate); cbn [fst].
      + (* found in this node: pull up the predecessor *)
        subst cs. apply Forall_app in F. destruct F as [FA F].
        inversion F as [|? ? [Hcm Hcs'] FB]; subst.
        pose proof (rr_shaped d c Hcs' ltac:(lia)) as Hc'. unfold rr_shape in Hc'.
        rewrite Hr in Hc'. cbn [fst] in Hc'. destruct Hc' as [Hc1 Hc2].
        assert (Hlk : length (KA ++ kv :: KB) = length (KA ++ (k', v') :: KB))
          by (rewrite !app_length; reflexivity).
        rewrite <- Hlk in *.
        apply fix_shaped; auto.
        * rewrite !app_length in *. cbn [length] in *. lia.
        * lia.
      + subst cs. apply Forall_app in F. destruct F as [FA F].
        inversion F as [|? ? [Hcm Hcs'] FB]; subst.
        pose proof (IH c k Hcs' ltac:(intros _; nk; lia)) as Hc'. unfold del_shape in Hc'.
        rewrite Hd in Hc'. cbn [fst] in Hc'. destruct Hc' as [Hc1 Hc2].
        apply fix_shaped; auto.
        * rewrite !app_length in *. cbn [length] in *. lia.
        * lia.
      + split; [assumption|nk; lia].
  Qed.

End ShapePres.
