(* Layer M for container/tree/btree.go (type btree, Put/Get/Contains/Delete/First/Last/Len and the
   helpers insertIntoLeaf, overfill, merge, mergeTwo, removeRightmost, steal, rotateLeft/Right,
   searchNode, leftmostLeaf, rightmostLeaf).  Cursors and iterators are in Cursor.v.
   No proofs in this file.

   Rendering of the pointer structure (DESIGN A2.4):
   * a node is `Node id kvs cs`; `id` is the pointer identity (needed by cursors), `kvs` the live
     prefix keys[:n]/values[:n] (so n = length kvs), `cs` the live prefix children[:n+1];
     leaf() (children[0] == nil) is `cs = []`.
   * parent pointers are not stored.  The loops of the Go code that walk UP the parent chain
     (overfill's `x = parent`, mergeTwo -> steal/merge of the parent) are the RETURN path of the
     recursive descent here: `ins` returns Upd | Ins | Split, `del` repairs the child it descended
     into with `fix_child` after the recursive call.
   * `children[idx]` of a nil child (never happens in a well-formed tree; Go would panic with a
     nil dereference) is rendered by the empty leaf `dummy`.
   * all recursion is structural on `node` (through `nth_map`, like `map`): there is no fuel and
     no OutOfFuel case.

   Node ids: a split keeps the id of the split node for the LEFT half (`left := x`) and allocates
   `next_id` for the right half (`right := &node{}`), a new root gets a fresh id; rotations keep
   ids; mergeTwo keeps the LEFT id and drops the right node; root collapse drops the old root;
   ids are never reused (`next_id` only grows). *)
From Juniper Require Import Common.Base Tree.Bound.

Section BTree.
  Variables K V : Type.
  (* sign of the Go compare function *)
  Variable cmp : K -> K -> comparison.
  (* Go zero values of K and V *)
  Variable kzero : K.
  Variable vzero : V.
  (* constants minKVs, maxKVs of btree.go (branchFactor = maxKVs + 1) *)
  Variables minKVs maxKVs : nat.

  Inductive node : Type := Node (id : nat) (kvs : list (K * V)) (cs : list node).

  Definition nid (x : node) : nat := match x with Node i _ _ => i end.
  Definition nkvs (x : node) : list (K * V) := match x with Node _ k _ => k end.
  Definition ncs (x : node) : list node := match x with Node _ _ c => c end.
  (* x.n *)
  Definition nkeys (x : node) : nat := length (nkvs x).
  (* x.leaf() *)
  Definition is_leaf (x : node) : bool := match ncs x with [] => true | _ => false end.
  (* stands for a nil child *)
  Definition dummy : node := Node 0 [] [].
  Definition kvzero : K * V := (kzero, vzero).

  Record btree := mkBtree { root : node; size : Z; gen : Z; next_id : nat }.

  (* newBtree *)
  Definition empty_tree : btree := mkBtree (Node 0 [] []) 0 0 1.

  (* Len *)
  Definition len (t : btree) : Z := size t.

  (* ---------------- searchNode ---------------- *)

  (* (idx, inNode): linear scan over keys[:n]. *)
  Fixpoint search_node (k : K) (kvs : list (K * V)) : nat * bool :=
    match kvs with
    | [] => (O, false)
    | (k', _) :: r =>
        match cmp k k' with
        | Lt => (O, false)
        | Eq => (O, true)
        | Gt => let (i, f) := search_node k r in (S i, f)
        end
    end.

  (* Weighted number of compare calls made by that scan: each call compare(k, k') counts w k k'.
     w = 1 counts compare calls; w = less_calls less counts calls of less under LessCompare. *)
  Fixpoint search_cost_w (w : K -> K -> nat) (k : K) (kvs : list (K * V)) : nat :=
    match kvs with
    | [] => O
    | (k', _) :: r =>
        match cmp k k' with
        | Gt => (w k k' + search_cost_w w k r)%nat
        | _ => w k k'
        end
    end.

  Definition unit_cost (_ _ : K) : nat := 1%nat.
  Definition search_cost (k : K) (kvs : list (K * V)) : nat := search_cost_w unit_cost k kvs.

  (* instrumented searchNode: (idx, inNode, number of compare calls) *)
  Definition search_node_c (k : K) (kvs : list (K * V)) : nat * bool * nat :=
    (search_node k kvs, search_cost k kvs).

  (* The scan of insertIntoLeaf and of newAmalgam1 (extraIdx): first index whose key is greater
     than k, else the number of keys.  Equal to fst (search_node k kvs) whenever k is not found. *)
  Fixpoint lt_idx (k : K) (kvs : list (K * V)) : nat :=
    match kvs with
    | [] => O
    | (k', _) :: r => if is_lt (cmp k k') then O else S (lt_idx k r)
    end.

  (* ---------------- Get / Contains ---------------- *)

  (* The loop `for curr != nil`: at a leaf children[idx] is nil, which is nth_map's default. *)
  Fixpoint get_node (x : node) (k : K) : V :=
    match x with
    | Node _ kvs cs =>
        let (idx, found) := search_node k kvs in
        if found then snd (nth idx kvs kvzero)
        else nth_map (fun c => get_node c k) vzero cs idx
    end.

  Fixpoint contains_node (x : node) (k : K) : bool :=
    match x with
    | Node _ kvs cs =>
        let (idx, found) := search_node k kvs in
        if found then true
        else nth_map (fun c => contains_node c k) false cs idx
    end.

  Definition get (t : btree) (k : K) : V := get_node (root t) k.
  Definition contains (t : btree) (k : K) : bool := contains_node (root t) k.

  (* compare calls of Get: sum over the visited nodes of the calls of searchNode.  Contains runs
     the same loop. *)
  Fixpoint get_cost_node (w : K -> K -> nat) (x : node) (k : K) : nat :=
    match x with
    | Node _ kvs cs =>
        let (idx, found) := search_node k kvs in
        let c := search_cost_w w k kvs in
        if found then c
        else (c + nth_map (fun ch => get_cost_node w ch k) O cs idx)%nat
    end.

  Definition get_cost_w (w : K -> K -> nat) (t : btree) (k : K) : nat := get_cost_node w (root t) k.
  Definition get_cost (t : btree) (k : K) : nat := get_cost_w unit_cost t k.
  Definition contains_cost (t : btree) (k : K) : nat := get_cost_w unit_cost t k.

  (* ---------------- leftmostLeaf / rightmostLeaf / First / Last ---------------- *)

  Fixpoint leftmost_leaf (x : node) : node :=
    match x with
    | Node _ _ [] => x
    | Node _ _ (c :: _) => leftmost_leaf c
    end.

  (* curr = curr.children[curr.n] *)
  Fixpoint rightmost_leaf (x : node) : node :=
    match x with
    | Node _ _ [] => x
    | Node _ kvs cs => nth_map rightmost_leaf dummy cs (length kvs)
    end.

  (* First: leaf.keys[0] of a leaf with n = 0 would read a zeroed slot, which is the default. *)
  Definition first (t : btree) : K * V :=
    if (nkeys (root t) =? 0)%nat then kvzero
    else nth 0 (nkvs (leftmost_leaf (root t))) kvzero.

  (* Last: leaf.keys[n-1]; (n = 0 at that leaf cannot happen in a well-formed tree; Go would
     panic on index -1, the model returns the zero pair). *)
  Definition last_kv (t : btree) : K * V :=
    if (nkeys (root t) =? 0)%nat then kvzero
    else last (nkvs (rightmost_leaf (root t))) kvzero.

  (* ---------------- Put ---------------- *)

  (* result of inserting below a node:
     Upd x       the key was present, its value was overwritten in place (no structural change)
     Ins x       inserted, the node absorbed it
     Split l s r inserted, the node was split by overfill into l (same id), separator s, r (fresh) *)
  Inductive ins_res : Type :=
  | Upd (x : node)
  | Ins (x : node)
  | Split (l : node) (s : K * V) (r : node).

  (* curr.values[idx] = v: the stored key is kept *)
  Definition set_val (idx : nat) (v : V) (kvs : list (K * V)) : list (K * V) :=
    match nth_error kvs idx with
    | Some (k', _) => set_at idx (k', v) kvs
    | None => kvs
    end.

  (* medianIdx := all.Len() / 2 with all.Len() = maxKVs + 1 *)
  Definition median_idx : nat := Nat.div (S maxKVs) 2.

  (* One iteration of overfill's loop on the amalgam (kvs, cs) of maxKVs + 1 keys (and maxKVs + 2
     children, or none): left keeps `id`, right gets `rid`. *)
  Definition split_node (id rid : nat) (kvs : list (K * V)) (cs : list node) : ins_res :=
    Split (Node id (firstn median_idx kvs) (firstn (S median_idx) cs))
          (nth median_idx kvs kvzero)
          (Node rid (skipn (S median_idx) kvs) (skipn (S median_idx) cs)).

  (* full(): n == len(keys) *)
  Definition is_full (kvs : list (K * V)) : bool := (maxKVs <=? length kvs)%nat.

  (* Descent of Put below x.  `fresh` is the next unused node id; the new next id is returned.
     - found: overwrite in place.
     - leaf, not full: insertIntoLeaf (own scan lt_idx).
     - leaf, full: overfill: the amalgam inserts (k,v) at extraIdx = lt_idx k keys, then split.
     - internal: recurse into children[idx]; if the child split into (l, s, r):
         parent not full: idxInParent = Index(parent.children, left) = idx;
                          insertOne(keys, idx, s), insertOne(children, idx+1, r)
         parent full: next iteration of overfill with k,v := s and afterK := r: the amalgam
                      puts s at extraIdx = lt_idx (fst s) keys and r at child position extraIdx+1
                      (in a sorted tree extraIdx = idx). *)
  Fixpoint ins (x : node) (k : K) (v : V) (fresh : nat) : ins_res * nat :=
    match x with
    | Node id kvs cs =>
        let (idx, found) := search_node k kvs in
        if found then (Upd (Node id (set_val idx v kvs) cs), fresh)
        else
          match cs with
          | [] =>
              let kvs' := insert_at (lt_idx k kvs) (k, v) kvs in
              if is_full kvs then (split_node id fresh kvs' [], S fresh)
              else (Ins (Node id kvs' []), fresh)
          | _ =>
              match nth_map (fun c => ins c k v fresh) (Upd dummy, fresh) cs idx with
              | (Upd c, fresh') => (Upd (Node id kvs (set_at idx c cs)), fresh')
              | (Ins c, fresh') => (Ins (Node id kvs (set_at idx c cs)), fresh')
              | (Split l s r, fresh') =>
                  if is_full kvs then
                    let e := lt_idx (fst s) kvs in
                    (split_node id fresh' (insert_at e s kvs) (insert_at (S e) r (set_at idx l cs)),
                     S fresh')
                  else
                    (Ins (Node id (insert_at idx s kvs) (insert_at (S idx) r (set_at idx l cs))),
                     fresh')
              end
          end
    end.

  (* Put: gen and size change only when a key was inserted. *)
  Definition put (t : btree) (k : K) (v : V) : btree :=
    match ins (root t) k v (next_id t) with
    | (Upd x, fresh) => mkBtree x (size t) (gen t) fresh
    | (Ins x, fresh) => mkBtree x (size t + 1) (gen t + 1) fresh
    | (Split l s r, fresh) => mkBtree (Node fresh [s] [l; r]) (size t + 1) (gen t + 1) (S fresh)
    end.

  (* ---------------- Delete ---------------- *)

  (* rotateLeft(c, r) where c = children[i], r = children[i+1] of the node (kvs, cs) *)
  Definition rotate_left (kvs : list (K * V)) (cs : list node) (i : nat) : list (K * V) * list node :=
    let c := nth i cs dummy in
    let r := nth (S i) cs dummy in
    let sep := nth i kvs kvzero in
    let c' := Node (nid c) (nkvs c ++ [sep]) (ncs c ++ firstn 1 (ncs r)) in
    let r' := Node (nid r) (skipn 1 (nkvs r)) (skipn 1 (ncs r)) in
    (set_at i (nth 0 (nkvs r) kvzero) kvs, set_at (S i) r' (set_at i c' cs)).

  (* rotateRight(l, c) where l = children[i-1], c = children[i] *)
  Definition rotate_right (kvs : list (K * V)) (cs : list node) (i : nat) : list (K * V) * list node :=
    let c := nth i cs dummy in
    let l := nth (pred i) cs dummy in
    let sep := nth (pred i) kvs kvzero in
    let ln := nkeys l in
    let c' := Node (nid c) (sep :: nkvs c) (skipn ln (ncs l) ++ ncs c) in
    let l' := Node (nid l) (firstn (pred ln) (nkvs l)) (firstn ln (ncs l)) in
    (set_at (pred i) (nth (pred ln) (nkvs l) kvzero) kvs, set_at i c' (set_at (pred i) l' cs)).

  (* mergeTwo(children[j], children[j+1]): the left node keeps its id, the right one disappears *)
  Definition merge_two (kvs : list (K * V)) (cs : list node) (j : nat) : list (K * V) * list node :=
    let a := nth j cs dummy in
    let b := nth (S j) cs dummy in
    let m := Node (nid a) (nkvs a ++ nth j kvs kvzero :: nkvs b) (ncs a ++ ncs b) in
    (remove_at j kvs, remove_at (S j) (set_at j m cs)).

  (* Repair of child i of the node (id, kvs, cs) after a removal below it:
       if child.n >= minKVs: nothing
       steal:  right sibling exists and right.n > minKVs -> rotateLeft(child, right)
               left sibling exists and left.n > minKVs   -> rotateRight(left, child)
       merge:  left != nil && left.n <= minKVs -> mergeTwo(left, child) else mergeTwo(child, right) *)
  Definition fix_child (id : nat) (kvs : list (K * V)) (cs : list node) (i : nat) : node :=
    let c := nth i cs dummy in
    if (minKVs <=? nkeys c)%nat then Node id kvs cs else
    let has_r := (i <? length kvs)%nat in
    let has_l := (0 <? i)%nat in
    let r := nth (S i) cs dummy in
    let l := nth (pred i) cs dummy in
    if has_r && (minKVs <? nkeys r)%nat then
      let (kvs', cs') := rotate_left kvs cs i in Node id kvs' cs'
    else if has_l && (minKVs <? nkeys l)%nat then
      let (kvs', cs') := rotate_right kvs cs i in Node id kvs' cs'
    else if has_l && (nkeys l <=? minKVs)%nat then
      let (kvs', cs') := merge_two kvs cs (pred i) in Node id kvs' cs'
    else
      let (kvs', cs') := merge_two kvs cs i in Node id kvs' cs'.

  (* removeRightmost on the subtree x, followed (on the way back) by the steal/merge repairs that
     Delete and mergeTwo perform bottom-up.  Returns the new subtree and the removed pair. *)
  Fixpoint remove_rightmost (x : node) : node * (K * V) :=
    match x with
    | Node id kvs [] => (Node id (removelast kvs) [], last kvs kvzero)
    | Node id kvs cs =>
        let i := length kvs in
        let '(c', kv) := nth_map remove_rightmost (dummy, kvzero) cs i in
        (fix_child id kvs (set_at i c' cs) i, kv)
    end.

  (* Descent of Delete below x; the bool says whether the key was found (and removed). *)
  Fixpoint del (x : node) (k : K) : node * bool :=
    match x with
    | Node id kvs cs =>
        let (idx, found) := search_node k kvs in
        match cs with
        | [] => if found then (Node id (remove_at idx kvs) [], true) else (x, false)
        | _ =>
            if found then
              let '(c', kv) := nth_map remove_rightmost (dummy, kvzero) cs idx in
              (fix_child id (set_at idx kv kvs) (set_at idx c' cs) idx, true)
            else
              let '(c', b) := nth_map (fun c => del c k) (dummy, false) cs idx in
              if b then (fix_child id kvs (set_at idx c' cs) idx, true) else (x, false)
        end
    end.

  (* Delete.  Root collapse: mergeTwo with parent == t.root and parent.n == 0 sets t.root = left. *)
  Definition delete (t : btree) (k : K) : btree :=
    let '(x, b) := del (root t) k in
    if b then
      let x' := match x with Node _ [] (c :: _) => c | _ => x end in
      mkBtree x' (size t - 1) (gen t + 1) (next_id t)
    else t.

  (* ---------------- observation functions ---------------- *)

  Fixpoint interleave {A} (ls : list (list A)) (seps : list A) : list A :=
    match ls with
    | [] => []
    | l :: ls' =>
        match seps with
        | [] => l ++ interleave ls' []
        | s :: seps' => l ++ s :: interleave ls' seps'
        end
    end.

  Fixpoint inorder (x : node) : list (K * V) :=
    match x with
    | Node _ kvs [] => kvs
    | Node _ kvs cs => interleave (map inorder cs) kvs
    end.

  (* number of levels; 1 for a leaf *)
  Fixpoint height (x : node) : nat :=
    match x with Node _ _ cs => S (list_max (map height cs)) end.

  (* all nodes in preorder *)
  Fixpoint nodes (x : node) : list node :=
    match x with Node _ _ cs => x :: flat_map nodes cs end.

  (* preorder: depth, number of keys *)
  Fixpoint shape_at (d : Z) (x : node) : list Z :=
    match x with Node _ kvs cs => d :: zlen kvs :: flat_map (shape_at (d + 1)) cs end.
  Definition shape (x : node) : list Z := shape_at 0 x.

  (* preorder: depth, number of keys, keys (through an injection of K into Z) *)
  Fixpoint shape_keys_at (inj : K -> Z) (d : Z) (x : node) : list Z :=
    match x with
    | Node _ kvs cs =>
        d :: zlen kvs :: map (fun kv => inj (fst kv)) kvs ++ flat_map (shape_keys_at inj (d + 1)) cs
    end.
  Definition shape_keys_with (inj : K -> Z) (x : node) : list Z := shape_keys_at inj 0 x.

End BTree.

Arguments Node {K V} id kvs cs.
Arguments nid {K V} x.
Arguments nkvs {K V} x.
Arguments ncs {K V} x.
Arguments nkeys {K V} x.
Arguments is_leaf {K V} x.
Arguments dummy {K V}.
Arguments mkBtree {K V} root size gen next_id.
Arguments root {K V} b.
Arguments size {K V} b.
Arguments gen {K V} b.
Arguments next_id {K V} b.
Arguments empty_tree {K V}.
Arguments len {K V} t.
Arguments leftmost_leaf {K V} x.
Arguments rightmost_leaf {K V} x.
Arguments inorder {K V} x.
Arguments height {K V} x.
Arguments nodes {K V} x.
Arguments shape {K V} x.
Arguments shape_keys_with {K V} inj x.

(* shape_keys for K := Z *)
Definition shape_keys {V : Type} (x : @node Z V) : list Z := shape_keys_with (fun k => k) x.
