(* Lookups on a well-formed subtree: get / contains / first / last read the in-order list like the
   ideal map; number of comparisons per lookup; size lower bound that gives the depth bound. *)
From Juniper Require Import Common.Base Tree.Bound Tree.BTree Tree.SMap
  Tree.ProofsLists Tree.ProofsSMap Tree.ProofsCases Tree.ProofsWf Tree.ProofsInorder.
Local Open Scope nat_scope.

Lemma sumf_plus1 {A} (f : A -> nat) l : sumf (fun x => f x + 1) l = sumf f l + length l.
Proof. unfold sumf. induction l as [|a l IH]; simpl; lia. Qed.

Section Lookup.
  Context {K V : Type}.
  Variable cmp : K -> K -> comparison.
  Variables (kzero : K) (vzero : V).
  Variables minKVs maxKVs : nat.
  Hypothesis Hmin : 1 <= minKVs.

  Notation node := (@node K V).
  Notation search_node := (search_node K V cmp).
  Notation get_node := (get_node K V cmp kzero vzero).
  Notation contains_node := (contains_node K V cmp).
  Notation get_cost_node := (get_cost_node K V cmp).
  Notation kvzero := (kvzero K V kzero vzero).
  Notation shaped := (shaped minKVs maxKVs).
  Notation okc := (okc minKVs maxKVs).
  Notation sorted := (@sorted K V cmp).
  Notation gt_all := (@gt_all K V cmp).
  Notation lt_hd := (@lt_hd K V cmp).
  Notation sm_find := (sm_find K V cmp).
  Notation sm_get := (sm_get K V cmp vzero).
  Notation sm_contains := (sm_contains K V cmp).

  Lemma get_node_unfold id kvs cs k :
    get_node (Node id kvs cs) k =
    let (idx, found) := search_node k kvs in
    if found then snd (nth idx kvs kvzero)
    else nth_map (fun c => get_node c k) vzero cs idx.
  Proof. reflexivity. Qed.

  Lemma contains_node_unfold id kvs cs k :
    contains_node (Node id kvs cs) k =
    let (idx, found) := search_node k kvs in
    if found then true else nth_map (fun c => contains_node c k) false cs idx.
  Proof. reflexivity. Qed.

  Lemma get_cost_node_unfold w id kvs cs k :
    get_cost_node w (Node id kvs cs) k =
    let (idx, found) := search_node k kvs in
    let c := search_cost_w K V cmp w k kvs in
    if found then c else c + nth_map (fun ch => get_cost_node w ch k) 0 cs idx.
  Proof. reflexivity. Qed.

  Lemma split_children (KA KB : list (K * V)) (cs : list node) :
    length cs = S (length (KA ++ KB)) ->
    exists A c B, cs = A ++ c :: B /\ length KA = length A /\ length KB = length B.
  Proof.
    intros H. rewrite app_length in H.
    destruct (split_at_len cs (length KA) ltac:(lia)) as (A & c & B & -> & HlA).
    exists A, c, B. rewrite app_length in H. cbn [length] in H. repeat split; lia.
  Qed.

  (* ---------------- get / contains ---------------- *)

  Section WithLaws.
  Hypothesis L : cmp_laws cmp.

  Theorem lookup_inorder d : forall x k,
      shaped d x -> sorted (inorder x) ->
      get_node x k = sm_get (inorder x) k /\ contains_node x k = sm_contains (inorder x) k.
  Proof.
    induction d as [|d IH]; intros [id kvs cs] k Hs Hso;
      rewrite get_node_unfold, contains_node_unfold;
      destruct (search_node k kvs) as [idx found] eqn:Es;
      destruct (search_node_spec cmp _ _ _ _ Es) as (KA & KB & Hk & Hl & Hg & Hf);
      unfold SMap.sm_get, SMap.sm_contains; destruct found.
    - destruct Hf as (k' & v' & KB' & -> & He). subst kvs.
      destruct (inorder_sep _ _ _ _ _ _ _ _ Hs) as (pre & post & Hio). rewrite Hio in *.
      pose proof (found_pre cmp L pre k' v' post k Hso He) as Hgp.
      rewrite (sm_find_at cmp k pre k' v' post Hgp He).
      rewrite (nth_app_mid KA KB' (k', v') _ idx Hl). auto.
    - apply shaped_0_inv in Hs. destruct Hs as [_ ->]. subst kvs. rewrite inorder_leaf in *.
      pose proof (sm_find_mid cmp k KA [] KB Hg Hf) as Hfm. cbn [app] in Hfm. rewrite Hfm.
      destruct idx; auto.
    - destruct Hf as (k' & v' & KB' & -> & He). subst kvs.
      destruct (inorder_sep _ _ _ _ _ _ _ _ Hs) as (pre & post & Hio). rewrite Hio in *.
      pose proof (found_pre cmp L pre k' v' post k Hso He) as Hgp.
      rewrite (sm_find_at cmp k pre k' v' post Hgp He).
      rewrite (nth_app_mid KA KB' (k', v') _ idx Hl). auto.
    - apply shaped_S_inv in Hs. destruct Hs as (Hlen & Hlc & F). subst kvs.
      destruct (split_children KA KB cs Hlc) as (A & c & B & -> & HlA & HlB).
      rewrite !(nth_map_some _ _ (A ++ c :: B) idx c) by (apply nth_error_app_mid; lia).
      destruct (node_mid cmp L id KA KB A c B k HlA HlB Hso Hg Hf) as (Hio & Hgp & Hlp & Hsc).
      apply Forall_app in F. destruct F as [FA F]. inversion F as [|? ? [Hcm Hcs'] FB]; subst.
      destruct (IH c k Hcs' Hsc) as [I1 I2]. unfold SMap.sm_get, SMap.sm_contains in I1, I2.
      rewrite Hio, (sm_find_mid cmp k _ _ _ Hgp Hlp). auto.
  Qed.
  End WithLaws.

  (* ---------------- first / last ---------------- *)

  Lemma rightmost_leaf_internal id (kvs : list (K * V)) (cs : list node) :
    cs <> [] ->
    rightmost_leaf (Node id kvs cs) = nth_map rightmost_leaf dummy cs (length kvs).
  Proof. destruct cs; [congruence|reflexivity]. Qed.

  Theorem first_inorder d : forall x : node,
      shaped d x -> 1 <= nkeys x ->
      exists rest, inorder x = nth 0 (nkvs (leftmost_leaf x)) kvzero :: rest.
  Proof.
    induction d as [|d IH]; intros [id kvs cs] Hs Hne; nk.
    - apply shaped_0_inv in Hs. destruct Hs as [_ ->]. cbn [leftmost_leaf nkvs]. rewrite inorder_leaf.
      destruct kvs as [|kv kvs]; [simpl in Hne; lia|]. exists kvs. reflexivity.
    - apply shaped_S_inv in Hs. destruct Hs as (Hlen & Hlc & F).
      destruct cs as [|c cs]; [discriminate|]. inversion F as [|? ? [Hcm Hcs] F']; subst.
      destruct (IH c Hcs ltac:(nk; lia)) as (rest & Hr).
      cbn [leftmost_leaf]. rewrite inorder_internal by discriminate. cbn [map length] in *.
      rewrite interleave_cons_iright by (rewrite map_length; lia).
      rewrite Hr. eexists. rewrite <- app_comm_cons. reflexivity.
  Qed.

  Theorem last_inorder d : forall x : node,
      shaped d x -> 1 <= nkeys x ->
      exists front, inorder x = front ++ [last (nkvs (rightmost_leaf x)) kvzero].
  Proof.
    induction d as [|d IH]; intros [id kvs cs] Hs Hne; nk.
    - apply shaped_0_inv in Hs. destruct Hs as [_ ->]. cbn [rightmost_leaf nkvs]. rewrite inorder_leaf.
      exists (removelast kvs). apply app_removelast_last.
      destruct kvs; [simpl in Hne; lia|discriminate].
    - apply shaped_S_inv in Hs. destruct Hs as (Hlen & Hlc & F).
      destruct (rev_case cs) as [->|(A & c & ->)]; [discriminate|].
      rewrite length_snoc in Hlc. apply Forall_app in F. destruct F as [FA Fc].
      inversion Fc as [|? ? [Hcm Hcs] _]; subst.
      destruct (IH c Hcs ltac:(nk; lia)) as (front & Hf).
      rewrite rightmost_leaf_internal by (destruct A; discriminate).
      rewrite (nth_map_some _ _ (A ++ [c]) (length kvs) c) by (apply nth_error_app_mid; lia).
      rewrite inorder_last by lia. rewrite Hf, app_assoc. eexists. reflexivity.
  Qed.

  (* ---------------- comparisons per lookup ---------------- *)

  Theorem cost_bound w W d : forall x k,
      (forall a b, w a b <= W) -> shaped d x ->
      get_cost_node w x k <= W * maxKVs * S d.
  Proof.
    intros x k HW. revert x. induction d as [|d IH]; intros [id kvs cs] Hs;
      rewrite get_cost_node_unfold;
      destruct (search_node k kvs) as [idx found] eqn:Es; cbv zeta;
      pose proof (search_cost_le cmp w k kvs) as Hc;
      assert (Hs1 : sumf (fun kv : K * V => w k (fst kv)) kvs <= length kvs * W)
        by (apply sumf_le; apply Forall_forall; intros; apply HW).
    - apply shaped_0_inv in Hs. destruct Hs as [Hlen ->].
      assert (length kvs * W <= maxKVs * W) by (apply Nat.mul_le_mono_r; assumption).
      destruct found; [nia|]. destruct idx; simpl; nia.
    - apply shaped_S_inv in Hs. destruct Hs as (Hlen & Hlc & F).
      assert (length kvs * W <= maxKVs * W) by (apply Nat.mul_le_mono_r; assumption).
      destruct found; [nia|]. rewrite nth_map_spec.
      destruct (nth_error cs idx) as [c|] eqn:En; [|nia].
      pose proof (Forall_nth_error _ _ _ _ F En) as [_ Hcs]. specialize (IH c Hcs). nia.
  Qed.

  (* ---------------- size lower bound ---------------- *)

  Lemma length_inorder_internal id (kvs : list (K * V)) (cs : list node) :
    length cs = S (length kvs) ->
    length (inorder (Node id kvs cs)) + 1 = sumf (fun c => length (inorder c) + 1) cs.
  Proof.
    intros H. rewrite inorder_internal by (destruct cs; discriminate).
    rewrite length_interleave by (rewrite map_length; assumption).
    rewrite sumf_map, sumf_plus1. lia.
  Qed.

  Theorem size_lower d : forall x : node,
      shaped d x -> minKVs <= nkeys x -> (minKVs + 1) ^ (S d) <= length (inorder x) + 1.
  Proof.
    induction d as [|d IH]; intros [id kvs cs] Hs Hm; nk.
    - apply shaped_0_inv in Hs. destruct Hs as [_ ->]. rewrite inorder_leaf.
      rewrite Nat.pow_1_r. lia.
    - apply shaped_S_inv in Hs. destruct Hs as (Hlen & Hlc & F).
      rewrite length_inorder_internal by assumption.
      assert (G : Forall (fun c => (minKVs + 1) ^ S d <= length (inorder c) + 1) cs).
      { eapply Forall_impl; [|exact F]. intros c [Hcm Hcs]. apply IH; assumption. }
      pose proof (sumf_ge _ _ _ G) as Hsum.
      rewrite (Nat.pow_succ_r' (minKVs + 1) (S d)).
      assert ((minKVs + 1) * (minKVs + 1) ^ S d <= length cs * (minKVs + 1) ^ S d)
        by (apply Nat.mul_le_mono_r; lia).
      lia.
  Qed.

  Theorem depth_lower d (x : node) :
    shaped d x -> root_ok x -> 1 <= length (inorder x) ->
    2 * (minKVs + 1) ^ d <= length (inorder x) + 1.
  Proof.
    destruct x as [id kvs cs]. intros Hs Hr Hn. destruct d as [|d].
    - rewrite Nat.pow_0_r. lia.
    - apply shaped_S_inv in Hs. destruct Hs as (Hlen & Hlc & F).
      unfold root_ok in Hr. nk. specialize (Hr ltac:(destruct cs; discriminate)).
      rewrite length_inorder_internal by assumption.
      assert (G : Forall (fun c => (minKVs + 1) ^ S d <= length (inorder c) + 1) cs).
      { eapply Forall_impl; [|exact F]. intros c [Hcm Hcs]. apply size_lower; assumption. }
      pose proof (sumf_ge _ _ _ G) as Hsum.
      assert (2 * (minKVs + 1) ^ S d <= length cs * (minKVs + 1) ^ S d)
        by (apply Nat.mul_le_mono_r; lia).
      lia.
  Qed.

  (* every key of every node is in the in-order list *)
  Theorem nodes_in_inorder d : forall (x y : node) (kv : K * V),
      shaped d x -> In y (nodes x) -> In kv (nkvs y) -> In kv (inorder x).
  Proof.
    induction d as [|d IH]; intros [id kvs cs] y kv Hs Hy Hkv.
    - apply shaped_0_inv in Hs. destruct Hs as [_ ->]. simpl in Hy. destruct Hy as [<-|[]].
      exact Hkv.
    - apply shaped_S_inv in Hs. destruct Hs as (Hlen & Hlc & F).
      rewrite inorder_internal by (destruct cs; discriminate).
      apply in_interleave; [rewrite map_length; assumption|].
      rewrite nodes_node in Hy. destruct Hy as [<-|Hy]; [left; exact Hkv|].
      right. apply in_flat_map in Hy. destruct Hy as (c & Hc & Hy).
      exists (inorder c). split; [apply in_map; assumption|].
      rewrite Forall_forall in F. destruct (F c Hc) as [_ Hcs].
      eapply IH; eassumption.
  Qed.

End Lookup.
