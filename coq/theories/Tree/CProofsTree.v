(* C02, tree vocabulary for the cursor proofs (layer M, BTree.v + Cursor.v):
   - induction principle for the nested type [node];
   - [ids]: node identities in preorder; [shape_ok]: the local shape facts the cursor code relies on
     (a node is a leaf or has one more child than keys; every node below the root has a key);
   - [inorder_pos]: the in-order list of POSITIONS (node id, index, entry); its projection is
     BTree.inorder;
   - decomposition of [interleave] at a child / at a separator;
   - [find_node] / [path_to] under unique ids.
   Stdlib only, no axioms. *)
From Juniper Require Import Common.Base Tree.Bound Tree.BTree Tree.Cursor.

Section Tree.
  Context {K V : Type}.
  Notation node := (@node K V).

  (* ---------------- induction on nodes ---------------- *)

  Lemma node_ind' (P : node -> Prop) :
    (forall id kvs cs, Forall P cs -> P (Node id kvs cs)) -> forall x, P x.
  Proof.
    intros H. fix IH 1. intros [id kvs cs]. apply H.
    induction cs as [|c cs IHcs]; constructor; [apply IH|exact IHcs].
  Qed.

  (* ---------------- identities ---------------- *)

  Definition ids (x : node) : list nat := map nid (nodes x).

  Lemma ids_node id kvs cs : ids (Node id kvs cs) = id :: flat_map ids cs.
  Proof.
    unfold ids. simpl. f_equal.
    induction cs as [|c cs IH]; simpl; auto. rewrite map_app, IH. reflexivity.
  Qed.

  Lemma nid_in_ids (x : node) : In (nid x) (ids x).
  Proof. destruct x as [id kvs cs]. rewrite ids_node. left. reflexivity. Qed.

  Lemma in_flat_map_nth {A B} (f : A -> list B) (l : list A) (b : B) :
    In b (flat_map f l) <-> exists j a, nth_error l j = Some a /\ In b (f a).
  Proof.
    rewrite in_flat_map. split.
    - intros (a & Ha & Hb). apply In_nth_error in Ha. destruct Ha as [j Hj]. eauto.
    - intros (j & a & Hj & Hb). apply nth_error_In in Hj. eauto.
  Qed.

  Lemma NoDup_app_inv {A} (l1 l2 : list A) :
    NoDup (l1 ++ l2) -> NoDup l1 /\ NoDup l2 /\ (forall b, In b l1 -> In b l2 -> False).
  Proof.
    induction l1 as [|a l1 IH]; simpl; intros H.
    - repeat split; auto. constructor.
    - inversion H as [|a' l' Hna Hnd]; subst. destruct (IH Hnd) as (H1 & H2 & H3).
      repeat split; auto.
      + constructor; auto. intros Hin. apply Hna. apply in_or_app. left. exact Hin.
      + intros b [<-|Hb] Hb2.
        * apply Hna. apply in_or_app. right. exact Hb2.
        * eapply H3; eauto.
  Qed.

  Lemma NoDup_flat_map_inv {A B} (f : A -> list B) (l : list A) :
    NoDup (flat_map f l) ->
    (forall j a, nth_error l j = Some a -> NoDup (f a)) /\
    (forall j j' a a' b, nth_error l j = Some a -> nth_error l j' = Some a' ->
        In b (f a) -> In b (f a') -> j = j').
  Proof.
    induction l as [|x l IH]; simpl; intros Hnd.
    - split; intros; destruct j; discriminate.
    - apply NoDup_app_inv in Hnd. destruct Hnd as (Hx & Hl & Hdisj).
      destruct (IH Hl) as [IH1 IH2]. split.
      + intros [|j] a Ha; simpl in Ha.
        * injection Ha as <-. exact Hx.
        * eauto.
      + intros [|j] [|j'] a a' b Ha Ha' Hb Hb'; simpl in Ha, Ha'; auto.
        * injection Ha as <-. exfalso. apply (Hdisj b Hb).
          apply in_flat_map_nth. eauto.
        * injection Ha' as <-. exfalso. apply (Hdisj b Hb').
          apply in_flat_map_nth. eauto.
        * f_equal. eapply IH2; eauto.
  Qed.

  (* ---------------- shape ---------------- *)

  (* the local shape the cursor code relies on: at least one key; leaf or keys + 1 children *)
  Inductive shape_ok : node -> Prop :=
  | shape_leaf id kvs : kvs <> [] -> shape_ok (Node id kvs [])
  | shape_int id kvs cs :
      kvs <> [] -> length cs = S (length kvs) -> Forall shape_ok cs -> shape_ok (Node id kvs cs).

  (* the root may also be the empty leaf *)
  Definition root_ok (x : node) : Prop := shape_ok x \/ (nkvs x = [] /\ ncs x = []).

  Lemma shape_ok_inv id kvs cs :
    shape_ok (Node id kvs cs) ->
    kvs <> [] /\ (cs = [] \/ length cs = S (length kvs)) /\ Forall shape_ok cs.
  Proof. intros H. inversion H; subst; repeat split; auto. Qed.

  Lemma shape_ok_child id kvs cs j c :
    shape_ok (Node id kvs cs) -> nth_error cs j = Some c ->
    shape_ok c /\ length cs = S (length kvs).
  Proof.
    intros H Hj. apply shape_ok_inv in H. destruct H as (_ & [->|Hlen] & Hall).
    - destruct j; discriminate.
    - split; auto. rewrite Forall_forall in Hall. apply Hall. eapply nth_error_In; eauto.
  Qed.

  (* ---------------- positions in order ---------------- *)

  (* a position: node id, index in the node, the entry stored there *)
  Notation pos := (nat * Z * (K * V))%type.
  Definition p_id (p : pos) : nat := fst (fst p).
  Definition p_i (p : pos) : Z := snd (fst p).
  Definition p_kv (p : pos) : K * V := snd p.

  Fixpoint own_pos (id : nat) (j : nat) (kvs : list (K * V)) : list pos :=
    match kvs with
    | [] => []
    | kv :: r => (id, Z.of_nat j, kv) :: own_pos id (S j) r
    end.

  Fixpoint inorder_pos (x : node) : list pos :=
    match x with
    | Node id kvs [] => own_pos id 0 kvs
    | Node id kvs cs => interleave (map inorder_pos cs) (own_pos id 0 kvs)
    end.

  Lemma own_pos_kvs id j kvs : map snd (own_pos id j kvs) = kvs.
  Proof. revert j. induction kvs as [|kv r IH]; simpl; intros j; auto. rewrite IH. reflexivity. Qed.

  Lemma own_pos_length id j kvs : length (own_pos id j kvs) = length kvs.
  Proof. revert j. induction kvs as [|kv r IH]; simpl; intros j; auto. Qed.

  Lemma own_pos_nth id j kvs n :
    nth_error (own_pos id j kvs) n = option_map (fun kv => (id, Z.of_nat (j + n), kv)) (nth_error kvs n).
  Proof.
    revert j n. induction kvs as [|kv r IH]; intros j [|n]; simpl; auto.
    - rewrite Nat.add_0_r. reflexivity.
    - rewrite IH. replace (S j + n)%nat with (j + S n)%nat by lia. reflexivity.
  Qed.

  Lemma own_pos_app id j l1 l2 :
    own_pos id j (l1 ++ l2) = own_pos id j l1 ++ own_pos id (j + length l1) l2.
  Proof.
    revert j. induction l1 as [|a l1 IH]; simpl; intros j.
    - rewrite Nat.add_0_r. reflexivity.
    - rewrite IH. replace (S j + length l1)%nat with (j + S (length l1))%nat by lia. reflexivity.
  Qed.

  Lemma own_pos_in id j kvs p : In p (own_pos id j kvs) -> p_id p = id.
  Proof.
    revert j. induction kvs as [|kv r IH]; simpl; intros j; [contradiction|].
    intros [<-|H]; eauto.
  Qed.

  Lemma map_interleave {A B} (f : A -> B) (ls : list (list A)) :
    forall seps, map f (interleave ls seps) = interleave (map (map f) ls) (map f seps).
  Proof.
    induction ls as [|l ls IH]; intros seps; simpl; auto.
    destruct seps as [|s seps]; simpl; rewrite map_app; simpl; rewrite IH; reflexivity.
  Qed.

  Lemma inorder_pos_inorder x : map snd (inorder_pos x) = inorder x.
  Proof.
    induction x as [id kvs cs IH] using node_ind'.
    destruct cs as [|c cs].
    - simpl. apply own_pos_kvs.
    - change (map snd (interleave (map inorder_pos (c :: cs)) (own_pos id 0 kvs))
              = interleave (map inorder (c :: cs)) kvs).
      rewrite map_interleave, own_pos_kvs. f_equal.
      rewrite map_map. apply map_ext_in. intros a Ha.
      rewrite Forall_forall in IH. apply IH. exact Ha.
  Qed.

  (* ---------------- interleave at a child / at a separator ---------------- *)

  (* everything before child j: l0 s0 ... l(j-1) s(j-1) *)
  Fixpoint ipre {A} (j : nat) (ls : list (list A)) (seps : list A) : list A :=
    match j, ls, seps with
    | S j', l :: ls', s :: seps' => l ++ s :: ipre j' ls' seps'
    | _, _, _ => []
    end.

  (* everything after child j: sj l(j+1) ... *)
  Definition ipost {A} (j : nat) (ls : list (list A)) (seps : list A) : list A :=
    match nth_error seps j with
    | Some s => s :: interleave (skipn (S j) ls) (skipn (S j) seps)
    | None => []
    end.

  Lemma interleave_child {A} : forall j (ls : list (list A)) seps l,
    nth_error ls j = Some l -> length ls = S (length seps) ->
    interleave ls seps = ipre j ls seps ++ l ++ ipost j ls seps.
  Proof.
    induction j as [|j IH]; intros ls seps l Hj Hlen.
    - destruct ls as [|l0 ls]; [discriminate|]. simpl in Hj. injection Hj as ->.
      destruct seps as [|s seps]; simpl in *.
      + destruct ls; [|discriminate]. reflexivity.
      + reflexivity.
    - destruct ls as [|l0 ls]; [discriminate|]. simpl in Hj.
      destruct seps as [|s seps]; simpl in Hlen.
      + destruct ls; [destruct j; discriminate|discriminate].
      + injection Hlen as Hlen.
        change (ipost (S j) (l0 :: ls) (s :: seps)) with (ipost j ls seps).
        simpl. rewrite (IH ls seps l Hj Hlen). rewrite <- app_assoc. reflexivity.
  Qed.

  Lemma ipost_last {A} j (ls : list (list A)) seps : j = length seps -> ipost j ls seps = [].
  Proof.
    intros ->. unfold ipost.
    destruct (nth_error seps (length seps)) eqn:E; auto.
    assert (nth_error seps (length seps) <> None) by congruence.
    apply nth_error_Some in H. lia.
  Qed.

  Lemma app_eq_mid {A} (x y l1 l2 : list A) (e : A) :
    x ++ y = l1 ++ e :: l2 ->
    (exists l2', x = l1 ++ e :: l2' /\ l2 = l2' ++ y) \/
    (exists l1', l1 = x ++ l1' /\ y = l1' ++ e :: l2).
  Proof.
    revert l1. induction x as [|a x IH]; intros l1 H; simpl in H.
    - right. exists l1. auto.
    - destruct l1 as [|b l1]; simpl in H.
      + injection H as <- <-. left. exists x. auto.
      + injection H as <- H. destruct (IH l1 H) as [(l2' & -> & ->)|(l1' & -> & ->)].
        * left. exists l2'. auto.
        * right. exists l1'. auto.
  Qed.

  Lemma interleave_decomp {A} : forall (ls : list (list A)) seps l1 e l2,
    length ls = S (length seps) ->
    interleave ls seps = l1 ++ e :: l2 ->
    (exists j l1' l2', nth_error ls j = Some (l1' ++ e :: l2')
        /\ l1 = ipre j ls seps ++ l1' /\ l2 = l2' ++ ipost j ls seps)
    \/ (exists j l, nth_error seps j = Some e /\ nth_error ls j = Some l
        /\ l1 = ipre j ls seps ++ l
        /\ l2 = interleave (skipn (S j) ls) (skipn (S j) seps)).
  Proof.
    induction ls as [|l ls IH]; intros seps l1 e l2 Hlen Heq; [discriminate|].
    destruct seps as [|s seps]; simpl in Hlen, Heq.
    - destruct ls; [|discriminate]. simpl in Heq. rewrite app_nil_r in Heq.
      left. exists O, l1, l2. simpl. rewrite app_nil_r. subst l. auto.
    - injection Hlen as Hlen.
      apply app_eq_mid in Heq. destruct Heq as [(l2' & -> & ->)|(l1' & -> & Heq)].
      + left. exists O, l1, l2'. simpl. auto.
      + destruct l1' as [|b l1']; simpl in Heq.
        * injection Heq as <- <-. right. exists O, l. simpl. rewrite app_nil_r. auto.
        * injection Heq as <- Heq.
          destruct (IH seps l1' e l2 Hlen Heq)
            as [(j & l1'' & l2' & Hj & -> & ->)|(j & l' & Hj & Hl & -> & ->)].
          -- left. exists (S j), l1'', l2'. simpl.
             change (ipost (S j) (l :: ls) (s :: seps)) with (ipost j ls seps).
             rewrite <- app_assoc. simpl. auto.
          -- right. exists (S j), l'. simpl. rewrite <- app_assoc. simpl. auto.
  Qed.

  (* ---------------- first_some_i ---------------- *)

  Lemma first_some_i_hit {A B} (f : nat -> A -> option B) : forall cs j0 j c b,
    nth_error cs j = Some c -> f (j0 + j)%nat c = Some b ->
    (forall j' c', (j' < j)%nat -> nth_error cs j' = Some c' -> f (j0 + j')%nat c' = None) ->
    first_some_i f cs j0 = Some b.
  Proof.
    induction cs as [|c0 cs IH]; intros j0 j c b Hj Hf Hbefore; [destruct j; discriminate|].
    destruct j as [|j]; simpl in *.
    - injection Hj as ->. rewrite Nat.add_0_r in Hf. rewrite Hf. reflexivity.
    - rewrite <- (Nat.add_0_r j0) at 1. rewrite (Hbefore O c0); [|lia|reflexivity].
      apply (IH (S j0) j c b Hj).
      + replace (S j0 + j)%nat with (j0 + S j)%nat by lia. exact Hf.
      + intros j' c' Hlt Hj'. replace (S j0 + j')%nat with (j0 + S j')%nat by lia.
        apply Hbefore; [lia|exact Hj'].
  Qed.

  Lemma first_some_i_none {A B} (f : nat -> A -> option B) : forall cs j0,
    (forall j c, nth_error cs j = Some c -> f (j0 + j)%nat c = None) ->
    first_some_i f cs j0 = None.
  Proof.
    induction cs as [|c0 cs IH]; intros j0 H; simpl; auto.
    rewrite <- (Nat.add_0_r j0) at 1. rewrite (H O c0 eq_refl).
    apply IH. intros j c Hj. replace (S j0 + j)%nat with (j0 + S j)%nat by lia. apply H. exact Hj.
  Qed.

  Lemma first_some_i_some {A B} (f : nat -> A -> option B) : forall cs j0 b,
    first_some_i f cs j0 = Some b ->
    exists j c, nth_error cs j = Some c /\ f (j0 + j)%nat c = Some b.
  Proof.
    induction cs as [|c0 cs IH]; intros j0 b H; simpl in H; [discriminate|].
    destruct (f j0 c0) eqn:E.
    - injection H as <-. exists O, c0. rewrite Nat.add_0_r. auto.
    - destruct (IH (S j0) b H) as (j & c & Hj & Hf). exists (S j), c. split; auto.
      replace (j0 + S j)%nat with (S j0 + j)%nat by lia. exact Hf.
  Qed.

  (* ---------------- find_node / path_to ---------------- *)

  Lemma find_node_self (x : node) : find_node (nid x) x = Some x.
  Proof. destruct x as [id kvs cs]. simpl. rewrite Nat.eqb_refl. reflexivity. Qed.

  Lemma path_to_self (x : node) : path_to (nid x) x = Some [].
  Proof. destruct x as [id kvs cs]. simpl. rewrite Nat.eqb_refl. reflexivity. Qed.

  Lemma find_node_not_in id (x : node) : ~ In id (ids x) -> find_node id x = None.
  Proof.
    induction x as [i kvs cs IH] using node_ind'. rewrite ids_node. intros Hn. simpl.
    destruct (i =? id)%nat eqn:E.
    - apply Nat.eqb_eq in E. exfalso. apply Hn. left. exact E.
    - apply first_some_i_none. intros j c Hj.
      rewrite Forall_forall in IH. apply IH; [eapply nth_error_In; eauto|].
      intros Hin. apply Hn. right. apply in_flat_map_nth. eauto.
  Qed.

  Lemma path_to_not_in id (x : node) : ~ In id (ids x) -> path_to id x = None.
  Proof.
    induction x as [i kvs cs IH] using node_ind'. rewrite ids_node. intros Hn. simpl.
    destruct (i =? id)%nat eqn:E.
    - apply Nat.eqb_eq in E. exfalso. apply Hn. left. exact E.
    - apply first_some_i_none. intros j c Hj.
      rewrite Forall_forall in IH. rewrite IH; [reflexivity|eapply nth_error_In; eauto|].
      intros Hin. apply Hn. right. apply in_flat_map_nth. eauto.
  Qed.

  Lemma find_node_some_in id (x y : node) : find_node id x = Some y -> In id (ids x) /\ nid y = id.
  Proof.
    induction x as [i kvs cs IH] using node_ind'. rewrite ids_node. simpl.
    destruct (i =? id)%nat eqn:E.
    - apply Nat.eqb_eq in E. intros [= <-]. simpl. auto.
    - intros H. apply first_some_i_some in H. destruct H as (j & c & Hj & Hf).
      rewrite Forall_forall in IH. destruct (IH c (nth_error_In _ _ Hj) Hf) as [Hin Hid].
      split; auto. right. apply in_flat_map_nth. eauto.
  Qed.

  Lemma first_some_i_not_none {A B} (f : nat -> A -> option B) : forall cs j0 j c,
    nth_error cs j = Some c -> f (j0 + j)%nat c <> None -> first_some_i f cs j0 <> None.
  Proof.
    induction cs as [|c0 cs IH]; intros j0 j c Hj Hf; [destruct j; discriminate|].
    simpl. destruct (f j0 c0) eqn:E; [discriminate|].
    destruct j as [|j]; simpl in Hj.
    - injection Hj as ->. rewrite Nat.add_0_r in Hf. congruence.
    - apply (IH (S j0) j c Hj). replace (S j0 + j)%nat with (j0 + S j)%nat by lia. exact Hf.
  Qed.

  Lemma find_node_in id (x : node) : In id (ids x) -> exists y, find_node id x = Some y.
  Proof.
    induction x as [i kvs cs IH] using node_ind'. rewrite ids_node. simpl.
    destruct (i =? id)%nat eqn:E; [eauto|].
    intros [->|Hin]; [rewrite Nat.eqb_refl in E; discriminate|].
    apply in_flat_map_nth in Hin. destruct Hin as (j & a & Hj & Ha).
    rewrite Forall_forall in IH. destruct (IH a (nth_error_In _ _ Hj) Ha) as [y Hy].
    destruct (first_some_i (fun _ c => find_node id c) cs 0) eqn:F; [eauto|].
    exfalso. revert F. eapply first_some_i_not_none; eauto. simpl. congruence.
  Qed.

  Lemma path_to_in id (x : node) : In id (ids x) -> exists q, path_to id x = Some q.
  Proof.
    induction x as [i kvs cs IH] using node_ind'. rewrite ids_node. simpl.
    destruct (i =? id)%nat eqn:E; [eauto|].
    intros [->|Hin]; [rewrite Nat.eqb_refl in E; discriminate|].
    apply in_flat_map_nth in Hin. destruct Hin as (j & a & Hj & Ha).
    rewrite Forall_forall in IH. destruct (IH a (nth_error_In _ _ Hj) Ha) as [q Hq].
    match goal with |- exists q, ?t = Some q => destruct t eqn:F; [eauto|] end.
    exfalso. revert F. eapply first_some_i_not_none; eauto. simpl. rewrite Hq. discriminate.
  Qed.

  (* descending into the child that holds the identity, under unique ids *)
  Lemma find_path_child i kvs cs j (c : node) id :
    NoDup (ids (Node i kvs cs)) -> nth_error cs j = Some c -> In id (ids c) ->
    find_node id (Node i kvs cs) = find_node id c
    /\ path_to id (Node i kvs cs) = option_map (cons (Node i kvs cs, j)) (path_to id c)
    /\ NoDup (ids c).
  Proof.
    intros Hnd Hj Hin. rewrite ids_node in Hnd.
    inversion Hnd as [|i' l' Hni Hnd']; subst.
    destruct (NoDup_flat_map_inv ids cs Hnd') as [Hc Hdisj].
    assert (Hne : (i =? id)%nat = false).
    { apply Nat.eqb_neq. intros ->. apply Hni. apply in_flat_map_nth. eauto. }
    assert (Hbefore : forall j' c', (j' < j)%nat -> nth_error cs j' = Some c' -> ~ In id (ids c')).
    { intros j' c' Hlt Hj' Hin'. assert (j = j') by (eapply Hdisj; eauto). lia. }
    split; [|split; [|eauto]].
    - simpl. rewrite Hne. destruct (find_node_in id c Hin) as [y Hy]. rewrite Hy.
      eapply first_some_i_hit; eauto.
      intros j' c' Hlt Hj'. apply find_node_not_in. eauto.
    - simpl. rewrite Hne. destruct (path_to_in id c Hin) as [q Hq]. rewrite Hq. simpl.
      eapply first_some_i_hit; eauto.
      + simpl. rewrite Hq. reflexivity.
      + intros j' c' Hlt Hj'. simpl. rewrite path_to_not_in; eauto.
  Qed.

  Lemma NoDup_child i kvs cs j (c : node) :
    NoDup (ids (Node i kvs cs)) -> nth_error cs j = Some c -> NoDup (ids c).
  Proof.
    intros Hnd Hj. rewrite ids_node in Hnd. inversion Hnd as [|i' l' Hni Hnd']; subst.
    destruct (NoDup_flat_map_inv ids cs Hnd') as [Hc _]. eauto.
  Qed.

  Lemma in_interleave {A} (ls : list (list A)) : forall seps (a : A),
    In a (interleave ls seps) -> (exists l, In l ls /\ In a l) \/ In a seps.
  Proof.
    induction ls as [|l ls IH]; intros seps a H; simpl in H; [contradiction|].
    destruct seps as [|s seps].
    - apply in_app_or in H. destruct H as [H|H].
      + left. exists l. simpl. auto.
      + destruct (IH [] a H) as [(l' & Hl' & Ha)|[]]. left. exists l'. simpl. auto.
    - apply in_app_or in H. destruct H as [H|[<-|H]].
      + left. exists l. simpl. auto.
      + right. left. reflexivity.
      + destruct (IH seps a H) as [(l' & Hl' & Ha)|Hs].
        * left. exists l'. simpl. auto.
        * right. right. exact Hs.
  Qed.

  (* every position of inorder_pos names a node of the tree *)
  Lemma inorder_pos_ids (x : node) p : In p (inorder_pos x) -> In (p_id p) (ids x).
  Proof.
    induction x as [i kvs cs IH] using node_ind'. rewrite ids_node.
    destruct cs as [|c cs].
    - simpl. intros H. left. symmetry. eapply own_pos_in; eauto.
    - change (inorder_pos (Node i kvs (c :: cs)))
        with (interleave (map inorder_pos (c :: cs)) (own_pos i 0 kvs)).
      intros H. apply in_interleave in H. destruct H as [(l & Hl & Hp)|Hp].
      + apply in_map_iff in Hl. destruct Hl as (a & <- & Ha).
        right. apply in_flat_map. exists a. split; auto.
        rewrite Forall_forall in IH. apply IH; auto.
      + left. symmetry. eapply own_pos_in; eauto.
  Qed.

End Tree.
