(* Root-to-node paths in the B-tree model: lookup of a node by identity (find_node / path_to of
   Cursor.v) under unique ids, and the decomposition of the in-order list around a node on a path
   (what lies before / after its subtree).  Basis of the range-scan proofs (ProofsCursor.v). *)
From Juniper Require Import Common.Base Tree.Bound Tree.BTree Tree.Cursor Tree.SMap
  Tree.ProofsLists Tree.ProofsSMap Tree.ProofsCases Tree.ProofsWf Tree.ProofsIds Tree.ProofsInorder.
Local Open Scope nat_scope.

Lemma first_some_i_none {A B} (f : nat -> A -> option B) l j0 :
  (forall j a, In a l -> f j a = None) -> first_some_i f l j0 = None.
Proof.
  revert j0; induction l as [|x l IH]; intros j0 H; simpl; [reflexivity|].
  rewrite (H j0 x (or_introl eq_refl)). apply IH. intros j a Ha. apply H. right; assumption.
Qed.

Lemma first_some_i_mid {A B} (f : nat -> A -> option B) l1 c l2 j0 r :
  (forall j a, In a l1 -> f j a = None) -> f (j0 + length l1) c = Some r ->
  first_some_i f (l1 ++ c :: l2) j0 = Some r.
Proof.
  revert j0; induction l1 as [|x l1 IH]; intros j0 H Hc; simpl in *.
  - rewrite Nat.add_0_r in Hc. rewrite Hc. reflexivity.
  - rewrite (H j0 x (or_introl eq_refl)). apply IH.
    + intros j a Ha. apply H. right; assumption.
    + rewrite <- Hc. f_equal. lia.
Qed.

Section Path.
  Context {K V : Type}.
  Variables minKVs maxKVs : nat.
  Notation node := (@node K V).
  Notation shaped := (shaped minKVs maxKVs).
  Notation okc := (okc minKVs maxKVs).

  (* y is reached from x through the path pi: the proper ancestors of y below/including x, x
     first, each with the index of the child through which the path continues (the format of
     Cursor.path_to) *)
  Inductive at_path : node -> list (node * nat) -> node -> Prop :=
  | AP_here x : at_path x [] x
  | AP_down x idx c pi y :
      nth_error (ncs x) idx = Some c -> at_path c pi y -> at_path x ((x, idx) :: pi) y.

  Lemma at_path_snoc x pi p idx y :
    at_path x pi p -> nth_error (ncs p) idx = Some y -> at_path x (pi ++ [(p, idx)]) y.
  Proof.
    induction 1 as [x|x j c pi p Hn Hp IH]; intros Hy; simpl.
    - econstructor; [eassumption|constructor].
    - econstructor; [eassumption|]. apply IH. assumption.
  Qed.

  Lemma at_path_app x pi1 y pi2 z :
    at_path x pi1 y -> at_path y pi2 z -> at_path x (pi1 ++ pi2) z.
  Proof.
    induction 1 as [x|x j c pi p Hn Hp IH]; intros Hz; simpl; [assumption|].
    econstructor; [eassumption|]. apply IH. assumption.
  Qed.

  (* ---------------- lookup by identity ---------------- *)

  Lemma at_path_idc x pi y : at_path x pi y -> 1 <= idc (nid y) x.
  Proof.
    induction 1 as [[id kvs cs]|[id kvs cs] j c pi y Hn Hp IH].
    - rewrite idc_node. cbn [nid]. rewrite Nat.eqb_refl. lia.
    - cbn [ncs] in Hn. rewrite idc_node.
      pose proof (sumf_in_le (idc (nid y)) cs c (nth_error_In _ _ Hn)). lia.
  Qed.

  Lemma lookup_absent a : forall x : node,
      idc a x = 0 -> find_node a x = None /\ path_to a x = None.
  Proof.
    induction x as [id kvs cs IH] using node_ind'. intros H. rewrite idc_node in H.
    destruct (Nat.eqb_spec id a) as [->|Hne]; [lia|].
    assert (Hcs : forall c, In c cs -> idc a c = 0).
    { intros c Hc. pose proof (sumf_in_le (idc a) cs c Hc). lia. }
    simpl. apply Nat.eqb_neq in Hne. rewrite Hne.
    rewrite Forall_forall in IH. split.
    - apply first_some_i_none. intros j c Hc. apply IH; auto.
    - apply first_some_i_none. intros j c Hc. destruct (IH c Hc (Hcs c Hc)) as [_ ->]. reflexivity.
  Qed.

  Theorem lookup_correct x pi y :
    (forall a, idc a x <= 1) -> at_path x pi y ->
    find_node (nid y) x = Some y /\ path_to (nid y) x = Some pi.
  Proof.
    intros Hu Hp. induction Hp as [[id kvs cs]|[id kvs cs] j c pi y Hn Hp IH].
    - simpl. rewrite Nat.eqb_refl. auto.
    - cbn [ncs] in Hn. pose proof (at_path_idc _ _ _ Hp) as Hc1.
      pose proof (Hu (nid y)) as Hu1. rewrite idc_node in Hu1.
      rewrite (split_at_nth cs j c Hn) in Hu1. rewrite sumf_app, sumf_cons in Hu1.
      assert (Hid : (id =? nid y) = false).
      { destruct (Nat.eqb_spec id (nid y)); [lia|reflexivity]. }
      assert (HA : forall a, In a (firstn j cs) -> idc (nid y) a = 0).
      { intros a Ha. pose proof (sumf_in_le (idc (nid y)) _ a Ha). lia. }
      assert (Hcu : forall a, idc a c <= 1).
      { intros a. pose proof (Hu a) as Hua. rewrite idc_node in Hua.
        pose proof (sumf_in_le (idc a) cs c (nth_error_In _ _ Hn)). lia. }
      destruct (IH Hcu) as [IH1 IH2].
      simpl. rewrite Hid. rewrite (split_at_nth cs j c Hn).
      assert (Hlj : length (firstn j cs) = j).
      { apply len_firstn_le. apply nth_error_some_lt in Hn. lia. }
      split.
      + apply first_some_i_mid; [|exact IH1].
        intros i a Ha. apply lookup_absent. apply HA; assumption.
      + apply first_some_i_mid.
        * intros i a Ha. destruct (lookup_absent (nid y) a (HA a Ha)) as [_ ->]. reflexivity.
        * rewrite IH2. cbn [option_map]. rewrite Hlj. cbn [Nat.add].
          rewrite <- (split_at_nth cs j c Hn). reflexivity.
  Qed.

  (* ---------------- in-order context of a path ---------------- *)

  (* what lies, inside the subtree x, to the left / right of its j-th child *)
  Definition PL (x : node) (j : nat) : list (K * V) :=
    ileft (map inorder (firstn j (ncs x))) (firstn j (nkvs x)).
  Definition PR (x : node) (j : nat) : list (K * V) :=
    iright (skipn j (nkvs x)) (map inorder (skipn (S j) (ncs x))).

  Fixpoint pre_of (pi : list (node * nat)) : list (K * V) :=
    match pi with [] => [] | (x, j) :: pi' => PL x j ++ pre_of pi' end.
  Fixpoint post_of (pi : list (node * nat)) : list (K * V) :=
    match pi with [] => [] | (x, j) :: pi' => post_of pi' ++ PR x j end.

  Lemma pre_of_snoc pi p j : pre_of (pi ++ [(p, j)]) = pre_of pi ++ PL p j.
  Proof.
    induction pi as [|[x i] pi IH]; simpl; [rewrite app_nil_r; reflexivity|].
    rewrite IH, app_assoc. reflexivity.
  Qed.

  Lemma post_of_snoc pi p j : post_of (pi ++ [(p, j)]) = PR p j ++ post_of pi.
  Proof.
    induction pi as [|[x i] pi IH]; simpl; [rewrite app_nil_r; reflexivity|].
    rewrite IH, app_assoc. reflexivity.
  Qed.

  Lemma pre_of_app pi1 pi2 : pre_of (pi1 ++ pi2) = pre_of pi1 ++ pre_of pi2.
  Proof.
    induction pi1 as [|[x i] pi1 IH]; simpl; [reflexivity|]. rewrite IH, app_assoc. reflexivity.
  Qed.

  Lemma post_of_app pi1 pi2 : post_of (pi1 ++ pi2) = post_of pi2 ++ post_of pi1.
  Proof.
    induction pi1 as [|[x i] pi1 IH]; simpl; [rewrite app_nil_r; reflexivity|].
    rewrite IH, app_assoc. reflexivity.
  Qed.

  Lemma node_split id (kvs : list (K * V)) (cs : list node) j c :
    length cs = S (length kvs) -> nth_error cs j = Some c ->
    inorder (Node id kvs cs) = PL (Node id kvs cs) j ++ inorder c ++ PR (Node id kvs cs) j.
  Proof.
    intros Hl Hn. unfold PL, PR. cbn [nkvs ncs].
    pose proof (nth_error_some_lt _ _ _ Hn) as Hj.
    rewrite (split_at_nth cs j c Hn) at 1. rewrite <- (firstn_skipn j kvs) at 1.
    apply inorder_one.
    - rewrite !firstn_length. lia.
    - rewrite !skipn_length. lia.
  Qed.

  Lemma PL_0 x : PL x 0 = [].
  Proof. reflexivity. Qed.

  Lemma PR_end x : length (nkvs x) <= length (nkvs x) -> PR x (length (nkvs x)) = [].
  Proof. intros _. unfold PR. rewrite skipn_all. reflexivity. Qed.

  (* stepping over the separator j *)
  Lemma PL_step x j c kv :
    length (ncs x) = S (length (nkvs x)) ->
    nth_error (ncs x) j = Some c -> nth_error (nkvs x) j = Some kv ->
    PL x (S j) = PL x j ++ inorder c ++ [kv].
  Proof.
    intros Hl Hc Hk. unfold PL.
    rewrite (firstn_S_snoc _ _ _ Hc), (firstn_S_snoc _ _ _ Hk), map_app. cbn [map].
    apply ileft_snoc. rewrite map_length, !firstn_length.
    apply nth_error_some_lt in Hk. lia.
  Qed.

  Lemma PR_step x j c kv :
    length (ncs x) = S (length (nkvs x)) ->
    nth_error (ncs x) (S j) = Some c -> nth_error (nkvs x) j = Some kv ->
    PR x j = kv :: inorder c ++ PR x (S j).
  Proof.
    intros Hl Hc Hk. unfold PR.
    rewrite (skipn_nth_cons _ _ _ Hk), (skipn_nth_cons _ _ _ Hc). reflexivity.
  Qed.

  (* shapes along a path *)
  Lemma at_path_shaped d x pi y :
    shaped d x -> at_path x pi y ->
    exists d', shaped d' y /\ d' + length pi = d /\ (pi <> [] -> minKVs <= nkeys y).
  Proof.
    intros Hs Hp. revert d Hs. induction Hp as [x|[id kvs cs] j c pi y Hn Hp IH]; intros d Hs.
    - exists d. split; [assumption|]. split; [simpl; lia|congruence].
    - cbn [ncs] in Hn. destruct d as [|d].
      + apply shaped_0_inv in Hs. destruct Hs as [_ ->]. destruct j; discriminate.
      + apply shaped_S_inv in Hs. destruct Hs as (_ & _ & F).
        destruct (Forall_nth_error _ _ _ _ F Hn) as [Hcm Hcs].
        destruct (IH d Hcs) as (d' & Hd' & Hlen & Hm). exists d'.
        split; [assumption|]. split; [simpl; lia|]. intros _.
        destruct pi as [|e pi]; [inversion Hp; subst; assumption|apply Hm; discriminate].
  Qed.

  Theorem at_path_inorder d x pi y :
    shaped d x -> at_path x pi y -> inorder x = pre_of pi ++ inorder y ++ post_of pi.
  Proof.
    intros Hs Hp. revert d Hs. induction Hp as [x|[id kvs cs] j c pi y Hn Hp IH]; intros d Hs.
    - simpl. rewrite app_nil_r. reflexivity.
    - cbn [ncs] in Hn. destruct d as [|d].
      + apply shaped_0_inv in Hs. destruct Hs as [_ ->]. destruct j; discriminate.
      + apply shaped_S_inv in Hs. destruct Hs as (_ & Hl & F).
        destruct (Forall_nth_error _ _ _ _ F Hn) as [Hcm Hcs].
        rewrite (node_split id kvs cs j c Hl Hn), (IH d Hcs). cbn [pre_of post_of].
        rewrite <- !app_assoc. reflexivity.
  Qed.

  (* ---------------- around a key of a node ---------------- *)

  (* the part of the subtree y before / after its i-th key *)
  Definition HL (y : node) (i : nat) : list (K * V) :=
    match ncs y with
    | [] => firstn i (nkvs y)
    | _ => PL y i ++ nth_map inorder [] (ncs y) i
    end.
  Definition HR (y : node) (i : nat) : list (K * V) :=
    match ncs y with
    | [] => skipn (S i) (nkvs y)
    | _ => nth_map inorder [] (ncs y) (S i) ++ PR y (S i)
    end.

  Lemma node_at_key d y i kv :
    shaped d y -> nth_error (nkvs y) i = Some kv -> inorder y = HL y i ++ kv :: HR y i.
  Proof.
    destruct y as [id kvs cs]. unfold HL, HR. cbn [nkvs ncs]. intros Hs Hk.
    destruct d as [|d].
    - apply shaped_0_inv in Hs. destruct Hs as [_ ->]. rewrite inorder_leaf.
      apply split_at_nth; assumption.
    - pose proof Hs as Hs0. apply shaped_S_inv in Hs. destruct Hs as (_ & Hl & _).
      pose proof (nth_error_some_lt _ _ _ Hk) as Hi.
      destruct (nth_error_lt_some cs i ltac:(lia)) as [c Hc].
      destruct (nth_error_lt_some cs (S i) ltac:(lia)) as [c' Hc'].
      destruct cs as [|c0 cs0]; [discriminate|]. remember (c0 :: cs0) as cs.
      rewrite (node_split id kvs cs i c Hl Hc).
      rewrite (PR_step (Node id kvs cs) i c' kv Hl Hc' Hk).
      rewrite (nth_map_some _ _ cs i c Hc), (nth_map_some _ _ cs (S i) c' Hc').
      rewrite <- app_assoc. reflexivity.
  Qed.

  (* ---------------- leftmost / rightmost leaf ---------------- *)

  Hypothesis Hmin : 1 <= minKVs.

  Lemma leftmost_path d : forall x : node,
      shaped d x -> 1 <= nkeys x ->
      exists pi kv, at_path x pi (leftmost_leaf x) /\ pre_of pi = [] /\
                    ncs (leftmost_leaf x) = [] /\
                    nth_error (nkvs (leftmost_leaf x)) 0 = Some kv /\
                    (minKVs <= nkeys x -> minKVs <= nkeys (leftmost_leaf x)).
  Proof.
    induction d as [|d IH]; intros [id kvs cs] Hs Hne.
    - apply shaped_0_inv in Hs. destruct Hs as [_ ->]. cbn [leftmost_leaf].
      unfold nkeys in Hne. cbn [nkvs] in Hne. destruct kvs as [|kv kvs]; [simpl in Hne; lia|].
      exists [], kv. repeat split; auto. constructor.
    - apply shaped_S_inv in Hs. destruct Hs as (_ & Hl & F).
      destruct cs as [|c cs]; [discriminate|]. inversion F as [|? ? [Hcm Hcs] _]; subst.
      cbn [leftmost_leaf].
      destruct (IH c Hcs) as (pi & kv & Hp & Hpre & Hleaf & Hk & Hm).
      { pose proof Hcm. unfold nkeys in *. lia. }
      exists ((Node id kvs (c :: cs), 0) :: pi), kv.
      split; [econstructor; [reflexivity|assumption]|].
      split; [cbn [pre_of]; rewrite PL_0, Hpre; reflexivity|].
      split; [assumption|]. split; [assumption|]. intros _. apply Hm. assumption.
  Qed.

  Lemma rightmost_path d : forall x : node,
      shaped d x -> 1 <= nkeys x ->
      exists pi kv, at_path x pi (rightmost_leaf x) /\ post_of pi = [] /\
                    ncs (rightmost_leaf x) = [] /\
                    nth_error (nkvs (rightmost_leaf x)) (pred (nkeys (rightmost_leaf x))) = Some kv /\
                    1 <= nkeys (rightmost_leaf x).
  Proof.
    induction d as [|d IH]; intros [id kvs cs] Hs Hne.
    - apply shaped_0_inv in Hs. destruct Hs as [_ ->]. cbn [rightmost_leaf].
      unfold nkeys in *. cbn [nkvs] in *.
      destruct (nth_error_lt_some kvs (pred (length kvs)) ltac:(lia)) as [kv Hk].
      exists [], kv. repeat split; auto. constructor.
    - apply shaped_S_inv in Hs. destruct Hs as (_ & Hl & F).
      destruct (rev_case cs) as [->|(A & c & ->)]; [discriminate|].
      rewrite length_snoc in Hl. apply Forall_app in F. destruct F as [_ Fc].
      inversion Fc as [|? ? [Hcm Hcs] _]; subst.
      assert (Hn : nth_error (A ++ [c]) (length kvs) = Some c) by (apply nth_error_app_mid; lia).
      assert (Hr : rightmost_leaf (Node id kvs (A ++ [c])) = rightmost_leaf c).
      { destruct A; cbn [app rightmost_leaf]; rewrite (nth_map_some _ _ _ _ _ Hn); reflexivity. }
      rewrite Hr.
      destruct (IH c Hcs) as (pi & kv & Hp & Hpost & Hleaf & Hk & Hm).
      { pose proof Hcm. unfold nkeys in *. lia. }
      exists ((Node id kvs (A ++ [c]), length kvs) :: pi), kv.
      split; [econstructor; [exact Hn|assumption]|].
      split; [|split; [assumption|split; assumption]].
      cbn [post_of]. rewrite Hpost. cbn [app].
      apply (PR_end (Node id kvs (A ++ [c]))). cbn [nkvs]. lia.
  Qed.

End Path.
