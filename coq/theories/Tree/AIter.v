(* Layer S for the tree iterators (C02): an abstract iterator over the CURRENT SMap.  It remembers
   only the key it will yield next; every Next re-reads the map.  (Reference: spike/spec.py, which
   was validated against the real Range/RangeReverse iterators.)  No proofs in this file. *)
From Juniper Require Import Common.Base Tree.Bound Tree.SMap.

Section AIter.
  Variables K V : Type.
  Variable cmp : K -> K -> comparison.

  Notation smap := (smap K V).

  Record aiter := mkAIter {
    ai_rev : bool;          (* false: Range (ascending); true: RangeReverse (descending) *)
    ai_pos : option K;      (* key to be yielded next; None: ran off the end *)
    ai_lo : bound K;
    ai_hi : bound K;
    ai_cut : bool           (* the far bound was crossed (While's sticky done) *)
  }.

  (* Creation on map m.  forward: key of the first entry satisfying the lower bound;
     reverse: key of the last entry satisfying the upper bound; None if there is none. *)
  Definition ai_new (rev : bool) (lo hi : bound K) (m : smap) : aiter :=
    let pos :=
      if rev then option_map fst (hd_error (List.rev (filter (fun kv => in_hi K cmp hi (fst kv)) m)))
      else option_map fst (hd_error (filter (fun kv => in_lo K cmp lo (fst kv)) m)) in
    mkAIter rev pos lo hi false.

  (* candidates in the order of travel: forward: entries with key >= p ascending;
     reverse: entries with key <= p descending *)
  Definition ai_cands (rev : bool) (p : K) (m : smap) : list (K * V) :=
    if rev then List.rev (filter (fun kv => is_le (cmp (fst kv) p)) m)
    else filter (fun kv => is_ge (cmp (fst kv) p)) m.

  (* the far bound: upper for forward, lower for reverse *)
  Definition ai_far_ok (a : aiter) (k : K) : bool :=
    if ai_rev a then in_lo K cmp (ai_lo a) k else in_hi K cmp (ai_hi a) k.

  (* One Next on the current map m: new state and Some (key, current value) or None = end. *)
  Definition ai_next (m : smap) (a : aiter) : aiter * option (K * V) :=
    if ai_cut a then (a, None) else
    match ai_pos a with
    | None => (a, None)
    | Some p =>
        match ai_cands (ai_rev a) p m with
        | [] => (mkAIter (ai_rev a) None (ai_lo a) (ai_hi a) false, None)
        | f :: rest =>
            let nxt := option_map fst (hd_error rest) in
            if ai_far_ok a (fst f)
            then (mkAIter (ai_rev a) nxt (ai_lo a) (ai_hi a) false, Some f)
            else (mkAIter (ai_rev a) nxt (ai_lo a) (ai_hi a) true, None)
        end
    end.

  (* drain: all remaining yields on an unchanging map (fuel = number of Next calls allowed) *)
  Fixpoint ai_drain (fuel : nat) (m : smap) (a : aiter) : option (list (K * V)) :=
    match fuel with
    | O => None
    | S f =>
        match ai_next m a with
        | (_, None) => Some []
        | (a', Some kv) => option_map (cons kv) (ai_drain f m a')
        end
    end.

End AIter.

Arguments mkAIter {K} ai_rev ai_pos ai_lo ai_hi ai_cut.
Arguments ai_rev {K} a.
Arguments ai_pos {K} a.
Arguments ai_lo {K} a.
Arguments ai_hi {K} a.
Arguments ai_cut {K} a.
