(* C02, skeletons and generations of the B-tree model (layer M, BTree.v):
   - [skel]: a node with its values stripped (ids, keys and structure only); what a parked cursor
     depends on when Put only overwrites a value; [skel]-equal trees have the same ids, shape,
     node lookup (up to skel) and in-order positions (up to values);
   - generation facts: Put/Delete bump [gen] by at most one; when [gen] is unchanged Put changed
     values only (same skeleton) and Delete changed nothing.
   (Identity uniqueness under Put/Delete is in ProofsIds.v / ProofsRefine.v.)
   Stdlib only, no axioms. *)
From Juniper Require Import Common.Base Tree.Bound Tree.BTree Tree.Cursor Tree.CProofsTree.

(* ---------------- small list facts ---------------- *)

Lemma nil_dec {A} (l : list A) : l = [] \/ l <> [].
Proof. destruct l; [left; reflexivity|right; discriminate]. Qed.

Lemma nth_map_nth_lt {A B} (f : A -> B) (d : B) (d' : A) : forall (l : list A) i,
  (i < length l)%nat -> nth_map f d l i = f (nth i l d').
Proof.
  induction l as [|a l IH]; intros i Hi; simpl in Hi; [lia|].
  destruct i as [|i]; simpl; [reflexivity|]. apply IH. lia.
Qed.

Lemma map_set_at_same {A B} (f : A -> B) (x : A) : forall (l : list A) i a,
  nth_error l i = Some a -> f x = f a -> map f (set_at i x l) = map f l.
Proof.
  unfold set_at. induction l as [|b l IH]; intros i a Hi Hf; destruct i as [|i]; simpl in Hi;
    try discriminate.
  - injection Hi as ->. simpl. rewrite Hf. reflexivity.
  - simpl. f_equal. eapply IH; eauto.
Qed.

(* ---------------- skeleton: ids, keys, structure; no values ---------------- *)

Section Skel.
  Context {K V : Type}.

  Fixpoint skel (x : node K V) : node K unit :=
    match x with
    | Node i kvs cs => Node i (map (fun kv => (fst kv, tt)) kvs) (map skel cs)
    end.

  Lemma map_skel_ext {B} (g : node K V -> B) : forall cs cs',
    Forall (fun c => forall c', skel c = skel c' -> g c = g c') cs ->
    map skel cs = map skel cs' -> map g cs = map g cs'.
  Proof.
    induction cs as [|c cs IH]; intros cs' Hall Hm; destruct cs' as [|c' cs']; simpl in Hm;
      try discriminate; [reflexivity|].
    injection Hm as Hc Hm. inversion Hall as [|c0 l0 Hc0 Hall']; subst.
    simpl. f_equal; auto.
  Qed.

  Lemma map_skel_Forall (P : node K V -> Prop) : forall cs cs',
    Forall (fun c => forall c', skel c = skel c' -> P c -> P c') cs ->
    map skel cs = map skel cs' -> Forall P cs -> Forall P cs'.
  Proof.
    induction cs as [|c cs IH]; intros cs' Hall Hm HP; destruct cs' as [|c' cs']; simpl in Hm;
      try discriminate; [constructor|].
    injection Hm as Hc Hm. inversion Hall as [|c0 l0 Hc0 Hall']; subst.
    inversion HP as [|c1 l1 HP1 HP']; subst.
    constructor; auto.
  Qed.

  Lemma skel_node_keys (y y' : node K V) :
    skel y = skel y' ->
    nid y = nid y' /\ map fst (nkvs y) = map fst (nkvs y') /\ length (ncs y) = length (ncs y').
  Proof.
    destruct y as [i kvs cs], y' as [i' kvs' cs']. simpl. intros H.
    injection H as Hi Hk Hc. split; [exact Hi|]. split.
    - apply (f_equal (map fst)) in Hk. rewrite !map_map in Hk. simpl in Hk. exact Hk.
    - apply (f_equal (@length _)) in Hc. rewrite !map_length in Hc. exact Hc.
  Qed.

  Lemma skel_ids (x : node K V) : forall x', skel x = skel x' -> ids x = ids x'.
  Proof.
    induction x as [i kvs cs IH] using node_ind'. intros [i' kvs' cs'] H. simpl in H.
    injection H as Hi Hk Hc. subst i'. rewrite !ids_node. f_equal.
    rewrite !flat_map_concat_map. f_equal. apply map_skel_ext; assumption.
  Qed.

  Lemma skel_shape_ok (x : node K V) : forall x', skel x = skel x' -> shape_ok x -> shape_ok x'.
  Proof.
    induction x as [i kvs cs IH] using node_ind'. intros [i' kvs' cs'] H Hok. simpl in H.
    injection H as Hi Hk Hc. subst i'.
    apply shape_ok_inv in Hok. destruct Hok as (Hne & Hlen & Hall).
    assert (Hlk : length kvs' = length kvs).
    { apply (f_equal (@length _)) in Hk. rewrite !map_length in Hk. auto. }
    assert (Hlc : length cs' = length cs).
    { apply (f_equal (@length _)) in Hc. rewrite !map_length in Hc. auto. }
    assert (Hne' : kvs' <> []).
    { intros ->. destruct kvs; [congruence|discriminate]. }
    assert (Hall' : Forall shape_ok cs') by (eapply map_skel_Forall; eauto).
    destruct cs' as [|c' cs'].
    - apply shape_leaf. exact Hne'.
    - apply shape_int; auto.
      destruct Hlen as [->|Hlen]; [discriminate|]. rewrite Hlc, Hlk. exact Hlen.
  Qed.

  Lemma first_some_i_skel id : forall (cs cs' : list (node K V)) j0,
    Forall (fun c => forall c', skel c = skel c' ->
              option_map skel (find_node id c) = option_map skel (find_node id c')) cs ->
    map skel cs = map skel cs' ->
    option_map skel (first_some_i (fun _ c => find_node id c) cs j0)
    = option_map skel (first_some_i (fun _ c => find_node id c) cs' j0).
  Proof.
    induction cs as [|c cs IH]; intros cs' j0 Hall Hm; destruct cs' as [|c' cs']; simpl in Hm;
      try discriminate; [reflexivity|].
    injection Hm as Hc Hm. inversion Hall as [|c0 l0 Hc0 Hall']; subst.
    specialize (Hc0 c' Hc). simpl.
    destruct (find_node id c) as [y|], (find_node id c') as [y'|]; simpl in Hc0;
      try discriminate; [exact Hc0|].
    apply IH; assumption.
  Qed.

  Lemma skel_find_node id (x : node K V) : forall x',
    skel x = skel x' -> option_map skel (find_node id x) = option_map skel (find_node id x').
  Proof.
    induction x as [i kvs cs IH] using node_ind'. intros [i' kvs' cs'] H.
    pose proof H as H0. simpl in H. injection H as Hi Hk Hc. subst i'.
    simpl find_node. destruct (i =? id)%nat.
    - simpl option_map. f_equal. exact H0.
    - apply first_some_i_skel; assumption.
  Qed.

  Lemma own_pos_skel : forall (kvs kvs' : list (K * V)) id j,
    map (fun kv => (fst kv, tt)) kvs = map (fun kv => (fst kv, tt)) kvs' ->
    map (fun p : nat * Z * (K * V) => (fst (fst p), snd (fst p), fst (snd p))) (own_pos id j kvs)
    = map (fun p : nat * Z * (K * V) => (fst (fst p), snd (fst p), fst (snd p)))
        (own_pos id j kvs').
  Proof.
    induction kvs as [|kv kvs IH]; intros kvs' id j Hm; destruct kvs' as [|kv' kvs'];
      simpl in Hm; try discriminate; [reflexivity|].
    injection Hm as Hk Hm. simpl. rewrite Hk. f_equal. apply IH. exact Hm.
  Qed.

  Lemma skel_inorder_pos (x : node K V) : forall x',
    skel x = skel x' ->
    map (fun p : nat * Z * (K * V) => (fst (fst p), snd (fst p), fst (snd p))) (inorder_pos x)
    = map (fun p : nat * Z * (K * V) => (fst (fst p), snd (fst p), fst (snd p))) (inorder_pos x').
  Proof.
    induction x as [i kvs cs IH] using node_ind'. intros [i' kvs' cs'] H. simpl in H.
    injection H as Hi Hk Hc. subst i'.
    destruct cs as [|c cs], cs' as [|c' cs']; simpl in Hc; try discriminate.
    - simpl. apply own_pos_skel. exact Hk.
    - change (inorder_pos (Node i kvs (c :: cs)))
        with (interleave (map inorder_pos (c :: cs)) (own_pos i 0 kvs)).
      change (inorder_pos (Node i kvs' (c' :: cs')))
        with (interleave (map inorder_pos (c' :: cs')) (own_pos i 0 kvs')).
      rewrite !map_interleave. f_equal; [|apply own_pos_skel; exact Hk].
      rewrite !map_map.
      apply (map_skel_ext (fun c0 => map _ (inorder_pos c0))); [exact IH|].
      simpl. exact Hc.
  Qed.

End Skel.

(* ---------------- the B-tree operations ---------------- *)

Section Ids.
  Context {K V : Type}.
  Variable cmp : K -> K -> comparison.
  Variable kzero : K.
  Variable vzero : V.
  Variables minKVs maxKVs : nat.

  Local Notation node := (node K V).
  Local Notation btree := (btree K V).
  Local Notation search_node := (search_node K V cmp).
  Local Notation ins := (ins K V cmp kzero vzero maxKVs).
  Local Notation put := (put K V cmp kzero vzero maxKVs).
  Local Notation del := (del K V cmp kzero vzero minKVs).
  Local Notation delete := (delete K V cmp kzero vzero minKVs).
  Local Notation split_node := (split_node K V kzero vzero maxKVs).
  Local Notation Upd := (Upd K V).
  Local Notation Ins := (Ins K V).
  Local Notation Split := (Split K V).

  (* the structural hypothesis: an internal node has at least one key and one more child than
     keys.  Nothing is required of leaves (the root may be the empty leaf). *)
  Inductive arity_ok : node -> Prop :=
  | arity_leaf id kvs : arity_ok (Node id kvs [])
  | arity_int id kvs cs :
      kvs <> [] -> length cs = S (length kvs) -> Forall arity_ok cs -> arity_ok (Node id kvs cs).

  Lemma shape_arity (x : node) : shape_ok x -> arity_ok x.
  Proof.
    induction x as [id kvs cs IH] using node_ind'. intros H.
    apply shape_ok_inv in H. destruct H as (Hne & [->|Hlen] & Hall).
    - apply arity_leaf.
    - apply arity_int; auto. rewrite Forall_forall in *. auto.
  Qed.

  Lemma root_arity (x : node) : root_ok x -> arity_ok x.
  Proof.
    intros [H|[Hk Hc]]; [apply shape_arity; exact H|].
    destruct x as [id kvs cs]. simpl in Hc. subst cs. apply arity_leaf.
  Qed.

  Lemma arity_int_inv id kvs cs :
    arity_ok (Node id kvs cs) -> cs <> [] ->
    (0 < length kvs)%nat /\ length cs = S (length kvs) /\ Forall arity_ok cs.
  Proof.
    intros H Hne. inversion H as [|id' kvs' cs' Hk Hlen Hall]; subst; [congruence|].
    split; [|auto]. destruct kvs; [congruence|simpl; lia].
  Qed.

  Lemma search_node_bound k : forall kvs idx found,
    search_node k kvs = (idx, found) ->
    (idx <= length kvs)%nat /\ (found = true -> (idx < length kvs)%nat).
  Proof.
    induction kvs as [|[k' v'] kvs IH]; intros idx found H; simpl in H.
    - injection H as <- <-. simpl. split; [lia|discriminate].
    - destruct (cmp k k') eqn:Ec.
      + injection H as <- <-. simpl. split; lia.
      + injection H as <- <-. simpl. split; [lia|discriminate].
      + destruct (search_node k kvs) as [i f] eqn:Es. injection H as <- <-.
        destruct (IH i f eq_refl) as [H1 H2]. simpl. split; [lia|]. intros Hf. specialize (H2 Hf). lia.
  Qed.

  (* ---------------- unfolding equations ---------------- *)

  Lemma ins_leaf id kvs k v fresh idx found :
    search_node k kvs = (idx, found) ->
    ins (Node id kvs []) k v fresh =
    if found then (Upd (Node id (set_val K V idx v kvs) []), fresh)
    else
      let kvs' := insert_at (lt_idx K V cmp k kvs) (k, v) kvs in
      if is_full K V maxKVs kvs then (split_node id fresh kvs' [], S fresh)
      else (Ins (Node id kvs' []), fresh).
  Proof. intros Es. simpl. rewrite Es. reflexivity. Qed.

  Lemma ins_int id kvs cs k v fresh idx found :
    cs <> [] -> search_node k kvs = (idx, found) ->
    ins (Node id kvs cs) k v fresh =
    if found then (Upd (Node id (set_val K V idx v kvs) cs), fresh)
    else
      match nth_map (fun c => ins c k v fresh) (Upd dummy, fresh) cs idx with
      | (BTree.Upd _ _ c, fresh') => (Upd (Node id kvs (set_at idx c cs)), fresh')
      | (BTree.Ins _ _ c, fresh') => (Ins (Node id kvs (set_at idx c cs)), fresh')
      | (BTree.Split _ _ l s r, fresh') =>
          if is_full K V maxKVs kvs then
            let e := lt_idx K V cmp (fst s) kvs in
            (split_node id fresh' (insert_at e s kvs) (insert_at (S e) r (set_at idx l cs)),
             S fresh')
          else
            (Ins (Node id (insert_at idx s kvs) (insert_at (S idx) r (set_at idx l cs))),
             fresh')
      end.
  Proof.
    intros Hne Es. destruct cs as [|c cs]; [congruence|]. simpl. rewrite Es. reflexivity.
  Qed.


  (* ---------------- Put: generation and skeleton ---------------- *)

  Lemma set_val_skel idx v kvs :
    map (fun kv : K * V => (fst kv, tt)) (set_val K V idx v kvs)
    = map (fun kv : K * V => (fst kv, tt)) kvs.
  Proof.
    unfold set_val. destruct (nth_error kvs idx) as [[k' v0]|] eqn:E; [|reflexivity].
    eapply map_set_at_same; [exact E|reflexivity].
  Qed.

  Lemma ins_upd_skel k v (x : node) :
    arity_ok x -> forall fresh x' fresh', ins x k v fresh = (Upd x', fresh') -> skel x' = skel x.
  Proof.
    induction x as [id kvs cs IH] using node_ind'. intros Hok fresh x' fresh' H.
    destruct (search_node k kvs) as [idx found] eqn:Es.
    destruct (nil_dec cs) as [->|Hne].
    - rewrite (ins_leaf _ _ _ _ _ _ _ Es) in H. destruct found.
      + injection H as <- <-. simpl. rewrite set_val_skel. reflexivity.
      + cbv zeta in H. destruct (is_full K V maxKVs kvs); unfold BTree.split_node in H; discriminate H.
    - rewrite (ins_int _ _ _ _ _ _ _ _ Hne Es) in H. destruct found.
      + injection H as <- <-. simpl. rewrite set_val_skel. reflexivity.
      + destruct (arity_int_inv _ _ _ Hok Hne) as (Hk & Hlen & Hall).
        destruct (search_node_bound _ _ _ _ Es) as [Hidx _].
        assert (Hi : (idx < length cs)%nat) by lia.
        rewrite (nth_map_nth_lt _ _ dummy cs idx Hi) in H.
        destruct (ins (nth idx cs dummy) k v fresh) as [rc f1] eqn:Ec.
        destruct rc as [c|c|l s r].
        * injection H as <- <-. simpl. f_equal.
          eapply map_set_at_same; [apply (nth_error_nth' cs dummy Hi)|].
          rewrite Forall_forall in IH, Hall.
          eapply IH; [apply nth_In; exact Hi|apply Hall; apply nth_In; exact Hi|exact Ec].
        * discriminate H.
        * destruct (is_full K V maxKVs kvs); unfold BTree.split_node in H; discriminate H.
  Qed.

  Theorem put_gen (t : btree) k v : gen (put t k v) = gen t \/ gen (put t k v) = gen t + 1.
  Proof.
    unfold BTree.put. destruct (ins (root t) k v (next_id t)) as [[x|x|l s r] f]; simpl; auto.
  Qed.

  Theorem put_same_gen_skel (t : btree) k v :
    root_ok (root t) -> gen (put t k v) = gen t -> skel (root (put t k v)) = skel (root t).
  Proof.
    intros Hok. unfold BTree.put.
    destruct (ins (root t) k v (next_id t)) as [[x|x|l s r] f] eqn:E; simpl; try lia.
    intros _. eapply ins_upd_skel; [apply root_arity; exact Hok|exact E].
  Qed.

  (* ---------------- Delete: generation ---------------- *)

  Theorem delete_gen (t : btree) k : gen (delete t k) = gen t \/ gen (delete t k) = gen t + 1.
  Proof.
    unfold BTree.delete. destruct (del (root t) k) as [x b]. destruct b; simpl; auto.
  Qed.

  Theorem delete_same_gen (t : btree) k : gen (delete t k) = gen t -> delete t k = t.
  Proof.
    unfold BTree.delete. destruct (del (root t) k) as [x b]. destruct b; simpl; [lia|reflexivity].
  Qed.

End Ids.

(* ---------------- non-vacuity ---------------- *)

Section Examples.
  Let zput (t : btree Z Z) (k : Z) : btree Z Z := put Z Z Z.compare 0 0 3 t k k.
  (* minKVs = 1, maxKVs = 3: twenty insertions split the root twice (three levels, ten nodes) *)
  Let ex_t : btree Z Z := fold_left zput [1; 2; 3; 4; 5; 6; 7; 8; 9; 10; 11; 12; 13; 14; 15; 16; 17; 18; 19; 20]
                            empty_tree.

  Example ex_t_height : height (root ex_t) = 3%nat /\ length (ids (root ex_t)) = 10%nat.
  Proof. vm_compute. split; reflexivity. Qed.

  Example ex_t_root_ok : root_ok (root ex_t).
  Proof.
    left. vm_compute.
    repeat first [ apply shape_leaf; discriminate
                 | apply shape_int; [discriminate|reflexivity|]
                 | apply Forall_cons
                 | apply Forall_nil ].
  Qed.

  (* Put on an existing key: same generation, a different tree (the value changed), same skeleton *)
  Example ex_put_present :
    let t' := put Z Z Z.compare 0 0 3 ex_t 5 77 in
    gen t' = gen ex_t /\ get Z Z Z.compare 0 0 ex_t 5 = 5 /\ get Z Z Z.compare 0 0 t' 5 = 77
    /\ skel (root t') = skel (root ex_t).
  Proof. vm_compute. repeat split; reflexivity. Qed.

  (* the same through the theorem *)
  Example ex_put_same_gen_skel :
    skel (root (put Z Z Z.compare 0 0 3 ex_t 5 77)) = skel (root ex_t).
  Proof. apply put_same_gen_skel; [exact ex_t_root_ok|vm_compute; reflexivity]. Qed.

  (* Put of a new key bumps the generation; Delete of an absent key changes nothing, of a present
     key bumps the generation *)
  Example ex_gens :
    gen (put Z Z Z.compare 0 0 3 ex_t 21 21) = gen ex_t + 1
    /\ delete Z Z Z.compare 0 0 1 ex_t 42 = ex_t
    /\ gen (delete Z Z Z.compare 0 0 1 ex_t 4) = gen ex_t + 1.
  Proof. vm_compute. repeat split; reflexivity. Qed.
End Examples.

Print Assumptions skel_node_keys.
Print Assumptions skel_ids.
Print Assumptions skel_shape_ok.
Print Assumptions skel_find_node.
Print Assumptions skel_inorder_pos.
Print Assumptions put_gen.
Print Assumptions put_same_gen_skel.
Print Assumptions delete_gen.
Print Assumptions delete_same_gen.
