(* Laws of the ideal sorted map (layer S, SMap.v): what "an ideal sorted map with the same history
   returns" means.  Short consequences of ProofsSMap.v. *)
From Juniper Require Import Common.Base Tree.Bound Tree.SMap Tree.ProofsLists Tree.ProofsSMap.
Local Open Scope nat_scope.

Section SpecLaws.
  Context {K V : Type}.
  Variable cmp : K -> K -> comparison.
  Hypothesis L : cmp_laws cmp.
  Variables (kzero : K) (vzero : V).

  Notation smap := (smap K V).
  Notation sm_sorted := (sm_sorted K V cmp).
  Notation sm_put := (sm_put K V cmp).
  Notation sm_del := (sm_del K V cmp).
  Notation sm_find := (sm_find K V cmp).
  Notation sm_get := (sm_get K V cmp vzero).
  Notation sm_contains := (sm_contains K V cmp).
  Notation sm_len := (sm_len K V).
  Notation sm_first := (sm_first K V kzero vzero).
  Notation sm_last := (sm_last K V kzero vzero).
  Notation sm_range := (sm_range K V cmp).
  Notation sm_range_rev := (sm_range_rev K V cmp).
  Notation in_range := (in_range K cmp).

  (* the representation invariant is preserved *)
  Theorem spec_sorted_put (m : smap) k v : sm_sorted m -> sm_sorted (sm_put m k v).
  Proof. rewrite !(sm_sorted_iff cmp L). apply sorted_sm_put; assumption. Qed.

  Theorem spec_sorted_del (m : smap) k : sm_sorted m -> sm_sorted (sm_del m k).
  Proof. rewrite !(sm_sorted_iff cmp L). apply sorted_sm_del; assumption. Qed.

  (* lookups see the last value put under an equivalent key *)
  Theorem spec_get_put (m : smap) k v k' :
    sm_get (sm_put m k v) k' = if is_eq (cmp k' k) then v else sm_get m k'.
  Proof.
    unfold SMap.sm_get. rewrite (sm_find_put cmp L). destruct (is_eq (cmp k' k)); reflexivity.
  Qed.

  Theorem spec_contains_put (m : smap) k v k' :
    sm_contains (sm_put m k v) k' = if is_eq (cmp k' k) then true else sm_contains m k'.
  Proof.
    unfold SMap.sm_contains. rewrite (sm_find_put cmp L). destruct (is_eq (cmp k' k)); reflexivity.
  Qed.

  Theorem spec_get_del (m : smap) k k' :
    sm_sorted m -> sm_get (sm_del m k) k' = if is_eq (cmp k' k) then vzero else sm_get m k'.
  Proof.
    rewrite (sm_sorted_iff cmp L). intros S. unfold SMap.sm_get.
    rewrite (sm_find_del cmp L m k k' S). destruct (is_eq (cmp k' k)); reflexivity.
  Qed.

  Theorem spec_contains_del (m : smap) k k' :
    sm_sorted m ->
    sm_contains (sm_del m k) k' = if is_eq (cmp k' k) then false else sm_contains m k'.
  Proof.
    rewrite (sm_sorted_iff cmp L). intros S. unfold SMap.sm_contains.
    rewrite (sm_find_del cmp L m k k' S). destruct (is_eq (cmp k' k)); reflexivity.
  Qed.

  (* the stored key survives a Put of an equivalent key *)
  Theorem spec_put_keeps_key (m : smap) k v kv :
    sm_find m k = Some kv -> sm_find (sm_put m k v) k = Some (fst kv, v).
  Proof.
    intros H. rewrite (sm_find_put cmp L), (cmp_refl cmp L), H. reflexivity.
  Qed.

  (* Len counts distinct keys *)
  Theorem spec_len_put (m : smap) k v :
    sm_len (sm_put m k v) = (if sm_contains m k then sm_len m else sm_len m + 1)%Z.
  Proof.
    unfold SMap.sm_len, zlen. rewrite (length_sm_put cmp). destruct (sm_contains m k); lia.
  Qed.

  Theorem spec_len_del (m : smap) k :
    sm_len (sm_del m k) = (if sm_contains m k then sm_len m - 1 else sm_len m)%Z.
  Proof.
    unfold SMap.sm_len, zlen. rewrite (length_sm_del cmp).
    destruct (sm_contains m k) eqn:E; [|reflexivity].
    destruct m; [discriminate|]. simpl length. lia.
  Qed.

  Theorem spec_keys_distinct (m : smap) i j a b :
    sm_sorted m -> nth_error m i = Some a -> nth_error m j = Some b -> i <> j ->
    cmp (fst a) (fst b) <> Eq.
  Proof. rewrite (sm_sorted_iff cmp L). apply (sorted_no_equiv cmp L). Qed.

  (* First / Last are the extreme entries, zero values when empty *)
  Theorem spec_first_last_empty : sm_first [] = (kzero, vzero) /\ sm_last [] = (kzero, vzero).
  Proof. split; reflexivity. Qed.

  Theorem spec_first_min (m : smap) kv :
    sm_sorted m -> In kv m ->
    In (sm_first m) m /\ (kv = sm_first m \/ cmp (fst (sm_first m)) (fst kv) = Lt).
  Proof.
    rewrite (sm_sorted_iff cmp L). intros S Hin. split.
    - destruct m; [destruct Hin|simpl; auto].
    - apply (sorted_hd_min cmp); assumption.
  Qed.

  Theorem spec_last_max (m : smap) kv :
    sm_sorted m -> In kv m ->
    In (sm_last m) m /\ (kv = sm_last m \/ cmp (fst kv) (fst (sm_last m)) = Lt).
  Proof.
    rewrite (sm_sorted_iff cmp L). intros S Hin. split.
    - unfold SMap.sm_last. destruct m as [|a m] using rev_ind; [destruct Hin|].
      rewrite last_last. apply in_or_app. right. simpl; auto.
    - apply (sorted_last_max cmp); assumption.
  Qed.

  (* range iteration yields exactly the entries inside the bounds, once each, ascending
     (RangeReverse: the same entries descending) with their current values *)
  Theorem spec_range_filter lo hi (m : smap) kv :
    In kv (sm_range lo hi m) <-> In kv m /\ in_range lo hi (fst kv) = true.
  Proof. unfold SMap.sm_range. apply filter_In. Qed.

  Theorem spec_range_sorted lo hi (m : smap) : sm_sorted m -> sm_sorted (sm_range lo hi m).
  Proof. rewrite !(sm_sorted_iff cmp L). apply sorted_filter. Qed.

  Theorem spec_range_rev lo hi (m : smap) : sm_range_rev lo hi m = rev (sm_range lo hi m).
  Proof. reflexivity. Qed.

End SpecLaws.
