(* C02, cursor movement on a tree with unique ids and the local shape [shape_ok]:
   Cursor.next_body moves a cursor parked on a position of [inorder_pos] to the NEXT position of
   that list (or off the edge after the last one), Cursor.prev_body to the PREVIOUS one.
   All functions involved are structural (no fuel): the proofs are by node induction, the climb
   being handled by generalising over the ancestors above the current subtree. *)
From Juniper Require Import Common.Base Tree.Bound Tree.BTree Tree.Cursor Tree.CProofsTree.

Section CursorMove.
  Context {K V : Type}.
  Notation node := (@node K V).
  Notation btree := (@btree K V).
  Notation cursor := (@cursor K).
  Notation pos := (nat * Z * (K * V))%type.

  (* ---------------- small access lemmas ---------------- *)

  Lemma zget_of_nat {A} (l : list A) (n : nat) : zget l (Z.of_nat n) = nth_error l n.
  Proof.
    unfold zget. destruct (Z.of_nat n <? 0) eqn:E; [apply Z.ltb_lt in E; lia|].
    rewrite Nat2Z.id. reflexivity.
  Qed.

  Lemma nth_map_nth {A B} (f : A -> B) d : forall (l : list A) i a,
    nth_error l i = Some a -> nth_map f d l i = f a.
  Proof.
    induction l as [|x l IH]; intros [|i] a H; simpl in *; try discriminate.
    - injection H as ->. reflexivity.
    - apply IH. exact H.
  Qed.

  Lemma nth_map_none {A B} (f : A -> B) d : forall (l : list A) i,
    nth_error l i = None -> nth_map f d l i = d.
  Proof.
    induction l as [|x l IH]; intros [|i] H; simpl in *; try discriminate; auto.
  Qed.

  Lemma skipn_nth_error_cons {A} : forall (l : list A) n a,
    nth_error l n = Some a -> skipn n l = a :: skipn (S n) l.
  Proof.
    induction l as [|x l IH]; intros [|n] a H; simpl in *; try discriminate.
    - injection H as ->. reflexivity.
    - apply IH. exact H.
  Qed.

  Lemma last_map' {A B} (f : A -> B) (l : list A) d : last (map f l) (f d) = f (last l d).
  Proof.
    induction l as [|a l IH]; simpl; auto. destruct l as [|b l]; simpl in *; auto.
  Qed.

  Lemma key_at_nat (x : node) n kv :
    nth_error (nkvs x) n = Some kv -> key_at K V x (Z.of_nat n) = Ok (fst kv).
  Proof. intros H. unfold key_at. rewrite zget_of_nat, H. reflexivity. Qed.

  Lemma val_at_nat (x : node) n kv :
    nth_error (nkvs x) n = Some kv -> val_at K V x (Z.of_nat n) = Ok (snd kv).
  Proof. intros H. unfold val_at. rewrite zget_of_nat, H. reflexivity. Qed.

  Lemma child_at_nat (x : node) n c :
    nth_error (ncs x) n = Some c -> child_at K V x (Z.of_nat n) = Ok c.
  Proof. intros H. unfold child_at. rewrite zget_of_nat, H. reflexivity. Qed.

  (* ---------------- first / last position of a subtree ---------------- *)

  Lemma interleave_cons_head {A} (l : list A) ls seps a r :
    l = a :: r -> exists r', interleave (l :: ls) seps = a :: r'.
  Proof. intros ->. destruct seps; simpl; eauto. Qed.

  Lemma inorder_pos_head (x : node) :
    shape_ok x ->
    exists kv rest restp,
      nkvs (leftmost_leaf x) = kv :: rest /\ is_leaf (leftmost_leaf x) = true
      /\ inorder_pos x = (nid (leftmost_leaf x), 0, kv) :: restp.
  Proof.
    induction x as [id kvs cs IH] using node_ind'. intros Hs.
    destruct cs as [|c cs].
    - apply shape_ok_inv in Hs. destruct Hs as (Hk & _ & _).
      destruct kvs as [|kv rest]; [congruence|]. simpl.
      exists kv, rest, (own_pos id 1 rest). auto.
    - destruct (shape_ok_child id kvs (c :: cs) O c Hs eq_refl) as [Hc _].
      inversion IH as [|c' cs' IHc _]; subst.
      destruct (IHc Hc) as (kv & rest & restp & Hk & Hl & Hp).
      change (leftmost_leaf (Node id kvs (c :: cs))) with (leftmost_leaf c).
      change (inorder_pos (Node id kvs (c :: cs)))
        with (interleave (inorder_pos c :: map inorder_pos cs) (own_pos id 0 kvs)).
      destruct (interleave_cons_head (inorder_pos c) (map inorder_pos cs) (own_pos id 0 kvs) _ _ Hp)
        as [r' Hr'].
      exists kv, rest, r'. auto.
  Qed.

  Lemma interleave_last {A} : forall (ls : list (list A)) seps l a r,
    length ls = S (length seps) -> last ls [] = l -> l = r ++ [a] ->
    exists r', interleave ls seps = r' ++ [a].
  Proof.
    induction ls as [|l0 ls IH]; intros seps l a r Hlen Hlast Hl; [discriminate|].
    destruct seps as [|s seps]; simpl in Hlen.
    - destruct ls; [|discriminate]. simpl in *. subst. exists r. rewrite app_nil_r. reflexivity.
    - injection Hlen as Hlen. destruct ls as [|l1 ls]; [discriminate|].
      destruct (IH seps l a r Hlen Hlast Hl) as [r' Hr'].
      exists (l0 ++ s :: r'). simpl in *. rewrite Hr'. rewrite <- app_assoc. reflexivity.
  Qed.

  Lemma nth_error_last {A} (l : list A) d n : length l = S n -> nth_error l n = Some (last l d).
  Proof.
    revert n. induction l as [|a l IH]; intros n H; [discriminate|].
    destruct l as [|b l].
    - simpl in H. injection H as <-. reflexivity.
    - destruct n as [|n]; [discriminate|].
      change (nth_error (b :: l) n = Some (last (b :: l) d)). apply IH. simpl in *. lia.
  Qed.

  Lemma own_pos_snoc id j (kvs : list (K * V)) kv :
    own_pos id j (kvs ++ [kv]) = own_pos id j kvs ++ [(id, Z.of_nat (j + length kvs), kv)].
  Proof. rewrite own_pos_app. reflexivity. Qed.

  Lemma inorder_pos_last (x : node) :
    shape_ok x ->
    exists kv front frontp,
      nkvs (rightmost_leaf x) = front ++ [kv] /\ is_leaf (rightmost_leaf x) = true
      /\ inorder_pos x = frontp ++ [(nid (rightmost_leaf x), zlen front, kv)].
  Proof.
    induction x as [id kvs cs IH] using node_ind'. intros Hs.
    destruct cs as [|c cs].
    - apply shape_ok_inv in Hs. destruct Hs as (Hk & _ & _).
      destruct (exists_last Hk) as (front & kv & ->).
      exists kv, front, (own_pos id 0 front). simpl. repeat split; auto.
      rewrite own_pos_snoc. reflexivity.
    - pose proof (shape_ok_child id kvs (c :: cs) O c Hs eq_refl) as [_ Hlen].
      pose proof (nth_error_last (c :: cs) dummy (length kvs) Hlen) as Hn.
      set (cl := last (c :: cs) dummy) in *.
      destruct (shape_ok_child id kvs (c :: cs) _ cl Hs Hn) as [Hcl _].
      rewrite Forall_forall in IH.
      destruct (IH cl (nth_error_In _ _ Hn) Hcl) as (kv & front & frontp & Hk & Hl & Hp).
      assert (Hr : rightmost_leaf (Node id kvs (c :: cs)) = rightmost_leaf cl).
      { change (rightmost_leaf (Node id kvs (c :: cs)))
          with (nth_map rightmost_leaf dummy (c :: cs) (length kvs)).
        apply nth_map_nth. exact Hn. }
      rewrite Hr.
      change (inorder_pos (Node id kvs (c :: cs)))
        with (interleave (map inorder_pos (c :: cs)) (own_pos id 0 kvs)).
      destruct (interleave_last (map inorder_pos (c :: cs)) (own_pos id 0 kvs) (inorder_pos cl)
                  (nid (rightmost_leaf cl), zlen front, kv) frontp) as [r' Hr'].
      + rewrite map_length, own_pos_length. exact Hlen.
      + change (@nil pos) with (inorder_pos (@dummy K V)). rewrite last_map'. reflexivity.
      + exact Hp.
      + exists kv, front, r'. auto.
  Qed.

  (* ---------------- splitting the own positions of a node ---------------- *)

  Lemma own_pos_split id (kvs : list (K * V)) (l1 l2 : list pos) p :
    own_pos id 0 kvs = l1 ++ p :: l2 ->
    exists kv, p = (id, Z.of_nat (length l1), kv)
      /\ nth_error kvs (length l1) = Some kv
      /\ length kvs = (length l1 + S (length l2))%nat
      /\ (forall p' l2', l2 = p' :: l2' ->
            exists kv', p' = (id, Z.of_nat (S (length l1)), kv')
                        /\ nth_error kvs (S (length l1)) = Some kv')
      /\ (forall p' l1', l1 = l1' ++ [p'] ->
            exists kv', p' = (id, Z.of_nat (length l1'), kv')
                        /\ nth_error kvs (length l1') = Some kv').
  Proof.
    intros H.
    assert (Hn : forall n q, nth_error (l1 ++ p :: l2) n = Some q ->
               exists kv, q = (id, Z.of_nat n, kv) /\ nth_error kvs n = Some kv).
    { intros n q Hq. rewrite <- H, own_pos_nth in Hq.
      destruct (nth_error kvs n) as [kv|]; simpl in Hq; [|discriminate].
      injection Hq as <-. eauto. }
    destruct (Hn (length l1) p) as (kv & Hp & Hkv).
    { rewrite nth_error_app2 by lia. rewrite Nat.sub_diag. reflexivity. }
    exists kv. split; [exact Hp|]. split; [exact Hkv|]. split.
    { rewrite <- (own_pos_length id 0 kvs), H, app_length. reflexivity. }
    split.
    - intros p' l2' ->. apply Hn.
      rewrite nth_error_app2 by lia. replace (S (length l1) - length l1)%nat with 1%nat by lia.
      reflexivity.
    - intros p' l1' ->. apply Hn.
      rewrite <- app_assoc. rewrite nth_error_app2 by lia. rewrite Nat.sub_diag. reflexivity.
  Qed.

  (* ---------------- Next ---------------- *)

  (* next_body with the node and its ancestors (nearest first) made explicit *)
  Definition nb (y : node) (anc : list (node * nat)) (c : cursor) : result cursor :=
    if is_leaf y then
      let c1 := set_ci K c (ci c + 1) in
      if ci c1 <? node_n K V y then
        k <- key_at K V y (ci c1) ;; Ok (mkCursor (curr c1) (ci c1) k (cgen c1))
      else climb_next K V anc c1
    else if ci c <? node_n K V y then
      ch <- child_at K V y (ci c + 1) ;;
      let lf := leftmost_leaf ch in
      k <- key_at K V lf 0 ;;
      Ok (mkCursor (Some (nid lf)) 0 k (cgen c))
    else climb_next K V anc c.

  Lemma next_body_nb (t : btree) (c : cursor) id y q :
    curr c = Some id -> find_node id (root t) = Some y -> path_to id (root t) = Some q ->
    next_body K V t c = nb y (rev q) c.
  Proof.
    intros Hc Hf Hp. unfold next_body, nb, ancestors. rewrite Hc, Hf, Hp. reflexivity.
  Qed.

  (* the cursor parked on position p, with generation g *)
  Definition cur_at (p : pos) (g : Z) : cursor :=
    mkCursor (Some (p_id p)) (p_i p) (fst (p_kv p)) g.

  Lemma next_in_subtree (x : node) :
    shape_ok x -> NoDup (ids x) ->
    forall anc_up (c : cursor) l1 id i kv l2,
      inorder_pos x = l1 ++ (id, i, kv) :: l2 ->
      curr c = Some id -> ci c = i ->
      exists y q,
        find_node id x = Some y /\ path_to id x = Some q /\ zget (nkvs y) i = Some kv
        /\ (forall p' l2', l2 = p' :: l2' -> nb y (rev q ++ anc_up) c = Ok (cur_at p' (cgen c)))
        /\ (l2 = [] -> exists c1, cgen c1 = cgen c
                        /\ nb y (rev q ++ anc_up) c = climb_next K V anc_up c1).
  Proof.
    induction x as [ix kvs cs IH] using node_ind'.
    intros Hs Hnd anc_up c l1 id i kv l2 Hpos Hc Hi.
    destruct cs as [|c0 cs0].
    - (* leaf *)
      simpl in Hpos. destruct (own_pos_split ix kvs l1 l2 _ Hpos)
        as (kv' & Hp & Hkv & Hlen & Hnext & _).
      injection Hp as -> -> ->.
      exists (Node ix kvs []), []. split; [apply (find_node_self (Node ix kvs []))|].
      split; [apply (path_to_self (Node ix kvs []))|].
      split; [simpl; rewrite zget_of_nat; exact Hkv|].
      unfold nb. change (is_leaf (Node ix kvs [])) with true. cbv iota. simpl rev. simpl app.
      unfold set_ci. simpl ci. simpl curr. simpl cgen. rewrite Hi, Hc.
      unfold node_n, zlen. simpl nkvs.
      split.
      + intros p' l2' ->. destruct (Hnext p' l2' eq_refl) as (kv2 & -> & Hkv2).
        simpl in Hlen.
        replace (Z.of_nat (length l1) + 1 <? Z.of_nat (length kvs)) with true
          by (symmetry; apply Z.ltb_lt; lia).
        replace (Z.of_nat (length l1) + 1) with (Z.of_nat (S (length l1))) by lia.
        rewrite (key_at_nat (Node ix kvs []) _ kv2 Hkv2). reflexivity.
      + intros ->. simpl in Hlen.
        replace (Z.of_nat (length l1) + 1 <? Z.of_nat (length kvs)) with false
          by (symmetry; apply Z.ltb_ge; lia).
        eexists. split; [|reflexivity]. reflexivity.
    - (* internal node *)
      set (cs := c0 :: cs0) in *.
      assert (Hlen : length cs = S (length kvs)).
      { destruct (shape_ok_child ix kvs cs O c0 Hs eq_refl) as [_ H]. exact H. }
      change (inorder_pos (Node ix kvs cs))
        with (interleave (map inorder_pos cs) (own_pos ix 0 kvs)) in Hpos.
      assert (Hlen' : length (map inorder_pos cs) = S (length (own_pos ix 0 kvs))).
      { rewrite map_length, own_pos_length. exact Hlen. }
      assert (Hleaf : is_leaf (Node ix kvs cs) = false) by reflexivity.
      destruct (interleave_decomp _ _ _ _ _ Hlen' Hpos)
        as [(j & l1' & l2' & Hj & Hl1 & Hl2)|(j & l & Hsep & Hj & Hl1 & Hl2)].
      + (* the position lies in child j *)
        rewrite nth_error_map in Hj. destruct (nth_error cs j) as [cj|] eqn:Hcj; [|discriminate].
        simpl in Hj. injection Hj as Hj.
        destruct (shape_ok_child ix kvs cs j cj Hs Hcj) as [Hsj _].
        pose proof (NoDup_child ix kvs cs j cj Hnd Hcj) as Hndj.
        rewrite Forall_forall in IH.
        destruct (IH cj (nth_error_In _ _ Hcj) Hsj Hndj ((Node ix kvs cs, j) :: anc_up)
                     c l1' id i kv l2' Hj Hc Hi)
          as (y & q & Hfy & Hpq & Hz & Hn1 & Hn2).
        destruct (find_node_some_in id cj y Hfy) as [Hin _].
        destruct (find_path_child ix kvs cs j cj id Hnd Hcj Hin) as (Hf' & Hp' & _).
        exists y, ((Node ix kvs cs, j) :: q).
        split; [rewrite Hf'; exact Hfy|]. split; [rewrite Hp', Hpq; reflexivity|].
        split; [exact Hz|].
        assert (Hrev : forall a, rev ((Node ix kvs cs, j) :: q) ++ a
                                 = rev q ++ (Node ix kvs cs, j) :: a).
        { intros a. simpl. rewrite <- app_assoc. reflexivity. }
        rewrite Hrev.
        destruct l2' as [|p2 l2''].
        * (* last position of the child: climb one level *)
          destruct (Hn2 eq_refl) as (c1 & Hg1 & Hnb). rewrite Hnb.
          simpl in Hl2. unfold ipost in Hl2. rewrite own_pos_nth in Hl2.
          simpl climb_next. unfold node_n, zlen. simpl nkvs.
          destruct (nth_error kvs j) as [kvj|] eqn:Hkj; simpl in Hl2.
          -- assert (Hlt : (j < length kvs)%nat) by (apply nth_error_Some; congruence).
             replace (Z.of_nat j <? Z.of_nat (length kvs)) with true
               by (symmetry; apply Z.ltb_lt; lia).
             rewrite (key_at_nat (Node ix kvs cs) j kvj Hkj). simpl.
             split.
             ++ intros p' l2' E. rewrite Hl2 in E. injection E as <- _.
                unfold cur_at. simpl. rewrite Hg1. reflexivity.
             ++ intros E. rewrite Hl2 in E. discriminate.
          -- apply nth_error_None in Hkj.
             replace (Z.of_nat j <? Z.of_nat (length kvs)) with false
               by (symmetry; apply Z.ltb_ge; lia).
             split.
             ++ intros p' l2' E. rewrite Hl2 in E. discriminate.
             ++ intros _. eexists. split; [|reflexivity]. simpl. exact Hg1.
        * split.
          -- intros p' l2' E. rewrite Hl2 in E. simpl in E. injection E as <- _.
             apply (Hn1 p2 l2''). reflexivity.
          -- intros E. rewrite Hl2 in E. discriminate.
      + (* the position is separator j of this node *)
        rewrite own_pos_nth in Hsep. destruct (nth_error kvs j) as [kvj|] eqn:Hkj; [|discriminate].
        simpl in Hsep. injection Hsep as <- <- <-.
        assert (Hlt : (j < length kvs)%nat) by (apply nth_error_Some; congruence).
        exists (Node ix kvs cs), []. split; [apply (find_node_self (Node ix kvs cs))|].
        split; [apply (path_to_self (Node ix kvs cs))|].
        split; [simpl; rewrite zget_of_nat; exact Hkj|].
        destruct (nth_error cs (S j)) as [cn|] eqn:Hcn.
        2:{ apply nth_error_None in Hcn. lia. }
        destruct (shape_ok_child ix kvs cs (S j) cn Hs Hcn) as [Hsn _].
        destruct (inorder_pos_head cn Hsn) as (kv0 & rest & restp & Hk0 & _ & Hp0).
        assert (Hl2' : exists r', l2 = (nid (leftmost_leaf cn), 0, kv0) :: r').
        { rewrite Hl2. rewrite skipn_map.
          rewrite (skipn_nth_error_cons cs (S j) cn Hcn). simpl map.
          eapply interleave_cons_head. exact Hp0. }
        destruct Hl2' as [r' Hr'].
        split.
        * intros p' l2' E. rewrite Hr' in E. injection E as <- _.
          unfold nb. rewrite Hleaf, Hi. unfold node_n, zlen. simpl nkvs.
          replace (Z.of_nat j <? Z.of_nat (length kvs)) with true
            by (symmetry; apply Z.ltb_lt; lia).
          replace (Z.of_nat j + 1) with (Z.of_nat (S j)) by lia.
          rewrite (child_at_nat (Node ix kvs cs) (S j) cn Hcn). simpl.
          change 0 with (Z.of_nat 0).
          rewrite (key_at_nat (leftmost_leaf cn) 0 kv0); [|rewrite Hk0; reflexivity].
          reflexivity.
        * intros E. rewrite Hr' in E. discriminate.
  Qed.

  (* ---------------- Prev ---------------- *)

  Definition pb (y : node) (anc : list (node * nat)) (c : cursor) : result cursor :=
    if is_leaf y then
      let c1 := set_ci K c (ci c - 1) in
      if ci c1 >=? 0 then
        k <- key_at K V y (ci c1) ;; Ok (mkCursor (curr c1) (ci c1) k (cgen c1))
      else climb_prev K V anc c1
    else if ci c >=? 0 then
      ch <- child_at K V y (ci c) ;;
      let lf := rightmost_leaf ch in
      let i := node_n K V lf - 1 in
      k <- key_at K V lf i ;;
      Ok (mkCursor (Some (nid lf)) i k (cgen c))
    else climb_prev K V anc c.

  Lemma prev_body_pb (t : btree) (c : cursor) id y q :
    curr c = Some id -> find_node id (root t) = Some y -> path_to id (root t) = Some q ->
    prev_body K V t c = pb y (rev q) c.
  Proof.
    intros Hc Hf Hp. unfold prev_body, pb, ancestors. rewrite Hc, Hf, Hp. reflexivity.
  Qed.

  Lemma snoc_cases {A} (l : list A) : l = [] \/ exists l' a, l = l' ++ [a].
  Proof.
    destruct l as [|x l]; [left; reflexivity|right].
    destruct (@exists_last _ (x :: l)) as (l' & a & H); [discriminate|eauto].
  Qed.

  Lemma ipre_snoc {A} : forall j (ls : list (list A)) seps l s,
    nth_error ls j = Some l -> nth_error seps j = Some s ->
    ipre (S j) ls seps = ipre j ls seps ++ l ++ [s].
  Proof.
    induction j as [|j IH]; intros ls seps l s Hl Hs.
    - destruct ls as [|l0 ls]; [discriminate|]. destruct seps as [|s0 seps]; [discriminate|].
      simpl in *. injection Hl as ->. injection Hs as ->. destruct ls, seps; reflexivity.
    - destruct ls as [|l0 ls]; [discriminate|]. destruct seps as [|s0 seps]; [discriminate|].
      simpl in Hl, Hs.
      change (ipre (S (S j)) (l0 :: ls) (s0 :: seps)) with (l0 ++ s0 :: ipre (S j) ls seps).
      rewrite (IH ls seps l s Hl Hs). simpl. rewrite <- app_assoc. reflexivity.
  Qed.

  Lemma prev_in_subtree (x : node) :
    shape_ok x -> NoDup (ids x) ->
    forall anc_up (c : cursor) l1 id i kv l2,
      inorder_pos x = l1 ++ (id, i, kv) :: l2 ->
      curr c = Some id -> ci c = i ->
      exists y q,
        find_node id x = Some y /\ path_to id x = Some q /\ zget (nkvs y) i = Some kv
        /\ (forall p' l1', l1 = l1' ++ [p'] -> pb y (rev q ++ anc_up) c = Ok (cur_at p' (cgen c)))
        /\ (l1 = [] -> exists c1, cgen c1 = cgen c
                        /\ pb y (rev q ++ anc_up) c = climb_prev K V anc_up c1).
  Proof.
    induction x as [ix kvs cs IH] using node_ind'.
    intros Hs Hnd anc_up c l1 id i kv l2 Hpos Hc Hi.
    destruct cs as [|c0 cs0].
    - (* leaf *)
      simpl in Hpos. destruct (own_pos_split ix kvs l1 l2 _ Hpos)
        as (kv' & Hp & Hkv & Hlen & _ & Hprev).
      injection Hp as -> -> ->.
      exists (Node ix kvs []), []. split; [apply (find_node_self (Node ix kvs []))|].
      split; [apply (path_to_self (Node ix kvs []))|].
      split; [simpl; rewrite zget_of_nat; exact Hkv|].
      unfold pb. change (is_leaf (Node ix kvs [])) with true. cbv iota. simpl rev. simpl app.
      unfold set_ci. simpl ci. simpl curr. simpl cgen. rewrite Hi, Hc.
      split.
      + intros p' l1' ->. destruct (Hprev p' l1' eq_refl) as (kv2 & -> & Hkv2).
        rewrite app_length. simpl length.
        replace (Z.of_nat (length l1' + 1) - 1 >=? 0) with true
          by (symmetry; apply Z.geb_le; lia).
        replace (Z.of_nat (length l1' + 1) - 1) with (Z.of_nat (length l1')) by lia.
        rewrite (key_at_nat (Node ix kvs []) _ kv2 Hkv2). reflexivity.
      + intros ->. simpl length.
        replace (Z.of_nat 0 - 1 >=? 0) with false by reflexivity.
        eexists. split; [|reflexivity]. reflexivity.
    - (* internal node *)
      set (cs := c0 :: cs0) in *.
      assert (Hlen : length cs = S (length kvs)).
      { destruct (shape_ok_child ix kvs cs O c0 Hs eq_refl) as [_ H]. exact H. }
      change (inorder_pos (Node ix kvs cs))
        with (interleave (map inorder_pos cs) (own_pos ix 0 kvs)) in Hpos.
      assert (Hlen' : length (map inorder_pos cs) = S (length (own_pos ix 0 kvs))).
      { rewrite map_length, own_pos_length. exact Hlen. }
      assert (Hleaf : is_leaf (Node ix kvs cs) = false) by reflexivity.
      destruct (interleave_decomp _ _ _ _ _ Hlen' Hpos)
        as [(j & l1' & l2' & Hj & Hl1 & Hl2)|(j & l & Hsep & Hj & Hl1 & Hl2)].
      + (* the position lies in child j *)
        rewrite nth_error_map in Hj. destruct (nth_error cs j) as [cj|] eqn:Hcj; [|discriminate].
        simpl in Hj. injection Hj as Hj.
        destruct (shape_ok_child ix kvs cs j cj Hs Hcj) as [Hsj _].
        pose proof (NoDup_child ix kvs cs j cj Hnd Hcj) as Hndj.
        rewrite Forall_forall in IH.
        destruct (IH cj (nth_error_In _ _ Hcj) Hsj Hndj ((Node ix kvs cs, j) :: anc_up)
                     c l1' id i kv l2' Hj Hc Hi)
          as (y & q & Hfy & Hpq & Hz & Hn1 & Hn2).
        destruct (find_node_some_in id cj y Hfy) as [Hin _].
        destruct (find_path_child ix kvs cs j cj id Hnd Hcj Hin) as (Hf' & Hp' & _).
        exists y, ((Node ix kvs cs, j) :: q).
        split; [rewrite Hf'; exact Hfy|]. split; [rewrite Hp', Hpq; reflexivity|].
        split; [exact Hz|].
        assert (Hrev : forall a, rev ((Node ix kvs cs, j) :: q) ++ a
                                 = rev q ++ (Node ix kvs cs, j) :: a).
        { intros a. simpl. rewrite <- app_assoc. reflexivity. }
        rewrite Hrev.
        destruct (snoc_cases l1') as [->|(l1'' & p2 & ->)].
        * (* first position of the child: climb one level *)
          destruct (Hn2 eq_refl) as (c1 & Hg1 & Hpb). rewrite Hpb.
          rewrite app_nil_r in Hl1.
          simpl climb_prev.
          destruct j as [|j'].
          -- simpl in Hl1. replace (Z.of_nat 0 - 1 >=? 0) with false by reflexivity.
             split.
             ++ intros p' l1x E. rewrite Hl1 in E. destruct l1x; discriminate.
             ++ intros _. eexists. split; [|reflexivity]. simpl. exact Hg1.
          -- assert (Hlt : (j' < length kvs)%nat).
             { assert (S j' < length cs)%nat by (apply nth_error_Some; congruence). lia. }
             destruct (nth_error kvs j') as [kvj|] eqn:Hkj.
             2:{ apply nth_error_None in Hkj. lia. }
             destruct (nth_error (map inorder_pos cs) j') as [lj|] eqn:Hlj.
             2:{ apply nth_error_None in Hlj. rewrite map_length in Hlj. lia. }
             rewrite (ipre_snoc j' _ _ lj (ix, Z.of_nat j', kvj) Hlj) in Hl1.
             2:{ rewrite own_pos_nth, Hkj. reflexivity. }
             replace (Z.of_nat (S j') - 1 >=? 0) with true by (symmetry; apply Z.geb_le; lia).
             replace (Z.of_nat (S j') - 1) with (Z.of_nat j') by lia.
             rewrite (key_at_nat (Node ix kvs cs) j' kvj Hkj). simpl.
             split.
             ++ intros p' l1x E. rewrite Hl1 in E. rewrite app_assoc in E.
                apply app_inj_tail in E. destruct E as [_ <-].
                unfold cur_at. simpl. rewrite Hg1. reflexivity.
             ++ intros E. rewrite Hl1 in E. destruct (ipre j' (map inorder_pos cs) (own_pos ix 0 kvs)); [destruct lj|]; discriminate.
        * split.
          -- intros p' l1x E. rewrite Hl1 in E. rewrite app_assoc in E.
             apply app_inj_tail in E. destruct E as [_ <-].
             apply (Hn1 p2 l1''). reflexivity.
          -- intros E. rewrite Hl1 in E. destruct (ipre j (map inorder_pos cs) (own_pos ix 0 kvs)); [destruct l1''|]; discriminate.
      + (* the position is separator j of this node *)
        rewrite own_pos_nth in Hsep. destruct (nth_error kvs j) as [kvj|] eqn:Hkj; [|discriminate].
        simpl in Hsep. injection Hsep as <- <- <-.
        assert (Hlt : (j < length kvs)%nat) by (apply nth_error_Some; congruence).
        exists (Node ix kvs cs), []. split; [apply (find_node_self (Node ix kvs cs))|].
        split; [apply (path_to_self (Node ix kvs cs))|].
        split; [simpl; rewrite zget_of_nat; exact Hkj|].
        rewrite nth_error_map in Hj. destruct (nth_error cs j) as [cj|] eqn:Hcj; [|discriminate].
        simpl in Hj. injection Hj as <-.
        destruct (shape_ok_child ix kvs cs j cj Hs Hcj) as [Hsj _].
        destruct (inorder_pos_last cj Hsj) as (kvl & front & frontp & Hkl & _ & Hpl).
        split.
        * intros p' l1x E. rewrite Hl1, Hpl in E. rewrite app_assoc in E.
          apply app_inj_tail in E. destruct E as [_ <-].
          unfold pb. rewrite Hleaf, Hi.
          replace (Z.of_nat j >=? 0) with true by (symmetry; apply Z.geb_le; lia).
          rewrite (child_at_nat (Node ix kvs cs) j cj Hcj). simpl.
          unfold node_n. rewrite Hkl. rewrite zlen_app.
          replace (zlen front + zlen [kvl] - 1) with (Z.of_nat (length front))
            by (unfold zlen; simpl; lia).
          rewrite (key_at_nat (rightmost_leaf cj) (length front) kvl).
          2:{ rewrite Hkl. rewrite nth_error_app2 by lia. rewrite Nat.sub_diag. reflexivity. }
          reflexivity.
        * intros E. rewrite Hl1, Hpl in E.
          destruct (ipre j (map inorder_pos cs) (own_pos ix 0 kvs)); [destruct frontp|]; discriminate.
  Qed.

End CursorMove.
