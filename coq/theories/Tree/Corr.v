(* Correspondence evaluator for tree.Map: runs the models on a recorded history and compares with
   the implementation's recorded observations (evaluated by vm_compute from generated files).
   Depends on the models only, never on proofs. *)
From Juniper Require Import Common.Base Generated.Params
  Tree.Bound Tree.BTree Tree.Cursor Tree.SMap Tree.AIter Tree.Hist.

(* the shipped constants of btree.go *)
Definition minK : nat := Z.to_nat tree_minKVs.
Definition maxK : nat := Z.to_nat tree_maxKVs.

(* layer M with the shipped constants *)
Definition run_M_shipped (mode : Z) (ops : list top) : list tout := run_M minK maxK mode ops.

(* a case = key-order mode, operations, the implementation's observations (one per operation) *)
Definition case : Type := Z * list top * list tout.

Definition pair_eqb (keq : Z -> Z -> bool) (p q : Z * Z) : bool :=
  keq (fst p) (fst q) && (snd p =? snd q).

Fixpoint list_eqb {A} (eq : A -> A -> bool) (l m : list A) : bool :=
  match l, m with
  | [], [] => true
  | x :: l', y :: m' => eq x y && list_eqb eq l' m'
  | _, _ => false
  end.

(* outputs equal, keys of OPair/OList compared with keq, everything else exactly *)
Definition tout_eqb (keq : Z -> Z -> bool) (a b : tout) : bool :=
  match a, b with
  | OUnit, OUnit | OEnd, OEnd | OPanic, OPanic | OBad, OBad => true
  | OInt x, OInt y => x =? y
  | OBool x, OBool y => Bool.eqb x y
  | OPair k v, OPair k' v' => pair_eqb keq (k, v) (k', v')
  | OList l, OList m => list_eqb (pair_eqb keq) l m
  | OShape l, OShape m => list_eqb Z.eqb l m
  | _, _ => false
  end.

(* model outputs vs observations, position by position; operations with skip o = true are not
   compared.  All three lists must have the same length. *)
Fixpoint check_outs (skip : top -> bool) (eq : tout -> tout -> bool)
    (ops : list top) (model obs : list tout) : bool :=
  match ops, model, obs with
  | [], [], [] => true
  | o :: ops', m :: model', b :: obs' =>
      (skip o || eq m b) && check_outs skip eq ops' model' obs'
  | _, _, _ => false
  end.

Definition is_shape (o : top) : bool := match o with TShape => true | _ => false end.
Definition is_cost (o : top) : bool := match o with TGetCost _ => true | _ => false end.

(* layer M reproduces every observation except the TShape ones; keys compared exactly *)
Definition check_M (c : case) : bool :=
  let '(mode, ops, obs) := c in
  check_outs is_shape (tout_eqb Z.eqb) ops (run_M_shipped mode ops) obs.

(* layer S vs observations, skipping TShape/TGetCost; keys up to cmp-equivalence, values exactly *)
Definition check_S (c : case) : bool :=
  let '(mode, ops, obs) := c in
  check_outs (fun o => is_shape o || is_cost o)
             (tout_eqb (fun a b => is_eq (mode_cmp mode a b))) ops (run_S mode ops) obs.

(* only the TShape observations, exactly *)
Definition check_shape (c : case) : bool :=
  let '(mode, ops, obs) := c in
  check_outs (fun o => negb (is_shape o)) (tout_eqb Z.eqb) ops (run_M_shipped mode ops) obs.

(* ---------------- examples (non-vacuity: the models run non-trivial histories) ---------------- *)

Definition puts (ks : list nat) : list top := map (fun n => TPut (Z.of_nat n) (Z.of_nat n * 10)) ks.
Definition dels (ks : list Z) : list top := map TDel ks.

(* 1. maxKVs + 1 ascending inserts split the root leaf: root [8], left 0..7 (old id), right 9..15. *)
Definition h_split : list top :=
  puts (seq 0 (S maxK)) ++
  [TShape; TLen; TFirst; TLast; TGet 8; TGetCost 8; TGetCost 15; TContains 99].

Definition obs_split : list tout :=
  repeat OUnit (S maxK) ++
  [OShape [0; 1; 8;  1; 8; 0; 1; 2; 3; 4; 5; 6; 7;  1; 7; 9; 10; 11; 12; 13; 14; 15];
   OInt 16; OPair 0 0; OPair 15 150; OInt 80; OInt 1; OInt 8; OBool false].

Example ex_split_run : run_M_shipped 0 h_split = obs_split.
Proof. vm_compute. reflexivity. Qed.

Example ex_split_checks :
  check_M (0, h_split, obs_split) && check_S (0, h_split, obs_split)
  && check_shape (0, h_split, obs_split) = true.
Proof. vm_compute. reflexivity. Qed.

(* the checks do reject a wrong observation *)
Example ex_split_reject :
  check_M (0, [TPut 1 2; TGet 1], [OUnit; OInt 3]) || check_S (0, [TPut 1 2; TGet 1], [OUnit; OInt 3])
  || check_shape (0, [TPut 1 2; TShape], [OUnit; OShape [0; 1; 2]]) = false.
Proof. vm_compute. reflexivity. Qed.

(* 2. ... and merge back: Delete 15 steals from the left sibling (rotateRight), Delete 14 merges the
   two leaves and collapses the root. *)
Definition h_merge : list top :=
  puts (seq 0 (S maxK)) ++
  [TShape; TDel 15; TShape; TDel 14; TShape;
   TRange BUnb BUnb; TRangeRev (BInc 3) (BExc 9); TRange (BExc 20) BUnb; TLen].

Definition obs_merge : list tout :=
  repeat OUnit (S maxK) ++
  [OShape [0; 1; 8;  1; 8; 0; 1; 2; 3; 4; 5; 6; 7;  1; 7; 9; 10; 11; 12; 13; 14; 15];
   OUnit;
   OShape [0; 1; 7;  1; 7; 0; 1; 2; 3; 4; 5; 6;  1; 7; 8; 9; 10; 11; 12; 13; 14];
   OUnit;
   OShape [0; 14; 0; 1; 2; 3; 4; 5; 6; 7; 8; 9; 10; 11; 12; 13];
   OList (map (fun n => (Z.of_nat n, Z.of_nat n * 10)) (seq 0 14));
   OList [(8, 80); (7, 70); (6, 60); (5, 50); (4, 40); (3, 30)];
   OList [];
   OInt 14].

Example ex_merge_run : run_M_shipped 0 h_merge = obs_merge.
Proof. vm_compute. reflexivity. Qed.

Example ex_merge_checks :
  check_M (0, h_merge, obs_merge) && check_S (0, h_merge, obs_merge)
  && check_shape (0, h_merge, obs_merge) = true.
Proof. vm_compute. reflexivity. Qed.

(* node identities through split / steal / merge / collapse: ids of all nodes in preorder *)
Definition ids_after (ops : list top) : list nat :=
  map nid (nodes (root (m_t (fst (steps_M minK maxK 0 m0 ops))))).

Example ex_ids :
  ids_after (puts (seq 0 (S maxK))) = [2; 0; 1]%nat            (* new root 2, left keeps 0, right 1 *)
  /\ ids_after (puts (seq 0 (S maxK)) ++ [TDel 15; TDel 14]) = [0]%nat.  (* merged into left; root dropped *)
Proof. vm_compute. split; reflexivity. Qed.

(* 3. a live forward and a live reverse iterator while keys around them are deleted / inserted
   (three-level-free but multi-node tree of 40 keys; the leaves the iterators are parked on are
   shifted, merged and unlinked). *)
Definition h_iter : list top :=
  puts (seq 0 40) ++
  [TIterNew false (BInc 5) (BExc 30); TIterNew true BUnb (BInc 33);
   TIterNext 0; TIterNext 1; TIterNext 0; TIterNext 1;
   TDel 7; TDel 31; TIterNext 0; TIterNext 1;
   TPut 7 777; TDel 8; TDel 9; TDel 10; TDel 11; TDel 12; TDel 13; TDel 14;
   TIterNext 0; TIterNext 0;
   TPut 30 1; TDel 29; TDel 28; TDel 27; TDel 26; TDel 25; TDel 24; TDel 23;
   TIterNext 1; TIterNext 1; TIterNext 1; TIterNext 5]
  ++ dels (map Z.of_nat (seq 15 30))
  ++ [TIterNext 0; TIterNext 1; TIterNext 1; TIterNext 0; TIterNext 1; TIterNext 1; TLen].

Definition obs_iter : list tout :=
  repeat OUnit 40 ++
  [OUnit; OUnit;
   OPair 5 50; OPair 33 330; OPair 6 60; OPair 32 320;
   OUnit; OUnit; OPair 8 80; OPair 30 300;
   OUnit; OUnit; OUnit; OUnit; OUnit; OUnit; OUnit; OUnit;
   OPair 15 150; OPair 16 160;
   OUnit; OUnit; OUnit; OUnit; OUnit; OUnit; OUnit; OUnit;
   OPair 22 220; OPair 21 210; OPair 20 200; OBad]
  ++ repeat OUnit 30
  ++ [OEnd; OPair 7 777; OPair 6 60; OEnd; OPair 5 50; OPair 4 40; OInt 8].

Example ex_iter_run : run_M_shipped 0 h_iter = obs_iter.
Proof. vm_compute. reflexivity. Qed.

Example ex_iter_checks : check_M (0, h_iter, obs_iter) && check_S (0, h_iter, obs_iter) = true.
Proof. vm_compute. reflexivity. Qed.

(* coarse order (mode 2 and 4): the stored key survives an equivalent Put (Get 4 finds 5's entry,
   written through key 6).  The live iterator is parked on key 5 (c.k = 5) when 5 is deleted
   (Delete 7) and the equivalent key 4 is inserted in the same slot: lost() compares c.k with
   keys[i] = 4, finds them equivalent, and Next hands back the REMEMBERED key 5 with 4's value.
   So M and S agree on keys only up to cmp-equivalence (see ex_M_vs_S_coarse below).
   getcost under LessCompare counts calls of less. *)
Definition h_coarse : list top :=
  [TPut 5 1; TPut 6 2; TPut 9 3; TPut 1 4; TGet 4; TFirst; TLast; TLen;
   TIterNew false BUnb BUnb; TIterNext 0; TDel 7; TPut 4 9; TIterNext 0; TIterNext 0; TIterNext 0;
   TRange (BInc 3) (BExc 8); TGetCost 8].

Example ex_coarse_run_cmp :
  run_M_shipped 2 h_coarse =
  [OUnit; OUnit; OUnit; OUnit; OInt 2; OPair 1 4; OPair 9 3; OInt 3;
   OUnit; OPair 1 4; OUnit; OUnit; OPair 5 9; OPair 9 3; OEnd;
   OList [(1, 4); (4, 9)]; OInt 3].
Proof. vm_compute. reflexivity. Qed.

Example ex_coarse_cost_less : nth 16 (run_M_shipped 4 h_coarse) OBad = OInt 6.
Proof. vm_compute. reflexivity. Qed.

(* M and S agree on the example histories (TShape/TGetCost are answered OUnit by S, so they are
   removed first), for every key order. *)
Definition no_probe (ops : list top) : list top :=
  filter (fun o => negb (is_shape o || is_cost o)) ops.

Example ex_M_eq_S_split : forall mode, In mode [0; 1; 3] ->
  run_M_shipped mode (no_probe h_split) = run_S mode (no_probe h_split).
Proof. intros mode [<-|[<-|[<-|[]]]]; vm_compute; reflexivity. Qed.

Example ex_M_eq_S_merge : forall mode, In mode [0; 1; 3] ->
  run_M_shipped mode (no_probe h_merge) = run_S mode (no_probe h_merge).
Proof. intros mode [<-|[<-|[<-|[]]]]; vm_compute; reflexivity. Qed.

Example ex_M_eq_S_iter : forall mode, In mode [0; 1; 3] ->
  run_M_shipped mode (no_probe h_iter) = run_S mode (no_probe h_iter).
Proof. intros mode [<-|[<-|[<-|[]]]]; vm_compute; reflexivity. Qed.

(* outputs equal up to cmp-equivalence of keys *)
Definition outs_equiv (mode : Z) (a b : list tout) : bool :=
  list_eqb (tout_eqb (fun x y => is_eq (mode_cmp mode x y))) a b.

(* under the coarse orders M and S agree up to key equivalence, and NOT exactly: the iterator of M
   (like the real one) returns the key it remembered, S the key now stored. *)
Example ex_M_vs_S_coarse : forall mode, In mode [2; 4] ->
  outs_equiv mode (run_M_shipped mode (no_probe (h_coarse ++ h_iter)))
                  (run_S mode (no_probe (h_coarse ++ h_iter))) = true
  /\ nth 12 (run_M_shipped mode h_coarse) OBad = OPair 5 9
  /\ nth 12 (run_S mode h_coarse) OBad = OPair 4 9.
Proof. intros mode [<-|[<-|[]]]; vm_compute; repeat split; reflexivity. Qed.
