(* Correspondence evaluator for tree.Map: runs the models on a recorded history and compares with
   the implementation's recorded observations (evaluated by vm_compute from generated files).
   Depends on the models only, never on proofs. *)
From Juniper Require Import Common.Base Generated.Params
  Tree.Bound Tree.BTree Tree.Cursor Tree.SMap Tree.AIter Tree.Hist.

(* the shipped constants of btree.go *)
Definition minK : nat := Z.to_nat tree_minKVs.
Definition maxK : nat := Z.to_nat tree_maxKVs.

(* layer M with the shipped constants *)
Definition run_M_shipped (mode : Z) (ops : list top) : list tout := run_M minK maxK mode ops.

(* a case = key-order mode, operations, the implementation's observations (one per operation) *)
Definition case : Type := Z * list top * list tout.

Definition pair_eqb (keq : Z -> Z -> bool) (p q : Z * Z) : bool :=
  keq (fst p) (fst q) && (snd p =? snd q).

Fixpoint list_eqb {A} (eq : A -> A -> bool) (l m : list A) : bool :=
  match l, m with
  | [], [] => true
  | x :: l', y :: m' => eq x y && list_eqb eq l' m'
  | _, _ => false
  end.

(* outputs equal, keys of OPair/OList compared with keq, everything else exactly *)
Definition tout_eqb (keq : Z -> Z -> bool) (a b : tout) : bool :=
  match a, b with
  | OUnit, OUnit | OEnd, OEnd | OPanic, OPanic | OBad, OBad => true
  | OInt x, OInt y => x =? y
  | OBool x, OBool y => Bool.eqb x y
  | OPair k v, OPair k' v' => pair_eqb keq (k, v) (k', v')
  | OList l, OList m => list_eqb (pair_eqb keq) l m
  | OShape l, OShape m => list_eqb Z.eqb l m
  | _, _ => false
  end.

(* model outputs vs observations, position by position; operations with skip o = true are not
   compared.  All three lists must have the same length. *)
Fixpoint check_outs (skip : top -> bool) (eq : tout -> tout -> bool)
    (ops : list top) (model obs : list tout) : bool :=
  match ops, model, obs with
  | [], [], [] => true
  | o :: ops', m :: model', b :: obs' =>
      (skip o || eq m b) && check_outs skip eq ops' model' obs'
  | _, _, _ => false
  end.

Definition is_shape (o : top) : bool := match o with TShape => true | _ => false end.
Definition is_cost (o : top) : bool := match o with TGetCost _ => true | _ => false end.

(* layer M reproduces every observation except the TShape ones; keys compared exactly *)
Definition check_M (c : case) : bool :=
  let '(mode, ops, obs) := c in
  check_outs is_shape (tout_eqb Z.eqb) ops (run_M_shipped mode ops) obs.

(* layer S vs observations, skipping TShape/TGetCost; keys up to cmp-equivalence, values exactly *)
Definition check_S (c : case) : bool :=
  let '(mode, ops, obs) := c in
  check_outs (fun o => is_shape o || is_cost o)
             (tout_eqb (fun a b => is_eq (mode_cmp mode a b))) ops (run_S mode ops) obs.

(* only the TShape observations, exactly *)
Definition check_shape (c : case) : bool :=
  let '(mode, ops, obs) := c in
  check_outs (fun o => negb (is_shape o)) (tout_eqb Z.eqb) ops (run_M_shipped mode ops) obs.

(* ---------------- examples (non-vacuity: the models run non-trivial histories) ---------------- *)

Definition puts (ks : list nat) : list top := map (fun n => TPut (Z.of_nat n) (Z.of_nat n * 10)) ks.
Definition dels (ks : list Z) : list top := map TDel ks.
