(* Small shared vocabulary of the tree component: range bounds (map.go Bound[K]), the sign tests the
   Go code performs on the result of compare, xsort.LessCompare, and list helpers used by the
   model.  No proofs. *)
From Juniper Require Import Common.Base.

(* map.go: Bound[K] = {type_; key}; Included / Excluded / Unbounded. *)
Inductive bound (K : Type) : Type :=
| BInc (k : K)
| BExc (k : K)
| BUnb.
Arguments BInc {K} k.
Arguments BExc {K} k.
Arguments BUnb {K}.

(* The Go code only tests the sign of compare(a, b): c < 0, c <= 0, c == 0, c != 0, c >= 0, c > 0. *)
Definition is_lt (c : comparison) : bool := match c with Lt => true | _ => false end.
Definition is_le (c : comparison) : bool := match c with Gt => false | _ => true end.
Definition is_eq (c : comparison) : bool := match c with Eq => true | _ => false end.
Definition is_ge (c : comparison) : bool := match c with Lt => false | _ => true end.
Definition is_gt (c : comparison) : bool := match c with Gt => true | _ => false end.

(* xsort.LessCompare: if less(a,b) -1 else if less(b,a) 1 else 0. *)
Definition cmp_of_less {K : Type} (less : K -> K -> bool) (a b : K) : comparison :=
  if less a b then Lt else if less b a then Gt else Eq.

(* Number of calls of less made by one call of LessCompare(less)(a, b). *)
Definition less_calls {K : Type} (less : K -> K -> bool) (a b : K) : nat :=
  if less a b then 1%nat else 2%nat.

(* ---- list helpers (nat-indexed: structural positions inside a node) ---- *)

Definition insert_at {A} (i : nat) (x : A) (l : list A) : list A := firstn i l ++ x :: skipn i l.
Definition remove_at {A} (i : nat) (l : list A) : list A := firstn i l ++ skipn (S i) l.
Definition set_at {A} (i : nat) (x : A) (l : list A) : list A := firstn i l ++ x :: skipn (S i) l.

(* f applied to the i-th element of l, d when there is none.  f and d are outside the fix so that
   recursive functions over the nested type `node` can call themselves through it (like map). *)
Definition nth_map {A B} (f : A -> B) (d : B) : list A -> nat -> B :=
  fix go (l : list A) (i : nat) {struct l} : B :=
  match l, i with
  | [], _ => d
  | x :: _, O => f x
  | _ :: r, S i' => go r i'
  end.

(* first Some among f 0 x0, f 1 x1, ... (indices start at j) *)
Definition first_some_i {A B} (f : nat -> A -> option B) : list A -> nat -> option B :=
  fix go (l : list A) (j : nat) {struct l} : option B :=
  match l with
  | [] => None
  | x :: r => match f j x with Some b => Some b | None => go r (S j) end
  end.

Definition bind {A B} (r : result A) (f : A -> result B) : result B :=
  match r with Ok a => f a | Panic c => Panic c end.

Notation "x <- e ;; f" := (bind e (fun x => f)) (at level 61, e at next level, right associativity).
Notation "' p <- e ;; f" := (bind e (fun x => match x with p => f end))
  (at level 61, p pattern, e at next level, right associativity).
