(* C02 / C01 junction: the invariant [wf] of the B-tree development (ProofsWf / ProofsRefine, C01 and
   C03) implies the invariant [tree_ok] used by the cursor proofs; hence the results of
   CProofsDrain / CProofsSim hold for every well-formed tree, in particular for every tree reached
   from the empty tree by Put and Delete.

   For the C01 history proof: [step_M_range] / [step_M_range_rev] say what Hist.step_M answers to
   TRange / TRangeRev on a well-formed tree. *)
From Juniper Require Import Common.Base Tree.Bound Tree.BTree Tree.Cursor Tree.SMap Tree.AIter
  Tree.Hist Tree.CProofsOrder Tree.CProofsSpec Tree.CProofsTree Tree.CProofsCursor
  Tree.CProofsSeek Tree.CProofsStep Tree.CProofsSim Tree.CProofsDrain Tree.CProofsHist.
From Juniper Require Tree.ProofsLists Tree.ProofsSMap Tree.ProofsWf Tree.ProofsRefine.

(* the two developments state the same four laws *)
Lemma laws_of_refine {K} (cmp : K -> K -> comparison) :
  ProofsSMap.cmp_laws cmp -> cmp_laws cmp.
Proof. intros [H1 H2 H3 H4]. constructor; assumption. Qed.

Lemma laws_to_refine {K} (cmp : K -> K -> comparison) :
  cmp_laws cmp -> ProofsSMap.cmp_laws cmp.
Proof. intros [H1 H2 H3 H4]. constructor; assumption. Qed.

Section Join.
  Context {K V : Type} (cmp : K -> K -> comparison).
  Hypothesis laws : cmp_laws cmp.
  Variables minKVs maxKVs : nat.
  Hypothesis Hmin : (1 <= minKVs)%nat.

  Notation wf := (ProofsRefine.wf cmp minKVs maxKVs).
  Notation shaped := (@ProofsWf.shaped K V minKVs maxKVs).

  Lemma shaped_shape_ok : forall d (x : @node K V),
    shaped d x -> (1 <= nkeys x)%nat -> shape_ok x.
  Proof.
    induction d as [|d IH]; intros [id kvs cs] Hs Hn; unfold nkeys in Hn; simpl in Hn.
    - apply (proj1 (ProofsWf.shaped_0 minKVs maxKVs id kvs cs)) in Hs. destruct Hs as [_ Hc]. subst cs.
      apply shape_leaf. destruct kvs; [simpl in Hn; lia|discriminate].
    - apply (proj1 (ProofsWf.shaped_S minKVs maxKVs d id kvs cs)) in Hs. destruct Hs as (_ & Hlen & Hall).
      destruct cs as [|c cs]; [discriminate|].
      apply shape_int; auto.
      + destruct kvs; [simpl in Hn; lia|discriminate].
      + rewrite Forall_forall in *. intros y Hy. destruct (Hall y Hy) as [Hk Hsy].
        apply IH; [exact Hsy|lia].
  Qed.

  Theorem wf_tree_ok (t : @btree K V) : wf t -> tree_ok cmp t.
  Proof.
    intros (((d & Hd) & Hr & Hn & _) & Hs & _). constructor.
    - destruct (Nat.eq_dec (nkeys (root t)) 0) as [E|E].
      + right. unfold ProofsWf.root_ok in Hr. unfold nkeys in E.
        destruct (nkvs (root t)) eqn:Ek; [|discriminate]. split; [reflexivity|].
        destruct (ncs (root t)) eqn:Ec; [reflexivity|].
        assert (Hne : n :: l <> []) by discriminate. specialize (Hr Hne).
        unfold nkeys in Hr. rewrite Ek in Hr. simpl in Hr. lia.
      + left. eapply shaped_shape_ok; [exact Hd|lia].
    - exact Hn.
    - apply (sm_sorted_ksorted cmp laws). exact Hs.
  Qed.

  Lemma wf_size (t : @btree K V) : wf t -> size t = Z.of_nat (length (inorder (root t))).
  Proof. intros (_ & _ & Hz). exact Hz. Qed.

End Join.

(* ---------------- what step_M answers to TRange / TRangeRev ---------------- *)

Section JoinHist.
  Variables minKVs maxKVs : nat.
  Hypothesis Hmin : (1 <= minKVs)%nat.
  Variable mode : Z.

  Notation cmp := (mode_cmp mode).
  Notation wf := (ProofsRefine.wf cmp minKVs maxKVs).

  Lemma drain_fuel_enough (t : @btree Z Z) :
    wf t -> (length (inorder (root t)) < drain_fuel t)%nat.
  Proof. intros Hw. unfold drain_fuel. rewrite (wf_size cmp minKVs maxKVs t Hw). lia. Qed.

  Theorem step_M_range (st : mstate) lo hi :
    wf (m_t st) ->
    step_M minKVs maxKVs mode st (TRange lo hi)
    = (st, OList (sm_range Z Z cmp lo hi (inorder (root (m_t st))))).
  Proof.
    intros Hw. pose proof (mode_cmp_laws mode) as L.
    pose proof (wf_tree_ok cmp L minKVs maxKVs Hmin (m_t st) Hw) as Hok.
    destruct (range_drain cmp L (m_t st) lo hi (drain_fuel (m_t st)) Hok (drain_fuel_enough _ Hw))
      as (it & Hr & Hd).
    simpl. rewrite Hr, Hd. reflexivity.
  Qed.

  Theorem step_M_range_rev (st : mstate) lo hi :
    wf (m_t st) ->
    step_M minKVs maxKVs mode st (TRangeRev lo hi)
    = (st, OList (sm_range_rev Z Z cmp lo hi (inorder (root (m_t st))))).
  Proof.
    intros Hw. pose proof (mode_cmp_laws mode) as L.
    pose proof (wf_tree_ok cmp L minKVs maxKVs Hmin (m_t st) Hw) as Hok.
    destruct (range_rev_drain cmp L (m_t st) lo hi (drain_fuel (m_t st)) Hok (drain_fuel_enough _ Hw))
      as (it & Hr & Hd).
    simpl. rewrite Hr, Hd. reflexivity.
  Qed.

End JoinHist.
