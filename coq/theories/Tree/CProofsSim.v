(* C02, the simulation between a model iterator (Cursor.iter over a BTree satisfying tree_ok) and
   the abstract iterator (AIter.aiter over inorder (root t)):
   - [iter_rel t it a]: same direction / far bound / done flag, the cursor satisfies the cursor
     invariant, and it is off the edge iff the abstract pending position is None, otherwise the
     remembered key c.k is equivalent to the abstract pending position;
   - [iter_next_sim]: one Next preserves the relation and gives the same result up to key
     equivalence (exactly the same when the cursor's key is the stored one); in particular
     iter_next never panics ([C02_total]);
   - [range_sim], [range_rev_sim]: creation establishes the relation. *)
From Juniper Require Import Common.Base Tree.Bound Tree.BTree Tree.Cursor Tree.SMap Tree.AIter
  Tree.CProofsOrder Tree.CProofsSpec Tree.CProofsTree Tree.CProofsCursor Tree.CProofsSeek
  Tree.CProofsStep.

Section Sim.
  Context {K V : Type} (cmp : K -> K -> comparison) (kzero : K).
  Hypothesis laws : cmp_laws cmp.

  Notation node := (@node K V).
  Notation btree := (@btree K V).
  Notation cursor := (@cursor K).
  Notation pos := (nat * Z * (K * V))%type.
  Notation tree_ok := (tree_ok cmp).
  Notation cur_ok := (cur_ok cmp).
  Notation cur_exact := (@cur_exact K V).

  Definition far_of (a : aiter K) : bound K := if ai_rev a then ai_lo a else ai_hi a.

  Definition pos_rel (c : cursor) (p : option K) : Prop :=
    match curr c, p with
    | None, None => True
    | Some _, Some p => cmp p (ck c) = Eq
    | _, _ => False
    end.

  Record iter_rel (t : btree) (it : iter K) (a : aiter K) : Prop := mk_iter_rel {
    ir_rev : it_rev it = ai_rev a;
    ir_far : it_far it = far_of a;
    ir_done : it_done it = ai_cut a;
    ir_unb : it_far it = BUnb -> it_done it = false;
    ir_ok : cur_ok t (it_c it);
    ir_pos : pos_rel (it_c it) (ai_pos a)
  }.

  (* results agree: same end / yield pattern, equal values, equivalent keys *)
  Definition out_rel (r r' : option (K * V)) : Prop :=
    match r, r' with
    | None, None => True
    | Some kv, Some kv' => cmp (fst kv) (fst kv') = Eq /\ snd kv = snd kv'
    | _, _ => False
    end.

  Lemma ai_cands_equiv rev p p' (m : list (K * V)) :
    cmp p p' = Eq -> ai_cands K V cmp rev p m = ai_cands K V cmp rev p' m.
  Proof.
    intros H. unfold ai_cands. destruct rev.
    - f_equal. apply filter_ext. intros kv. rewrite (c_eq_r cmp laws p p' (fst kv) H). reflexivity.
    - apply filter_ext. intros kv. rewrite (c_eq_r cmp laws p p' (fst kv) H). reflexivity.
  Qed.

  (* the inner iterator of Range / RangeReverse *)
  Definition inner (rev : bool) (t : btree) : cursor -> result (cursor * option (K * V)) :=
    if rev then backward_next K V cmp t else forward_next K V cmp t.

  Lemma inner_nil rev t (c : cursor) : curr c = None -> inner rev t c = Ok (c, None).
  Proof.
    intros H. destruct rev; simpl; unfold backward_next, forward_next;
      rewrite (lost_nil cmp t c H); simpl; rewrite H; reflexivity.
  Qed.

  Lemma parked_rel (c : cursor) g (rest : list pos) :
    parked_hd c g rest -> pos_rel c (option_map fst (hd_error (map snd rest))).
  Proof.
    destruct rest as [|p rest]; simpl; unfold pos_rel.
    - intros ->. exact I.
    - intros ->. simpl. apply (c_refl cmp laws).
  Qed.

  Lemma inner_sim rev (t : btree) (c : cursor) (p : option K) :
    tree_ok t -> cur_ok t c -> pos_rel c p ->
    exists c' r,
      inner rev t c = Ok (c', r) /\ cur_ok t c' /\ (cur_exact t c -> cur_exact t c') /\
      match p with
      | None => r = None /\ c' = c
      | Some p =>
          match ai_cands K V cmp rev p (inorder (root t)) with
          | [] => r = None /\ curr c' = None
          | f :: rest =>
              (exists k', r = Some (k', snd f) /\ cmp k' (fst f) = Eq
                          /\ (cur_exact t c -> k' = fst f))
              /\ pos_rel c' (option_map fst (hd_error rest))
          end
      end.
  Proof.
    intros Hok Hcur Hrel. unfold pos_rel in Hrel.
    destruct (curr c) as [id|] eqn:Hc; destruct p as [p|]; try contradiction.
    2:{ exists c, None. rewrite (inner_nil rev t c Hc). auto. }
    rewrite (ai_cands_equiv rev p (ck c) _ Hrel).
    destruct rev; simpl inner.
    - destruct (backward_next_sim cmp laws t c id Hok Hcur Hc) as (L & c' & r & -> & Hm & [A HA] & Hout).
      exists c', r. split; [reflexivity|]. rewrite <- Hm.
      destruct L as [|f rest]; simpl in Hout |- *.
      + destruct Hout as [-> Hn]. split; [apply cur_ok_nil; exact Hn|].
        split; [|auto]. intros _ id' y kv Hc'. congruence.
      + destruct Hout as [Hk (g & Hg & Hp)].
        assert (Hboth : cur_ok t c' /\ cur_exact t c').
        { destruct rest as [|p' rest'].
          - simpl in Hp. split; [apply cur_ok_nil; exact Hp|]. intros id' y kv Hc'. congruence.
          - simpl in HA. rewrite <- !app_assoc in HA. simpl in HA.
            eapply (parked_ok cmp laws t c' g (rev rest') (p' :: f :: A)); eauto. }
        destruct Hboth as [H1 H2]. split; [exact H1|]. split; [auto|].
        split; [exact Hk|]. eapply parked_rel; eauto.
    - destruct (forward_next_sim cmp laws t c id Hok Hcur Hc) as (L & c' & r & -> & Hm & [A HA] & Hout).
      exists c', r. split; [reflexivity|]. rewrite <- Hm.
      destruct L as [|f rest]; simpl in Hout |- *.
      + destruct Hout as [-> Hn]. split; [apply cur_ok_nil; exact Hn|].
        split; [|auto]. intros _ id' y kv Hc'. congruence.
      + destruct Hout as [Hk (g & Hg & Hp)].
        assert (Hboth : cur_ok t c' /\ cur_exact t c').
        { eapply (parked_ok cmp laws t c' g (A ++ [f]) rest); eauto.
          rewrite <- app_assoc. exact HA. }
        destruct Hboth as [H1 H2]. split; [exact H1|]. split; [auto|].
        split; [exact Hk|]. eapply parked_rel; eauto.
  Qed.

  (* ---------------- iter_next ---------------- *)

  Lemma far_ok_eq rev far (kv : K * V) :
    far_ok K V cmp rev far kv
    = if rev then in_lo K cmp far (fst kv) else in_hi K cmp far (fst kv).
  Proof. destruct rev, far; reflexivity. Qed.

  Lemma far_ok_ai (a : aiter K) (kv : K * V) :
    far_ok K V cmp (ai_rev a) (far_of a) kv = ai_far_ok K cmp a (fst kv).
  Proof. rewrite far_ok_eq. unfold far_of, ai_far_ok. destruct (ai_rev a); reflexivity. Qed.

  Lemma bound_unb_dec (b : bound K) : b = BUnb \/ b <> BUnb.
  Proof. destruct b; [right; discriminate|right; discriminate|left; reflexivity]. Qed.

  Lemma iter_next_unb t (it : iter K) :
    it_far it = BUnb ->
    iter_next K V cmp t it =
    ('(c', r) <- inner (it_rev it) t (it_c it) ;; Ok (mkIter (it_rev it) c' (it_far it) (it_done it), r)).
  Proof. intros H. unfold iter_next, inner. rewrite H. reflexivity. Qed.

  Lemma iter_next_while t (it : iter K) :
    it_far it <> BUnb ->
    iter_next K V cmp t it =
    ('((c', d'), r) <- while_next (inner (it_rev it) t) (far_ok K V cmp (it_rev it) (it_far it))
                                  (it_c it, it_done it) ;;
     Ok (mkIter (it_rev it) c' (it_far it) d', r)).
  Proof. intros H. unfold iter_next, inner. destruct (it_far it); try congruence; reflexivity. Qed.

  Theorem iter_next_sim (t : btree) (it : iter K) (a : aiter K) :
    tree_ok t -> iter_rel t it a ->
    exists it' r,
      iter_next K V cmp t it = Ok (it', r)
      /\ iter_rel t it' (fst (ai_next K V cmp (inorder (root t)) a))
      /\ out_rel r (snd (ai_next K V cmp (inorder (root t)) a))
      /\ (cur_exact t (it_c it) ->
          r = snd (ai_next K V cmp (inorder (root t)) a) /\ cur_exact t (it_c it')).
  Proof.
    intros Hok [Hrev Hfar Hdone Hunb Hcur Hpos].
    destruct it as [rev c far done]. destruct a as [arev p lo hi cut]. simpl in *. subst arev done.
    destruct (inner_sim rev t c p Hok Hcur Hpos) as (c' & r & Hin & Hcur' & Hex' & Hcase).
    set (a := mkAIter rev p lo hi cut) in *.
    assert (Hfo : forall kv, far_ok K V cmp rev far kv = ai_far_ok K cmp a (fst kv)).
    { intros kv. rewrite Hfar. apply (far_ok_ai a kv). }
    unfold ai_next. simpl ai_cut. simpl ai_pos. simpl ai_rev. simpl ai_lo. simpl ai_hi.
    destruct cut.
    - (* done / cut *)
      assert (Hnu : far <> BUnb) by (intros E; specialize (Hunb E); discriminate).
      rewrite (iter_next_while t (mkIter rev c far true) Hnu). simpl.
      eexists _, None. split; [reflexivity|]. simpl.
      split; [constructor; simpl; auto|]. split; [exact I|]. auto.
    - assert (Hinner : forall (P : result (iter K * option (K * V)) -> Prop),
          (far = BUnb ->
           P (Ok (mkIter rev c' far false, r))) ->
          (far <> BUnb ->
           P (match r with
              | None => Ok (mkIter rev c' far false, None)
              | Some item => if far_ok K V cmp rev far item
                             then Ok (mkIter rev c' far false, Some item)
                             else Ok (mkIter rev c' far true, None)
              end)) ->
          P (iter_next K V cmp t (mkIter rev c far false))).
      { intros P H1 H2. destruct (bound_unb_dec far) as [E|E].
        - rewrite (iter_next_unb t (mkIter rev c far false) E). simpl. rewrite Hin. simpl. apply H1. exact E.
        - rewrite (iter_next_while t (mkIter rev c far false) E). simpl. rewrite Hin. simpl.
          specialize (H2 E). destruct r as [item|]; simpl; [|exact H2].
          destruct (far_ok K V cmp rev far item); exact H2. }
      destruct p as [p|].
      + destruct (ai_cands K V cmp rev p (inorder (root t))) as [|f rest] eqn:Hc.
        * destruct Hcase as [-> Hn].
          apply Hinner; intros E; eexists _, None; (split; [reflexivity|]); simpl;
            (split; [constructor; simpl; auto; unfold pos_rel; rewrite Hn; exact I|]);
            (split; [exact I|]); auto.
        * destruct Hcase as [(k' & -> & Hk & Hkx) Hrel'].
          apply Hinner; intros E.
          -- (* no While: the far bound is Unbounded, the abstract test is true *)
             assert (Hf : ai_far_ok K cmp a (fst f) = true).
             { rewrite <- (Hfo f). rewrite E. destruct rev; reflexivity. }
             rewrite Hf. eexists _, (Some (k', snd f)). split; [reflexivity|]. simpl.
             split; [constructor; simpl; auto|]. split; [split; auto|].
             intros Hx. split; [|auto]. rewrite (Hkx Hx). destruct f; reflexivity.
          -- rewrite (Hfo (k', snd f)). simpl fst.
             rewrite (far_ok_equiv cmp laws a k' (fst f) Hk).
             destruct (ai_far_ok K cmp a (fst f)) eqn:Hf.
             ++ eexists _, (Some (k', snd f)). split; [reflexivity|]. simpl.
                split; [constructor; simpl; auto; congruence|]. split; [split; auto|].
                intros Hx. split; [|auto]. rewrite (Hkx Hx). destruct f; reflexivity.
             ++ eexists _, None. split; [reflexivity|]. simpl.
                split; [constructor; simpl; auto; congruence|]. split; [exact I|]. auto.
      + destruct Hcase as [-> ->].
        apply Hinner; intros E; eexists _, None; (split; [reflexivity|]); simpl;
          (split; [constructor; simpl; auto|]); (split; [exact I|]); auto.
  Qed.

  (* ---------------- C02_total (one step) ---------------- *)

  (* the invariant of a model iterator alone *)
  Definition iter_ok (t : btree) (it : iter K) : Prop :=
    cur_ok t (it_c it) /\ (it_far it = BUnb -> it_done it = false).

  Lemma iter_rel_ok t it a : iter_rel t it a -> iter_ok t it.
  Proof. intros [_ _ _ Hu Hc _]. split; assumption. Qed.

  (* every iterator satisfying the invariant is related to some abstract iterator *)
  Definition abs_of (it : iter K) : aiter K :=
    mkAIter (it_rev it)
            (match curr (it_c it) with Some _ => Some (ck (it_c it)) | None => None end)
            (if it_rev it then it_far it else BUnb)
            (if it_rev it then BUnb else it_far it)
            (it_done it).

  Lemma iter_ok_rel t it : iter_ok t it -> iter_rel t it (abs_of it).
  Proof.
    intros [Hc Hu]. constructor; simpl; auto.
    - unfold far_of. simpl. destruct (it_rev it); reflexivity.
    - unfold pos_rel. destruct (curr (it_c it)); [apply (c_refl cmp laws)|exact I].
  Qed.

  (* iter_next never panics on a tree satisfying tree_ok from an iterator satisfying the
     invariant, and re-establishes the invariant.  All functions involved (lost, find_in, seek*,
     next_body / prev_body with climb_next / climb_prev, while_next) are structural recursions or
     non-recursive: there is no fuel, hence no "spin" outcome in the model at all. *)
  Theorem iter_next_total (t : btree) (it : iter K) :
    tree_ok t -> iter_ok t it ->
    exists it' r, iter_next K V cmp t it = Ok (it', r) /\ iter_ok t it'
                  /\ it_rev it' = it_rev it /\ it_far it' = it_far it.
  Proof.
    intros Hok Hit. pose proof (iter_ok_rel t it Hit) as Hrel.
    destruct (iter_next_sim t it (abs_of it) Hok Hrel) as (it' & r & Hn & Hrel' & _ & _).
    exists it', r. split; [exact Hn|]. split; [eapply iter_rel_ok; eauto|].
    destruct (ai_next K V cmp (inorder (root t)) (abs_of it)) as [a' r'] eqn:Ha.
    destruct (ai_next_fields cmp laws _ _ a' r' (tk_sorted cmp t Hok) Ha) as (Hr & Hlo & Hhi & _).
    destruct Hrel' as [Hrev' Hfar' _ _ _ _]. destruct Hrel as [Hrev Hfar _ _ _ _].
    simpl in Hrev', Hfar'. split.
    - rewrite Hrev', Hr, <- Hrev. reflexivity.
    - rewrite Hfar', Hfar. unfold far_of. rewrite Hr, Hlo, Hhi. reflexivity.
  Qed.

  (* ---------------- creation ---------------- *)

  Lemma parked_rev_ok (t : btree) (c : cursor) g (P1 P2 : list pos) :
    tree_ok t -> inorder_pos (root t) = P1 ++ P2 -> parked_hd c g (rev P1) -> g <= gen t ->
    cur_ok t c /\ cur_exact t c.
  Proof.
    intros Hok Hdec Hp Hg. destruct (rev P1) as [|p' rest'] eqn:Hr.
    - simpl in Hp. split; [apply cur_ok_nil; exact Hp|]. intros id y kv Hc. congruence.
    - assert (HP1 : P1 = rev rest' ++ [p']).
      { rewrite <- (rev_involutive P1), Hr. reflexivity. }
      rewrite HP1, <- app_assoc in Hdec. simpl in Hdec.
      eapply (parked_ok cmp laws t c g (rev rest') (p' :: P2)); eauto.
  Qed.

  Lemma filter_fwd_gt (P1 P2 : list pos) k :
    Forall (ple cmp k) P1 -> Forall (pgt cmp k) P2 ->
    filter (fun kv : K * V => is_gt (cmp (fst kv) k)) (map snd (P1 ++ P2)) = map snd P2.
  Proof.
    intros H1 H2. rewrite map_app. apply filter_app_false_true.
    - intros x Hx. apply in_map_iff in Hx. destruct Hx as (q & <- & Hq).
      rewrite Forall_forall in H1. specialize (H1 q Hq). unfold ple, pkey in H1.
      destruct (cmp (fst (snd q)) k); try reflexivity. congruence.
    - intros x Hx. apply in_map_iff in Hx. destruct Hx as (q & <- & Hq).
      rewrite Forall_forall in H2. specialize (H2 q Hq). unfold pgt, pkey in H2.
      apply (is_gt_true cmp laws). exact H2.
  Qed.

  Lemma filter_bwd_lt (P1 P2 : list pos) k :
    Forall (plt cmp k) P1 -> Forall (pge cmp k) P2 ->
    filter (fun kv : K * V => is_lt (cmp (fst kv) k)) (map snd (P1 ++ P2)) = map snd P1.
  Proof.
    intros H1 H2. rewrite map_app. apply filter_app_true_false.
    - intros x Hx. apply in_map_iff in Hx. destruct Hx as (q & <- & Hq).
      rewrite Forall_forall in H1. specialize (H1 q Hq). unfold plt, pkey in H1. rewrite H1. reflexivity.
    - intros x Hx. apply in_map_iff in Hx. destruct Hx as (q & <- & Hq).
      rewrite Forall_forall in H2. specialize (H2 q Hq). unfold pge, pkey in H2.
      apply (c_le_flip cmp laws) in H2.
      destruct (cmp (fst (snd q)) k); try reflexivity. congruence.
  Qed.

  Lemma hd_rev_map (l : list pos) :
    hd_error (rev (map snd l)) = hd_error (map snd (rev l)).
  Proof. rewrite map_rev. reflexivity. Qed.

  (* Range establishes the relation with ai_new *)
  Theorem range_sim (t : btree) lo hi :
    tree_ok t ->
    exists it, range K V cmp kzero t lo hi = Ok it
      /\ iter_rel t it (ai_new K V cmp false lo hi (inorder (root t)))
      /\ cur_exact t (it_c it).
  Proof.
    intros Hok. unfold range.
    assert (G : forall c' P1 P2 (f : K * V -> bool),
               inorder_pos (root t) = P1 ++ P2 -> parked_hd c' (gen t) P2 ->
               filter f (inorder (root t)) = map snd P2 ->
               (forall kv, f kv = in_lo K cmp lo (fst kv)) ->
               iter_rel t (mkIter false c' hi false)
                          (ai_new K V cmp false lo hi (inorder (root t)))
               /\ cur_exact t c').
    { intros c' P1 P2 f Hdec Hp Hf Hfe.
      destruct (parked_ok cmp laws t c' (gen t) P1 P2 Hok Hdec Hp (Z.le_refl _)) as [Hc He].
      split; [|exact He]. constructor; simpl; auto.
      rewrite (filter_ext _ f) by (intros kv; symmetry; apply Hfe). rewrite Hf.
      eapply parked_rel; eauto. }
    destruct lo as [k|k|].
    - destruct (sfge_spec cmp laws t (cursor0 K kzero) k Hok) as (c' & P1 & P2 & -> & Hdec & H1 & H2 & Hp).
      simpl. eexists. split; [reflexivity|]. simpl.
      apply (G c' P1 P2 (fun kv => is_ge (cmp (fst kv) k))); auto.
      rewrite <- inorder_pos_inorder, Hdec. apply (cands_fwd cmp laws P1 P2 k H1 H2).
    - destruct (sfg_spec cmp laws t (cursor0 K kzero) k Hok) as (c' & P1 & P2 & -> & Hdec & H1 & H2 & Hp).
      simpl. eexists. split; [reflexivity|]. simpl.
      apply (G c' P1 P2 (fun kv => is_gt (cmp (fst kv) k))); auto.
      rewrite <- inorder_pos_inorder, Hdec. apply filter_fwd_gt; auto.
    - destruct (seek_first_spec cmp t (cursor0 K kzero) Hok) as (c' & -> & Hp).
      simpl. eexists. split; [reflexivity|]. simpl.
      apply (G c' [] (inorder_pos (root t)) (fun _ => true)); auto.
      rewrite inorder_pos_inorder. apply filter_all_true. auto.
  Qed.

  (* RangeReverse establishes the relation with ai_new *)
  Theorem range_rev_sim (t : btree) lo hi :
    tree_ok t ->
    exists it, range_rev K V cmp kzero t lo hi = Ok it
      /\ iter_rel t it (ai_new K V cmp true lo hi (inorder (root t)))
      /\ cur_exact t (it_c it).
  Proof.
    intros Hok. unfold range_rev.
    assert (G : forall c' P1 P2 (f : K * V -> bool),
               inorder_pos (root t) = P1 ++ P2 -> parked_hd c' (gen t) (rev P1) ->
               filter f (inorder (root t)) = map snd P1 ->
               (forall kv, f kv = in_hi K cmp hi (fst kv)) ->
               iter_rel t (mkIter true c' lo false)
                          (ai_new K V cmp true lo hi (inorder (root t)))
               /\ cur_exact t c').
    { intros c' P1 P2 f Hdec Hp Hf Hfe.
      destruct (parked_rev_ok t c' (gen t) P1 P2 Hok Hdec Hp (Z.le_refl _)) as [Hc He].
      split; [|exact He]. constructor; simpl; auto.
      rewrite (filter_ext _ f) by (intros kv; symmetry; apply Hfe). rewrite Hf, hd_rev_map.
      eapply parked_rel; eauto. }
    destruct hi as [k|k|].
    - destruct (slle_spec cmp laws t (cursor0 K kzero) k Hok) as (c' & P1 & P2 & -> & Hdec & H1 & H2 & Hp).
      simpl. eexists. split; [reflexivity|]. simpl.
      apply (G c' P1 P2 (fun kv => is_le (cmp (fst kv) k))); auto.
      rewrite <- inorder_pos_inorder, Hdec.
      pose proof (cands_bwd cmp laws P1 P2 k H1 H2) as Hc. unfold ai_cands in Hc.
      rewrite map_rev in Hc. apply (f_equal (@rev _)) in Hc. rewrite !rev_involutive in Hc. exact Hc.
    - destruct (sll_spec cmp laws t (cursor0 K kzero) k Hok) as (c' & P1 & P2 & -> & Hdec & H1 & H2 & Hp).
      simpl. eexists. split; [reflexivity|]. simpl.
      apply (G c' P1 P2 (fun kv => is_lt (cmp (fst kv) k))); auto.
      rewrite <- inorder_pos_inorder, Hdec. apply filter_bwd_lt; auto.
    - destruct (seek_last_spec cmp t (cursor0 K kzero) Hok) as (c' & -> & Hp).
      simpl. eexists. split; [reflexivity|]. simpl.
      apply (G c' (inorder_pos (root t)) [] (fun _ => true)); auto.
      + rewrite app_nil_r. reflexivity.
      + rewrite inorder_pos_inorder. apply filter_all_true. auto.
  Qed.

End Sim.
