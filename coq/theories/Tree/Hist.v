(* History level for tree.Map[int,int]: operations, outputs, and the two interpreters
   run_M (layer M: BTree + Cursor) and run_S (layer S: SMap + AIter).  K := Z, V := Z.
   No proofs in this file. *)
From Juniper Require Import Common.Base Tree.Bound Tree.BTree Tree.Cursor Tree.SMap Tree.AIter.

Inductive top : Type :=
| TPut (k v : Z)
| TDel (k : Z)
| TGet (k : Z)
| TContains (k : Z)
| TLen
| TFirst
| TLast
| TRange (lo hi : bound Z)              (* create Range(lo, hi) and drain it at once *)
| TRangeRev (lo hi : bound Z)           (* create RangeReverse(lo, hi) and drain it at once *)
| TIterNew (rev : bool) (lo hi : bound Z)  (* create a live iterator; its number = count so far *)
| TIterNext (j : nat)                   (* one Next call on live iterator j *)
| TGetCost (k : Z)                      (* comparator invocations of one Get k *)
| TShape.                               (* node structure of the tree *)

Inductive tout : Type :=
| OUnit
| OInt (n : Z)
| OBool (b : bool)
| OPair (k v : Z)
| OList (l : list (Z * Z))
| OEnd
| OPanic
| OBad
| OShape (l : list Z).

(* ---------------- key orders by mode ----------------
   0 = NewMapCmp natural; 1 = NewMapCmp reversed; 2 = NewMapCmp coarse (k/4; keys >= 0 in tests);
   3 = NewMap(less) natural, through xsort.LessCompare; 4 = NewMap(less) coarse. *)

Definition coarse (a : Z) : Z := Z.quot a 4.

Definition mode_less (mode : Z) : Z -> Z -> bool :=
  if mode =? 4 then (fun a b => coarse a <? coarse b) else Z.ltb.

Definition mode_cmp (mode : Z) : Z -> Z -> comparison :=
  if mode =? 0 then Z.compare
  else if mode =? 1 then (fun a b => Z.compare b a)
  else if mode =? 2 then (fun a b => Z.compare (coarse a) (coarse b))
  else cmp_of_less (mode_less mode).

(* user-comparator invocations caused by one compare(a, b) of the tree *)
Definition mode_cost (mode : Z) : Z -> Z -> nat :=
  if (mode =? 3) || (mode =? 4) then less_calls (mode_less mode) else (fun _ _ => 1%nat).

(* ---------------- layer M ---------------- *)

Section HistM.
  Variables minKVs maxKVs : nat.

  Record mstate := mkM { m_t : @btree Z Z; m_its : list (@iter Z) }.

  Definition m0 : mstate := mkM empty_tree [].

  Definition pair_out (kv : Z * Z) : tout := OPair (fst kv) (snd kv).

  (* drain an iterator on an unchanging tree; fuel = number of Next calls allowed *)
  Fixpoint drain_M (cmp : Z -> Z -> comparison) (fuel : nat) (t : @btree Z Z) (it : @iter Z) : tout :=
    match fuel with
    | O => OBad
    | S f =>
        match iter_next Z Z cmp t it with
        | Panic _ => OPanic
        | Ok (_, None) => OList []
        | Ok (it', Some kv) =>
            match drain_M cmp f t it' with
            | OList l => OList (kv :: l)
            | o => o
            end
        end
    end.

  Definition drain_fuel (t : @btree Z Z) : nat := (Z.to_nat (size t) + 2)%nat.

  Definition step_M (mode : Z) (st : mstate) (o : top) : mstate * tout :=
    let cmp := mode_cmp mode in
    let t := m_t st in
    match o with
    | TPut k v => (mkM (put Z Z cmp 0 0 maxKVs t k v) (m_its st), OUnit)
    | TDel k => (mkM (delete Z Z cmp 0 0 minKVs t k) (m_its st), OUnit)
    | TGet k => (st, OInt (get Z Z cmp 0 0 t k))
    | TContains k => (st, OBool (contains Z Z cmp t k))
    | TLen => (st, OInt (len t))
    | TFirst => (st, pair_out (first Z Z 0 0 t))
    | TLast => (st, pair_out (last_kv Z Z 0 0 t))
    | TRange lo hi =>
        match range Z Z cmp 0 t lo hi with
        | Panic _ => (st, OPanic)
        | Ok it => (st, drain_M cmp (drain_fuel t) t it)
        end
    | TRangeRev lo hi =>
        match range_rev Z Z cmp 0 t lo hi with
        | Panic _ => (st, OPanic)
        | Ok it => (st, drain_M cmp (drain_fuel t) t it)
        end
    | TIterNew rev lo hi =>
        match (if rev then range_rev Z Z cmp 0 t lo hi else range Z Z cmp 0 t lo hi) with
        | Panic _ => (st, OPanic)
        | Ok it => (mkM t (m_its st ++ [it]), OUnit)
        end
    | TIterNext j =>
        match nth_error (m_its st) j with
        | None => (st, OBad)
        | Some it =>
            match iter_next Z Z cmp t it with
            | Panic _ => (st, OPanic)
            | Ok (it', r) =>
                (mkM t (set_at j it' (m_its st)),
                 match r with None => OEnd | Some kv => pair_out kv end)
            end
        end
    | TGetCost k => (st, OInt (Z.of_nat (get_cost_w Z Z cmp (mode_cost mode) t k)))
    | TShape => (st, OShape (shape_keys (root t)))
    end.

  Fixpoint steps_M (mode : Z) (st : mstate) (ops : list top) : mstate * list tout :=
    match ops with
    | [] => (st, [])
    | o :: r =>
        let (st1, out) := step_M mode st o in
        let (st2, outs) := steps_M mode st1 r in
        (st2, out :: outs)
    end.

  Definition run_M (mode : Z) (ops : list top) : list tout := snd (steps_M mode m0 ops).

End HistM.

(* ---------------- layer S ---------------- *)

Record sstate := mkS { s_m : smap Z Z; s_its : list (@aiter Z) }.

Definition s0 : sstate := mkS [] [].

Definition step_S (mode : Z) (st : sstate) (o : top) : sstate * tout :=
  let cmp := mode_cmp mode in
  let m := s_m st in
  match o with
  | TPut k v => (mkS (sm_put Z Z cmp m k v) (s_its st), OUnit)
  | TDel k => (mkS (sm_del Z Z cmp m k) (s_its st), OUnit)
  | TGet k => (st, OInt (sm_get Z Z cmp 0 m k))
  | TContains k => (st, OBool (sm_contains Z Z cmp m k))
  | TLen => (st, OInt (sm_len Z Z m))
  | TFirst => (st, pair_out (sm_first Z Z 0 0 m))
  | TLast => (st, pair_out (sm_last Z Z 0 0 m))
  | TRange lo hi => (st, OList (sm_range Z Z cmp lo hi m))
  | TRangeRev lo hi => (st, OList (sm_range_rev Z Z cmp lo hi m))
  | TIterNew rev lo hi => (mkS m (s_its st ++ [ai_new Z Z cmp rev lo hi m]), OUnit)
  | TIterNext j =>
      match nth_error (s_its st) j with
      | None => (st, OBad)
      | Some a =>
          let (a', r) := ai_next Z Z cmp m a in
          (mkS m (set_at j a' (s_its st)),
           match r with None => OEnd | Some kv => pair_out kv end)
      end
  | TGetCost _ => (st, OUnit)
  | TShape => (st, OUnit)
  end.

Fixpoint steps_S (mode : Z) (st : sstate) (ops : list top) : sstate * list tout :=
  match ops with
  | [] => (st, [])
  | o :: r =>
      let (st1, out) := step_S mode st o in
      let (st2, outs) := steps_S mode st1 r in
      (st2, out :: outs)
  end.

Definition run_S (mode : Z) (ops : list top) : list tout := snd (steps_S mode s0 ops).
