(* Put of a key that is already present (C01, model-level basis of the "concurrent Puts to distinct
   present keys" sentence): such a Put only overwrites one value slot -- node identities, keys,
   shape, gen, size and next_id are unchanged -- and two such Puts to inequivalent present keys
   commute.  No well-formedness is needed: only the search path matters. *)
From Juniper Require Import Common.Base Tree.Bound Tree.BTree Tree.SMap
  Tree.ProofsLists Tree.ProofsSMap Tree.ProofsCases.
Local Open Scope nat_scope.

Section PutPresent.
  Context {K V : Type}.
  Variable cmp : K -> K -> comparison.
  Variables (kzero : K) (vzero : V).
  Variables maxKVs : nat.

  Notation node := (@node K V).
  Notation btree := (@btree K V).
  Notation ins := (ins K V cmp kzero vzero maxKVs).
  Notation put := (put K V cmp kzero vzero maxKVs).
  Notation search_node := (search_node K V cmp).
  Notation contains_node := (contains_node K V cmp).
  Notation contains := (contains K V cmp).
  Notation set_val := (set_val K V).

  (* a node without its values: identities, keys, shape *)
  Fixpoint skel (x : node) : @BTree.node K unit :=
    match x with
    | Node id kvs cs => Node id (map (fun kv => (fst kv, tt)) kvs) (map skel cs)
    end.

  Lemma skel_node id kvs cs :
    skel (Node id kvs cs) = Node id (map (fun kv => (fst kv, tt)) kvs) (map skel cs).
  Proof. reflexivity. Qed.

  (* ---------------- value slots ---------------- *)

  Lemma set_val_cons_S i v kv (kvs : list (K * V)) :
    set_val (S i) v (kv :: kvs) = kv :: set_val i v kvs.
  Proof.
    unfold BTree.set_val. cbn [nth_error]. destruct (nth_error kvs i) as [[k' v']|]; reflexivity.
  Qed.

  Lemma set_val_cons_0 v k' v' (kvs : list (K * V)) :
    set_val 0 v ((k', v') :: kvs) = (k', v) :: kvs.
  Proof. reflexivity. Qed.

  Lemma set_val_keys i v (kvs : list (K * V)) :
    map (fun kv => (fst kv, tt)) (set_val i v kvs) = map (fun kv => (fst kv, tt)) kvs.
  Proof.
    revert i; induction kvs as [|[k' v'] kvs IH]; intros [|i]; try reflexivity.
    rewrite set_val_cons_S. cbn [map]. rewrite IH. reflexivity.
  Qed.

  Lemma search_node_keys k (kvs kvs' : list (K * V)) :
    map (fun kv => (fst kv, tt)) kvs = map (fun kv => (fst kv, tt)) kvs' ->
    search_node k kvs = search_node k kvs'.
  Proof.
    revert kvs'; induction kvs as [|[k1 v1] kvs IH]; intros [|[k2 v2] kvs'] H; try discriminate.
    - reflexivity.
    - cbn [map fst] in H. injection H as <- H. simpl. rewrite (IH kvs' H). reflexivity.
  Qed.

  Lemma search_node_set_val k i v kvs : search_node k (set_val i v kvs) = search_node k kvs.
  Proof. apply search_node_keys. apply set_val_keys. Qed.

  Lemma set_val_comm i j v w (kvs : list (K * V)) :
    i <> j -> set_val i v (set_val j w kvs) = set_val j w (set_val i v kvs).
  Proof.
    revert i j; induction kvs as [|[k' v'] kvs IH]; intros [|i] [|j] Hn; try reflexivity; try lia.
    - rewrite set_val_cons_S, !set_val_cons_0, set_val_cons_S. reflexivity.
    - rewrite set_val_cons_S, !set_val_cons_0, set_val_cons_S. reflexivity.
    - rewrite !set_val_cons_S. rewrite IH by lia. reflexivity.
  Qed.

  (* ---------------- one step of the search ---------------- *)

  Lemma contains_node_unfold id kvs cs k :
    contains_node (Node id kvs cs) k =
    let (idx, found) := search_node k kvs in
    if found then true else nth_map (fun c => contains_node c k) false cs idx.
  Proof. reflexivity. Qed.

  Lemma ins_found id kvs cs k v fresh idx :
    search_node k kvs = (idx, true) ->
    ins (Node id kvs cs) k v fresh = (Upd (Node id (set_val idx v kvs) cs), fresh).
  Proof. intros Es. destruct cs; simpl; rewrite Es; reflexivity. Qed.

  Lemma ins_descend_upd id kvs cs k v fresh idx c c' :
    search_node k kvs = (idx, false) -> nth_error cs idx = Some c ->
    ins c k v fresh = (Upd c', fresh) ->
    ins (Node id kvs cs) k v fresh = (Upd (Node id kvs (set_at idx c' cs)), fresh).
  Proof.
    intros Es Hn Hi. rewrite ins_internal_unfold by (intros ->; destruct idx; discriminate).
    rewrite Es. rewrite (nth_map_some _ _ cs idx c Hn), Hi. reflexivity.
  Qed.

  (* the search either ends here or continues in an existing child *)
  Lemma contains_step id kvs cs k :
    contains_node (Node id kvs cs) k = true ->
    (exists idx, search_node k kvs = (idx, true)) \/
    (exists idx c, search_node k kvs = (idx, false) /\ nth_error cs idx = Some c /\
                   contains_node c k = true).
  Proof.
    rewrite contains_node_unfold. destruct (search_node k kvs) as [idx found]. destruct found.
    - intros _. left. eauto.
    - rewrite nth_map_spec. destruct (nth_error cs idx) as [c|] eqn:En; [|discriminate].
      intros H. right. eauto.
  Qed.

  (* ---------------- a Put of a present key ---------------- *)

  Theorem ins_present : forall (x : node) k v fresh,
      contains_node x k = true ->
      exists x', ins x k v fresh = (Upd x', fresh) /\ skel x' = skel x.
  Proof.
    induction x as [id kvs cs IH] using node_ind'. intros k v fresh Hc.
    destruct (contains_step id kvs cs k Hc) as [(idx & Es)|(idx & c & Es & Hn & Hcc)].
    - exists (Node id (set_val idx v kvs) cs). split; [apply ins_found; assumption|].
      rewrite !skel_node, set_val_keys. reflexivity.
    - destruct (Forall_nth_error _ _ _ _ IH Hn k v fresh Hcc) as (c' & Hi & Hsk).
      exists (Node id kvs (set_at idx c' cs)). split; [eapply ins_descend_upd; eassumption|].
      rewrite !skel_node, map_set_at, Hsk. f_equal.
      apply set_at_same. rewrite nth_error_map, Hn. reflexivity.
  Qed.

  Lemma contains_skel : forall (x y : node) k, skel x = skel y -> contains_node x k = contains_node y k.
  Proof.
    induction x as [id kvs cs IH] using node_ind'. intros [id' kvs' cs'] k H.
    rewrite !skel_node in H. injection H as _ Hk Hc.
    rewrite !contains_node_unfold, (search_node_keys k kvs kvs' Hk).
    destruct (search_node k kvs') as [idx found]. destruct found; [reflexivity|].
    rewrite !nth_map_spec.
    assert (Hn : nth_error (map skel cs) idx = nth_error (map skel cs') idx) by (rewrite Hc; reflexivity).
    rewrite !nth_error_map in Hn.
    destruct (nth_error cs idx) as [c|] eqn:E1, (nth_error cs' idx) as [c'|] eqn:E2;
      try discriminate; [|reflexivity].
    cbn [option_map] in Hn. injection Hn as Hn.
    apply (Forall_nth_error _ _ _ _ IH E1). assumption.
  Qed.

  Theorem put_present (t : btree) k v :
    contains t k = true ->
    skel (root (put t k v)) = skel (root t) /\
    size (put t k v) = size t /\ gen (put t k v) = gen t /\ next_id (put t k v) = next_id t /\
    (forall k', contains (put t k v) k' = contains t k').
  Proof.
    unfold BTree.contains. intros Hc.
    destruct (ins_present (root t) k v (next_id t) Hc) as (x' & Hi & Hsk).
    unfold BTree.put. rewrite Hi. cbn [root size gen next_id].
    repeat split; try assumption. intros k'. apply contains_skel. assumption.
  Qed.

  (* ---------------- two Puts of inequivalent present keys commute ---------------- *)

  Hypothesis L : cmp_laws cmp.

  Lemma found_same_equiv k1 k2 (kvs : list (K * V)) idx :
    search_node k1 kvs = (idx, true) -> search_node k2 kvs = (idx, true) -> cmp k1 k2 = Eq.
  Proof.
    intros E1 E2.
    destruct (search_node_spec cmp _ _ _ _ E1) as (KA & KB & Hk & Hl & _ & (k' & v' & KB' & -> & He1)).
    destruct (search_node_spec cmp _ _ _ _ E2) as (KA2 & KB2 & Hk2 & Hl2 & _ & (k'' & v'' & KB2' & -> & He2)).
    rewrite Hk in Hk2. destruct (app_inv_length_l KA _ KA2 _ ltac:(lia) Hk2) as [_ Hkb].
    injection Hkb as <- <- _.
    rewrite (cmp_eq_compat cmp L _ _ _ He1). apply (cmp_eq_sym cmp L). assumption.
  Qed.

  Theorem ins_commute : forall (x : node) k1 v1 k2 v2 fresh,
      contains_node x k1 = true -> contains_node x k2 = true -> cmp k1 k2 <> Eq ->
      exists x1 x2 x12,
        ins x k1 v1 fresh = (Upd x1, fresh) /\ ins x k2 v2 fresh = (Upd x2, fresh) /\
        ins x1 k2 v2 fresh = (Upd x12, fresh) /\ ins x2 k1 v1 fresh = (Upd x12, fresh).
  Proof.
    induction x as [id kvs cs IH] using node_ind'. intros k1 v1 k2 v2 fresh Hc1 Hc2 Hne.
    destruct (contains_step id kvs cs k1 Hc1) as [(i1 & Es1)|(i1 & c1 & Es1 & Hn1 & Hcc1)];
      destruct (contains_step id kvs cs k2 Hc2) as [(i2 & Es2)|(i2 & c2 & Es2 & Hn2 & Hcc2)].
    - (* both found in this node, at different slots *)
      assert (Hi : i1 <> i2).
      { intros <-. apply Hne. eapply found_same_equiv; eassumption. }
      exists (Node id (set_val i1 v1 kvs) cs), (Node id (set_val i2 v2 kvs) cs),
             (Node id (set_val i2 v2 (set_val i1 v1 kvs)) cs).
      repeat split.
      + apply ins_found; assumption.
      + apply ins_found; assumption.
      + apply ins_found. rewrite search_node_set_val. assumption.
      + rewrite (set_val_comm i2 i1) by auto. apply ins_found. rewrite search_node_set_val. assumption.
    - (* k1 here, k2 below *)
      destruct (ins_present c2 k2 v2 fresh Hcc2) as (c2' & Hi2 & _).
      exists (Node id (set_val i1 v1 kvs) cs), (Node id kvs (set_at i2 c2' cs)),
             (Node id (set_val i1 v1 kvs) (set_at i2 c2' cs)).
      repeat split.
      + apply ins_found; assumption.
      + eapply ins_descend_upd; eassumption.
      + eapply ins_descend_upd; [rewrite search_node_set_val|..]; eassumption.
      + apply ins_found; assumption.
    - (* k1 below, k2 here *)
      destruct (ins_present c1 k1 v1 fresh Hcc1) as (c1' & Hi1 & _).
      exists (Node id kvs (set_at i1 c1' cs)), (Node id (set_val i2 v2 kvs) cs),
             (Node id (set_val i2 v2 kvs) (set_at i1 c1' cs)).
      repeat split.
      + eapply ins_descend_upd; eassumption.
      + apply ins_found; assumption.
      + apply ins_found; assumption.
      + eapply ins_descend_upd; [rewrite search_node_set_val|..]; eassumption.
    - (* both below *)
      pose proof (nth_error_some_lt _ _ _ Hn1) as Hl1. pose proof (nth_error_some_lt _ _ _ Hn2) as Hl2.
      destruct (Nat.eq_dec i1 i2) as [<-|Hi].
      + (* same child *)
        rewrite Hn1 in Hn2. injection Hn2 as <-.
        destruct (Forall_nth_error _ _ _ _ IH Hn1 k1 v1 k2 v2 fresh Hcc1 Hcc2 Hne)
          as (d1 & d2 & d12 & H1 & H2 & H12 & H21).
        exists (Node id kvs (set_at i1 d1 cs)), (Node id kvs (set_at i1 d2 cs)),
               (Node id kvs (set_at i1 d12 cs)).
        repeat split.
        * eapply ins_descend_upd; eassumption.
        * eapply ins_descend_upd; eassumption.
        * rewrite <- (set_at_set_at i1 d12 d1 cs Hl1).
          eapply ins_descend_upd; [eassumption|apply nth_error_set_at_eq; assumption|assumption].
        * rewrite <- (set_at_set_at i1 d12 d2 cs Hl1).
          eapply ins_descend_upd; [eassumption|apply nth_error_set_at_eq; assumption|assumption].
      + (* different children *)
        destruct (ins_present c1 k1 v1 fresh Hcc1) as (c1' & Hi1 & _).
        destruct (ins_present c2 k2 v2 fresh Hcc2) as (c2' & Hi2 & _).
        exists (Node id kvs (set_at i1 c1' cs)), (Node id kvs (set_at i2 c2' cs)),
               (Node id kvs (set_at i2 c2' (set_at i1 c1' cs))).
        repeat split.
        * eapply ins_descend_upd; eassumption.
        * eapply ins_descend_upd; eassumption.
        * eapply ins_descend_upd; [eassumption| |eassumption].
          rewrite nth_error_set_at_neq by auto. assumption.
        * rewrite (set_at_comm i2 i1) by auto.
          eapply ins_descend_upd; [eassumption| |eassumption].
          rewrite nth_error_set_at_neq by auto. assumption.
  Qed.

  Theorem puts_commute (t : btree) k1 v1 k2 v2 :
    contains t k1 = true -> contains t k2 = true -> cmp k1 k2 <> Eq ->
    put (put t k1 v1) k2 v2 = put (put t k2 v2) k1 v1.
  Proof.
    unfold BTree.contains. intros H1 H2 Hne.
    destruct (ins_commute (root t) k1 v1 k2 v2 (next_id t) H1 H2 Hne)
      as (x1 & x2 & x12 & E1 & E2 & E12 & E21).
    unfold BTree.put. rewrite E1, E2. cbn [root size gen next_id]. rewrite E12, E21. reflexivity.
  Qed.

End PutPresent.
