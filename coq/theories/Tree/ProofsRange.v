(* Range / RangeReverse drained at once on an unchanging well-formed tree yield exactly
   sm_range / sm_range_rev of the in-order list; with that, run_M = run_S for every history
   without live iterators (C01_refinement). *)
From Juniper Require Import Common.Base Tree.Bound Tree.BTree Tree.Cursor Tree.SMap Tree.AIter Tree.Hist
  Tree.ProofsLists Tree.ProofsSMap Tree.ProofsCases Tree.ProofsWf Tree.ProofsIds Tree.ProofsInorder
  Tree.ProofsLookup Tree.ProofsPath Tree.ProofsCursor Tree.ProofsSeek Tree.ProofsRefine
  Tree.ProofsHist.
Local Open Scope nat_scope.

(* ---------------- take-while versus filter ---------------- *)

Fixpoint takeW {A} (P : A -> bool) (l : list A) : list A :=
  match l with
  | [] => []
  | x :: r => if P x then x :: takeW P r else []
  end.

Fixpoint pairwise {A} (Rel : A -> A -> Prop) (l : list A) : Prop :=
  match l with
  | [] => True
  | x :: r => Forall (Rel x) r /\ pairwise Rel r
  end.

Lemma takeW_filter {A} (P : A -> bool) (Rel : A -> A -> Prop) l :
  pairwise Rel l -> (forall a b, Rel a b -> P b = true -> P a = true) -> takeW P l = filter P l.
Proof.
  intros Hp Hc. induction l as [|x r IH]; [reflexivity|]. destruct Hp as [F Hp]. simpl.
  destruct (P x) eqn:E; [rewrite IH by assumption; reflexivity|].
  symmetry. clear IH Hp. induction F as [|y r Hy _ IHr]; [reflexivity|]. simpl.
  destruct (P y) eqn:Ey; [|exact IHr]. rewrite (Hc x y Hy Ey) in E. discriminate.
Qed.

Lemma pairwise_app {A} (Rel : A -> A -> Prop) l1 l2 :
  pairwise Rel (l1 ++ l2) <->
  pairwise Rel l1 /\ pairwise Rel l2 /\ (forall a b, In a l1 -> In b l2 -> Rel a b).
Proof.
  induction l1 as [|x l1 IH]; simpl.
  - split; [intros H; repeat split; auto; intros a b []|intros (_ & H & _); exact H].
  - rewrite IH, Forall_app. split.
    + intros ((F1 & F2) & S1 & S2 & C). repeat split; auto.
      intros a b [<-|Ha] Hb; [|auto]. rewrite Forall_forall in F2. auto.
    + intros ((F1 & S1) & S2 & C). repeat split; auto.
      rewrite Forall_forall. intros b Hb. apply C; auto.
Qed.

Lemma pairwise_rev {A} (Rel : A -> A -> Prop) l :
  pairwise Rel l -> pairwise (fun a b => Rel b a) (rev l).
Proof.
  induction l as [|x l IH]; [auto|]. intros [F Hp]. simpl. apply pairwise_app.
  split; [apply IH; assumption|]. split; [simpl; auto|].
  intros a b Ha [<-|[]]. apply in_rev in Ha. rewrite Forall_forall in F. auto.
Qed.

Lemma filter_rev {A} (P : A -> bool) l : filter P (rev l) = rev (filter P l).
Proof.
  induction l as [|x l IH]; [reflexivity|]. simpl. rewrite filter_app, IH. simpl.
  destruct (P x); simpl; [reflexivity|apply app_nil_r].
Qed.

Lemma filter_filter' {A} (P Q : A -> bool) l :
  filter Q (filter P l) = filter (fun x => P x && Q x) l.
Proof.
  induction l as [|x l IH]; [reflexivity|]. simpl. destruct (P x); simpl; [|exact IH].
  destruct (Q x); rewrite IH; reflexivity.
Qed.

Lemma filter_all_true {A} (P : A -> bool) l : (forall x, P x = true) -> filter P l = l.
Proof. intros H. induction l as [|x l IH]; [reflexivity|]. simpl. rewrite H, IH. reflexivity. Qed.

Section RangeGeneric.
  Context {K V : Type}.
  Variable cmp : K -> K -> comparison.
  Hypothesis L : cmp_laws cmp.
  Variables (kzero : K) (vzero : V).
  Variables minKVs maxKVs : nat.
  Hypothesis Hmin : 1 <= minKVs.
  Variable t : @btree K V.
  Variable d : nat.
  Hypothesis Hd : shaped minKVs maxKVs d (root t).
  Hypothesis Hr : root_ok (root t).
  Hypothesis Hu : forall a, idc a (root t) <= 1.
  Hypothesis Hso : @sorted K V cmp (inorder (root t)).

  Notation R := (root t).
  Notation m := (inorder (root t)).
  Notation sorted := (@sorted K V cmp).
  Notation cur_at := (cur_at t).
  Notation fwd_at := (fwd_at t).
  Notation bwd_at := (bwd_at t).
  Notation forward_next := (forward_next K V cmp t).
  Notation backward_next := (backward_next K V cmp t).
  Notation iter_next := (iter_next K V cmp t).
  Notation in_lo := (in_lo K cmp).
  Notation in_hi := (in_hi K cmp).
  Notation far_ok := (far_ok K V cmp).

  (* ---------------- one step of the iterators ---------------- *)

  Theorem forward_next_spec c b l :
    fwd_at c b l ->
    exists c', forward_next c = Ok (c', hd_error l) /\
      match l with [] => True | kv :: l' => fwd_at c' (b ++ [kv]) l' end.
  Proof.
    intros [Hio [[-> Hc]|(kv & a & -> & Hcur)]]; unfold Cursor.forward_next.
    - rewrite (lost_nil cmp t c Hc). cbn [bind]. rewrite Hc. exists c. split; reflexivity.
    - destruct (cur_at_gen t c b kv a Hcur) as (Hg & Hck & Hne).
      rewrite (lost_fresh cmp t c Hg). cbn [bind].
      destruct (curr c) eqn:Ec; [|congruence].
      rewrite (cur_at_value t Hu c b kv a Hcur). cbn [bind].
      destruct (next1_spec cmp kzero minKVs maxKVs Hmin t d Hd Hu c b kv a Hcur)
        as (c' & _ & Hn & Hf).
      rewrite Hn. cbn [bind]. exists c'. split; [|exact Hf].
      rewrite Hck. destruct kv; reflexivity.
  Qed.

  Theorem backward_next_spec c b l :
    bwd_at c b l ->
    (b = [] /\ exists c', backward_next c = Ok (c', None)) \/
    (exists b' kv c', b = b' ++ [kv] /\ backward_next c = Ok (c', Some kv) /\ bwd_at c' b' (kv :: l)).
  Proof.
    intros [Hio [[-> Hc]|(b' & kv & -> & Hcur)]]; unfold Cursor.backward_next.
    - left. split; [reflexivity|]. rewrite (lost_nil cmp t c Hc). cbn [bind]. rewrite Hc.
      eexists; reflexivity.
    - right. destruct (cur_at_gen t c b' kv l Hcur) as (Hg & Hck & Hne).
      rewrite (lost_fresh cmp t c Hg). cbn [bind].
      destruct (curr c) eqn:Ec; [|congruence].
      rewrite (cur_at_value t Hu c b' kv l Hcur). cbn [bind].
      destruct (prev1_spec cmp kzero minKVs maxKVs Hmin t d Hd Hu c b' kv l Hcur)
        as (c' & _ & Hn & Hf).
      rewrite Hn. cbn [bind]. exists b', kv, c'. split; [reflexivity|]. split; [|exact Hf].
      rewrite Hck. destruct kv; reflexivity.
  Qed.

  (* ---------------- SeekFirst / SeekLast ---------------- *)

  Theorem seek_first_spec c : exists c', seek_first K V t c = Ok c' /\ fwd_at c' [] m.
  Proof.
    unfold seek_first. rewrite (node_n_zero t).
    destruct (nkeys R =? 0) eqn:E.
    - apply Nat.eqb_eq in E. eexists. split; [reflexivity|].
      pose proof (root_empty cmp minKVs maxKVs Hmin t d Hd Hr Hu Hso E) as Hem.
      rewrite Hem. apply fwd_nil; [reflexivity|exact Hem].
    - apply Nat.eqb_neq in E.
      destruct (leftmost_path minKVs maxKVs Hmin d R Hd ltac:(lia))
        as (pi & kv & Hp & Hpre & Hleaf & Hk & _).
      change 0%Z with (Z.of_nat 0). rewrite (key_at_nat _ 0 kv Hk). cbn [bind].
      eexists. split; [reflexivity|].
      assert (Hcur : cur_at (mkCursor (Some (nid (leftmost_leaf R))) (Z.of_nat 0) (fst kv) (gen t))
                            [] kv (HR (leftmost_leaf R) 0 ++ post_of pi)).
      { exists (leftmost_leaf R), pi, 0. cbn [curr ci ck cgen]. repeat split; auto.
        rewrite Hpre, (HL_leaf _ 0 Hleaf). reflexivity. }
      pose proof (cur_at_inorder minKVs maxKVs t d Hd _ _ _ _ Hcur) as Hio. cbn [app] in Hio.
      rewrite Hio. apply (cur_at_fwd minKVs maxKVs t d Hd); assumption.
  Qed.

  Theorem seek_last_spec c : exists c', seek_last K V t c = Ok c' /\ bwd_at c' m [].
  Proof.
    unfold seek_last. rewrite (node_n_zero t).
    destruct (nkeys R =? 0) eqn:E.
    - apply Nat.eqb_eq in E. eexists. split; [reflexivity|].
      pose proof (root_empty cmp minKVs maxKVs Hmin t d Hd Hr Hu Hso E) as Hem.
      rewrite Hem. apply bwd_nil; [reflexivity|exact Hem].
    - apply Nat.eqb_neq in E.
      destruct (rightmost_path minKVs maxKVs Hmin d R Hd ltac:(lia))
        as (pi & kv & Hp & Hpost & Hleaf & Hk & Hne).
      set (lf := rightmost_leaf R) in *. rewrite node_n_nat.
      replace (Z.of_nat (nkeys lf) - 1)%Z with (Z.of_nat (pred (nkeys lf))) by lia.
      rewrite (key_at_nat _ _ kv Hk). cbn [bind].
      eexists. split; [reflexivity|].
      assert (Hcur : cur_at (mkCursor (Some (nid lf)) (Z.of_nat (pred (nkeys lf))) (fst kv) (gen t))
                            (pre_of pi ++ HL lf (pred (nkeys lf))) kv []).
      { exists lf, pi, (pred (nkeys lf)). cbn [curr ci ck cgen]. repeat split; auto.
        rewrite Hpost, (HR_leaf _ _ Hleaf).
        replace (S (pred (nkeys lf))) with (length (nkvs lf)) by (unfold nkeys in *; lia).
        rewrite skipn_all. reflexivity. }
      pose proof (cur_at_inorder minKVs maxKVs t d Hd _ _ _ _ Hcur) as Hio.
      pose proof (cur_at_bwd minKVs maxKVs t d Hd _ _ _ _ Hcur) as Hb.
      rewrite Hio. exact Hb.
  Qed.

  (* ---------------- the splits decide the bound filters ---------------- *)

  Lemma split_lt_all k b l :
    sorted (b ++ l) -> split_lt cmp k b l -> forall x, In x l -> cmp k (fst x) <> Gt.
  Proof.
    intros Hs [_ Hh] x Hx. apply sorted_app_r in Hs. destruct l as [|h r]; [destruct Hx|].
    simpl in Hh. destruct Hx as [<-|Hx]; [assumption|].
    destruct Hs as [F _]. rewrite Forall_forall in F. specialize (F x Hx). unfold klt in F.
    destruct (cmp k (fst h)) eqn:E; [| |congruence].
    - rewrite (cmp_eq_compat cmp L _ _ _ E), F. discriminate.
    - rewrite (cmp_lt_trans cmp L _ _ _ E F). discriminate.
  Qed.

  Lemma split_le_all k b l :
    sorted (b ++ l) -> split_le cmp k b l -> forall x, In x l -> cmp k (fst x) = Lt.
  Proof.
    intros Hs [_ Hh] x Hx. apply sorted_app_r in Hs. destruct l as [|h r]; [destruct Hx|].
    simpl in Hh. destruct Hx as [<-|Hx]; [assumption|].
    destruct Hs as [F _]. rewrite Forall_forall in F. specialize (F x Hx). unfold klt in F.
    apply (cmp_lt_trans cmp L _ _ _ Hh F).
  Qed.

  Lemma opp_of k x : cmp x k = CompOpp (cmp k x).
  Proof. apply (cmp_antisym cmp L). Qed.

  Lemma filter_lo_inc k b l :
    sorted (b ++ l) -> split_lt cmp k b l ->
    filter (fun kv : K * V => in_lo (BInc k) (fst kv)) (b ++ l) = l.
  Proof.
    intros Hs Hsp. apply filter_split_r.
    - intros x Hx. destruct Hsp as [Hb _]. unfold ProofsSMap.gt_all in Hb.
      rewrite Forall_forall in Hb. simpl. rewrite opp_of, (Hb x Hx). reflexivity.
    - intros x Hx. pose proof (split_lt_all k b l Hs Hsp x Hx) as H. simpl. rewrite opp_of.
      destruct (cmp k (fst x)); simpl; congruence.
  Qed.

  Lemma filter_lo_exc k b l :
    sorted (b ++ l) -> split_le cmp k b l ->
    filter (fun kv : K * V => in_lo (BExc k) (fst kv)) (b ++ l) = l.
  Proof.
    intros Hs Hsp. apply filter_split_r.
    - intros x Hx. destruct Hsp as [Hb _]. rewrite Forall_forall in Hb. specialize (Hb x Hx).
      simpl. rewrite opp_of. destruct (cmp k (fst x)); simpl; congruence.
    - intros x Hx. simpl. rewrite opp_of, (split_le_all k b l Hs Hsp x Hx). reflexivity.
  Qed.

  Lemma filter_hi_inc k b l :
    sorted (b ++ l) -> split_le cmp k b l ->
    filter (fun kv : K * V => in_hi (BInc k) (fst kv)) (b ++ l) = b.
  Proof.
    intros Hs Hsp. apply filter_split_l.
    - intros x Hx. destruct Hsp as [Hb _]. rewrite Forall_forall in Hb. specialize (Hb x Hx).
      simpl. rewrite opp_of. destruct (cmp k (fst x)); simpl; congruence.
    - intros x Hx. simpl. rewrite opp_of, (split_le_all k b l Hs Hsp x Hx). reflexivity.
  Qed.

  Lemma filter_hi_exc k b l :
    sorted (b ++ l) -> split_lt cmp k b l ->
    filter (fun kv : K * V => in_hi (BExc k) (fst kv)) (b ++ l) = b.
  Proof.
    intros Hs Hsp. apply filter_split_l.
    - intros x Hx. destruct Hsp as [Hb _]. unfold ProofsSMap.gt_all in Hb.
      rewrite Forall_forall in Hb. simpl. rewrite opp_of, (Hb x Hx). reflexivity.
    - intros x Hx. pose proof (split_lt_all k b l Hs Hsp x Hx) as H. simpl. rewrite opp_of.
      destruct (cmp k (fst x)); simpl; congruence.
  Qed.

  (* ---------------- Range / RangeReverse start at the right place ---------------- *)

  Theorem range_spec lo hi :
    exists c b,
      range K V cmp kzero t lo hi = Ok (mkIter false c hi false) /\
      fwd_at c b (filter (fun kv => in_lo lo (fst kv)) m).
  Proof.
    unfold range. destruct lo as [k|k|].
    - destruct (sfge_spec cmp L kzero minKVs maxKVs Hmin t d Hd Hr Hu Hso (cursor0 K kzero) k)
        as (c & b & l & Hs & Hf & Hsp).
      rewrite Hs. cbn [bind]. exists c, b. split; [reflexivity|].
      destruct Hf as [Hio Hf]. rewrite Hio in Hso |- *. rewrite (filter_lo_inc k b l Hso Hsp).
      split; [exact Hio|assumption].
    - destruct (sfg_spec cmp L kzero minKVs maxKVs Hmin t d Hd Hr Hu Hso (cursor0 K kzero) k)
        as (c & b & l & Hs & Hf & Hsp).
      rewrite Hs. cbn [bind]. exists c, b. split; [reflexivity|].
      destruct Hf as [Hio Hf]. rewrite Hio in Hso |- *. rewrite (filter_lo_exc k b l Hso Hsp).
      split; [exact Hio|assumption].
    - destruct (seek_first_spec (cursor0 K kzero)) as (c & Hs & Hf).
      rewrite Hs. cbn [bind]. exists c, []. split; [reflexivity|].
      rewrite filter_all_true by (intros; reflexivity). assumption.
  Qed.

  Theorem range_rev_spec lo hi :
    exists c l,
      range_rev K V cmp kzero t lo hi = Ok (mkIter true c lo false) /\
      bwd_at c (filter (fun kv => in_hi hi (fst kv)) m) l.
  Proof.
    unfold range_rev. destruct hi as [k|k|].
    - destruct (slle_spec cmp L kzero minKVs maxKVs Hmin t d Hd Hr Hu Hso (cursor0 K kzero) k)
        as (c & b & l & Hs & Hf & Hsp).
      rewrite Hs. cbn [bind]. exists c, l. split; [reflexivity|].
      destruct Hf as [Hio Hf]. rewrite Hio in Hso |- *. rewrite (filter_hi_inc k b l Hso Hsp).
      split; [exact Hio|assumption].
    - destruct (sll_spec cmp L kzero minKVs maxKVs Hmin t d Hd Hr Hu Hso (cursor0 K kzero) k)
        as (c & b & l & Hs & Hf & Hsp).
      rewrite Hs. cbn [bind]. exists c, l. split; [reflexivity|].
      destruct Hf as [Hio Hf]. rewrite Hio in Hso |- *. rewrite (filter_hi_exc k b l Hso Hsp).
      split; [exact Hio|assumption].
    - destruct (seek_last_spec (cursor0 K kzero)) as (c & Hs & Hf).
      rewrite Hs. cbn [bind]. exists c, []. split; [reflexivity|].
      rewrite filter_all_true by (intros; reflexivity). assumption.
  Qed.

  (* ---------------- one Next of the Range iterators ---------------- *)

  Definition step_out (far_rev : bool) (far : bound K) (o : option (K * V)) : option (K * V) :=
    match o with
    | Some kv => if far_ok far_rev far kv then Some kv else None
    | None => None
    end.

  Theorem iter_fwd_step c b l far :
    fwd_at c b l ->
    exists it', iter_next (mkIter false c far false) = Ok (it', step_out false far (hd_error l)) /\
      match l with
      | kv :: l' =>
          far_ok false far kv = true ->
          exists c', it' = mkIter false c' far false /\ fwd_at c' (b ++ [kv]) l'
      | [] => True
      end.
  Proof.
    intros Hf. destruct (forward_next_spec c b l Hf) as (c' & Hn & Hm).
    unfold Cursor.iter_next. cbn [it_rev it_far it_c it_done].
    destruct far as [k|k|].
    - unfold while_next. rewrite Hn. cbn [bind].
      destruct l as [|kv l']; cbn [hd_error step_out]; [eexists; split; [reflexivity|exact I]|].
      destruct (far_ok false (BInc k) kv) eqn:E; eexists; (split; [reflexivity|]).
      + intros _. eauto.
      + intros; discriminate.
    - unfold while_next. rewrite Hn. cbn [bind].
      destruct l as [|kv l']; cbn [hd_error step_out]; [eexists; split; [reflexivity|exact I]|].
      destruct (far_ok false (BExc k) kv) eqn:E; eexists; (split; [reflexivity|]).
      + intros _. eauto.
      + intros; discriminate.
    - rewrite Hn. cbn [bind].
      destruct l as [|kv l']; cbn [hd_error step_out]; [eexists; split; [reflexivity|exact I]|].
      assert (E : far_ok false BUnb kv = true) by reflexivity. rewrite E.
      eexists. split; [reflexivity|]. intros _. eauto.
  Qed.

  Theorem iter_bwd_step c bl l far :
    bwd_at c (rev bl) l ->
    exists it', iter_next (mkIter true c far false) = Ok (it', step_out true far (hd_error bl)) /\
      match bl with
      | kv :: bl' =>
          far_ok true far kv = true ->
          exists c', it' = mkIter true c' far false /\ bwd_at c' (rev bl') (kv :: l)
      | [] => True
      end.
  Proof.
    intros Hf.
    assert (Hstep :
      exists c', backward_next c = Ok (c', hd_error bl) /\
        match bl with
        | kv :: bl' => bwd_at c' (rev bl') (kv :: l)
        | [] => True
        end).
    { destruct (backward_next_spec c (rev bl) l Hf) as [[Hb (c' & Hn)]|(b' & kv & c' & Hb & Hn & Hf')].
      - destruct bl as [|x bl]; [|apply (f_equal (@length _)) in Hb; simpl in Hb;
                                    rewrite app_length in Hb; simpl in Hb; lia].
        exists c'. split; [exact Hn|exact I].
      - destruct bl as [|x bl']; [destruct b'; discriminate|]. simpl in Hb.
        apply app_inj_tail in Hb. destruct Hb as [Hb <-]. rewrite Hb.
        exists c'. split; [exact Hn|exact Hf']. }
    destruct Hstep as (c' & Hn & Hm).
    unfold Cursor.iter_next. cbn [it_rev it_far it_c it_done].
    destruct far as [k|k|].
    - unfold while_next. rewrite Hn. cbn [bind].
      destruct bl as [|kv bl']; cbn [hd_error step_out]; [eexists; split; [reflexivity|exact I]|].
      destruct (far_ok true (BInc k) kv) eqn:E; eexists; (split; [reflexivity|]).
      + intros _. eauto.
      + intros; discriminate.
    - unfold while_next. rewrite Hn. cbn [bind].
      destruct bl as [|kv bl']; cbn [hd_error step_out]; [eexists; split; [reflexivity|exact I]|].
      destruct (far_ok true (BExc k) kv) eqn:E; eexists; (split; [reflexivity|]).
      + intros _. eauto.
      + intros; discriminate.
    - rewrite Hn. cbn [bind].
      destruct bl as [|kv bl']; cbn [hd_error step_out]; [eexists; split; [reflexivity|exact I]|].
      assert (E : far_ok true BUnb kv = true) by reflexivity. rewrite E.
      eexists. split; [reflexivity|]. intros _. eauto.
  Qed.

  (* ---------------- the far bound against the ideal range ---------------- *)

  Lemma far_ok_fwd hi kv : far_ok false hi kv = in_hi hi (fst kv).
  Proof. destruct hi; reflexivity. Qed.

  Lemma far_ok_bwd lo kv : far_ok true lo kv = in_lo lo (fst kv).
  Proof. destruct lo; reflexivity. Qed.

  Lemma in_hi_down hi (a b : K * V) : klt cmp a b -> in_hi hi (fst b) = true -> in_hi hi (fst a) = true.
  Proof.
    unfold klt. intros Hab. destruct hi as [k|k|]; simpl; [| |reflexivity].
    - destruct (cmp (fst b) k) eqn:E; try discriminate; intros _.
      + rewrite <- (cmp_eq_compat_r cmp L _ _ (fst a) E), Hab. reflexivity.
      + rewrite (cmp_lt_trans cmp L _ _ _ Hab E). reflexivity.
    - destruct (cmp (fst b) k) eqn:E; try discriminate; intros _.
      rewrite (cmp_lt_trans cmp L _ _ _ Hab E). reflexivity.
  Qed.

  Lemma in_lo_up lo (a b : K * V) : klt cmp a b -> in_lo lo (fst a) = true -> in_lo lo (fst b) = true.
  Proof.
    unfold klt. intros Hab. destruct lo as [k|k|]; simpl; [| |reflexivity].
    - rewrite (opp_of k (fst a)), (opp_of k (fst b)).
      destruct (cmp k (fst a)) eqn:E; simpl; try discriminate; intros _.
      + rewrite (cmp_eq_compat cmp L _ _ _ E), Hab. reflexivity.
      + rewrite (cmp_lt_trans cmp L _ _ _ E Hab). reflexivity.
    - rewrite (opp_of k (fst a)), (opp_of k (fst b)).
      destruct (cmp k (fst a)) eqn:E; simpl; try discriminate; intros _.
      rewrite (cmp_lt_trans cmp L _ _ _ E Hab). reflexivity.
  Qed.

  Lemma sorted_pairwise (l : list (K * V)) : sorted l <-> pairwise (klt cmp) l.
  Proof. induction l as [|x l IH]; simpl; [tauto|]. rewrite IH. tauto. Qed.

  Theorem range_result lo hi :
    takeW (far_ok false hi) (filter (fun kv => in_lo lo (fst kv)) m) = sm_range K V cmp lo hi m.
  Proof.
    unfold sm_range, in_range.
    rewrite (takeW_filter _ (klt cmp)).
    - rewrite <- filter_filter'. apply filter_ext. intros kv. apply far_ok_fwd.
    - apply sorted_pairwise. apply sorted_filter. assumption.
    - intros a b Hab. rewrite !far_ok_fwd. apply in_hi_down. assumption.
  Qed.

  Theorem range_rev_result lo hi :
    takeW (far_ok true lo) (rev (filter (fun kv => in_hi hi (fst kv)) m)) =
    sm_range_rev K V cmp lo hi m.
  Proof.
    unfold sm_range_rev, sm_range, in_range.
    rewrite (takeW_filter _ (fun a b => klt cmp b a)).
    - rewrite filter_rev. f_equal. rewrite filter_filter'. apply filter_ext.
      intros kv. rewrite far_ok_bwd. apply andb_comm.
    - apply pairwise_rev. apply sorted_pairwise. apply sorted_filter. assumption.
    - intros a b Hab. rewrite !far_ok_bwd. apply in_lo_up. assumption.
  Qed.

End RangeGeneric.

(* ---------------- history level (K = V = Z) ---------------- *)

Section HistRange.
  Variables minKVs maxKVs : nat.
  Hypothesis Hmin : 1 <= minKVs.
  Hypothesis Hmax : 2 * minKVs <= maxKVs.
  Variable mode : Z.

  Notation cmpm := (mode_cmp mode).
  Notation wfm := (@wf Z Z cmpm minKVs maxKVs).
  Notation step_M := (step_M minKVs maxKVs mode).
  Notation steps_M := (steps_M minKVs maxKVs mode).
  Notation run_M := (run_M minKVs maxKVs mode).
  Notation absR := (absR minKVs maxKVs mode).
  Notation farok := (far_ok Z Z cmpm).

  Let Lm : cmp_laws cmpm := mode_cmp_laws mode.

  Section OneTree.
    Variable t : @btree Z Z.
    Variable d : nat.
    Hypothesis Hd : shaped minKVs maxKVs d (root t).
    Hypothesis Hu : forall a, idc a (root t) <= 1.

    Lemma drain_fwd : forall l fuel c b far,
        fwd_at t c b l -> length l < fuel ->
        drain_M cmpm fuel t (mkIter false c far false) = OList (takeW (farok false far) l).
    Proof.
      induction l as [|kv l' IH]; intros fuel c b far Hf Hlen;
        (destruct fuel as [|fuel]; [simpl in Hlen; lia|]); cbn [drain_M];
        destruct (iter_fwd_step cmpm 0%Z minKVs maxKVs Hmin t d Hd Hu c b _ far Hf)
          as (it' & Hn & Hm); rewrite Hn; cbn [hd_error step_out takeW].
      - reflexivity.
      - destruct (farok false far kv) eqn:E; [|reflexivity].
        destruct (Hm eq_refl) as (c' & -> & Hf').
        rewrite (IH fuel c' (b ++ [kv]) far Hf' ltac:(simpl in Hlen; lia)). reflexivity.
    Qed.

    Lemma drain_bwd : forall bl fuel c l far,
        bwd_at t c (rev bl) l -> length bl < fuel ->
        drain_M cmpm fuel t (mkIter true c far false) = OList (takeW (farok true far) bl).
    Proof.
      induction bl as [|kv bl' IH]; intros fuel c l far Hf Hlen;
        (destruct fuel as [|fuel]; [simpl in Hlen; lia|]); cbn [drain_M];
        destruct (iter_bwd_step cmpm 0%Z minKVs maxKVs Hmin t d Hd Hu c _ l far Hf)
          as (it' & Hn & Hm); rewrite Hn; cbn [hd_error step_out takeW].
      - reflexivity.
      - destruct (farok true far kv) eqn:E; [|reflexivity].
        destruct (Hm eq_refl) as (c' & -> & Hf').
        rewrite (IH fuel c' (kv :: l) far Hf' ltac:(simpl in Hlen; lia)). reflexivity.
    Qed.
  End OneTree.

  (* Range(lo, hi) created and drained at once *)
  Theorem range_drain t lo hi :
    wfm t ->
    match range Z Z cmpm 0%Z t lo hi with
    | Panic _ => OPanic
    | Ok it => drain_M cmpm (drain_fuel t) t it
    end = OList (sm_range Z Z cmpm lo hi (inorder (root t))).
  Proof.
    intros Hw. destruct (wf_unpack cmpm Lm minKVs maxKVs t Hw) as (d & Hd & Hr & Hi & Hs & Hz).
    assert (Hu : forall a, idc a (root t) <= 1) by (intros a; apply Hi).
    destruct (range_spec cmpm Lm 0%Z minKVs maxKVs Hmin t d Hd Hr Hu Hs lo hi) as (c & b & Hrg & Hf).
    rewrite Hrg. rewrite (drain_fwd t d Hd Hu _ _ c b hi Hf).
    - rewrite (range_result cmpm Lm t Hs). reflexivity.
    - destruct Hf as [Hio _]. apply (f_equal (@length _)) in Hio. rewrite app_length in Hio.
      unfold drain_fuel. lia.
  Qed.

  Theorem range_rev_drain t lo hi :
    wfm t ->
    match range_rev Z Z cmpm 0%Z t lo hi with
    | Panic _ => OPanic
    | Ok it => drain_M cmpm (drain_fuel t) t it
    end = OList (sm_range_rev Z Z cmpm lo hi (inorder (root t))).
  Proof.
    intros Hw. destruct (wf_unpack cmpm Lm minKVs maxKVs t Hw) as (d & Hd & Hr & Hi & Hs & Hz).
    assert (Hu : forall a, idc a (root t) <= 1) by (intros a; apply Hi).
    destruct (range_rev_spec cmpm Lm 0%Z minKVs maxKVs Hmin t d Hd Hr Hu Hs lo hi)
      as (c & l & Hrg & Hf).
    rewrite Hrg. rewrite <- (rev_involutive (filter _ (inorder (root t)))) in Hf.
    rewrite (drain_bwd t d Hd Hu _ _ c l lo Hf).
    - rewrite (range_rev_result cmpm Lm t Hs). reflexivity.
    - destruct Hf as [Hio _]. apply (f_equal (@length _)) in Hio. rewrite app_length in Hio.
      rewrite rev_involutive in Hio. rewrite rev_length. unfold drain_fuel. lia.
  Qed.

  (* every call except those on live iterators and the probes TGetCost / TShape (which layer S
     answers with OUnit) *)
  Definition seq_op (o : top) : bool :=
    match o with
    | TIterNew _ _ _ | TIterNext _ | TGetCost _ | TShape => false
    | _ => true
    end.

  Lemma step_sim_seq st ss o :
    seq_op o = true -> absR st ss ->
    snd (step_M st o) = snd (step_S mode ss o) /\
    absR (fst (step_M st o)) (fst (step_S mode ss o)).
  Proof.
    intros Hp HR.
    destruct o as [k v|k|k|k| | | |lo hi|lo hi|rv lo hi|j|k| ]; try discriminate;
      try (apply (step_sim_plain minKVs maxKVs Hmin Hmax mode st ss); [reflexivity|exact HR]).
    - (* TRange *)
      destruct HR as [Hw Hio]. unfold Hist.step_M, step_S. cbv beta iota zeta.
      pose proof (range_drain (m_t st) lo hi Hw) as Hdr.
      destruct (range Z Z cmpm 0%Z (m_t st) lo hi) as [it|pc]; cbn [fst snd];
        rewrite Hdr, Hio; (split; [reflexivity|split; assumption]).
    - (* TRangeRev *)
      destruct HR as [Hw Hio]. unfold Hist.step_M, step_S. cbv beta iota zeta.
      pose proof (range_rev_drain (m_t st) lo hi Hw) as Hdr.
      destruct (range_rev Z Z cmpm 0%Z (m_t st) lo hi) as [it|pc]; cbn [fst snd];
        rewrite Hdr, Hio; (split; [reflexivity|split; assumption]).
  Qed.

  Theorem refinement ops :
    forallb seq_op ops = true -> run_M ops = run_S mode ops.
  Proof.
    intros Hall. unfold Hist.run_M, run_S.
    apply (steps_sim minKVs maxKVs mode seq_op step_sim_seq ops m0 s0 Hall
             (absR_init minKVs maxKVs Hmin Hmax mode)).
  Qed.

End HistRange.
