(* Comparison laws (total preorder given as a three-way compare), strict sortedness, and the
   algebra of the ideal sorted map SMap.v (layer S).  Independent of the B-tree model. *)
From Juniper Require Import Common.Base Tree.Bound Tree.SMap Tree.ProofsLists.
Local Open Scope nat_scope.

(* ---------------- laws of a three-way comparison ---------------- *)

Record cmp_laws {K : Type} (cmp : K -> K -> comparison) : Prop := mk_cmp_laws {
  cmp_refl : forall a, cmp a a = Eq;
  cmp_antisym : forall a b, cmp a b = CompOpp (cmp b a);
  cmp_lt_trans : forall a b c, cmp a b = Lt -> cmp b c = Lt -> cmp a c = Lt;
  cmp_eq_compat : forall a b c, cmp a b = Eq -> cmp a c = cmp b c
}.

Section CmpFacts.
  Context {K : Type} (cmp : K -> K -> comparison) (L : cmp_laws cmp).

  Lemma cmp_gt_lt a b : cmp a b = Gt <-> cmp b a = Lt.
  Proof. rewrite (cmp_antisym cmp L a b). destruct (cmp b a); simpl; split; congruence. Qed.

  Lemma cmp_eq_sym a b : cmp a b = Eq -> cmp b a = Eq.
  Proof. rewrite (cmp_antisym cmp L a b). destruct (cmp b a); simpl; congruence. Qed.

  Lemma cmp_eq_compat_r a b c : cmp a b = Eq -> cmp c a = cmp c b.
  Proof.
    intros H. rewrite (cmp_antisym cmp L c a), (cmp_antisym cmp L c b).
    rewrite (cmp_eq_compat cmp L a b c H). reflexivity.
  Qed.

  Lemma cmp_gt_trans a b c : cmp a b = Gt -> cmp b c = Gt -> cmp a c = Gt.
  Proof. rewrite !cmp_gt_lt. intros H1 H2. eapply (cmp_lt_trans cmp L); eassumption. Qed.

  Lemma cmp_eq_trans a b c : cmp a b = Eq -> cmp b c = Eq -> cmp a c = Eq.
  Proof. intros H1 H2. rewrite (cmp_eq_compat cmp L a b c H1). assumption. Qed.

  Lemma cmp_laws_flip : cmp_laws (fun a b => cmp b a).
  Proof.
    constructor.
    - intros a. apply (cmp_refl cmp L).
    - intros a b. apply (cmp_antisym cmp L).
    - intros a b c H1 H2. exact (cmp_lt_trans cmp L c b a H2 H1).
    - intros a b c H. apply cmp_eq_compat_r. apply cmp_eq_sym. assumption.
  Qed.

  Lemma cmp_laws_on {J : Type} (f : J -> K) : cmp_laws (fun a b => cmp (f a) (f b)).
  Proof.
    constructor.
    - intros a. apply (cmp_refl cmp L).
    - intros a b. apply (cmp_antisym cmp L).
    - intros a b c. apply (cmp_lt_trans cmp L).
    - intros a b c. apply (cmp_eq_compat cmp L).
  Qed.
End CmpFacts.

Lemma cmp_laws_Z : cmp_laws Z.compare.
Proof.
  constructor.
  - apply Z.compare_refl.
  - intros a b. apply Z.compare_antisym.
  - intros a b c. rewrite !Z.compare_lt_iff. lia.
  - intros a b c H. apply Z.compare_eq in H. subst. reflexivity.
Qed.

(* strict weak order given as a boolean less *)
Record strict_weak_order {K : Type} (less : K -> K -> bool) : Prop := mk_swo {
  swo_irrefl : forall a, less a a = false;
  swo_trans : forall a b c, less a b = true -> less b c = true -> less a c = true;
  (* incomparability is transitive *)
  swo_incomp : forall a b c,
      less a b = false -> less b a = false -> less b c = false -> less c b = false ->
      less a c = false /\ less c a = false
}.

Lemma less_cmp_laws {K : Type} (less : K -> K -> bool) :
  strict_weak_order less -> cmp_laws (cmp_of_less less).
Proof.
  intros W.
  assert (Hasym : forall a b, less a b = true -> less b a = false).
  { intros a b H. destruct (less b a) eqn:E; [|reflexivity].
    pose proof (swo_trans less W a b a H E) as T. rewrite (swo_irrefl less W) in T. discriminate. }
  assert (Hcompat : forall a b c, less a b = false -> less b a = false ->
                                  less a c = less b c /\ less c a = less c b).
  { intros a b c H1 H2. split.
    - destruct (less a c) eqn:Eac, (less b c) eqn:Ebc; auto.
      + destruct (less c b) eqn:Ecb.
        * rewrite (swo_trans less W a c b Eac Ecb) in H1. discriminate.
        * destruct (swo_incomp less W a b c H1 H2 Ebc Ecb) as [T _]. congruence.
      + destruct (less c a) eqn:Eca.
        * rewrite (swo_trans less W b c a Ebc Eca) in H2. discriminate.
        * destruct (swo_incomp less W b a c H2 H1 Eac Eca) as [T _]. congruence.
    - destruct (less c a) eqn:Eca, (less c b) eqn:Ecb; auto.
      + destruct (less b c) eqn:Ebc.
        * rewrite (swo_trans less W b c a Ebc Eca) in H2. discriminate.
        * destruct (swo_incomp less W a b c H1 H2 Ebc Ecb) as [_ T]. congruence.
      + destruct (less a c) eqn:Eac.
        * rewrite (swo_trans less W a c b Eac Ecb) in H1. discriminate.
        * destruct (swo_incomp less W b a c H2 H1 Eac Eca) as [_ T]. congruence. }
  constructor.
  - intros a. unfold cmp_of_less. rewrite (swo_irrefl less W). reflexivity.
  - intros a b. unfold cmp_of_less.
    destruct (less a b) eqn:E1, (less b a) eqn:E2; simpl; auto.
    rewrite (Hasym a b E1) in E2. discriminate.
  - intros a b c. unfold cmp_of_less.
    destruct (less a b) eqn:E1; [|destruct (less b a); discriminate].
    destruct (less b c) eqn:E2; [|destruct (less c b); discriminate].
    rewrite (swo_trans less W a b c E1 E2). reflexivity.
  - intros a b c. unfold cmp_of_less.
    destruct (less a b) eqn:E1; [discriminate|].
    destruct (less b a) eqn:E2; [discriminate|]. intros _.
    destruct (Hcompat a b c E1 E2) as [-> ->]. reflexivity.
Qed.

Lemma swo_Zltb : strict_weak_order Z.ltb.
Proof.
  constructor.
  - intros a. apply Z.ltb_irrefl.
  - intros a b c. rewrite !Z.ltb_lt. lia.
  - intros a b c. rewrite !Z.ltb_ge. intros. split; lia.
Qed.

Lemma swo_on {J K : Type} (less : K -> K -> bool) (f : J -> K) :
  strict_weak_order less -> strict_weak_order (fun a b => less (f a) (f b)).
Proof.
  intros W. constructor.
  - intros a. apply (swo_irrefl less W).
  - intros a b c. apply (swo_trans less W).
  - intros a b c. apply (swo_incomp less W).
Qed.

(* ---------------- strict sortedness (all pairs) ---------------- *)

Section Sorted.
  Context {K V : Type} (cmp : K -> K -> comparison).

  Definition klt (a b : K * V) : Prop := cmp (fst a) (fst b) = Lt.

  Fixpoint sorted (l : list (K * V)) : Prop :=
    match l with
    | [] => True
    | a :: r => Forall (klt a) r /\ sorted r
    end.

  Lemma sorted_app l1 l2 :
    sorted (l1 ++ l2) <->
    sorted l1 /\ sorted l2 /\ (forall a b, In a l1 -> In b l2 -> klt a b).
  Proof.
    induction l1 as [|x l1 IH]; simpl.
    - split; [intros H; repeat split; auto; intros a b []|intros (_ & H & _); exact H].
    - rewrite IH, Forall_app. split.
      + intros ((F1 & F2) & S1 & S2 & C). repeat split; auto.
        intros a b [<-|Ha] Hb; [|auto]. rewrite Forall_forall in F2. auto.
      + intros ((F1 & S1) & S2 & C). repeat split; auto.
        rewrite Forall_forall. intros b Hb. apply C; auto.
  Qed.

  Lemma sorted_cons_inv a l : sorted (a :: l) -> sorted l.
  Proof. simpl; tauto. Qed.

  Lemma sorted_app_l l1 l2 : sorted (l1 ++ l2) -> sorted l1.
  Proof. rewrite sorted_app; tauto. Qed.

  Lemma sorted_app_r l1 l2 : sorted (l1 ++ l2) -> sorted l2.
  Proof. rewrite sorted_app; tauto. Qed.

  Lemma sorted_filter f l : sorted l -> sorted (filter f l).
  Proof.
    induction l as [|a l IH]; simpl; [auto|]. intros [F S].
    destruct (f a); simpl; auto. split; auto.
    rewrite Forall_forall in *. intros b Hb. apply F. apply filter_In in Hb. tauto.
  Qed.

  Hypothesis L : cmp_laws cmp.

  Lemma sm_sorted_iff (m : list (K * V)) : sm_sorted K V cmp m <-> sorted m.
  Proof.
    induction m as [|[k v] r IH]; [simpl; tauto|].
    destruct r as [|[k' v'] r'].
    - simpl. split; auto.
    - change (sm_sorted K V cmp ((k, v) :: (k', v') :: r')) with
        (cmp k k' = Lt /\ sm_sorted K V cmp ((k', v') :: r')).
      rewrite IH. cbn [sorted]. split.
      + intros (H1 & F & S). repeat split; auto. constructor; [exact H1|].
        rewrite Forall_forall in *. intros b Hb. unfold klt in *. simpl in *.
        eapply (cmp_lt_trans cmp L); [exact H1|]. apply F; assumption.
      + intros (F1 & F & S). inversion F1; subst. repeat split; auto.
  Qed.

  (* no two stored keys are equivalent *)
  Lemma sorted_no_equiv l i j a b :
    sorted l -> nth_error l i = Some a -> nth_error l j = Some b -> i <> j ->
    cmp (fst a) (fst b) <> Eq.
  Proof.
    revert i j; induction l as [|x l IH]; intros i j HS Ha Hb Hn; [destruct i; discriminate|].
    destruct HS as [F S]. rewrite Forall_forall in F.
    destruct i as [|i], j as [|j]; simpl in *; try lia.
    - injection Ha as <-. apply nth_error_In in Hb. specialize (F b Hb). unfold klt in F. congruence.
    - injection Hb as <-. apply nth_error_In in Ha. specialize (F a Ha). unfold klt in F.
      rewrite (cmp_antisym cmp L), F. simpl. congruence.
    - eapply IH; eauto.
  Qed.

  (* ---------------- positions relative to a key ---------------- *)

  Definition gt_all (k : K) (pre : list (K * V)) : Prop :=
    Forall (fun x => cmp k (fst x) = Gt) pre.

  Definition lt_hd (k : K) (post : list (K * V)) : Prop :=
    match post with [] => True | b :: _ => cmp k (fst b) = Lt end.

  (* everything up to and including a separator smaller than k is smaller than k *)
  Lemma gt_all_snoc k pre s :
    sorted (pre ++ [s]) -> cmp k (fst s) = Gt -> gt_all k (pre ++ [s]).
  Proof.
    intros S H. apply sorted_app in S. destruct S as (_ & _ & C).
    apply Forall_app. split; [|constructor; auto].
    apply Forall_forall. intros x Hx. specialize (C x s Hx (or_introl eq_refl)).
    unfold klt in C. apply (cmp_gt_lt cmp L). apply (cmp_gt_lt cmp L) in H.
    eapply (cmp_lt_trans cmp L); eassumption.
  Qed.

  Lemma gt_all_snoc_eq k pre s :
    sorted (pre ++ [s]) -> cmp k (fst s) = Eq -> gt_all k pre.
  Proof.
    intros S H. apply sorted_app in S. destruct S as (_ & _ & C).
    apply Forall_forall. intros x Hx. specialize (C x s Hx (or_introl eq_refl)).
    unfold klt in C. rewrite (cmp_eq_compat cmp L _ _ _ H).
    apply (cmp_gt_lt cmp L). assumption.
  Qed.

  (* ---------------- put / del / find in the middle of a list ---------------- *)

  Lemma sm_put_mid k v pre mid post :
    gt_all k pre -> lt_hd k post ->
    sm_put K V cmp (pre ++ mid ++ post) k v = pre ++ sm_put K V cmp mid k v ++ post.
  Proof.
    intros Hpre Hpost. induction Hpre as [|[k' v'] pre Hx _ IH]; simpl.
    - induction mid as [|[k' v'] mid IHm]; simpl.
      + destruct post as [|[kb vb] post]; simpl in *; [reflexivity|]. rewrite Hpost. reflexivity.
      + destruct (cmp k k'); simpl; try reflexivity. rewrite IHm. reflexivity.
    - simpl in Hx. rewrite Hx. rewrite IH. reflexivity.
  Qed.

  Lemma sm_del_mid k pre mid post :
    gt_all k pre -> lt_hd k post ->
    sm_del K V cmp (pre ++ mid ++ post) k = pre ++ sm_del K V cmp mid k ++ post.
  Proof.
    intros Hpre Hpost. induction Hpre as [|[k' v'] pre Hx _ IH]; simpl.
    - induction mid as [|[k' v'] mid IHm]; simpl.
      + destruct post as [|[kb vb] post]; simpl in *; [reflexivity|]. rewrite Hpost. reflexivity.
      + destruct (cmp k k'); simpl; try reflexivity. rewrite IHm. reflexivity.
    - simpl in Hx. rewrite Hx. rewrite IH. reflexivity.
  Qed.

  Lemma sm_find_mid k pre mid post :
    gt_all k pre -> lt_hd k post ->
    sm_find K V cmp (pre ++ mid ++ post) k = sm_find K V cmp mid k.
  Proof.
    intros Hpre Hpost. induction Hpre as [|[k' v'] pre Hx _ IH]; simpl.
    - induction mid as [|[k' v'] mid IHm]; simpl.
      + destruct post as [|[kb vb] post]; simpl in *; [reflexivity|]. rewrite Hpost. reflexivity.
      + destruct (cmp k k'); simpl; try reflexivity. rewrite IHm. reflexivity.
    - simpl in Hx. rewrite Hx. rewrite IH. reflexivity.
  Qed.

  (* the key is found at a separator: replace its value / remove it *)
  Lemma sm_put_at k v pre k' v' post :
    gt_all k pre -> cmp k k' = Eq ->
    sm_put K V cmp (pre ++ (k', v') :: post) k v = pre ++ (k', v) :: post.
  Proof.
    intros Hpre He. induction Hpre as [|[k1 v1] pre Hx _ IH]; simpl.
    - rewrite He. reflexivity.
    - simpl in Hx. rewrite Hx, IH. reflexivity.
  Qed.

  Lemma sm_del_at k pre k' v' post :
    gt_all k pre -> cmp k k' = Eq ->
    sm_del K V cmp (pre ++ (k', v') :: post) k = pre ++ post.
  Proof.
    intros Hpre He. induction Hpre as [|[k1 v1] pre Hx _ IH]; simpl.
    - rewrite He. reflexivity.
    - simpl in Hx. rewrite Hx, IH. reflexivity.
  Qed.

  Lemma sm_find_at k pre k' v' post :
    gt_all k pre -> cmp k k' = Eq ->
    sm_find K V cmp (pre ++ (k', v') :: post) k = Some (k', v').
  Proof.
    intros Hpre He. induction Hpre as [|[k1 v1] pre Hx _ IH]; simpl.
    - rewrite He. reflexivity.
    - simpl in Hx. rewrite Hx, IH. reflexivity.
  Qed.

  (* ---------------- membership ---------------- *)

  Lemma sm_put_keys m k v x :
    In x (sm_put K V cmp m k v) -> fst x = k \/ In (fst x) (map fst m).
  Proof.
    induction m as [|[k' v'] m IH]; simpl.
    - intros [<-|[]]. auto.
    - destruct (cmp k k'); simpl.
      + intros [<-|H]; simpl; auto. right. right. apply in_map; assumption.
      + intros [<-|[<-|H]]; simpl; auto. right. right. apply in_map; assumption.
      + intros [<-|H]; simpl; auto. destruct (IH H); auto.
  Qed.

  Lemma sm_del_subset m k x : In x (sm_del K V cmp m k) -> In x m.
  Proof.
    induction m as [|[k' v'] m IH]; simpl; [tauto|].
    destruct (cmp k k'); simpl; auto. intros [<-|H]; auto.
  Qed.

  Lemma sm_find_in m k kv :
    sm_find K V cmp m k = Some kv -> In kv m /\ cmp k (fst kv) = Eq.
  Proof.
    induction m as [|[k' v'] m IH]; simpl; [discriminate|].
    destruct (cmp k k') eqn:E; try discriminate.
    - intros [= <-]. auto.
    - intros H. destruct (IH H). auto.
  Qed.

  Lemma sm_find_sorted m k kv :
    sorted m -> In kv m -> cmp k (fst kv) = Eq -> sm_find K V cmp m k = Some kv.
  Proof.
    induction m as [|[k' v'] m IH]; simpl; [tauto|].
    intros [F S] [<-|Hin] He.
    - simpl in He. rewrite He. reflexivity.
    - rewrite Forall_forall in F. specialize (F kv Hin). unfold klt in F. simpl in F.
      assert (Hg : cmp k k' = Gt).
      { rewrite (cmp_eq_compat cmp L _ _ _ He). apply (cmp_gt_lt cmp L). assumption. }
      rewrite Hg. apply IH; assumption.
  Qed.

  Lemma sm_contains_iff m k :
    sorted m ->
    (sm_contains K V cmp m k = true <-> exists kv, In kv m /\ cmp k (fst kv) = Eq).
  Proof.
    intros S. unfold sm_contains. split.
    - destruct (sm_find K V cmp m k) as [kv|] eqn:E; [|discriminate].
      intros _. exists kv. apply sm_find_in; assumption.
    - intros (kv & Hin & He). rewrite (sm_find_sorted m k kv S Hin He). reflexivity.
  Qed.

  (* ---------------- sortedness is preserved ---------------- *)

  Lemma sorted_sm_put m k v : sorted m -> sorted (sm_put K V cmp m k v).
  Proof.
    induction m as [|[k' v'] m IH]; simpl; [auto|].
    intros [F S]. destruct (cmp k k') eqn:E; simpl.
    - split; assumption.
    - split; [|split; assumption]. constructor; [exact E|].
      rewrite Forall_forall in *. intros b Hb. specialize (F b Hb). unfold klt in *. simpl in *.
      eapply (cmp_lt_trans cmp L); eassumption.
    - split; [|apply IH; assumption].
      rewrite Forall_forall in *. intros b Hb. unfold klt. simpl.
      destruct (sm_put_keys m k v b Hb) as [->|Hin].
      + apply (cmp_gt_lt cmp L); assumption.
      + apply in_map_iff in Hin. destruct Hin as (y & Hy & Hin). rewrite <- Hy.
        apply (F y Hin).
  Qed.

  Lemma sorted_sm_del m k : sorted m -> sorted (sm_del K V cmp m k).
  Proof.
    induction m as [|[k' v'] m IH]; simpl; [auto|].
    intros [F S]. destruct (cmp k k') eqn:E; simpl; auto.
    split; [|apply IH; assumption].
    rewrite Forall_forall in *. intros b Hb. apply F. eapply sm_del_subset; eassumption.
  Qed.

  Lemma sm_del_gone m k kv :
    sorted m -> In kv (sm_del K V cmp m k) -> cmp k (fst kv) <> Eq.
  Proof.
    induction m as [|[k' v'] m IH]; simpl; [tauto|].
    intros [F S]. rewrite Forall_forall in F. destruct (cmp k k') eqn:E.
    - intros Hin. specialize (F kv Hin). unfold klt in F. simpl in F.
      rewrite (cmp_eq_compat cmp L _ _ _ E), F. congruence.
    - intros [<-|Hin]; simpl; [congruence|]. specialize (F kv Hin). unfold klt in F. simpl in F.
      rewrite (cmp_lt_trans cmp L _ _ _ E F). congruence.
    - intros [<-|Hin]; simpl; [congruence|]. apply IH; assumption.
  Qed.

  (* ---------------- lengths ---------------- *)

  Lemma length_sm_put m k v :
    length (sm_put K V cmp m k v) =
    if sm_contains K V cmp m k then length m else S (length m).
  Proof.
    unfold sm_contains. induction m as [|[k' v'] m IH]; simpl; [reflexivity|].
    destruct (cmp k k'); simpl; try reflexivity.
    rewrite IH. destruct (sm_find K V cmp m k); reflexivity.
  Qed.

  Lemma length_sm_del m k :
    length (sm_del K V cmp m k) =
    if sm_contains K V cmp m k then pred (length m) else length m.
  Proof.
    unfold sm_contains. induction m as [|[k' v'] m IH]; simpl; [reflexivity|].
    destruct (cmp k k'); simpl; try reflexivity.
    rewrite IH. destruct (sm_find K V cmp m k) eqn:E; [|reflexivity].
    destruct m; [discriminate|reflexivity].
  Qed.

  (* ---------------- lookups after updates (spec laws) ---------------- *)

  Lemma sm_find_put m k v k' :
    sm_find K V cmp (sm_put K V cmp m k v) k' =
    if is_eq (cmp k' k)
    then Some (match sm_find K V cmp m k with Some kv => fst kv | None => k end, v)
    else sm_find K V cmp m k'.
  Proof.
    induction m as [|[k1 v1] m IH]; simpl.
    - destruct (cmp k' k); reflexivity.
    - destruct (cmp k k1) eqn:E; simpl.
      + (* k ~ k1 *)
        rewrite (cmp_eq_compat_r cmp L k k1 k' E).
        destruct (cmp k' k1); reflexivity.
      + (* k < k1 *)
        destruct (cmp k' k) eqn:E'; simpl; try reflexivity.
        rewrite (cmp_lt_trans cmp L _ _ _ E' E). reflexivity.
      + (* k > k1 *)
        apply (cmp_gt_lt cmp L) in E.
        destruct (cmp k' k1) eqn:E1.
        * rewrite (cmp_eq_compat cmp L _ _ _ E1), E. reflexivity.
        * rewrite (cmp_lt_trans cmp L _ _ _ E1 E). reflexivity.
        * exact IH.
  Qed.

  Lemma sm_find_del m k k' :
    sorted m ->
    sm_find K V cmp (sm_del K V cmp m k) k' =
    if is_eq (cmp k' k) then None else sm_find K V cmp m k'.
  Proof.
    induction m as [|[k1 v1] m IH]; simpl.
    - intros _. destruct (cmp k' k); reflexivity.
    - intros [F S]. destruct (cmp k k1) eqn:E; simpl.
      + (* k ~ k1: removed *)
        rewrite (cmp_eq_compat_r cmp L k k1 k' E).
        destruct (cmp k' k1) eqn:E1; simpl; try reflexivity.
        * destruct m as [|[k2 v2] m]; [reflexivity|]. simpl.
          inversion F as [|? ? F1 _]; subst. unfold klt in F1. simpl in F1.
          rewrite (cmp_eq_compat cmp L _ _ _ E1), F1. reflexivity.
        * destruct m as [|[k2 v2] m]; [reflexivity|]. simpl.
          inversion F as [|? ? F1 _]; subst. unfold klt in F1. simpl in F1.
          rewrite (cmp_lt_trans cmp L _ _ _ E1 F1). reflexivity.
      + (* k < k1: unchanged *)
        destruct (cmp k' k) eqn:E'; simpl; try reflexivity.
        rewrite (cmp_eq_compat cmp L _ _ _ E'), E. reflexivity.
      + apply (cmp_gt_lt cmp L) in E.
        destruct (cmp k' k1) eqn:E1.
        * rewrite (cmp_eq_compat cmp L _ _ _ E1), E. reflexivity.
        * rewrite (cmp_lt_trans cmp L _ _ _ E1 E). reflexivity.
        * apply IH; assumption.
  Qed.

  (* ---------------- first / last are the extremes ---------------- *)

  Lemma sorted_hd_min m d kv :
    sorted m -> In kv m -> kv = hd d m \/ cmp (fst (hd d m)) (fst kv) = Lt.
  Proof.
    destruct m as [|a m]; simpl; [tauto|]. intros [F _] [<-|Hin]; [auto|].
    rewrite Forall_forall in F. right. apply (F kv Hin).
  Qed.

  Lemma sorted_last_max m d kv :
    sorted m -> In kv m -> kv = last m d \/ cmp (fst kv) (fst (last m d)) = Lt.
  Proof.
    intros S Hin. destruct m as [|a m] using rev_ind; [destruct Hin|].
    rewrite last_last. apply in_app_or in Hin. destruct Hin as [Hin|[<-|[]]]; [|auto].
    apply sorted_app in S. destruct S as (_ & _ & C). right. apply C; simpl; auto.
  Qed.

End Sorted.
