(* C02, part 0: order vocabulary shared by all CProofs* files.
   - cmp_laws: what a comparison must satisfy (total preorder given as a three-way comparison);
   - derived order lemmas; the comparison read in the direction of travel (dcmp);
   - strictly sorted association lists (ksorted), equivalence with SMap.sm_sorted,
     preservation by sm_put / sm_del, membership vs sm_find;
   - "a sorted list splits at a pivot": filter (>= p) of a sorted list is a suffix.
   Stdlib only, no axioms. *)
From Juniper Require Import Common.Base Tree.Bound Tree.SMap.
From Coq Require Import Sorted.

(* The sign of a Go compare function that is a total preorder:
   reflexive, antisymmetric as a three-way comparison, Lt transitive, Eq a congruence. *)
Record cmp_laws {K : Type} (cmp : K -> K -> comparison) : Prop := mk_cmp_laws {
  cl_refl : forall a, cmp a a = Eq;
  cl_sym : forall a b, cmp a b = CompOpp (cmp b a);
  cl_lt_trans : forall a b c, cmp a b = Lt -> cmp b c = Lt -> cmp a c = Lt;
  cl_eq_cong : forall a b c, cmp a b = Eq -> cmp a c = cmp b c
}.

Section Order.
  Context {K : Type} (cmp : K -> K -> comparison).
  Hypothesis laws : cmp_laws cmp.

  Lemma c_refl a : cmp a a = Eq.
  Proof. apply (cl_refl _ laws). Qed.

  Lemma c_sym a b : cmp a b = CompOpp (cmp b a).
  Proof. apply (cl_sym _ laws). Qed.

  Lemma c_gt_lt a b : cmp a b = Gt <-> cmp b a = Lt.
  Proof. rewrite (c_sym a b). destruct (cmp b a); simpl; split; congruence. Qed.

  Lemma c_lt_gt a b : cmp a b = Lt <-> cmp b a = Gt.
  Proof. rewrite (c_sym a b). destruct (cmp b a); simpl; split; congruence. Qed.

  Lemma c_eq_sym a b : cmp a b = Eq -> cmp b a = Eq.
  Proof. rewrite (c_sym b a). intros ->. reflexivity. Qed.

  Lemma c_eq_l a b c : cmp a b = Eq -> cmp a c = cmp b c.
  Proof. apply (cl_eq_cong _ laws). Qed.

  Lemma c_eq_r a b c : cmp a b = Eq -> cmp c a = cmp c b.
  Proof. intros H. rewrite (c_sym c a), (c_sym c b), (c_eq_l a b c H). reflexivity. Qed.

  Lemma c_eq_trans a b c : cmp a b = Eq -> cmp b c = Eq -> cmp a c = Eq.
  Proof. intros H1 H2. rewrite (c_eq_l a b c H1). exact H2. Qed.

  Lemma c_lt_trans a b c : cmp a b = Lt -> cmp b c = Lt -> cmp a c = Lt.
  Proof. apply (cl_lt_trans _ laws). Qed.

  Lemma c_lt_le_trans a b c : cmp a b = Lt -> cmp b c <> Gt -> cmp a c = Lt.
  Proof.
    intros H1 H2. destruct (cmp b c) eqn:E.
    - rewrite <- (c_eq_r b c a E). exact H1.
    - eapply c_lt_trans; eauto.
    - congruence.
  Qed.

  Lemma c_le_lt_trans a b c : cmp a b <> Gt -> cmp b c = Lt -> cmp a c = Lt.
  Proof.
    intros H1 H2. destruct (cmp a b) eqn:E.
    - rewrite (c_eq_l a b c E). exact H2.
    - eapply c_lt_trans; eauto.
    - congruence.
  Qed.

  Lemma c_le_trans a b c : cmp a b <> Gt -> cmp b c <> Gt -> cmp a c <> Gt.
  Proof.
    intros H1 H2. destruct (cmp a b) eqn:E.
    - rewrite (c_eq_l a b c E). exact H2.
    - rewrite (c_lt_le_trans a b c E H2). congruence.
    - congruence.
  Qed.

  Lemma c_lt_irrefl a : cmp a a <> Lt.
  Proof. rewrite c_refl. congruence. Qed.

  Lemma c_lt_not_ge a b : cmp a b = Lt -> cmp b a <> Gt -> False.
  Proof. intros H1 H2. apply c_lt_gt in H1. congruence. Qed.

  Lemma c_le_flip a b : cmp a b <> Gt <-> cmp b a <> Lt.
  Proof. rewrite (c_sym a b). destruct (cmp b a); simpl; split; congruence. Qed.

  Lemma c_lt_le a b : cmp a b = Lt -> cmp a b <> Gt.
  Proof. congruence. Qed.

  Lemma c_eq_le a b : cmp a b = Eq -> cmp a b <> Gt.
  Proof. congruence. Qed.

  (* the boolean sign tests of the model *)
  Lemma is_ge_true a b : is_ge (cmp a b) = true <-> cmp b a <> Gt.
  Proof. rewrite (c_sym b a). destruct (cmp a b); simpl; split; congruence. Qed.

  Lemma is_le_true a b : is_le (cmp a b) = true <-> cmp a b <> Gt.
  Proof. destruct (cmp a b); simpl; split; congruence. Qed.

  Lemma is_gt_true a b : is_gt (cmp a b) = true <-> cmp b a = Lt.
  Proof. rewrite (c_sym b a). destruct (cmp a b); simpl; split; congruence. Qed.

  Lemma is_lt_true a b : is_lt (cmp a b) = true <-> cmp a b = Lt.
  Proof. destruct (cmp a b); simpl; split; congruence. Qed.

  Lemma is_eq_true a b : is_eq (cmp a b) = true <-> cmp a b = Eq.
  Proof. destruct (cmp a b); simpl; split; congruence. Qed.

  Lemma is_ge_false a b : is_ge (cmp a b) = false <-> cmp a b = Lt.
  Proof. destruct (cmp a b); simpl; split; congruence. Qed.

  Lemma is_le_ge a b : is_le (cmp a b) = is_ge (cmp b a).
  Proof. rewrite (c_sym b a). destruct (cmp a b); reflexivity. Qed.

  Lemma is_lt_gt a b : is_lt (cmp a b) = is_gt (cmp b a).
  Proof. rewrite (c_sym b a). destruct (cmp a b); reflexivity. Qed.

  (* ---- bounds respect the order ---- *)

  Lemma in_lo_up lo a b : in_lo K cmp lo a = true -> cmp a b <> Gt -> in_lo K cmp lo b = true.
  Proof.
    destruct lo as [k|k|]; simpl; intros H1 H2; auto.
    - apply is_ge_true in H1. apply is_ge_true. eapply c_le_trans; eauto.
    - apply is_gt_true in H1. apply is_gt_true. eapply c_lt_le_trans; eauto.
  Qed.

  Lemma in_hi_down hi a b : in_hi K cmp hi b = true -> cmp a b <> Gt -> in_hi K cmp hi a = true.
  Proof.
    destruct hi as [k|k|]; simpl; intros H1 H2; auto.
    - apply is_le_true in H1. apply is_le_true. eapply c_le_trans; eauto.
    - apply is_lt_true in H1. apply is_lt_true. eapply c_le_lt_trans; eauto.
  Qed.

  Lemma in_lo_equiv lo a b : cmp a b = Eq -> in_lo K cmp lo a = in_lo K cmp lo b.
  Proof. intros H. destruct lo as [k|k|]; simpl; auto; rewrite (c_eq_l a b k H); reflexivity. Qed.

  Lemma in_hi_equiv hi a b : cmp a b = Eq -> in_hi K cmp hi a = in_hi K cmp hi b.
  Proof. intros H. destruct hi as [k|k|]; simpl; auto; rewrite (c_eq_l a b k H); reflexivity. Qed.

End Order.

(* ---- the comparison read in the direction of travel ---- *)

Definition dcmp {K : Type} (cmp : K -> K -> comparison) (rev : bool) (a b : K) : comparison :=
  if rev then cmp b a else cmp a b.

Lemma flip_laws {K} (cmp : K -> K -> comparison) :
  cmp_laws cmp -> cmp_laws (fun a b => cmp b a).
Proof.
  intros L. constructor.
  - intros a. apply (c_refl cmp L).
  - intros a b. apply (c_sym cmp L).
  - intros a b c H1 H2. eapply (c_lt_trans cmp L); eauto.
  - intros a b c H. apply (c_eq_r cmp L). apply (c_eq_sym cmp L). exact H.
Qed.

Lemma dcmp_laws {K} (cmp : K -> K -> comparison) rev : cmp_laws cmp -> cmp_laws (dcmp cmp rev).
Proof.
  intros L. destruct rev; simpl.
  - exact (flip_laws cmp L).
  - unfold dcmp. destruct L; constructor; auto.
Qed.

(* the far/near bounds read in the direction of travel: in_lo of the flipped order is in_hi *)
Lemma in_lo_flip {K} (cmp : K -> K -> comparison) (L : cmp_laws cmp) b k :
  in_lo K (fun x y => cmp y x) b k = in_hi K cmp b k.
Proof.
  destruct b as [c|c|]; simpl; auto.
  - symmetry. apply (is_le_ge cmp L).
  - symmetry. apply (is_lt_gt cmp L).
Qed.

Lemma in_hi_flip {K} (cmp : K -> K -> comparison) (L : cmp_laws cmp) b k :
  in_hi K (fun x y => cmp y x) b k = in_lo K cmp b k.
Proof.
  destruct b as [c|c|]; simpl; auto.
  - apply (is_le_ge (fun x y => cmp y x) (flip_laws cmp L)).
  - apply (is_lt_gt (fun x y => cmp y x) (flip_laws cmp L)).
Qed.

Lemma filter_all_true {A} (f : A -> bool) (l : list A) :
  (forall x, In x l -> f x = true) -> filter f l = l.
Proof.
  induction l as [|a l IH]; simpl; intros H; auto.
  rewrite (H a (or_introl eq_refl)). f_equal. apply IH. intros x Hx. apply H. auto.
Qed.

(* ---- strictly sorted association lists ---- *)

Section KSorted.
  Context {K V : Type} (cmp : K -> K -> comparison).
  Hypothesis laws : cmp_laws cmp.

  Definition klt (a b : K * V) : Prop := cmp (fst a) (fst b) = Lt.
  Definition ksorted (m : list (K * V)) : Prop := StronglySorted klt m.

  Lemma ksorted_nil : ksorted [].
  Proof. constructor. Qed.

  Lemma ksorted_cons_inv a m : ksorted (a :: m) -> ksorted m /\ Forall (klt a) m.
  Proof. intros H. inversion H; subst. split; assumption. Qed.

  Lemma ksorted_app l1 l2 :
    ksorted (l1 ++ l2) <->
    ksorted l1 /\ ksorted l2 /\ forall a b, In a l1 -> In b l2 -> klt a b.
  Proof.
    induction l1 as [|x l1 IH]; simpl.
    - split.
      + intros H. repeat split; auto. constructor. intros a b [].
      + intros (_ & H & _). exact H.
    - split.
      + intros H. apply ksorted_cons_inv in H. destruct H as [Hs Hf].
        apply IH in Hs. destruct Hs as (H1 & H2 & H3).
        rewrite Forall_app in Hf. destruct Hf as [Hf1 Hf2].
        repeat split; auto.
        * constructor; auto.
        * intros a b [<-|Ha] Hb.
          -- rewrite Forall_forall in Hf2. auto.
          -- auto.
      + intros (H1 & H2 & H3). apply ksorted_cons_inv in H1. destruct H1 as [H1 Hf].
        constructor.
        * apply IH. repeat split; auto.
        * rewrite Forall_app. split; auto.
          rewrite Forall_forall. intros b Hb. apply H3; auto.
  Qed.

  (* SMap's own sortedness predicate is the same thing *)
  Lemma sm_sorted_ksorted m : sm_sorted K V cmp m <-> ksorted m.
  Proof.
    induction m as [|[k v] r IH].
    - simpl. split; auto. intros _. constructor.
    - destruct r as [|[k' v'] r'].
      + simpl. split; auto. intros _. constructor; constructor.
      + change (sm_sorted K V cmp ((k, v) :: (k', v') :: r'))
          with (cmp k k' = Lt /\ sm_sorted K V cmp ((k', v') :: r')).
        rewrite IH. split.
        * intros [Hlt Hs]. constructor; auto.
          apply ksorted_cons_inv in Hs as Hs'. destruct Hs' as [_ Hf].
          constructor; [exact Hlt|].
          rewrite Forall_forall in *. intros x Hx. specialize (Hf x Hx).
          unfold klt in *. simpl in *. eapply (c_lt_trans cmp laws); eauto.
        * intros H. apply ksorted_cons_inv in H. destruct H as [Hs Hf].
          split; auto. inversion Hf; subst. assumption.
  Qed.

  Lemma Forall_klt_put a m k v :
    Forall (klt a) m -> cmp (fst a) k = Lt -> Forall (klt a) (sm_put K V cmp m k v).
  Proof.
    induction m as [|[k' v'] r IH]; simpl; intros Hf Hk.
    - constructor; auto.
    - inversion Hf as [|x l Hx Hr]; subst.
      destruct (cmp k k') eqn:E.
      + constructor; auto.
      + constructor; auto.
      + constructor; auto.
  Qed.

  Lemma ksorted_put m k v : ksorted m -> ksorted (sm_put K V cmp m k v).
  Proof.
    induction m as [|[k' v'] r IH]; simpl; intros Hs.
    - constructor; constructor.
    - apply ksorted_cons_inv in Hs as Hs'. destruct Hs' as [Hr Hf].
      destruct (cmp k k') eqn:E.
      + constructor; auto.
      + constructor; auto. constructor; [exact E|].
        rewrite Forall_forall in *. intros x Hx. specialize (Hf x Hx).
        unfold klt in *; simpl in *. eapply (c_lt_trans cmp laws); eauto.
      + constructor; [apply IH; exact Hr|]. apply Forall_klt_put; auto.
        simpl. apply (c_gt_lt cmp laws). exact E.
  Qed.

  Lemma Forall_klt_del a m k : Forall (klt a) m -> Forall (klt a) (sm_del K V cmp m k).
  Proof.
    induction m as [|[k' v'] r IH]; simpl; intros Hf; auto.
    inversion Hf; subst. destruct (cmp k k'); auto.
  Qed.

  Lemma ksorted_del m k : ksorted m -> ksorted (sm_del K V cmp m k).
  Proof.
    induction m as [|[k' v'] r IH]; simpl; intros Hs; auto.
    apply ksorted_cons_inv in Hs as Hs'. destruct Hs' as [Hr Hf].
    destruct (cmp k k'); auto.
    constructor; [apply IH; exact Hr|]. apply Forall_klt_del; auto.
  Qed.

  (* membership of a key class *)
  Definition has_key (m : list (K * V)) (x : K) : Prop :=
    exists kv, In kv m /\ cmp (fst kv) x = Eq.

  Lemma sm_find_In m x kv : sm_find K V cmp m x = Some kv -> In kv m /\ cmp (fst kv) x = Eq.
  Proof.
    induction m as [|[k' v'] r IH]; simpl; [discriminate|].
    destruct (cmp x k') eqn:E; try discriminate.
    - intros [= <-]. split; auto. simpl. apply (c_eq_sym cmp laws). exact E.
    - intros H. destruct (IH H). auto.
  Qed.

  Lemma sm_find_sorted m x kv :
    ksorted m -> In kv m -> cmp (fst kv) x = Eq -> sm_find K V cmp m x = Some kv.
  Proof.
    induction m as [|[k' v'] r IH]; simpl; intros Hs Hin He; [contradiction|].
    apply ksorted_cons_inv in Hs. destruct Hs as [Hr Hf].
    destruct Hin as [<-|Hin].
    - simpl in He. apply (c_eq_sym cmp laws) in He. rewrite He. reflexivity.
    - rewrite Forall_forall in Hf. specialize (Hf kv Hin). unfold klt in Hf; simpl in Hf.
      assert (Hx : cmp x k' = Gt).
      { apply (c_gt_lt cmp laws). rewrite <- (c_eq_r cmp laws _ _ k' He). exact Hf. }
      rewrite Hx. auto.
  Qed.

  Lemma sm_contains_has_key m x : ksorted m -> (sm_contains K V cmp m x = true <-> has_key m x).
  Proof.
    intros Hs. unfold sm_contains, has_key. split.
    - destruct (sm_find K V cmp m x) eqn:E; [|discriminate].
      intros _. exists p. apply sm_find_In. exact E.
    - intros (kv & Hin & He). rewrite (sm_find_sorted m x kv Hs Hin He). reflexivity.
  Qed.

  (* two entries of a sorted list with equivalent keys are the same entry *)
  Lemma ksorted_equiv_eq m a b :
    ksorted m -> In a m -> In b m -> cmp (fst a) (fst b) = Eq -> a = b.
  Proof.
    induction m as [|c r IH]; simpl; intros Hs Ha Hb He; [contradiction|].
    apply ksorted_cons_inv in Hs. destruct Hs as [Hr Hf]. rewrite Forall_forall in Hf.
    destruct Ha as [<-|Ha], Hb as [<-|Hb]; auto.
    - specialize (Hf b Hb). unfold klt in Hf. congruence.
    - specialize (Hf a Ha). unfold klt in Hf. apply (c_eq_sym cmp laws) in He. congruence.
  Qed.

  (* ---- a sorted list splits at a pivot ---- *)

  Lemma filter_ge_split (p : K) m :
    ksorted m ->
    exists l1 l2, m = l1 ++ l2
      /\ Forall (fun kv => cmp (fst kv) p = Lt) l1
      /\ Forall (fun kv => cmp p (fst kv) <> Gt) l2
      /\ filter (fun kv => is_ge (cmp (fst kv) p)) m = l2.
  Proof.
    induction m as [|a r IH]; intros Hs.
    - exists [], []. repeat split; auto.
    - apply ksorted_cons_inv in Hs as Hs'. destruct Hs' as [Hr Hf].
      destruct (is_ge (cmp (fst a) p)) eqn:E.
      + exists [], (a :: r). repeat split; auto.
        * assert (Hp : cmp p (fst a) <> Gt) by (apply (is_ge_true cmp laws); exact E).
          constructor; auto.
          rewrite Forall_forall in *. intros x Hx. specialize (Hf x Hx). unfold klt in Hf.
          apply (c_lt_le cmp). eapply (c_le_lt_trans cmp laws); eauto.
        * simpl. rewrite E. f_equal.
          apply filter_all_true. intros x Hx.
          rewrite Forall_forall in Hf. specialize (Hf x Hx). unfold klt in Hf.
          apply (is_ge_true cmp laws).
          assert (Hp : cmp p (fst a) <> Gt) by (apply (is_ge_true cmp laws); exact E).
          apply (c_lt_le cmp). eapply (c_le_lt_trans cmp laws); eauto.
      + destruct (IH Hr) as (l1 & l2 & -> & H1 & H2 & H3).
        exists (a :: l1), l2. repeat split; auto.
        * constructor; auto. apply (is_ge_false cmp). exact E.
        * simpl. rewrite E. exact H3.
  Qed.

End KSorted.

(* ---- reversal ---- *)

Lemma filter_rev' {A} (f : A -> bool) (l : list A) : filter f (rev l) = rev (filter f l).
Proof.
  induction l as [|x l IH]; simpl; auto.
  rewrite filter_app, IH. simpl. destruct (f x); simpl; auto. rewrite app_nil_r. reflexivity.
Qed.

Lemma ksorted_rev {K V} (cmp : K -> K -> comparison) (m : list (K * V)) :
  ksorted cmp m -> ksorted (fun a b => cmp b a) (rev m).
Proof.
  induction m as [|a r IH]; simpl; intros Hs.
  - constructor.
  - apply ksorted_cons_inv in Hs. destruct Hs as [Hr Hf].
    unfold ksorted.
    assert (G : forall l x, StronglySorted (klt (fun a b : K => cmp b a)) l ->
              Forall (fun y => klt (V:=V) (fun a b : K => cmp b a) y x) l ->
              StronglySorted (klt (fun a b : K => cmp b a)) (l ++ [x])).
    { induction l as [|y l IHl]; simpl; intros x Hl Hx.
      - constructor; constructor.
      - inversion Hl; subst. inversion Hx; subst. constructor; auto.
        rewrite Forall_app. split; auto. }
    apply G.
    + apply IH. exact Hr.
    + rewrite Forall_forall in *. intros y Hy. apply in_rev in Hy. specialize (Hf y Hy).
      exact Hf.
Qed.
