(* The order part: the in-order list of the B-tree model changes under ins / del exactly as the
   ideal sorted map changes under sm_put / sm_del (C01), for every comparison satisfying cmp_laws.
   Lookups (get / contains / first / last) read the in-order list like the ideal map. *)
From Juniper Require Import Common.Base Tree.Bound Tree.BTree Tree.SMap
  Tree.ProofsLists Tree.ProofsSMap Tree.ProofsCases Tree.ProofsWf.
Local Open Scope nat_scope.

(* ---------------- more about interleave ---------------- *)

Lemma interleave_two {A} (LA LB : list (list A)) ka s kb :
  length LA = S (length ka) ->
  interleave (LA ++ LB) (ka ++ s :: kb) = interleave LA ka ++ s :: interleave LB kb.
Proof.
  intros H. destruct (rev_case LA) as [->|(LA' & la & ->)]; [discriminate|].
  rewrite length_snoc in H.
  rewrite <- app_assoc. cbn [app].
  rewrite interleave_app by lia.
  rewrite <- (app_nil_r ka) at 2. rewrite interleave_app by lia.
  cbn [interleave]. rewrite app_nil_r, <- !app_assoc. reflexivity.
Qed.

Lemma gt_all_ileft {K V} (cmp : K -> K -> comparison) (L : cmp_laws cmp)
    k (LS : list (list (K * V))) KA :
  length LS = length KA -> sorted cmp (ileft LS KA) -> gt_all cmp k KA ->
  gt_all cmp k (ileft LS KA).
Proof.
  intros Hl Hs Hg. destruct (rev_case KA) as [->|(KA' & s & ->)].
  - destruct LS; [constructor|discriminate].
  - destruct (rev_case LS) as [->|(LS' & l & ->)]; [rewrite length_snoc in Hl; discriminate|].
    rewrite !length_snoc in Hl.
    rewrite ileft_snoc in * by lia. rewrite app_assoc in *.
    apply gt_all_snoc; [assumption|assumption|].
    unfold gt_all in Hg. apply Forall_app in Hg. destruct Hg as [_ Hg].
    inversion Hg; assumption.
Qed.

Lemma lt_hd_iright {K V} (cmp : K -> K -> comparison) k (LS : list (list (K * V))) KB :
  length LS = length KB -> lt_hd cmp k KB -> lt_hd cmp k (iright KB LS).
Proof. destruct KB, LS; simpl; auto; discriminate. Qed.

Lemma in_ileft_sep {A} (s : A) LS seps : length LS = length seps -> In s seps -> In s (ileft LS seps).
Proof.
  revert seps; induction LS as [|l LS IH]; intros [|s0 seps] Hl Hin; simpl in *; try tauto; try discriminate.
  apply in_or_app. right. destruct Hin as [->|Hin]; [left; reflexivity|right; apply IH; auto].
Qed.

Lemma sumf_map {A B} (f : B -> nat) (g : A -> B) l : sumf f (map g l) = sumf (fun x => f (g x)) l.
Proof. unfold sumf. rewrite map_map. reflexivity. Qed.

Lemma nth_0_hd {A} (l : list A) d : nth 0 l d = hd d l.
Proof. destruct l; reflexivity. Qed.

Section Inorder.
  Context {K V : Type}.
  Variable cmp : K -> K -> comparison.
  Hypothesis L : cmp_laws cmp.
  Variables (kzero : K) (vzero : V).
  Variables minKVs maxKVs : nat.

  Notation node := (@node K V).
  Notation ins := (ins K V cmp kzero vzero maxKVs).
  Notation del := (del K V cmp kzero vzero minKVs).
  Notation remove_rightmost := (remove_rightmost K V kzero vzero minKVs).
  Notation fix_child := (fix_child K V kzero vzero minKVs).
  Notation split_node := (split_node K V kzero vzero maxKVs).
  Notation search_node := (search_node K V cmp).
  Notation kvzero := (kvzero K V kzero vzero).
  Notation shaped := (shaped minKVs maxKVs).
  Notation okc := (okc minKVs maxKVs).
  Notation sorted := (@sorted K V cmp).
  Notation gt_all := (@gt_all K V cmp).
  Notation lt_hd := (@lt_hd K V cmp).
  Notation sm_put := (sm_put K V cmp).
  Notation sm_del := (sm_del K V cmp).
  Notation sm_find := (sm_find K V cmp).
  Notation sm_get := (sm_get K V cmp vzero).
  Notation sm_contains := (sm_contains K V cmp).

  (* ---------------- in-order list of a node in append form ---------------- *)

  Lemma inorder_one id (KA KB : list (K * V)) (A : list node) x B :
    length KA = length A -> length KB = length B ->
    inorder (Node id (KA ++ KB) (A ++ x :: B)) =
    ileft (map inorder A) KA ++ inorder x ++ iright KB (map inorder B).
  Proof.
    intros H1 H2. rewrite inorder_internal by (destruct A; discriminate).
    rewrite map_app. cbn [map]. apply interleave_mid; rewrite map_length; lia.
  Qed.

  Lemma inorder_two id (KA KB : list (K * V)) s (A : list node) x y B :
    length KA = length A -> length KB = length B ->
    inorder (Node id (KA ++ s :: KB) (A ++ x :: y :: B)) =
    ileft (map inorder A) KA ++ inorder x ++ s :: inorder y ++ iright KB (map inorder B).
  Proof.
    intros H1 H2. rewrite inorder_internal by (destruct A; discriminate).
    rewrite map_app. cbn [map].
    rewrite interleave_mid by (cbn [length]; rewrite ?map_length; lia).
    reflexivity.
  Qed.

  (* a separator of a shaped node sits at a fixed place of the in-order list *)
  Lemma inorder_sep d id (KA KB : list (K * V)) kv0 (cs : list node) :
    shaped d (Node id (KA ++ kv0 :: KB) cs) ->
    exists pre post, forall kv,
      inorder (Node id (KA ++ kv :: KB) cs) = pre ++ kv :: post.
  Proof.
    intros Hs. destruct (shaped_cs _ _ _ _ _ _ Hs) as [->|Hl].
    - exists KA, KB. intros kv. reflexivity.
    - rewrite app_length in Hl. cbn [length] in Hl.
      destruct (split_at_len cs (length KA) ltac:(lia)) as (A & c & B & -> & HlA).
      rewrite app_length in Hl. cbn [length] in Hl.
      destruct B as [|b B]; [cbn [length] in Hl; lia|]. cbn [length] in Hl.
      exists (ileft (map inorder A) KA ++ inorder c), (inorder b ++ iright KB (map inorder B)).
      intros kv. rewrite inorder_two by lia. rewrite <- app_assoc. reflexivity.
  Qed.

  (* the facts every descent step uses *)
  Lemma node_mid id (KA KB : list (K * V)) (A : list node) c B k :
    length KA = length A -> length KB = length B ->
    sorted (inorder (Node id (KA ++ KB) (A ++ c :: B))) -> gt_all k KA -> lt_hd k KB ->
    inorder (Node id (KA ++ KB) (A ++ c :: B)) =
      ileft (map inorder A) KA ++ inorder c ++ iright KB (map inorder B) /\
    gt_all k (ileft (map inorder A) KA) /\ lt_hd k (iright KB (map inorder B)) /\
    sorted (inorder c).
  Proof.
    intros H1 H2 Hs Hg Hl. rewrite inorder_one in * by assumption.
    split; [reflexivity|]. split; [|split].
    - apply gt_all_ileft; auto; [rewrite map_length; lia|].
      eapply sorted_app_l; eassumption.
    - apply lt_hd_iright; [rewrite map_length; lia|assumption].
    - apply sorted_app_r in Hs. eapply sorted_app_l; eassumption.
  Qed.

  (* found at a separator / leaf key: everything before it is smaller than k *)
  Lemma found_pre pre k' v' post k :
    sorted (pre ++ (k', v') :: post) -> cmp k k' = Eq -> gt_all k pre.
  Proof.
    intros Hs He. apply (gt_all_snoc_eq cmp L k pre (k', v')); [|assumption].
    rewrite app_cons_assoc in Hs. eapply sorted_app_l; eassumption.
  Qed.

  Lemma sm_del_absent m k : sm_contains m k = false -> sm_del m k = m.
  Proof.
    unfold SMap.sm_contains. induction m as [|[k' v'] m IH]; simpl; [reflexivity|].
    destruct (cmp k k'); try discriminate; auto.
    intros H. rewrite IH; auto.
  Qed.

  Lemma app_mid_assoc {A} (P X Y Q : list A) a : P ++ X ++ a :: Y ++ Q = P ++ (X ++ a :: Y) ++ Q.
  Proof. rewrite <- (app_assoc X). reflexivity. Qed.

  Lemma inorder_last id (kvs : list (K * V)) (A : list node) x :
    length kvs = length A ->
    inorder (Node id kvs (A ++ [x])) = ileft (map inorder A) kvs ++ inorder x.
  Proof.
    intros H. rewrite <- (app_nil_r kvs) at 1. rewrite inorder_one by auto.
    cbn [map iright]. rewrite app_nil_r. reflexivity.
  Qed.

  Section Guarded.
  Hypothesis Hmin : 1 <= minKVs.
  Hypothesis Hmax : 2 * minKVs <= maxKVs.

  (* ---------------- Put ---------------- *)

  Definition res_inorder (r : ins_res K V) : list (K * V) :=
    match r with
    | Upd x => inorder x
    | Ins x => inorder x
    | Split l s r => inorder l ++ s :: inorder r
    end.

  Definition res_is_upd (r : ins_res K V) : bool :=
    match r with Upd _ => true | _ => false end.

  Lemma split_inorder id rid (kvs : list (K * V)) (cs : list node) :
    median_idx maxKVs < length kvs -> (cs = [] \/ length cs = S (length kvs)) ->
    res_inorder (split_node id rid kvs cs) = inorder (Node id kvs cs) /\
    res_is_upd (split_node id rid kvs cs) = false.
  Proof.
    intros Hm Hcs. split; [|reflexivity].
    unfold BTree.split_node. set (m := median_idx maxKVs) in *. cbn [res_inorder].
    destruct (nth_error_lt_some kvs m Hm) as [s Hs].
    rewrite (nth_error_nth kvs m _ Hs).
    destruct Hcs as [->|Hl].
    - rewrite firstn_nil, skipn_nil, !inorder_leaf. symmetry. apply split_at_nth; assumption.
    - assert (Hc1 : firstn (S m) cs <> []).
      { intros E. apply (f_equal (@length _)) in E. rewrite firstn_length in E. cbn [length] in E. lia. }
      assert (Hc2 : skipn (S m) cs <> []).
      { intros E. apply (f_equal (@length _)) in E. rewrite skipn_length in E. cbn [length] in E. lia. }
      assert (Hc : cs <> []) by (intros ->; discriminate).
      rewrite !inorder_internal by assumption.
      rewrite (split_at_nth kvs m s Hs) at 3.
      rewrite <- (firstn_skipn (S m) cs) at 3. rewrite map_app.
      rewrite interleave_two; [reflexivity|].
      rewrite map_length, !firstn_length. lia.
  Qed.

  Theorem ins_inorder d : forall x k v fresh,
      shaped d x -> sorted (inorder x) ->
      res_inorder (fst (ins x k v fresh)) = sm_put (inorder x) k v /\
      res_is_upd (fst (ins x k v fresh)) = sm_contains (inorder x) k.
  Proof.
    pose proof (median_bounds minKVs maxKVs Hmin Hmax) as [M1 M2].
    induction d as [|d IH]; intros [id kvs cs] k v fresh Hs Hso.
    - pose proof Hs as Hs0. apply shaped_0_inv in Hs. destruct Hs as [Hlen ->].
      pose proof (ins_spec_holds cmp kzero vzero maxKVs id kvs [] k v fresh (or_introl eq_refl)) as HS.
      remember (ins (Node id kvs []) k v fresh) as res eqn:Eres. clear Eres.
      rewrite inorder_leaf in *.
      destruct HS as [KA k' v' KB Hk Hg He
                     |KA KB Hc Hk Hg Hl Hn
                     |KA KB Hc Hk Hg Hl Hn
                     |KA KB A c B c' fresh' Hk Hc
                     |KA KB A c B c' fresh' Hk Hc
                     |KA KB A c B l s r fresh' Hk Hc
                     |KA KB A c B l s r fresh' Hk Hc];
        try (destruct A; discriminate); cbn [fst].
      + subst kvs. cbn [res_inorder res_is_upd]. rewrite inorder_leaf.
        unfold SMap.sm_contains. rewrite (sm_put_at cmp k v KA k' v' KB Hg He).
        rewrite (sm_find_at cmp k KA k' v' KB Hg He). auto.
      + subst kvs. cbn [res_inorder res_is_upd]. rewrite inorder_leaf.
        unfold SMap.sm_contains.
        pose proof (sm_put_mid cmp k v KA [] KB Hg Hl) as Hp.
        pose proof (sm_find_mid cmp k KA [] KB Hg Hl) as Hf. cbn [app] in Hp, Hf.
        rewrite Hp, Hf. auto.
      + subst kvs.
        pose proof (sm_put_mid cmp k v KA [] KB Hg Hl) as Hp.
        pose proof (sm_find_mid cmp k KA [] KB Hg Hl) as Hf. cbn [app] in Hp, Hf.
        unfold SMap.sm_contains. rewrite Hp, Hf.
        rewrite app_length in *.
        destruct (split_inorder id fresh (KA ++ (k, v) :: KB) [])
          as [E1 E2]; [rewrite app_length; cbn [length]; lia|auto|].
        rewrite E1, E2, inorder_leaf. auto.
    - pose proof Hs as Hs0. pose proof (shaped_cs _ _ _ _ _ _ Hs) as Hcs.
      apply shaped_S_inv in Hs. destruct Hs as (Hlen & Hlc & F).
      pose proof (ins_spec_holds cmp kzero vzero maxKVs id kvs cs k v fresh Hcs) as HS.
      remember (ins (Node id kvs cs) k v fresh) as res eqn:Eres. clear Eres.
      destruct HS as [KA k' v' KB Hk Hg He
                     |KA KB Hc Hk Hg Hl Hn
                     |KA KB Hc Hk Hg Hl Hn
                     |KA KB A c B c' fresh' Hk Hc HlA HlB Hg Hl Hi
                     |KA KB A c B c' fresh' Hk Hc HlA HlB Hg Hl Hi
                     |KA KB A c B l s r fresh' Hk Hc HlA HlB Hg Hl Hi Hn
                     |KA KB A c B l s r fresh' Hk Hc HlA HlB Hg Hl Hi Hn];
        try (subst cs; discriminate); cbn [fst].
      + (* found at a separator *)
        subst kvs. destruct (inorder_sep _ _ _ _ _ _ Hs0) as (pre & post & Hio).
        cbn [res_inorder res_is_upd]. rewrite !Hio in *.
        pose proof (found_pre pre k' v' post k Hso He) as Hgp.
        unfold SMap.sm_contains. rewrite (sm_put_at cmp k v pre k' v' post Hgp He).
        rewrite (sm_find_at cmp k pre k' v' post Hgp He). auto.
      + (* child updated in place *)
        subst kvs cs.
        destruct (node_mid id KA KB A c B k HlA HlB Hso Hg Hl) as (Hio & Hgp & Hlp & Hsc).
        apply Forall_app in F. destruct F as [FA F]. inversion F as [|? ? [Hcm Hcs'] FB]; subst.
        destruct (IH c k v fresh Hcs' Hsc) as [I1 I2]. rewrite Hi in I1, I2.
        cbn [fst res_inorder res_is_upd] in *.
        rewrite Hio, inorder_one by assumption. unfold SMap.sm_contains in *.
        rewrite (sm_put_mid cmp k v _ _ _ Hgp Hlp), (sm_find_mid cmp k _ _ _ Hgp Hlp).
        rewrite I1. auto.
      + subst kvs cs.
        destruct (node_mid id KA KB A c B k HlA HlB Hso Hg Hl) as (Hio & Hgp & Hlp & Hsc).
        apply Forall_app in F. destruct F as [FA F]. inversion F as [|? ? [Hcm Hcs'] FB]; subst.
        destruct (IH c k v fresh Hcs' Hsc) as [I1 I2]. rewrite Hi in I1, I2.
        cbn [fst res_inorder res_is_upd] in *.
        rewrite Hio, inorder_one by assumption. unfold SMap.sm_contains in *.
        rewrite (sm_put_mid cmp k v _ _ _ Hgp Hlp), (sm_find_mid cmp k _ _ _ Hgp Hlp).
        rewrite I1. auto.
      + (* child split, absorbed here *)
        subst kvs cs.
        destruct (node_mid id KA KB A c B k HlA HlB Hso Hg Hl) as (Hio & Hgp & Hlp & Hsc).
        apply Forall_app in F. destruct F as [FA F]. inversion F as [|? ? [Hcm Hcs'] FB]; subst.
        destruct (IH c k v fresh Hcs' Hsc) as [I1 I2]. rewrite Hi in I1, I2.
        cbn [fst res_inorder res_is_upd] in *.
        rewrite Hio, inorder_two by assumption. unfold SMap.sm_contains in *.
        rewrite (sm_put_mid cmp k v _ _ _ Hgp Hlp), (sm_find_mid cmp k _ _ _ Hgp Hlp).
        rewrite <- I1, <- app_assoc. auto.
      + (* child split, this node splits too: the separator lands at the child's position *)
        subst kvs cs.
        destruct (node_mid id KA KB A c B k HlA HlB Hso Hg Hl) as (Hio & Hgp & Hlp & Hsc).
        apply Forall_app in F. destruct F as [FA F]. inversion F as [|? ? [Hcm Hcs'] FB]; subst.
        destruct (IH c k v fresh Hcs' Hsc) as [I1 I2]. rewrite Hi in I1, I2.
        cbn [fst res_inorder res_is_upd] in *.
        (* position of the new separator *)
        assert (Hnew : sorted (ileft (map inorder A) KA ++ (inorder l ++ s :: inorder r)
                               ++ iright KB (map inorder B))).
        { rewrite I1. rewrite <- (sm_put_mid cmp k v _ _ _ Hgp Hlp), <- Hio.
          apply sorted_sm_put; assumption. }
        assert (Hgs : gt_all (fst s) KA).
        { apply sorted_app in Hnew. destruct Hnew as (_ & _ & C).
          apply Forall_forall. intros x Hx. apply (cmp_gt_lt cmp L). apply (C x s).
          - apply in_ileft_sep; [rewrite map_length; lia|assumption].
          - apply in_or_app. left. apply in_or_app. right. simpl; auto. }
        assert (Hls : lt_hd (fst s) KB).
        { destruct KB as [|b KB]; [exact I|]. cbn [lt_hd].
          destruct B as [|b0 B]; [discriminate|].
          apply sorted_app_r in Hnew. rewrite <- app_assoc in Hnew. apply sorted_app_r in Hnew.
          cbn [app map iright] in Hnew. destruct Hnew as [Fs _].
          apply Forall_app in Fs. destruct Fs as [_ Fs]. inversion Fs; assumption. }
        rewrite (lt_idx_spec cmp (fst s) KA KB Hgs Hls).
        rewrite insert_at_app_mid by reflexivity. rewrite HlA.
        rewrite insert_at_app_mid_S by reflexivity.
        rewrite !app_length in *. cbn [length] in *.
        destruct (split_inorder id fresh' (KA ++ s :: KB) (A ++ l :: r :: B)) as [E1 E2].
        * rewrite app_length. cbn [length]. lia.
        * right. rewrite !app_length. cbn [length]. lia.
        * rewrite E1, E2, Hio, inorder_two by assumption. unfold SMap.sm_contains in *.
          rewrite (sm_put_mid cmp k v _ _ _ Hgp Hlp), (sm_find_mid cmp k _ _ _ Hgp Hlp).
          rewrite <- I1, <- app_assoc. auto.
  Qed.


  (* ---------------- Delete ---------------- *)

  Lemma rotl_inorder d (c r : node) (s : K * V) :
    shaped d c -> shaped d r -> 1 <= nkeys r ->
    inorder (rotl_child c r s) ++ nth 0 (nkvs r) kvzero :: inorder (rotl_sib r) =
    inorder c ++ s :: inorder r.
  Proof.
    destruct c as [ci ck cc], r as [ri rk rc]. unfold rotl_child, rotl_sib. nk.
    intros Hc Hr Hn. destruct rk as [|r0 rk]; [simpl in Hn; lia|].
    cbn [nth]. change (skipn 1 (r0 :: rk)) with rk.
    destruct d as [|d].
    - apply shaped_0_inv in Hc. apply shaped_0_inv in Hr.
      destruct Hc as [_ ->], Hr as [_ ->]. rewrite firstn_nil, skipn_nil. cbn [app].
      rewrite !inorder_leaf, <- app_assoc. reflexivity.
    - apply shaped_S_inv in Hc. apply shaped_S_inv in Hr.
      destruct Hc as (_ & Hcc & _), Hr as (_ & Hrc & _). cbn [length] in Hrc.
      destruct rc as [|rc0 rc]; [discriminate|]. cbn [length] in Hrc.
      change (firstn 1 (rc0 :: rc)) with [rc0]. change (skipn 1 (rc0 :: rc)) with rc.
      rewrite (inorder_internal ci _ (cc ++ [rc0])) by (destruct cc; discriminate).
      rewrite (inorder_internal ri rk rc) by (destruct rc; [discriminate|discriminate]).
      rewrite (inorder_internal ci ck cc) by (destruct cc; [discriminate|discriminate]).
      rewrite (inorder_internal ri (r0 :: rk) (rc0 :: rc)) by discriminate.
      rewrite map_app. cbn [map].
      rewrite interleave_two by (rewrite map_length; lia).
      cbn [interleave]. rewrite app_nil_r, <- !app_assoc. reflexivity.
  Qed.

  Lemma rotr_inorder d (l c : node) (s : K * V) :
    shaped d l -> shaped d c -> 1 <= nkeys l ->
    inorder (rotr_sib l) ++ nth (pred (nkeys l)) (nkvs l) kvzero :: inorder (rotr_child l c s) =
    inorder l ++ s :: inorder c.
  Proof.
    destruct c as [ci ck cc], l as [li lk lc]. unfold rotr_child, rotr_sib. nk.
    intros Hl Hc Hn.
    destruct (rev_case lk) as [->|(lk' & kl & ->)]; [simpl in Hn; lia|].
    rewrite length_snoc. cbn [pred].
    rewrite (nth_app_mid lk' [] kl _ (length lk') eq_refl).
    rewrite (firstn_app_exact lk' [kl] (length lk') eq_refl).
    destruct d as [|d].
    - apply shaped_0_inv in Hc. apply shaped_0_inv in Hl.
      destruct Hc as [_ ->], Hl as [_ ->]. rewrite firstn_nil, skipn_nil. cbn [app].
      rewrite !inorder_leaf, <- app_assoc. reflexivity.
    - apply shaped_S_inv in Hc. apply shaped_S_inv in Hl.
      destruct Hc as (_ & Hcc & _), Hl as (_ & Hlc & _). rewrite length_snoc in Hlc.
      destruct (rev_case lc) as [->|(lc' & cl & ->)]; [discriminate|].
      rewrite length_snoc in Hlc.
      rewrite (firstn_app_exact lc' [cl] (S (length lk')) ltac:(lia)).
      rewrite (skipn_app_exact lc' [cl] (S (length lk')) ltac:(lia)).
      rewrite (inorder_internal li lk' lc') by (destruct lc'; discriminate).
      rewrite (inorder_internal ci (s :: ck) ([cl] ++ cc)) by discriminate.
      rewrite (inorder_internal li (lk' ++ [kl]) (lc' ++ [cl])) by (destruct lc'; discriminate).
      rewrite (inorder_internal ci ck cc) by (destruct cc; discriminate).
      rewrite !map_app.
      rewrite interleave_two by (rewrite map_length; lia).
      cbn [map app interleave]. rewrite app_nil_r, <- !app_assoc. reflexivity.
  Qed.

  Lemma merged_inorder d (a b : node) (s : K * V) :
    shaped d a -> shaped d b -> inorder (merged a b s) = inorder a ++ s :: inorder b.
  Proof.
    destruct a as [ai ak ac], b as [bi bk bc]. unfold merged. nk. intros Ha Hb.
    destruct d as [|d].
    - apply shaped_0_inv in Ha. apply shaped_0_inv in Hb.
      destruct Ha as [_ ->], Hb as [_ ->]. reflexivity.
    - apply shaped_S_inv in Ha. apply shaped_S_inv in Hb.
      destruct Ha as (_ & Hac & _), Hb as (_ & Hbc & _).
      rewrite (inorder_internal ai _ (ac ++ bc)) by (destruct ac; discriminate).
      rewrite (inorder_internal ai ak ac) by (destruct ac; discriminate).
      rewrite (inorder_internal bi bk bc) by (destruct bc; discriminate).
      rewrite map_app. apply interleave_two. rewrite map_length. assumption.
  Qed.

  Lemma fix_inorder d id (kvs : list (K * V)) (A : list node) (c : node) (B : list node) :
    length (A ++ c :: B) = S (length kvs) -> 1 <= length kvs ->
    Forall (okc d) A -> Forall (okc d) B -> shaped d c ->
    inorder (fix_child id kvs (A ++ c :: B) (length A)) = inorder (Node id kvs (A ++ c :: B)).
  Proof.
    intros Hl Hne FA FB Hc.
    pose proof (fix_spec_holds kzero vzero minKVs id kvs A c B Hl Hne) as HS.
    remember (fix_child id kvs (A ++ c :: B) (length A)) as x' eqn:Ex. clear Ex.
    rewrite app_length in Hl. cbn [length] in Hl.
    destruct HS as [Hok
                   |KA s KB r B' Hk HB HlK Hlt Hr
                   |KA s KB A' l Hk HA HlK Hlt Hll
                   |KA s KB A' l Hk HA HlK Hlt Hll
                   |s KB r B' Hk HA HB Hlt Hr].
    - reflexivity.
    - subst kvs B. inversion FB as [|? ? [Fr0 Fr1] FB']; subst.
      rewrite app_length in Hl. cbn [length] in Hl.
      rewrite !inorder_two by lia. rewrite !app_mid_assoc.
      rewrite (rotl_inorder d c r s Hc Fr1 ltac:(lia)). reflexivity.
    - subst kvs A. apply Forall_app in FA. destruct FA as [FA' Fl].
      inversion Fl as [|? ? [Fl0 Fl1] _]; subst.
      rewrite app_length in Hl. rewrite !app_length in Hl. cbn [length] in Hl.
      rewrite <- (app_assoc A' [l]). cbn [app].
      rewrite !inorder_two by lia. rewrite !app_mid_assoc.
      rewrite (rotr_inorder d l c s Fl1 Hc ltac:(lia)). reflexivity.
    - subst kvs A. apply Forall_app in FA. destruct FA as [FA' Fl].
      inversion Fl as [|? ? [Fl0 Fl1] _]; subst.
      rewrite app_length in Hl. rewrite !app_length in Hl. cbn [length] in Hl.
      rewrite <- (app_assoc A' [l]). cbn [app].
      rewrite inorder_two, inorder_one by lia. rewrite app_mid_assoc.
      rewrite (merged_inorder d l c s Fl1 Hc). reflexivity.
    - subst kvs A B. inversion FB as [|? ? [Fr0 Fr1] FB']; subst.
      cbn [length app] in *.
      pose proof (inorder_one id [] KB [] (merged c r s) B' eq_refl ltac:(lia)) as H1.
      pose proof (inorder_two id [] KB s [] c r B' eq_refl ltac:(lia)) as H2.
      cbn [app] in H1, H2. rewrite H1, H2.
      rewrite (merged_inorder d c r s Hc Fr1). cbn [map ileft app].
      rewrite <- app_assoc. reflexivity.
  Qed.

  Theorem rr_inorder d : forall x,
      shaped d x -> 1 <= nkeys x ->
      inorder x = inorder (fst (remove_rightmost x)) ++ [snd (remove_rightmost x)].
  Proof.
    induction d as [|d IH]; intros [id kvs cs] Hs Hne.
    - apply shaped_0_inv in Hs. destruct Hs as [Hlen ->]. rewrite rr_leaf_unfold. cbn [fst snd].
      rewrite !inorder_leaf. apply app_removelast_last. nk.
      destruct kvs; [simpl in Hne; lia|discriminate].
    - apply shaped_S_inv in Hs. destruct Hs as (Hlen & Hlc & F).
      destruct (rev_case cs) as [->|(A & c & ->)]; [discriminate|].
      rewrite length_snoc in Hlc. apply Forall_app in F. destruct F as [FA Fc].
      inversion Fc as [|? ? [Hcm Hcs] _]; subst.
      pose proof (IH c Hcs ltac:(lia)) as Hc.
      pose proof (rr_shaped kzero vzero minKVs maxKVs Hmin Hmax d c Hcs ltac:(lia)) as Hsh.
      unfold rr_shape in Hsh.
      destruct (remove_rightmost c) as [c' kv] eqn:Er. cbn [fst snd] in Hc, Hsh.
      destruct Hsh as [Hsh1 Hsh2].
      rewrite (rr_internal kzero vzero minKVs id kvs A c c' kv ltac:(lia) Er). cbn [fst snd].
      nk.
      rewrite (fix_inorder d id kvs A c' []); auto.
      + rewrite !inorder_last by lia. rewrite Hc, app_assoc. reflexivity.
      + rewrite length_snoc. lia.
  Qed.

  Theorem del_inorder d : forall x k,
      shaped d x -> (d <> 0 -> 1 <= nkeys x) -> sorted (inorder x) ->
      inorder (fst (del x k)) = sm_del (inorder x) k /\
      snd (del x k) = sm_contains (inorder x) k.
  Proof.
    induction d as [|d IH]; intros [id kvs cs] k Hs Hne Hso.
    - apply shaped_0_inv in Hs. destruct Hs as [Hlen ->].
      pose proof (del_spec_holds cmp kzero vzero minKVs id kvs [] k (or_introl eq_refl)) as HS.
      remember (del (Node id kvs []) k) as res eqn:Eres. clear Eres.
      rewrite inorder_leaf in *. unfold SMap.sm_contains.
      destruct HS as [KA k' v' KB Hc Hk Hg He
                     |KA KB Hc Hk Hg Hl
                     |KA k' v' KB A c B c' kv Hk Hc
                     |KA KB A c B c' Hk Hc
                     |KA KB A c B c' Hk Hc];
        try (destruct A; discriminate); cbn [fst snd]; rewrite inorder_leaf.
      + subst kvs. rewrite (sm_del_at cmp k KA k' v' KB Hg He), (sm_find_at cmp k KA k' v' KB Hg He).
        auto.
      + subst kvs.
        pose proof (sm_del_mid cmp k KA [] KB Hg Hl) as Hp.
        pose proof (sm_find_mid cmp k KA [] KB Hg Hl) as Hf. cbn [app] in Hp, Hf.
        rewrite Hp, Hf. auto.
    - pose proof Hs as Hs0. pose proof (shaped_cs _ _ _ _ _ _ Hs) as Hcs.
      apply shaped_S_inv in Hs. destruct Hs as (Hlen & Hlc & F).
      specialize (Hne ltac:(lia)). nk.
      pose proof (del_spec_holds cmp kzero vzero minKVs id kvs cs k Hcs) as HS.
      remember (del (Node id kvs cs) k) as res eqn:Eres. clear Eres.
      unfold SMap.sm_contains.
      destruct HS as [KA k' v' KB Hc Hk Hg He
                     |KA KB Hc Hk Hg Hl
                     |KA k' v' KB A c B c' kv Hk Hc HlA HlB Hg He Hr
                     |KA KB A c B c' Hk Hc HlA HlB Hg Hl Hd
                     |KA KB A c B c' Hk Hc HlA HlB Hg Hl Hd];
        try (subst cs; discriminate); cbn [fst snd].
      + (* found at a separator: the predecessor replaces it *)
        subst kvs cs. apply Forall_app in F. destruct F as [FA F].
        inversion F as [|? ? [Hcm Hcs'] FB]; subst.
        destruct B as [|b0 B']; [discriminate|]. cbn [length] in HlB.
        pose proof (rr_inorder d c Hcs' ltac:(lia)) as Hc'.
        pose proof (rr_shaped kzero vzero minKVs maxKVs Hmin Hmax d c Hcs' ltac:(lia)) as Hsh.
        unfold rr_shape in Hsh. rewrite Hr in Hc', Hsh. cbn [fst snd] in Hc', Hsh.
        destruct Hsh as [Hsh1 Hsh2].
        rewrite !app_length in *. cbn [length] in *.
        rewrite (fix_inorder d id (KA ++ kv :: KB) A c' (b0 :: B')); auto;
          [|rewrite !app_length; cbn [length]; lia|rewrite !app_length; cbn [length]; lia].
        rewrite !inorder_two in * by lia.
        rewrite Hc' in *.
        set (P := ileft (map inorder A) KA) in *.
        set (Q := inorder b0 ++ iright KB (map inorder B')) in *.
        assert (E : P ++ (inorder c' ++ [kv]) ++ (k', v') :: Q =
                    (P ++ inorder c' ++ [kv]) ++ (k', v') :: Q)
          by (rewrite <- !app_assoc; reflexivity).
        rewrite E in *.
        pose proof (found_pre _ k' v' Q k Hso He) as Hgp.
        rewrite (sm_del_at cmp k _ k' v' Q Hgp He), (sm_find_at cmp k _ k' v' Q Hgp He).
        rewrite <- !app_assoc. auto.
      + (* removed below *)
        subst kvs cs.
        destruct (node_mid id KA KB A c B k HlA HlB Hso Hg Hl) as (Hio & Hgp & Hlp & Hsc).
        apply Forall_app in F. destruct F as [FA F]. inversion F as [|? ? [Hcm Hcs'] FB]; subst.
        destruct (IH c k Hcs' ltac:(intros _; nk; lia) Hsc) as [I1 I2].
        pose proof (del_shaped cmp kzero vzero minKVs maxKVs Hmin Hmax d c k Hcs'
                      ltac:(intros _; lia)) as Hsh.
        unfold del_shape in Hsh. rewrite Hd in I1, I2, Hsh. cbn [fst snd] in I1, I2, Hsh.
        destruct Hsh as [Hsh1 Hsh2].
        rewrite !app_length in *. cbn [length] in *.
        rewrite (fix_inorder d id (KA ++ KB) A c' B); auto;
          [|rewrite !app_length; cbn [length]; lia|rewrite !app_length; lia].
        rewrite Hio, inorder_one by assumption. unfold SMap.sm_contains in I2.
        rewrite (sm_del_mid cmp k _ _ _ Hgp Hlp), (sm_find_mid cmp k _ _ _ Hgp Hlp).
        rewrite I1. auto.
      + (* not found *)
        subst kvs cs.
        destruct (node_mid id KA KB A c B k HlA HlB Hso Hg Hl) as (Hio & Hgp & Hlp & Hsc).
        apply Forall_app in F. destruct F as [FA F]. inversion F as [|? ? [Hcm Hcs'] FB]; subst.
        destruct (IH c k Hcs' ltac:(intros _; nk; lia) Hsc) as [I1 I2].
        rewrite Hd in I1, I2. cbn [fst snd] in I1, I2.
        rewrite Hio. unfold SMap.sm_contains in I2.
        rewrite (sm_del_mid cmp k _ _ _ Hgp Hlp), (sm_find_mid cmp k _ _ _ Hgp Hlp).
        rewrite (sm_del_absent (inorder c) k); [auto|].
        unfold SMap.sm_contains. symmetry. exact I2.
  Qed.

  End Guarded.
End Inorder.
