(* Shared list lemmas for the B-tree proofs: nth_map, insert_at / remove_at / set_at, Forall,
   sums over lists, the decomposition of `interleave`, and the nested induction principle of
   `node`.  No model definitions are changed here; everything is about Bound.v / BTree.v helpers.
   (Shared with the cursor proofs: only generally useful facts live in this file.) *)
From Juniper Require Import Common.Base Tree.Bound Tree.BTree.
From Coq Require Import Arith PeanoNat.
Local Open Scope nat_scope.

(* ---------------- nth_map ---------------- *)

Lemma nth_map_spec {A B} (f : A -> B) (d : B) (l : list A) (i : nat) :
  nth_map f d l i = match nth_error l i with Some c => f c | None => d end.
Proof. revert i; induction l as [|x l IH]; intros [|i]; simpl; auto. Qed.

Lemma nth_map_some {A B} (f : A -> B) (d : B) (l : list A) (i : nat) c :
  nth_error l i = Some c -> nth_map f d l i = f c.
Proof. intros H; rewrite nth_map_spec, H; reflexivity. Qed.

Lemma nth_map_none {A B} (f : A -> B) (d : B) (l : list A) (i : nat) :
  nth_error l i = None -> nth_map f d l i = d.
Proof. intros H; rewrite nth_map_spec, H; reflexivity. Qed.

Lemma nth_error_lt_some {A} (l : list A) i : i < length l -> exists x, nth_error l i = Some x.
Proof.
  intros H. destruct (nth_error l i) eqn:E; [eauto|].
  apply nth_error_None in E; lia.
Qed.

Lemma nth_error_some_lt {A} (l : list A) i x : nth_error l i = Some x -> i < length l.
Proof. intros H. apply nth_error_Some. congruence. Qed.

Lemma nth_error_nth' {A} (l : list A) i x d : nth_error l i = Some x -> nth i l d = x.
Proof. apply nth_error_nth. Qed.

(* ---------------- firstn / skipn ---------------- *)

Lemma len_firstn_skipn {A} (l : list A) i : length (firstn i l) + length (skipn i l) = length l.
Proof. rewrite <- (firstn_skipn i l) at 3. rewrite app_length. reflexivity. Qed.

Lemma len_firstn_le {A} (l : list A) i : i <= length l -> length (firstn i l) = i.
Proof. intros H. rewrite firstn_length. lia. Qed.

Lemma skipn_nth_cons {A} (l : list A) i x :
  nth_error l i = Some x -> skipn i l = x :: skipn (S i) l.
Proof.
  revert i; induction l as [|a l IH]; intros [|i] H; simpl in *; try discriminate.
  - congruence.
  - apply IH; assumption.
Qed.

Lemma split_at_nth {A} (l : list A) i x :
  nth_error l i = Some x -> l = firstn i l ++ x :: skipn (S i) l.
Proof.
  intros H. rewrite <- (skipn_nth_cons l i x H). symmetry; apply firstn_skipn.
Qed.

Lemma firstn_S_snoc {A} (l : list A) i x :
  nth_error l i = Some x -> firstn (S i) l = firstn i l ++ [x].
Proof.
  revert i; induction l as [|a l IH]; intros [|i] H; simpl in *; try discriminate.
  - congruence.
  - f_equal. apply IH; assumption.
Qed.

Lemma nth_error_firstn {A} (l : list A) n i : i < n -> nth_error (firstn n l) i = nth_error l i.
Proof.
  revert n i; induction l as [|a l IH]; intros [|n] [|i] H; simpl; auto; try lia.
  apply IH; lia.
Qed.

Lemma nth_error_skipn {A} (l : list A) n i : nth_error (skipn n l) i = nth_error l (n + i).
Proof.
  revert n; induction l as [|a l IH]; intros [|n]; simpl; auto.
  destruct i; reflexivity.
Qed.

Lemma hd_error_skipn {A} (l : list A) n : hd_error (skipn n l) = nth_error l n.
Proof.
  rewrite <- (Nat.add_0_r n) at 2. rewrite <- nth_error_skipn.
  destruct (skipn n l); reflexivity.
Qed.

(* ---------------- insert_at / remove_at / set_at ---------------- *)

Lemma insert_at_0 {A} (x : A) l : insert_at 0 x l = x :: l.
Proof. reflexivity. Qed.
Lemma insert_at_S {A} i (x a : A) l : insert_at (S i) x (a :: l) = a :: insert_at i x l.
Proof. reflexivity. Qed.
Lemma set_at_0 {A} (x a : A) l : set_at 0 x (a :: l) = x :: l.
Proof. reflexivity. Qed.
Lemma set_at_S {A} i (x a : A) l : set_at (S i) x (a :: l) = a :: set_at i x l.
Proof. reflexivity. Qed.
Lemma remove_at_0 {A} (a : A) l : remove_at 0 (a :: l) = l.
Proof. reflexivity. Qed.
Lemma remove_at_S {A} i (a : A) l : remove_at (S i) (a :: l) = a :: remove_at i l.
Proof. reflexivity. Qed.

Lemma length_insert_at {A} i (x : A) l : length (insert_at i x l) = S (length l).
Proof.
  unfold insert_at. rewrite app_length. simpl. pose proof (len_firstn_skipn l i). lia.
Qed.

Lemma length_set_at {A} i (x : A) l : i < length l -> length (set_at i x l) = length l.
Proof.
  intros H. unfold set_at. rewrite app_length. cbn [length].
  rewrite firstn_length, skipn_length. lia.
Qed.

Lemma length_remove_at {A} i (l : list A) : i < length l -> S (length (remove_at i l)) = length l.
Proof.
  intros H. unfold remove_at. rewrite app_length.
  rewrite firstn_length, skipn_length. lia.
Qed.

Lemma nth_error_set_at_eq {A} i (x : A) l : i < length l -> nth_error (set_at i x l) i = Some x.
Proof.
  revert i; induction l as [|a l IH]; intros [|i] H; cbn [length] in *; try lia; auto.
  rewrite set_at_S. simpl. apply IH; lia.
Qed.

Lemma nth_error_set_at_neq {A} i j (x : A) l :
  i < length l -> i <> j -> nth_error (set_at i x l) j = nth_error l j.
Proof.
  revert i j; induction l as [|a l IH]; intros [|i] [|j] H Hn; cbn [length] in *; try lia; auto.
  rewrite set_at_S. simpl. apply IH; lia.
Qed.

Lemma set_at_same {A} i (x : A) l : nth_error l i = Some x -> set_at i x l = l.
Proof. intros H. unfold set_at. symmetry. apply split_at_nth; assumption. Qed.

Lemma set_at_set_at {A} i (x y : A) l : i < length l -> set_at i x (set_at i y l) = set_at i x l.
Proof.
  revert i; induction l as [|a l IH]; intros [|i] H; cbn [length] in *; try lia; auto.
  rewrite !set_at_S. f_equal. apply IH; lia.
Qed.

Lemma set_at_comm {A} i j (x y : A) l :
  i < length l -> j < length l -> i <> j ->
  set_at i x (set_at j y l) = set_at j y (set_at i x l).
Proof.
  revert i j; induction l as [|a l IH]; intros [|i] [|j] Hi Hj Hn; cbn [length] in *; try lia; auto.
  rewrite !set_at_S. f_equal. apply IH; lia.
Qed.

Lemma map_set_at {A B} (f : A -> B) i x l : map f (set_at i x l) = set_at i (f x) (map f l).
Proof. unfold set_at. rewrite map_app. cbn [map]. rewrite firstn_map, skipn_map. reflexivity. Qed.

Lemma map_insert_at {A B} (f : A -> B) i x l :
  map f (insert_at i x l) = insert_at i (f x) (map f l).
Proof. unfold insert_at. rewrite map_app. cbn [map]. rewrite firstn_map, skipn_map. reflexivity. Qed.

Lemma map_remove_at {A B} (f : A -> B) i l : map f (remove_at i l) = remove_at i (map f l).
Proof. unfold remove_at. rewrite map_app. rewrite firstn_map, skipn_map. reflexivity. Qed.

(* children after a child split: l replaces child i, r goes right after it *)
Lemma insert_after_set {A} i (a b : A) l :
  i < length l ->
  insert_at (S i) b (set_at i a l) = firstn i l ++ a :: b :: skipn (S i) l.
Proof.
  revert i; induction l as [|c l IH]; intros [|i] H; cbn [length] in *; try lia; auto.
  rewrite set_at_S, insert_at_S, firstn_cons, skipn_cons, <- app_comm_cons. f_equal. apply IH; lia.
Qed.

Lemma firstn_set_at_le {A} n i (x : A) l : n <= i -> i < length l -> firstn n (set_at i x l) = firstn n l.
Proof.
  revert n i; induction l as [|a l IH]; intros [|n] [|i] H Hl; cbn [length] in *; try lia; auto.
  rewrite set_at_S, !firstn_cons. f_equal. apply IH; lia.
Qed.

Lemma skipn_set_at_gt {A} n i (x : A) l : i < n -> i < length l -> skipn n (set_at i x l) = skipn n l.
Proof.
  revert n i; induction l as [|a l IH]; intros [|n] [|i] H Hl; cbn [length] in *; try lia; auto.
  rewrite set_at_S. simpl. apply IH; lia.
Qed.

(* ---------------- positions in l1 ++ x :: l2 ---------------- *)

Lemma firstn_app_exact {A} (l1 l2 : list A) n : length l1 = n -> firstn n (l1 ++ l2) = l1.
Proof.
  intros <-. induction l1 as [|a l1 IH]; [reflexivity|].
  cbn [length app]. rewrite firstn_cons, IH. reflexivity.
Qed.

Lemma skipn_app_exact {A} (l1 l2 : list A) n : length l1 = n -> skipn n (l1 ++ l2) = l2.
Proof.
  intros <-. induction l1 as [|a l1 IH]; [reflexivity|].
  cbn [length app]. rewrite skipn_cons, IH. reflexivity.
Qed.

Lemma skipn_S_app_mid {A} (l1 l2 : list A) x n : length l1 = n -> skipn (S n) (l1 ++ x :: l2) = l2.
Proof.
  intros H. change (l1 ++ x :: l2) with (l1 ++ [x] ++ l2). rewrite app_assoc.
  apply skipn_app_exact. rewrite app_length. simpl. lia.
Qed.

Lemma nth_error_app_mid {A} (l1 l2 : list A) x i : length l1 = i -> nth_error (l1 ++ x :: l2) i = Some x.
Proof.
  intros <-. rewrite nth_error_app2 by lia. rewrite Nat.sub_diag. reflexivity.
Qed.

Lemma nth_app_mid {A} (l1 l2 : list A) x d i : length l1 = i -> nth i (l1 ++ x :: l2) d = x.
Proof. intros H. apply nth_error_nth. apply nth_error_app_mid; assumption. Qed.

Lemma set_at_app_mid {A} (l1 l2 : list A) x y i :
  length l1 = i -> set_at i y (l1 ++ x :: l2) = l1 ++ y :: l2.
Proof.
  intros H. unfold set_at. rewrite firstn_app_exact, skipn_S_app_mid by assumption. reflexivity.
Qed.

Lemma remove_at_app_mid {A} (l1 l2 : list A) x i :
  length l1 = i -> remove_at i (l1 ++ x :: l2) = l1 ++ l2.
Proof.
  intros H. unfold remove_at. rewrite firstn_app_exact, skipn_S_app_mid by assumption. reflexivity.
Qed.

Lemma insert_at_app_mid {A} (l1 l2 : list A) y i :
  length l1 = i -> insert_at i y (l1 ++ l2) = l1 ++ y :: l2.
Proof.
  intros H. unfold insert_at. rewrite firstn_app_exact, skipn_app_exact by assumption. reflexivity.
Qed.

Lemma app_cons_assoc {A} (l1 l2 : list A) x : l1 ++ x :: l2 = (l1 ++ [x]) ++ l2.
Proof. rewrite <- app_assoc. reflexivity. Qed.

Lemma length_snoc {A} (l : list A) x : length (l ++ [x]) = S (length l).
Proof. rewrite app_length. simpl. lia. Qed.

Lemma nth_error_app_mid_S {A} (l1 l2 : list A) x y i :
  length l1 = i -> nth_error (l1 ++ x :: y :: l2) (S i) = Some y.
Proof.
  intros H. rewrite app_cons_assoc. apply nth_error_app_mid. rewrite length_snoc. lia.
Qed.

Lemma nth_app_mid_S {A} (l1 l2 : list A) x y d i :
  length l1 = i -> nth (S i) (l1 ++ x :: y :: l2) d = y.
Proof. intros H. apply nth_error_nth. apply nth_error_app_mid_S; assumption. Qed.

Lemma set_at_app_mid_S {A} (l1 l2 : list A) x y z i :
  length l1 = i -> set_at (S i) z (l1 ++ x :: y :: l2) = l1 ++ x :: z :: l2.
Proof.
  intros H. rewrite app_cons_assoc, (app_cons_assoc l1 (z :: l2)).
  apply set_at_app_mid. rewrite length_snoc. lia.
Qed.

Lemma remove_at_app_mid_S {A} (l1 l2 : list A) x y i :
  length l1 = i -> remove_at (S i) (l1 ++ x :: y :: l2) = l1 ++ x :: l2.
Proof.
  intros H. rewrite app_cons_assoc, (app_cons_assoc l1 l2).
  apply remove_at_app_mid. rewrite length_snoc. lia.
Qed.

Lemma insert_at_app_mid_S {A} (l1 l2 : list A) x z i :
  length l1 = i -> insert_at (S i) z (l1 ++ x :: l2) = l1 ++ x :: z :: l2.
Proof.
  intros H. rewrite app_cons_assoc, (app_cons_assoc l1 (z :: l2)).
  apply insert_at_app_mid. rewrite length_snoc. lia.
Qed.

(* decomposition of a node's keys and children at a child position *)
Lemma decomp_at {A B} (kvs : list A) (cs : list B) idx :
  length cs = S (length kvs) -> idx <= length kvs ->
  exists KA KB CA c CB,
    kvs = KA ++ KB /\ cs = CA ++ c :: CB /\ length KA = idx /\ length CA = idx /\ length CB = length KB.
Proof.
  intros Hl Hi.
  destruct (nth_error_lt_some cs idx ltac:(lia)) as [c Hc].
  exists (firstn idx kvs), (skipn idx kvs), (firstn idx cs), c, (skipn (S idx) cs).
  repeat split.
  - symmetry; apply firstn_skipn.
  - apply split_at_nth; assumption.
  - apply len_firstn_le; assumption.
  - apply len_firstn_le; lia.
  - rewrite !skipn_length. lia.
Qed.

(* ---------------- Forall ---------------- *)

Lemma Forall_nth_error {A} (P : A -> Prop) l i x : Forall P l -> nth_error l i = Some x -> P x.
Proof. intros H E. rewrite Forall_forall in H. apply H. eapply nth_error_In; eassumption. Qed.

Lemma Forall_firstn {A} (P : A -> Prop) n l : Forall P l -> Forall P (firstn n l).
Proof.
  intros H. rewrite Forall_forall in *. intros x Hx. apply H.
  rewrite <- (firstn_skipn n l). apply in_or_app; auto.
Qed.

Lemma Forall_skipn {A} (P : A -> Prop) n l : Forall P l -> Forall P (skipn n l).
Proof.
  intros H. rewrite Forall_forall in *. intros x Hx. apply H.
  rewrite <- (firstn_skipn n l). apply in_or_app; auto.
Qed.

Lemma Forall_set_at {A} (P : A -> Prop) i x l : Forall P l -> P x -> Forall P (set_at i x l).
Proof.
  intros H Hx. unfold set_at. apply Forall_app. split; [apply Forall_firstn; assumption|].
  constructor; [assumption|apply Forall_skipn; assumption].
Qed.

Lemma Forall_insert_at {A} (P : A -> Prop) i x l : Forall P l -> P x -> Forall P (insert_at i x l).
Proof.
  intros H Hx. unfold insert_at. apply Forall_app. split; [apply Forall_firstn; assumption|].
  constructor; [assumption|apply Forall_skipn; assumption].
Qed.

Lemma Forall_remove_at {A} (P : A -> Prop) i l : Forall P l -> Forall P (remove_at i l).
Proof.
  intros H. unfold remove_at. apply Forall_app.
  split; [apply Forall_firstn|apply Forall_skipn]; assumption.
Qed.

(* Forall written as a fixpoint whose predicate is outside the fix, so that a recursive predicate
   over `node` can go through it (like nth_map / map). *)
Definition allP {A} (P : A -> Prop) : list A -> Prop :=
  fix go (l : list A) : Prop := match l with [] => True | x :: r => P x /\ go r end.

Lemma allP_Forall {A} (P : A -> Prop) l : allP P l <-> Forall P l.
Proof.
  induction l as [|x l IH]; simpl.
  - split; auto.
  - rewrite IH. split; [intros [H1 H2]; constructor; auto | intros H; inversion H; auto].
Qed.

(* ---------------- sums ---------------- *)

Definition sumf {A} (f : A -> nat) (l : list A) : nat := list_sum (map f l).

Lemma sumf_nil {A} (f : A -> nat) : sumf f [] = 0.
Proof. reflexivity. Qed.
Lemma sumf_cons {A} (f : A -> nat) x l : sumf f (x :: l) = f x + sumf f l.
Proof. reflexivity. Qed.
Lemma sumf_app {A} (f : A -> nat) l1 l2 : sumf f (l1 ++ l2) = sumf f l1 + sumf f l2.
Proof. unfold sumf. rewrite map_app, list_sum_app. reflexivity. Qed.

Lemma sumf_split {A} (f : A -> nat) i l : sumf f l = sumf f (firstn i l) + sumf f (skipn i l).
Proof. rewrite <- sumf_app, firstn_skipn. reflexivity. Qed.

Lemma sumf_split3 {A} (f : A -> nat) i l x :
  nth_error l i = Some x -> sumf f l = sumf f (firstn i l) + f x + sumf f (skipn (S i) l).
Proof.
  intros H. rewrite (split_at_nth l i x H) at 1. rewrite sumf_app, sumf_cons. lia.
Qed.

Lemma sumf_set_at {A} (f : A -> nat) i x l :
  sumf f (set_at i x l) = sumf f (firstn i l) + f x + sumf f (skipn (S i) l).
Proof. unfold set_at. rewrite sumf_app, sumf_cons. lia. Qed.

Lemma sumf_ge {A} (f : A -> nat) a l : Forall (fun x => a <= f x) l -> length l * a <= sumf f l.
Proof. unfold sumf. induction 1 as [|x l Hx _ IH]; simpl; lia. Qed.

Lemma sumf_le {A} (f : A -> nat) a l : Forall (fun x => f x <= a) l -> sumf f l <= length l * a.
Proof. unfold sumf. induction 1 as [|x l Hx _ IH]; simpl; lia. Qed.

Lemma sumf_ext_le {A} (f g : A -> nat) l : Forall (fun x => f x <= g x) l -> sumf f l <= sumf g l.
Proof. unfold sumf. induction 1 as [|x l Hx _ IH]; simpl; lia. Qed.

Lemma sumf_ext {A} (f g : A -> nat) l : Forall (fun x => f x = g x) l -> sumf f l = sumf g l.
Proof. unfold sumf. induction 1 as [|x l Hx _ IH]; simpl; lia. Qed.

Lemma sumf_zero {A} (f : A -> nat) l : Forall (fun x => f x = 0) l -> sumf f l = 0.
Proof. unfold sumf. induction 1 as [|x l Hx _ IH]; simpl; lia. Qed.

Lemma sumf_in_le {A} (f : A -> nat) l x : In x l -> f x <= sumf f l.
Proof.
  induction l as [|a l IH]; simpl; [tauto|]. rewrite sumf_cons. intros [->|H]; [lia|].
  specialize (IH H). lia.
Qed.

Lemma list_max_all_eq l h : l <> [] -> Forall (fun x => x = h) l -> list_max l = h.
Proof.
  intros Hne H. induction H as [|x l Hx Hl IH]; [congruence|].
  subst x. simpl. destruct l as [|y l]; [simpl; lia|].
  rewrite IH by congruence. lia.
Qed.

(* ---------------- interleave ---------------- *)

(* l0 s0 l1 s1 ... l(n-1) s(n-1) *)
Fixpoint ileft {A} (ls : list (list A)) (seps : list A) : list A :=
  match ls, seps with
  | l :: ls', s :: seps' => l ++ s :: ileft ls' seps'
  | _, _ => []
  end.

(* s0 l0 s1 l1 ... *)
Fixpoint iright {A} (seps : list A) (ls : list (list A)) : list A :=
  match seps, ls with
  | s :: seps', l :: ls' => s :: l ++ iright seps' ls'
  | _, _ => []
  end.

Lemma interleave_app {A} (ls1 ls2 : list (list A)) seps1 seps2 :
  length ls1 = length seps1 ->
  interleave (ls1 ++ ls2) (seps1 ++ seps2) = ileft ls1 seps1 ++ interleave ls2 seps2.
Proof.
  revert seps1; induction ls1 as [|l ls1 IH]; intros [|s seps1] H; simpl in *; try discriminate.
  - reflexivity.
  - rewrite IH by lia. rewrite <- app_assoc. reflexivity.
Qed.

Lemma interleave_cons_iright {A} (l : list A) ls seps :
  length ls = length seps -> interleave (l :: ls) seps = l ++ iright seps ls.
Proof.
  revert l ls; induction seps as [|s seps IH]; intros l [|l' ls] H; simpl in *; try discriminate.
  - reflexivity.
  - f_equal. f_equal. apply IH. lia.
Qed.

Lemma interleave_mid {A} (ls1 ls2 : list (list A)) l seps1 seps2 :
  length ls1 = length seps1 -> length ls2 = length seps2 ->
  interleave (ls1 ++ l :: ls2) (seps1 ++ seps2) = ileft ls1 seps1 ++ l ++ iright seps2 ls2.
Proof.
  intros H1 H2. rewrite interleave_app by assumption.
  rewrite interleave_cons_iright by assumption. reflexivity.
Qed.

Lemma interleave_single {A} (l : list A) : interleave [l] [] = l.
Proof. simpl. apply app_nil_r. Qed.

Lemma ileft_app {A} (ls1 ls2 : list (list A)) seps1 seps2 :
  length ls1 = length seps1 ->
  ileft (ls1 ++ ls2) (seps1 ++ seps2) = ileft ls1 seps1 ++ ileft ls2 seps2.
Proof.
  revert seps1; induction ls1 as [|l ls1 IH]; intros [|s seps1] H; simpl in *; try discriminate.
  - reflexivity.
  - rewrite IH by lia. rewrite <- app_assoc. reflexivity.
Qed.

Lemma ileft_snoc {A} (ls : list (list A)) l seps s :
  length ls = length seps -> ileft (ls ++ [l]) (seps ++ [s]) = ileft ls seps ++ l ++ [s].
Proof. intros H. rewrite ileft_app by assumption. reflexivity. Qed.

Lemma iright_app {A} (ls1 ls2 : list (list A)) seps1 seps2 :
  length ls1 = length seps1 ->
  iright (seps1 ++ seps2) (ls1 ++ ls2) = iright seps1 ls1 ++ iright seps2 ls2.
Proof.
  revert seps1; induction ls1 as [|l ls1 IH]; intros [|s seps1] H; simpl in *; try discriminate.
  - reflexivity.
  - rewrite IH by lia. rewrite <- app_assoc. reflexivity.
Qed.

Lemma length_ileft {A} (ls : list (list A)) seps :
  length ls = length seps -> length (ileft ls seps) = sumf (@length A) ls + length seps.
Proof.
  revert seps; induction ls as [|l ls IH]; intros [|s seps] H; simpl in *; try discriminate.
  - reflexivity.
  - rewrite app_length. simpl. rewrite IH by lia. rewrite sumf_cons. lia.
Qed.

Lemma length_iright {A} (ls : list (list A)) seps :
  length ls = length seps -> length (iright seps ls) = sumf (@length A) ls + length seps.
Proof.
  revert seps; induction ls as [|l ls IH]; intros [|s seps] H; simpl in *; try discriminate.
  - reflexivity.
  - rewrite app_length. rewrite IH by lia. rewrite sumf_cons. lia.
Qed.

Lemma length_interleave {A} (ls : list (list A)) seps :
  length ls = S (length seps) ->
  length (interleave ls seps) = sumf (@length A) ls + length seps.
Proof.
  destruct ls as [|l ls]; [discriminate|]. intros H. simpl in H.
  rewrite interleave_cons_iright by lia. rewrite app_length, length_iright by lia.
  rewrite sumf_cons. lia.
Qed.

Lemma in_iright {A} (x : A) seps ls :
  length ls = length seps ->
  (In x (iright seps ls) <-> In x seps \/ exists l, In l ls /\ In x l).
Proof.
  revert ls; induction seps as [|s seps IH]; intros [|l ls] H; simpl in *; try discriminate.
  - split; [tauto|]. intros [[]|(l & [] & _)].
  - rewrite in_app_iff, IH by lia. split.
    + intros [E|[E|[E|(l' & H1 & H2)]]]; auto.
      * right. exists l; auto.
      * right. exists l'; auto.
    + intros [[E|E]|(l' & [E|H1] & H2)]; auto.
      * subst l'. auto.
      * right; right; right. exists l'; auto.
Qed.

Lemma in_interleave {A} (x : A) ls seps :
  length ls = S (length seps) ->
  (In x (interleave ls seps) <-> In x seps \/ exists l, In l ls /\ In x l).
Proof.
  destruct ls as [|l ls]; [discriminate|]. intros H. simpl in H.
  rewrite interleave_cons_iright by lia. rewrite in_app_iff, in_iright by lia.
  split.
  - intros [E|[E|(l' & H1 & H2)]]; auto.
    + right. exists l. simpl; auto.
    + right. exists l'. simpl; auto.
  - intros [E|(l' & [E|H1] & H2)]; auto.
    + subst l'. auto.
    + right; right. exists l'; auto.
Qed.

(* ---------------- node: nested induction, basic facts ---------------- *)

Section NodeInd.
  Context {K V : Type}.
  Notation node := (@node K V).

  Lemma node_ind' (P : node -> Prop) :
    (forall id kvs cs, Forall P cs -> P (Node id kvs cs)) -> forall x, P x.
  Proof.
    intros H. fix IH 1. intros [id kvs cs]. apply H.
    induction cs as [|c cs IHcs]; constructor; [apply IH|apply IHcs].
  Qed.

  Lemma inorder_leaf id (kvs : list (K * V)) : inorder (Node id kvs []) = kvs.
  Proof. reflexivity. Qed.

  Lemma inorder_internal id (kvs : list (K * V)) cs :
    cs <> [] -> inorder (Node id kvs cs) = interleave (map inorder cs) kvs.
  Proof. destruct cs; [congruence|reflexivity]. Qed.

  Lemma height_node id (kvs : list (K * V)) cs :
    height (Node id kvs cs) = S (list_max (map height cs)).
  Proof. reflexivity. Qed.

  Lemma nodes_node id (kvs : list (K * V)) cs :
    nodes (Node id kvs cs) = Node id kvs cs :: flat_map nodes cs.
  Proof. reflexivity. Qed.

  Lemma node_eta (x : node) : x = Node (nid x) (nkvs x) (ncs x).
  Proof. destruct x; reflexivity. Qed.
End NodeInd.

(* ---------------- misc ---------------- *)

Lemma app_inv_length_l {A} (l1 l2 l1' l2' : list A) :
  length l1' = length l1 -> l1 ++ l2 = l1' ++ l2' -> l1' = l1 /\ l2' = l2.
Proof.
  revert l1'; induction l1 as [|a l1 IH]; intros [|a' l1'] Hl H; simpl in *; try discriminate.
  - auto.
  - injection H as <- H. destruct (IH l1' ltac:(lia) H) as [-> ->]. auto.
Qed.

Lemma rev_case {A} (l : list A) : l = [] \/ exists l' x, l = l' ++ [x].
Proof. destruct l as [|x l] using rev_ind; [auto|right; eauto]. Qed.

Lemma split_at_len {A} (l : list A) i :
  i < length l -> exists l1 x l2, l = l1 ++ x :: l2 /\ length l1 = i.
Proof.
  intros H. destruct (nth_error_lt_some l i H) as [x Hx].
  exists (firstn i l), x, (skipn (S i) l). split.
  - apply split_at_nth; assumption.
  - apply len_firstn_le; lia.
Qed.

Lemma length_removelast {A} (l : list A) : l <> [] -> S (length (removelast l)) = length l.
Proof.
  intros H.
  destruct l as [|a l] using rev_ind; [congruence|].
  rewrite removelast_last, length_snoc. reflexivity.
Qed.

Lemma removelast_snoc_last {A} (l : list A) d : l <> [] -> l = removelast l ++ [last l d].
Proof. apply app_removelast_last. Qed.
