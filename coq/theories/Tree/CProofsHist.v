(* C02, part B: the clauses of the property transferred from sessions (CProofsSpec.ai_run) to the
   history level of layer S (Hist.steps_S / Hist.run_S), for every mode (key order) of the harness.

   1. [mode_cmp_laws]: every comparison [mode_cmp mode] is a total preorder ([cmp_laws]).
   2. [steps_S_sorted]: the map of every reachable S state is strictly sorted.
   3. [trace_S]: the Next calls of live iterator j inside a history, read off the real interpreter
      [step_S]; [iter_outs]: the outputs of iterator j inside the output list of the history;
      [trace_S_outs] ties the two; [trace_S_rounds] / [trace_S_is_session]: a trace is a session
      trace [ai_run]; [steps_S_new_iter]: what TIterNew creates and under which number.
   4. hist_*: the five clauses on histories  ops1 ++ TIterNew rev lo hi :: ops2;
      run_S_*: plain-output corollaries stated with run_S and positions only.
   5. a computed example.
   Stdlib only, no axioms. *)
From Juniper Require Import Common.Base Tree.Bound Tree.SMap Tree.AIter Tree.Hist
  Tree.CProofsOrder Tree.CProofsSpec.
From Coq Require Import Sorted.

(* ====================================================================================== *)
(* 1. the comparisons of all modes are lawful                                               *)
(* ====================================================================================== *)

Lemma cmp_laws_ext {K} (c1 c2 : K -> K -> comparison) :
  (forall a b, c1 a b = c2 a b) -> cmp_laws c1 -> cmp_laws c2.
Proof.
  intros E L. constructor.
  - intros a. rewrite <- E. apply (cl_refl _ L).
  - intros a b. rewrite <- !E. apply (cl_sym _ L).
  - intros a b c. rewrite <- !E. apply (cl_lt_trans _ L).
  - intros a b c. rewrite <- !E. apply (cl_eq_cong _ L).
Qed.

Lemma cmp_laws_map {K K'} (f : K -> K') (c : K' -> K' -> comparison) :
  cmp_laws c -> cmp_laws (fun a b => c (f a) (f b)).
Proof.
  intros L. constructor.
  - intros a. apply (cl_refl _ L).
  - intros a b. apply (cl_sym _ L).
  - intros a b d. apply (cl_lt_trans _ L).
  - intros a b d. apply (cl_eq_cong _ L).
Qed.

Lemma Zcompare_laws : cmp_laws Z.compare.
Proof.
  constructor.
  - intros a. apply Z.compare_refl.
  - intros a b. apply Z.compare_antisym.
  - intros a b c H1 H2. rewrite Z.compare_lt_iff in *. lia.
  - intros a b c H. apply Z.compare_eq in H. subst b. reflexivity.
Qed.

(* xsort.LessCompare of the strict weak order  f a < f b  is the comparison of the images *)
Lemma cmp_of_less_ltb {K} (f : K -> Z) (a b : K) :
  cmp_of_less (fun x y => f x <? f y) a b = Z.compare (f a) (f b).
Proof.
  unfold cmp_of_less.
  destruct (Z.ltb_spec (f a) (f b)) as [H1|H1].
  - symmetry. apply Z.compare_lt_iff. exact H1.
  - destruct (Z.ltb_spec (f b) (f a)) as [H2|H2].
    + symmetry. apply Z.compare_gt_iff. exact H2.
    + symmetry. apply Z.compare_eq_iff. lia.
Qed.

Lemma cmp_of_less_ltb_laws {K} (f : K -> Z) : cmp_laws (cmp_of_less (fun x y => f x <? f y)).
Proof.
  apply (cmp_laws_ext (fun a b => Z.compare (f a) (f b))).
  - intros a b. symmetry. apply cmp_of_less_ltb.
  - apply (cmp_laws_map f Z.compare Zcompare_laws).
Qed.

Theorem mode_cmp_laws : forall mode, cmp_laws (mode_cmp mode).
Proof.
  intros mode. unfold mode_cmp.
  destruct (mode =? 0) eqn:E0; [exact Zcompare_laws|].
  destruct (mode =? 1) eqn:E1; [exact (flip_laws Z.compare Zcompare_laws)|].
  destruct (mode =? 2) eqn:E2; [exact (cmp_laws_map coarse Z.compare Zcompare_laws)|].
  unfold mode_less. destruct (mode =? 4) eqn:E4.
  - exact (cmp_of_less_ltb_laws coarse).
  - apply (cmp_laws_ext (cmp_of_less (fun x y => (fun z : Z => z) x <? (fun z : Z => z) y))).
    + intros a b. reflexivity.
    + exact (cmp_of_less_ltb_laws (fun z : Z => z)).
Qed.

(* ====================================================================================== *)
(* 2. basic facts about the interpreter; reachable states are sorted                        *)
(* ====================================================================================== *)

Lemma steps_S_nil mode st : steps_S mode st [] = (st, []).
Proof. reflexivity. Qed.

Lemma steps_S_cons mode st o r :
  steps_S mode st (o :: r) =
  (fst (steps_S mode (fst (step_S mode st o)) r),
   snd (step_S mode st o) :: snd (steps_S mode (fst (step_S mode st o)) r)).
Proof.
  simpl. destruct (step_S mode st o) as [st1 out]. simpl.
  destruct (steps_S mode st1 r) as [st2 outs]. reflexivity.
Qed.

Lemma steps_S_app mode : forall l1 l2 st,
  steps_S mode st (l1 ++ l2) =
  (fst (steps_S mode (fst (steps_S mode st l1)) l2),
   snd (steps_S mode st l1) ++ snd (steps_S mode (fst (steps_S mode st l1)) l2)).
Proof.
  induction l1 as [|o l1 IH]; intros l2 st.
  - simpl. destruct (steps_S mode st l2); reflexivity.
  - rewrite <- app_comm_cons, !steps_S_cons, IH. reflexivity.
Qed.

Lemma steps_S_length mode : forall ops st, length (snd (steps_S mode st ops)) = length ops.
Proof.
  induction ops as [|o r IH]; intros st; [reflexivity|].
  rewrite steps_S_cons. simpl. rewrite IH. reflexivity.
Qed.

Lemma run_S_length mode ops : length (run_S mode ops) = length ops.
Proof. apply steps_S_length. Qed.

(* the map after one step *)
Lemma step_S_map mode st o :
  s_m (fst (step_S mode st o)) =
  match o with
  | TPut k v => sm_put Z Z (mode_cmp mode) (s_m st) k v
  | TDel k => sm_del Z Z (mode_cmp mode) (s_m st) k
  | _ => s_m st
  end.
Proof.
  destruct o; simpl; try reflexivity.
  destruct (nth_error (s_its st) j) as [a|]; [|reflexivity].
  destruct (ai_next Z Z (mode_cmp mode) (s_m st) a); reflexivity.
Qed.

Lemma step_S_sorted mode st o :
  ksorted (mode_cmp mode) (s_m st) -> ksorted (mode_cmp mode) (s_m (fst (step_S mode st o))).
Proof.
  intros Hs. rewrite step_S_map. destruct o; auto.
  - apply (ksorted_put _ (mode_cmp_laws mode)). exact Hs.
  - apply ksorted_del. exact Hs.
Qed.

Lemma steps_S_sorted_from mode : forall ops st,
  ksorted (mode_cmp mode) (s_m st) -> ksorted (mode_cmp mode) (s_m (fst (steps_S mode st ops))).
Proof.
  induction ops as [|o r IH]; intros st Hs; [exact Hs|].
  rewrite steps_S_cons. simpl. apply IH. apply step_S_sorted. exact Hs.
Qed.

Theorem steps_S_sorted mode ops : ksorted (mode_cmp mode) (s_m (fst (steps_S mode s0 ops))).
Proof. apply steps_S_sorted_from. constructor. Qed.

(* ====================================================================================== *)
(* 3. live iterator j inside a history                                                      *)
(* ====================================================================================== *)

Notation zentry := (@entry Z Z).
Notation zmut := (@mut Z Z).

(* ---- list helpers: set_at ---- *)

Lemma nth_error_set_at_same {A} (x : A) : forall l j,
  (j < length l)%nat -> nth_error (set_at j x l) j = Some x.
Proof.
  unfold set_at. induction l as [|y l IH]; intros [|j] H; simpl in *; try lia; auto.
  apply IH. lia.
Qed.

Lemma nth_error_set_at_other {A} (x : A) : forall l j j' a,
  j <> j' -> nth_error l j = Some a -> nth_error (set_at j' x l) j = Some a.
Proof.
  unfold set_at. induction l as [|y l IH]; intros [|j] [|j'] a Hne H; simpl in *;
    try discriminate; try congruence.
  apply IH; [congruence|exact H].
Qed.

Lemma length_set_at {A} (x : A) l j : (j < length l)%nat -> length (set_at j x l) = length l.
Proof.
  intros H. unfold set_at. rewrite app_length, firstn_length.
  change (length (x :: skipn (S j) l)) with (S (length (skipn (S j) l))).
  rewrite skipn_length. lia.
Qed.

Lemma nth_error_lt {A} (l : list A) j a : nth_error l j = Some a -> (j < length l)%nat.
Proof. intros H. apply nth_error_Some. congruence. Qed.

(* ---- the number of live iterators ---- *)

Fixpoint count_new (ops : list top) : nat :=
  match ops with
  | [] => O
  | TIterNew _ _ _ :: r => S (count_new r)
  | _ :: r => count_new r
  end.

Definition out_of (r : option (Z * Z)) : tout :=
  match r with None => OEnd | Some kv => OPair (fst kv) (snd kv) end.

Lemma top_next_dec (o : top) (j : nat) : {o = TIterNext j} + {o <> TIterNext j}.
Proof.
  destruct o as [k v|k|k|k| | | |lo hi|lo hi|rev lo hi|j0|k| ]; try (right; discriminate).
  destruct (Nat.eq_dec j0 j) as [E|E]; [left; subst; reflexivity|right; congruence].
Qed.

(* one Next call on an existing iterator *)
Lemma step_S_next mode st j a :
  nth_error (s_its st) j = Some a ->
  step_S mode st (TIterNext j) =
  (mkS (s_m st) (set_at j (fst (ai_next Z Z (mode_cmp mode) (s_m st) a)) (s_its st)),
   out_of (snd (ai_next Z Z (mode_cmp mode) (s_m st) a))).
Proof.
  intros H. simpl. rewrite H. destruct (ai_next Z Z (mode_cmp mode) (s_m st) a) as [a' r].
  destruct r; reflexivity.
Qed.

(* a Next call on an iterator that does not exist (yet) *)
Lemma step_S_next_none mode st j :
  nth_error (s_its st) j = None -> step_S mode st (TIterNext j) = (st, OBad).
Proof. intros H. simpl. rewrite H. reflexivity. Qed.

Lemma step_S_next_its mode st j a :
  nth_error (s_its st) j = Some a ->
  nth_error (s_its (fst (step_S mode st (TIterNext j)))) j
  = Some (fst (ai_next Z Z (mode_cmp mode) (s_m st) a)).
Proof.
  intros H. rewrite (step_S_next mode st j a H). simpl.
  apply nth_error_set_at_same. eapply nth_error_lt; eauto.
Qed.

(* any other operation leaves iterator j alone *)
Lemma step_S_its_other mode st o j a :
  o <> TIterNext j -> nth_error (s_its st) j = Some a ->
  nth_error (s_its (fst (step_S mode st o))) j = Some a.
Proof.
  intros Hne H.
  destruct o as [k v|k|k|k| | | |lo hi|lo hi|rev lo hi|j0|k| ]; simpl; auto.
  - rewrite nth_error_app1; [exact H|]. eapply nth_error_lt; eauto.
  - destruct (nth_error (s_its st) j0) as [a0|] eqn:E0; [|exact H].
    destruct (ai_next Z Z (mode_cmp mode) (s_m st) a0) as [a' r]. simpl.
    apply nth_error_set_at_other; [congruence|exact H].
Qed.

Lemma step_S_its_length mode st o :
  length (s_its (fst (step_S mode st o))) =
  (length (s_its st) + match o with TIterNew _ _ _ => 1 | _ => 0 end)%nat.
Proof.
  destruct o as [k v|k|k|k| | | |lo hi|lo hi|rev lo hi|j0|k| ]; simpl; try lia.
  - rewrite app_length. simpl. lia.
  - destruct (nth_error (s_its st) j0) as [a0|] eqn:E0; [|simpl; lia].
    destruct (ai_next Z Z (mode_cmp mode) (s_m st) a0) as [a' r]. simpl.
    rewrite length_set_at; [lia|]. eapply nth_error_lt; eauto.
Qed.

Lemma steps_S_its_length mode : forall ops st,
  length (s_its (fst (steps_S mode st ops))) = (length (s_its st) + count_new ops)%nat.
Proof.
  induction ops as [|o r IH]; intros st.
  - simpl. lia.
  - rewrite steps_S_cons. cbn [fst]. rewrite IH, step_S_its_length.
    destruct o; simpl; lia.
Qed.

Lemma step_S_its_some mode st o j a :
  nth_error (s_its st) j = Some a ->
  exists a', nth_error (s_its (fst (step_S mode st o))) j = Some a'.
Proof.
  intros H. destruct (top_next_dec o j) as [->|Hne].
  - eexists. apply step_S_next_its. exact H.
  - exists a. apply step_S_its_other; auto.
Qed.

Lemma steps_S_its_some mode : forall ops st j a,
  nth_error (s_its st) j = Some a ->
  exists a', nth_error (s_its (fst (steps_S mode st ops))) j = Some a'.
Proof.
  induction ops as [|o r IH]; intros st j a H.
  - exists a. exact H.
  - rewrite steps_S_cons. cbn [fst].
    destruct (step_S_its_some mode st o j a H) as (a1 & H1). eapply IH; eauto.
Qed.

(* ---- the trace of iterator j: one entry (map at that moment, iterator state before the call,
   result) per TIterNext j of the history, read off the real interpreter ---- *)

Fixpoint trace_S (mode : Z) (st : sstate) (ops : list top) (j : nat) : list zentry :=
  match ops with
  | [] => []
  | o :: r =>
      let st1 := fst (step_S mode st o) in
      match o, nth_error (s_its st) j with
      | TIterNext j', Some a =>
          if (j' =? j)%nat
          then (s_m st, a, snd (ai_next Z Z (mode_cmp mode) (s_m st) a)) :: trace_S mode st1 r j
          else trace_S mode st1 r j
      | _, _ => trace_S mode st1 r j
      end
  end.

Lemma trace_S_next mode st r j a :
  nth_error (s_its st) j = Some a ->
  trace_S mode st (TIterNext j :: r) j =
  (s_m st, a, snd (ai_next Z Z (mode_cmp mode) (s_m st) a))
    :: trace_S mode (fst (step_S mode st (TIterNext j))) r j.
Proof. intros H. cbn [trace_S]. rewrite H, Nat.eqb_refl. reflexivity. Qed.

Lemma trace_S_skip mode st o r j :
  o <> TIterNext j -> trace_S mode st (o :: r) j = trace_S mode (fst (step_S mode st o)) r j.
Proof.
  intros Hne. destruct o as [k v|k|k|k| | | |lo hi|lo hi|rev lo hi|j0|k| ]; try reflexivity.
  cbn [trace_S]. destruct (nth_error (s_its st) j) as [a|]; [|reflexivity].
  destruct (j0 =? j)%nat eqn:E; [|reflexivity].
  apply Nat.eqb_eq in E. congruence.
Qed.

Lemma trace_S_none mode st o r j :
  nth_error (s_its st) j = None ->
  trace_S mode st (o :: r) j = trace_S mode (fst (step_S mode st o)) r j.
Proof.
  intros H. destruct o as [k v|k|k|k| | | |lo hi|lo hi|rev lo hi|j0|k| ]; try reflexivity.
  cbn [trace_S]. rewrite H. reflexivity.
Qed.

Lemma trace_S_app mode j : forall l1 l2 st,
  trace_S mode st (l1 ++ l2) j =
  trace_S mode st l1 j ++ trace_S mode (fst (steps_S mode st l1)) l2 j.
Proof.
  induction l1 as [|o l1 IH]; intros l2 st; [reflexivity|].
  rewrite <- app_comm_cons, steps_S_cons. cbn [fst].
  destruct (top_next_dec o j) as [->|Hne].
  - destruct (nth_error (s_its st) j) as [a|] eqn:E.
    + rewrite !(trace_S_next mode st _ j a E), IH. reflexivity.
    + rewrite !(trace_S_none mode st _ _ j E), IH. reflexivity.
  - rewrite !(trace_S_skip mode st o _ j Hne), IH. reflexivity.
Qed.

(* ---- the outputs of iterator j: the elements of outs at the positions of TIterNext j ---- *)

Fixpoint iter_outs (j : nat) (ops : list top) (outs : list tout) : list tout :=
  match ops, outs with
  | o :: r, x :: xs =>
      match o with
      | TIterNext j' => if (j' =? j)%nat then x :: iter_outs j r xs else iter_outs j r xs
      | _ => iter_outs j r xs
      end
  | _, _ => []
  end.

Lemma iter_outs_next j r x xs : iter_outs j (TIterNext j :: r) (x :: xs) = x :: iter_outs j r xs.
Proof. cbn [iter_outs]. rewrite Nat.eqb_refl. reflexivity. Qed.

Lemma iter_outs_skip j o r x xs :
  o <> TIterNext j -> iter_outs j (o :: r) (x :: xs) = iter_outs j r xs.
Proof.
  intros Hne. destruct o as [k v|k|k|k| | | |lo hi|lo hi|rev lo hi|j0|k| ]; try reflexivity.
  cbn [iter_outs]. destruct (j0 =? j)%nat eqn:E; [|reflexivity].
  apply Nat.eqb_eq in E. congruence.
Qed.

Definition entry_out (e : zentry) : tout :=
  match e_out e with None => OEnd | Some kv => OPair (fst kv) (snd kv) end.

(* (a) the outputs of iterator j in the history are the results recorded in its trace *)
Theorem trace_S_outs mode j : forall ops st a,
  nth_error (s_its st) j = Some a ->
  iter_outs j ops (snd (steps_S mode st ops)) = map entry_out (trace_S mode st ops j).
Proof.
  induction ops as [|o r IH]; intros st a H; [reflexivity|].
  rewrite steps_S_cons. cbn [snd].
  destruct (top_next_dec o j) as [->|Hne].
  - rewrite iter_outs_next, (trace_S_next mode st r j a H). cbn [map].
    rewrite (IH _ _ (step_S_next_its mode st j a H)).
    rewrite (step_S_next mode st j a H). reflexivity.
  - rewrite (iter_outs_skip j o _ _ _ Hne), (trace_S_skip mode st o r j Hne).
    apply (IH _ a). apply step_S_its_other; auto.
Qed.

(* (b) the trace is a session trace: the rounds are the TPut/TDel between consecutive
   TIterNext j *)
Fixpoint rounds_S (j : nat) (ops : list top) (acc : list zmut) : list (list zmut) :=
  match ops with
  | [] => []
  | TPut k v :: r => rounds_S j r (acc ++ [MPut k v])
  | TDel k :: r => rounds_S j r (acc ++ [MDel k])
  | TIterNext j' :: r => if (j' =? j)%nat then acc :: rounds_S j r [] else rounds_S j r acc
  | _ :: r => rounds_S j r acc
  end.

Lemma app_muts_snoc (cmp : Z -> Z -> comparison) (m : smap Z Z) (us : list zmut) (u : zmut) :
  app_muts cmp m (us ++ [u]) = app_mut cmp (app_muts cmp m us) u.
Proof. unfold app_muts. rewrite fold_left_app. reflexivity. Qed.

Theorem trace_S_rounds mode j : forall ops st m0 us a,
  nth_error (s_its st) j = Some a ->
  s_m st = app_muts (mode_cmp mode) m0 us ->
  trace_S mode st ops j = ai_run (mode_cmp mode) m0 a (rounds_S j ops us).
Proof.
  induction ops as [|o r IH]; intros st m0 us a H Hm; [reflexivity|].
  destruct (top_next_dec o j) as [->|Hne].
  - rewrite (trace_S_next mode st r j a H). cbn [rounds_S]. rewrite Nat.eqb_refl.
    cbn [ai_run]. rewrite <- Hm. f_equal.
    apply IH.
    + apply step_S_next_its. exact H.
    + rewrite step_S_map. reflexivity.
  - rewrite (trace_S_skip mode st o r j Hne).
    pose proof (step_S_its_other mode st o j a Hne H) as H1.
    pose proof (step_S_map mode st o) as Hm1.
    destruct o as [k v|k|k|k| | | |lo hi|lo hi|rev lo hi|j0|k| ]; cbn [rounds_S];
      try (apply IH; [exact H1|rewrite Hm1; exact Hm]).
    + apply IH; [exact H1|]. rewrite Hm1, Hm, app_muts_snoc. reflexivity.
    + apply IH; [exact H1|]. rewrite Hm1, Hm, app_muts_snoc. reflexivity.
    + destruct (j0 =? j)%nat eqn:E.
      * apply Nat.eqb_eq in E. congruence.
      * apply IH; [exact H1|rewrite Hm1; exact Hm].
Qed.

Corollary trace_S_is_session mode j ops st a :
  nth_error (s_its st) j = Some a ->
  exists rs, trace_S mode st ops j = ai_run (mode_cmp mode) (s_m st) a rs.
Proof.
  intros H. exists (rounds_S j ops []). apply trace_S_rounds; auto.
Qed.

(* (c) creation: TIterNew creates, under the number = count of TIterNew so far, the abstract
   iterator ai_new on the map at that moment *)
Theorem steps_S_new_iter_from mode ops1 rev lo hi st :
  let st1 := fst (steps_S mode st (ops1 ++ [TIterNew rev lo hi])) in
  s_m st1 = s_m (fst (steps_S mode st ops1)) /\
  nth_error (s_its st1) (length (s_its st) + count_new ops1)
  = Some (ai_new Z Z (mode_cmp mode) rev lo hi (s_m st1)).
Proof.
  simpl. rewrite steps_S_app. cbn [fst].
  set (stA := fst (steps_S mode st ops1)).
  split; [reflexivity|]. simpl.
  rewrite <- (steps_S_its_length mode ops1 st). fold stA.
  rewrite nth_error_app2, Nat.sub_diag; [reflexivity|lia].
Qed.

Theorem steps_S_new_iter mode ops1 rev lo hi :
  let st1 := fst (steps_S mode s0 (ops1 ++ [TIterNew rev lo hi])) in
  nth_error (s_its st1) (count_new ops1) = Some (ai_new Z Z (mode_cmp mode) rev lo hi (s_m st1)).
Proof. exact (proj2 (steps_S_new_iter_from mode ops1 rev lo hi s0)). Qed.

(* the moment of every entry of the trace: it belongs to a TIterNext j of the history, its map is
   the S map at that moment, its iterator state is the state of iterator j at that moment *)
Lemma trace_S_In_moment mode j : forall ops st e,
  In e (trace_S mode st ops j) ->
  exists pre post, ops = pre ++ TIterNext j :: post
    /\ e_map e = s_m (fst (steps_S mode st pre))
    /\ nth_error (s_its (fst (steps_S mode st pre))) j = Some (e_it e)
    /\ e_out e = snd (ai_next Z Z (mode_cmp mode) (e_map e) (e_it e)).
Proof.
  induction ops as [|o r IH]; intros st e Hin; [contradiction|].
  assert (Hrec : In e (trace_S mode (fst (step_S mode st o)) r j) ->
    exists pre post, o :: r = pre ++ TIterNext j :: post
      /\ e_map e = s_m (fst (steps_S mode st pre))
      /\ nth_error (s_its (fst (steps_S mode st pre))) j = Some (e_it e)
      /\ e_out e = snd (ai_next Z Z (mode_cmp mode) (e_map e) (e_it e))).
  { intros Hin'. destruct (IH _ _ Hin') as (pre & post & -> & H1 & H2 & H3).
    exists (o :: pre), post. rewrite steps_S_cons. cbn [fst]. auto. }
  destruct (top_next_dec o j) as [->|Hne].
  - destruct (nth_error (s_its st) j) as [a|] eqn:E.
    + rewrite (trace_S_next mode st r j a E) in Hin. destruct Hin as [<-|Hin]; [|auto].
      exists [], r. repeat split; auto.
    + rewrite (trace_S_none mode st _ r j E) in Hin. auto.
  - rewrite (trace_S_skip mode st o r j Hne) in Hin. auto.
Qed.

(* the entry and the output of the TIterNext j at a given position of the history *)
Lemma trace_S_at mode j pre post : forall st a,
  nth_error (s_its st) j = Some a ->
  let stI := fst (steps_S mode st pre) in
  exists aI, nth_error (s_its stI) j = Some aI
    /\ trace_S mode st (pre ++ TIterNext j :: post) j =
       trace_S mode st pre j
       ++ (s_m stI, aI, snd (ai_next Z Z (mode_cmp mode) (s_m stI) aI))
          :: trace_S mode (fst (step_S mode stI (TIterNext j))) post j
    /\ nth_error (snd (steps_S mode st (pre ++ TIterNext j :: post))) (length pre)
       = Some (out_of (snd (ai_next Z Z (mode_cmp mode) (s_m stI) aI))).
Proof.
  intros st a H stI.
  destruct (steps_S_its_some mode pre st j a H) as (aI & HI). fold stI in HI.
  exists aI. split; [exact HI|]. split.
  - rewrite trace_S_app. fold stI. rewrite (trace_S_next mode stI post j aI HI). reflexivity.
  - rewrite steps_S_app. cbn [snd]. fold stI.
    rewrite nth_error_app2; rewrite steps_S_length; [|lia].
    rewrite Nat.sub_diag, steps_S_cons. cbn [snd nth_error].
    rewrite (step_S_next mode stI j aI HI). reflexivity.
Qed.

(* ====================================================================================== *)
(* 4. sessions: prefixes and suffixes of session traces are session traces                  *)
(* ====================================================================================== *)

Section SessionCuts.
  Context {K V : Type} (cmp : K -> K -> comparison).
  Hypothesis laws : cmp_laws cmp.

  Lemma ai_run_hd (m : smap K V) a rs e t :
    ai_run cmp m a rs = e :: t ->
    exists us rs', rs = us :: rs'
      /\ e = (app_muts cmp m us, a, snd (ai_next K V cmp (app_muts cmp m us) a))
      /\ t = ai_run cmp (app_muts cmp m us) (fst (ai_next K V cmp (app_muts cmp m us) a)) rs'.
  Proof.
    destruct rs as [|us rs']; [discriminate|].
    cbn [ai_run]. intros H. injection H as He Ht. exists us, rs'. auto.
  Qed.

  Lemma ai_run_prefix : forall rs (m : smap K V) a t1 t2,
    ai_run cmp m a rs = t1 ++ t2 -> ai_run cmp m a (firstn (length t1) rs) = t1.
  Proof.
    induction rs as [|us rs IH]; intros m a t1 t2 H.
    - destruct t1 as [|e t1]; [reflexivity|discriminate].
    - destruct t1 as [|e t1]; [reflexivity|].
      cbn [ai_run] in H. rewrite <- app_comm_cons in H. injection H as He Ht.
      cbn [length firstn ai_run]. rewrite He. f_equal. exact (IH _ _ t1 t2 Ht).
  Qed.

  Lemma ai_run_suffix : forall rs (m : smap K V) a t0 t1,
    ksorted cmp m -> ai_run cmp m a rs = t0 ++ t1 ->
    exists m' a' rs', ksorted cmp m' /\ t1 = ai_run cmp m' a' rs'
      /\ ai_rev a' = ai_rev a /\ ai_lo a' = ai_lo a /\ ai_hi a' = ai_hi a.
  Proof.
    induction rs as [|us rs IH]; intros m a t0 t1 Hs H.
    - destruct t0 as [|e t0]; [|discriminate]. simpl in H. subst t1.
      exists m, a, []. auto.
    - destruct t0 as [|e t0].
      + simpl in H. exists m, a, (us :: rs). auto.
      + cbn [ai_run] in H. rewrite <- app_comm_cons in H. injection H as _ Ht.
        set (m1 := app_muts cmp m us) in *.
        assert (Hs1 : ksorted cmp m1) by (apply (app_muts_sorted cmp laws); exact Hs).
        destruct (ai_next K V cmp m1 a) as [a1 r] eqn:Hn. cbn [fst] in Ht.
        destruct (ai_next_fields cmp laws m1 a a1 r Hs1 Hn) as (Hr & Hlo & Hhi & _ & _).
        destruct (IH m1 a1 t0 t1 Hs1 Ht) as (m' & a' & rs' & Hs' & Heq & Hr' & Hlo' & Hhi').
        exists m', a', rs'. repeat split; auto; congruence.
  Qed.

  Lemma StronglySorted_mid {A} (R : A -> A -> Prop) (l1 : list A) x l2 y l3 :
    StronglySorted R (l1 ++ x :: l2 ++ y :: l3) -> R x y.
  Proof.
    induction l1 as [|z l1 IH]; simpl; intros H.
    - inversion H as [|x0 l0 _ Hf]; subst. rewrite Forall_forall in Hf. apply Hf.
      apply in_or_app. right. left. reflexivity.
    - inversion H; subst. auto.
  Qed.

  Lemma yields_app (t1 t2 : list (@entry K V)) : yields (t1 ++ t2) = yields t1 ++ yields t2.
  Proof. unfold yields. apply flat_map_app. Qed.

  Lemma yields_cons_some (m : smap K V) a kv t : yields ((m, a, Some kv) :: t) = kv :: yields t.
  Proof. reflexivity. Qed.
End SessionCuts.

(* ====================================================================================== *)
(* 4'. the five clauses on histories                                                        *)
(*     ops = ops1 ++ TIterNew rev lo hi :: ops2;  the iterator created has number           *)
(*     count_new ops1;  st1 = state just after its creation;  tr = its trace over ops2.     *)
(* ====================================================================================== *)

Definition hist_st (mode : Z) (ops1 : list top) (rev : bool) (lo hi : bound Z) : sstate :=
  fst (steps_S mode s0 (ops1 ++ [TIterNew rev lo hi])).

Definition hist_trace (mode : Z) (ops1 : list top) (rev : bool) (lo hi : bound Z)
    (ops2 : list top) : list zentry :=
  trace_S mode (hist_st mode ops1 rev lo hi) ops2 (count_new ops1).

Lemma hist_st_sorted mode ops1 rev lo hi :
  ksorted (mode_cmp mode) (s_m (hist_st mode ops1 rev lo hi)).
Proof. apply steps_S_sorted. Qed.

Lemma hist_st_iter mode ops1 rev lo hi :
  nth_error (s_its (hist_st mode ops1 rev lo hi)) (count_new ops1)
  = Some (ai_new Z Z (mode_cmp mode) rev lo hi (s_m (hist_st mode ops1 rev lo hi))).
Proof. apply steps_S_new_iter. Qed.

(* the trace of the created iterator is the session trace of ai_new on the map at creation *)
Theorem hist_trace_session mode ops1 rev lo hi ops2 :
  let m1 := s_m (hist_st mode ops1 rev lo hi) in
  hist_trace mode ops1 rev lo hi ops2 =
  ai_run (mode_cmp mode) m1 (ai_new Z Z (mode_cmp mode) rev lo hi m1)
         (rounds_S (count_new ops1) ops2 []).
Proof.
  intros m1. unfold hist_trace. apply trace_S_rounds.
  - apply hist_st_iter.
  - reflexivity.
Qed.

Lemma skipn_app_exact {A} (l1 l2 : list A) : skipn (length l1) (l1 ++ l2) = l2.
Proof. induction l1 as [|x l1 IH]; simpl; auto. Qed.

Lemma run_S_split mode ops1 o ops2 :
  run_S mode (ops1 ++ o :: ops2) =
  run_S mode (ops1 ++ [o]) ++ snd (steps_S mode (fst (steps_S mode s0 (ops1 ++ [o]))) ops2).
Proof.
  unfold run_S.
  replace (ops1 ++ o :: ops2) with ((ops1 ++ [o]) ++ ops2) by (rewrite <- app_assoc; reflexivity).
  rewrite steps_S_app. reflexivity.
Qed.

(* ... and the outputs the history shows for that iterator are the results in the trace *)
Theorem hist_trace_outs mode ops1 rev lo hi ops2 :
  iter_outs (count_new ops1) ops2
    (skipn (S (length ops1)) (run_S mode (ops1 ++ TIterNew rev lo hi :: ops2)))
  = map entry_out (hist_trace mode ops1 rev lo hi ops2).
Proof.
  rewrite run_S_split.
  replace (S (length ops1)) with (length (run_S mode (ops1 ++ [TIterNew rev lo hi])))
    by (rewrite run_S_length, app_length; simpl; lia).
  rewrite skipn_app_exact.
  apply (trace_S_outs mode (count_new ops1) ops2 _ _ (hist_st_iter mode ops1 rev lo hi)).
Qed.

(* every entry of the trace sits at a TIterNext of the history and carries the S map of that
   moment of the WHOLE history *)
Theorem hist_trace_moment mode ops1 rev lo hi ops2 e :
  In e (hist_trace mode ops1 rev lo hi ops2) ->
  exists pre post, ops2 = pre ++ TIterNext (count_new ops1) :: post
    /\ e_map e = s_m (fst (steps_S mode s0 (ops1 ++ TIterNew rev lo hi :: pre)))
    /\ e_out e = snd (ai_next Z Z (mode_cmp mode) (e_map e) (e_it e)).
Proof.
  intros Hin. destruct (trace_S_In_moment mode _ _ _ _ Hin) as (pre & post & Heq & Hm & _ & Ho).
  exists pre, post. split; [exact Heq|]. split; [|exact Ho].
  rewrite Hm. unfold hist_st.
  replace (ops1 ++ TIterNew rev lo hi :: pre) with ((ops1 ++ [TIterNew rev lo hi]) ++ pre)
    by (rewrite <- app_assoc; reflexivity).
  rewrite (steps_S_app mode (ops1 ++ [TIterNew rev lo hi]) pre s0). reflexivity.
Qed.

(* C02_monotone_in_bounds on histories *)
Theorem hist_monotone_in_bounds mode ops1 rev lo hi ops2 :
  let ys := yields (hist_trace mode ops1 rev lo hi ops2) in
  StronglySorted (fun y1 y2 => dcmp (mode_cmp mode) rev (fst y1) (fst y2) = Lt) ys
  /\ Forall (fun y => in_range Z (mode_cmp mode) lo hi (fst y) = true) ys.
Proof.
  rewrite hist_trace_session.
  apply (ai_run_monotone_in_bounds (mode_cmp mode) (mode_cmp_laws mode)).
  apply hist_st_sorted.
Qed.

(* C02_present_current_value on histories *)
Theorem hist_present_current_value mode ops1 rev lo hi ops2 :
  Forall (fun e => forall kv, e_out e = Some kv ->
            In kv (e_map e) /\ sm_find Z Z (mode_cmp mode) (e_map e) (fst kv) = Some kv)
         (hist_trace mode ops1 rev lo hi ops2).
Proof.
  rewrite hist_trace_session.
  apply (ai_run_present_current_value (mode_cmp mode) (mode_cmp_laws mode)).
  apply hist_st_sorted.
Qed.

(* C02_sticky_end on histories *)
Theorem hist_sticky_end mode ops1 rev lo hi ops2 tr1 e tr2 :
  hist_trace mode ops1 rev lo hi ops2 = tr1 ++ e :: tr2 ->
  e_out e = None ->
  Forall (fun e' => e_out e' = None) tr2.
Proof.
  rewrite hist_trace_session. intros Heq He.
  eapply (ai_run_sticky_end (mode_cmp mode) (mode_cmp_laws mode)); eauto.
  apply hist_st_sorted.
Qed.

(* C02_no_skip_of_persistent_keys on histories: for ANY Next call of the iterator that yields y
   (any decomposition of the trace), a key x inside the bounds, strictly before y in the direction
   of travel, whose class is in the map at creation and at every Next call up to this one, has
   been yielded by an earlier Next call. *)
Theorem hist_no_skip mode ops1 rev lo hi ops2 x tr' mn an y tr3 :
  hist_trace mode ops1 rev lo hi ops2 = tr' ++ (mn, an, Some y) :: tr3 ->
  in_range Z (mode_cmp mode) lo hi x = true ->
  has_key (mode_cmp mode) (s_m (hist_st mode ops1 rev lo hi)) x ->
  Forall (fun e : zentry => has_key (mode_cmp mode) (e_map e) x) tr' ->
  has_key (mode_cmp mode) mn x ->
  dcmp (mode_cmp mode) rev x (fst y) = Lt ->
  exists e, In e tr' /\ hits (mode_cmp mode) x e.
Proof.
  rewrite hist_trace_session. intros Heq Hrange Hk0 Hall Hkn Hxy.
  replace (tr' ++ (mn, an, Some y) :: tr3) with ((tr' ++ [(mn, an, Some y)]) ++ tr3) in Heq
    by (rewrite <- app_assoc; reflexivity).
  apply ai_run_prefix in Heq.
  assert (Hall' : Forall (fun e : zentry => has_key (mode_cmp mode) (e_map e) x)
                         (tr' ++ [(mn, an, Some y)])).
  { apply Forall_app. split; [exact Hall|]. constructor; [exact Hkn|constructor]. }
  rewrite <- Heq in Hall'.
  exact (ai_run_no_skip (mode_cmp mode) (mode_cmp_laws mode) rev lo hi _ _ x tr' mn an y
           (hist_st_sorted mode ops1 rev lo hi) Hrange Hk0 Hall' Heq Hxy).
Qed.

(* C02_inserted_beyond_next_is_yielded on histories: enter the trace at ANY Next call e1 (the
   first entry of seg ++ [end]) before which the iterator is not cut and has pending position p;
   x inside the bounds, at or beyond p in the direction of travel, its class in the map at every
   Next call from e1 up to and including one that reports the end.  Then one of the Next calls
   in between yielded x's entry. *)
Theorem hist_inserted_beyond mode ops1 rev lo hi ops2 x p tr0 seg mn an tr3 e1 :
  hist_trace mode ops1 rev lo hi ops2 = tr0 ++ seg ++ (mn, an, None) :: tr3 ->
  hd_error (seg ++ [(mn, an, None)]) = Some e1 ->
  ai_cut (e_it e1) = false -> ai_pos (e_it e1) = Some p ->
  dcmp (mode_cmp mode) rev p x <> Gt ->
  in_range Z (mode_cmp mode) lo hi x = true ->
  Forall (fun e : zentry => has_key (mode_cmp mode) (e_map e) x) (seg ++ [(mn, an, None)]) ->
  exists e, In e seg /\ hits (mode_cmp mode) x e.
Proof.
  rewrite hist_trace_session. intros Heq Hhd Hcut Hpos Hpx Hrange Hall.
  pose proof (mode_cmp_laws mode) as L.
  replace (seg ++ (mn, an, None) :: tr3) with ((seg ++ [(mn, an, None)]) ++ tr3) in Heq
    by (rewrite <- app_assoc; reflexivity).
  apply (ai_run_suffix (mode_cmp mode) L) in Heq; [|apply hist_st_sorted].
  destruct Heq as (m' & a' & rs' & Hs' & Heq & Hr & Hlo & Hhi).
  cbn in Hr, Hlo, Hhi.
  symmetry in Heq. apply ai_run_prefix in Heq.
  match type of Heq with ai_run _ _ _ ?r = _ => set (rs2 := r) in * end.
  assert (Ha : e_it e1 = a').
  { destruct (seg ++ [(mn, an, None)]) as [|e t] eqn:E; [discriminate|].
    injection Hhd as ->.
    destruct (ai_run_hd (mode_cmp mode) m' a' rs2 e1 t Heq) as (us & rs3 & _ & -> & _).
    reflexivity. }
  rewrite Ha in *.
  apply (ai_run_inserted_beyond (mode_cmp mode) L m' a' p x rs2 seg mn an); auto.
  - rewrite Hr. exact Hpx.
  - rewrite Hlo, Hhi. exact Hrange.
  - rewrite Heq. exact Hall.
Qed.

(* the literal reading: x lies strictly beyond the key y that a Next call yields, is in the map
   at that call and at every later one up to and including one that reports the end *)
Theorem hist_inserted_beyond_next_yield mode ops1 rev lo hi ops2 x tr0 m1 a1 y seg mn an tr3 :
  hist_trace mode ops1 rev lo hi ops2 = tr0 ++ (m1, a1, Some y) :: seg ++ (mn, an, None) :: tr3 ->
  dcmp (mode_cmp mode) rev (fst y) x = Lt ->
  has_key (mode_cmp mode) m1 x ->
  in_range Z (mode_cmp mode) lo hi x = true ->
  Forall (fun e : zentry => has_key (mode_cmp mode) (e_map e) x) (seg ++ [(mn, an, None)]) ->
  exists e, In e seg /\ hits (mode_cmp mode) x e.
Proof.
  rewrite hist_trace_session. intros Heq Hyx Hk Hrange Hall.
  pose proof (mode_cmp_laws mode) as L.
  apply (ai_run_suffix (mode_cmp mode) L) in Heq; [|apply hist_st_sorted].
  destruct Heq as (m' & a' & rs' & Hs' & Heq & Hr & Hlo & Hhi).
  cbn in Hr, Hlo, Hhi.
  symmetry in Heq.
  destruct (ai_run_hd (mode_cmp mode) m' a' rs' _ _ Heq) as (us & rs3 & -> & He & Ht).
  injection He as Hm1 Ha1 Hy. subst a1.
  replace (seg ++ (mn, an, None) :: tr3) with ((seg ++ [(mn, an, None)]) ++ tr3) in Ht
    by (rewrite <- app_assoc; reflexivity).
  symmetry in Ht. apply ai_run_prefix in Ht.
  match type of Ht with ai_run _ _ _ ?r = _ => set (rs2 := r) in * end.
  apply (ai_run_inserted_beyond_next_yield (mode_cmp mode) L m' a' us rs2 x y seg mn an); auto.
  - rewrite Hr. exact Hyx.
  - rewrite <- Hm1. exact Hk.
  - rewrite Hlo, Hhi. exact Hrange.
  - rewrite Ht. exact Hall.
Qed.

(* ====================================================================================== *)
(* 4''. plain-output corollaries: only run_S, nth_error and positions                       *)
(* ====================================================================================== *)

Lemma two_positions {A} (l : list A) i1 i2 x y :
  (i1 < i2)%nat -> nth_error l i1 = Some x -> nth_error l i2 = Some y ->
  exists p1 p2 p3, l = p1 ++ x :: p2 ++ y :: p3
    /\ length p1 = i1 /\ length (p1 ++ x :: p2) = i2.
Proof.
  intros Hlt H1 H2.
  destruct (nth_error_split l i1 H1) as (p1 & q & -> & Hl1).
  rewrite nth_error_app2 in H2 by lia.
  replace (i2 - length p1)%nat with (S (i2 - length p1 - 1)) in H2 by lia.
  cbn [nth_error] in H2.
  destruct (nth_error_split q _ H2) as (p2 & p3 & -> & Hl2).
  exists p1, p2, p3. repeat split; auto. rewrite app_length. simpl. lia.
Qed.

Lemma steps_S_out_shift mode st l1 l2 i :
  nth_error (snd (steps_S mode st (l1 ++ l2))) (length l1 + i)
  = nth_error (snd (steps_S mode (fst (steps_S mode st l1)) l2)) i.
Proof.
  rewrite steps_S_app. cbn [snd].
  rewrite nth_error_app2; rewrite steps_S_length; [|lia].
  f_equal. lia.
Qed.

Lemma steps_S_out_at mode pre o post st :
  nth_error (snd (steps_S mode st (pre ++ o :: post))) (length pre)
  = Some (snd (step_S mode (fst (steps_S mode st pre)) o)).
Proof.
  rewrite <- (Nat.add_0_r (length pre)), steps_S_out_shift, steps_S_cons. reflexivity.
Qed.

Lemma entry_out_mk (m : smap Z Z) (a : aiter Z) r : entry_out (m, a, r) = out_of r.
Proof. reflexivity. Qed.

(* two Next calls of iterator j at given positions: their entries in the trace, in the same
   order, and their outputs *)
Lemma trace_S_two mode j p1 p2 p3 st a :
  nth_error (s_its st) j = Some a ->
  exists t1 e1 t2 e2 t3,
    trace_S mode st (p1 ++ TIterNext j :: p2 ++ TIterNext j :: p3) j = t1 ++ e1 :: t2 ++ e2 :: t3
    /\ nth_error (snd (steps_S mode st (p1 ++ TIterNext j :: p2 ++ TIterNext j :: p3)))
                 (length p1) = Some (entry_out e1)
    /\ nth_error (snd (steps_S mode st (p1 ++ TIterNext j :: p2 ++ TIterNext j :: p3)))
                 (length (p1 ++ TIterNext j :: p2)) = Some (entry_out e2).
Proof.
  intros H.
  destruct (trace_S_at mode j p1 (p2 ++ TIterNext j :: p3) st a H) as (aA & HA & _ & HoutA).
  assert (Eops : p1 ++ TIterNext j :: p2 ++ TIterNext j :: p3
                 = (p1 ++ TIterNext j :: p2) ++ TIterNext j :: p3)
    by (rewrite <- app_assoc; reflexivity).
  destruct (trace_S_at mode j (p1 ++ TIterNext j :: p2) p3 st a H) as (aB & HB & HtrB & HoutB).
  destruct (trace_S_at mode j p1 p2 st a H) as (aC & HC & HtrC & _).
  rewrite HA in HC. injection HC as <-.
  rewrite <- Eops in HtrB, HoutB. rewrite HtrC, <- app_assoc in HtrB.
  do 5 eexists. split; [exact HtrB|]. split.
  - rewrite entry_out_mk. exact HoutA.
  - rewrite entry_out_mk. exact HoutB.
Qed.

Lemma out_of_end r : out_of r = OEnd -> r = None.
Proof. destruct r; [discriminate|reflexivity]. Qed.

Lemma out_of_pair r k v : out_of r = OPair k v -> exists kv, r = Some kv /\ fst kv = k.
Proof. destruct r as [kv|]; [|discriminate]. intros [= <- _]. exists kv. auto. Qed.

(* C02_sticky_end, stated on the outputs of a history only: once a TIterNext j answers OEnd,
   every later TIterNext j answers OEnd, whatever happens in between. *)
Theorem run_S_sticky_end : forall mode ops j i1 i2,
  (i1 < i2)%nat ->
  nth_error ops i1 = Some (TIterNext j) ->
  nth_error ops i2 = Some (TIterNext j) ->
  nth_error (run_S mode ops) i1 = Some OEnd ->
  nth_error (run_S mode ops) i2 = Some OEnd.
Proof.
  intros mode ops j i1 i2 Hlt Ho1 Ho2 He1.
  destruct (two_positions ops i1 i2 _ _ Hlt Ho1 Ho2) as (p0 & p2 & p3 & -> & Hl1 & Hl2).
  unfold run_S in *.
  set (stA := fst (steps_S mode s0 p0)) in *.
  (* the iterator exists at the first position, otherwise the answer would be OBad *)
  assert (Hout1 : OEnd = snd (step_S mode stA (TIterNext j))).
  { pose proof (steps_S_out_at mode p0 (TIterNext j) (p2 ++ TIterNext j :: p3) s0) as Hx.
    rewrite Hl1, He1 in Hx. injection Hx as Hx. exact Hx. }
  destruct (nth_error (s_its stA) j) as [a|] eqn:Ea.
  2:{ rewrite (step_S_next_none mode stA j Ea) in Hout1. discriminate. }
  clear Hout1.
  destruct (trace_S_two mode j [] p2 p3 stA a Ea) as (t1 & e1 & t2 & e2 & t3 & Htr & Hx1 & Hx2).
  cbn [app] in Htr, Hx1, Hx2.
  (* positions inside the whole history *)
  assert (P1 : nth_error (snd (steps_S mode stA (TIterNext j :: p2 ++ TIterNext j :: p3))) 0
               = Some OEnd).
  { unfold stA. rewrite <- steps_S_out_shift, Nat.add_0_r, Hl1. exact He1. }
  assert (P2 : nth_error (snd (steps_S mode s0 (p0 ++ TIterNext j :: p2 ++ TIterNext j :: p3))) i2
               = nth_error (snd (steps_S mode stA (TIterNext j :: p2 ++ TIterNext j :: p3)))
                           (length (TIterNext j :: p2))).
  { unfold stA. rewrite <- steps_S_out_shift. f_equal. rewrite <- Hl2, app_length. reflexivity. }
  rewrite P2, Hx2. cbn [length] in Hx1. rewrite Hx1 in P1. injection P1 as P1.
  (* the session *)
  destruct (trace_S_is_session mode j (TIterNext j :: p2 ++ TIterNext j :: p3) stA a Ea)
    as (rs & Hrs).
  rewrite Htr in Hrs. symmetry in Hrs.
  assert (He : e_out e1 = None).
  { unfold entry_out in P1. destruct (e_out e1); [discriminate|reflexivity]. }
  pose proof (ai_run_sticky_end (mode_cmp mode) (mode_cmp_laws mode) rs (s_m stA) a
                t1 e1 (t2 ++ e2 :: t3) (steps_S_sorted mode p0) Hrs He) as Hall.
  apply Forall_app in Hall. destruct Hall as [_ Hall]. apply Forall_inv in Hall.
  unfold entry_out. rewrite Hall. reflexivity.
Qed.

Lemma count_new_app l1 l2 : count_new (l1 ++ l2) = (count_new l1 + count_new l2)%nat.
Proof.
  induction l1 as [|o l1 IH]; [reflexivity|].
  destruct o; simpl; rewrite IH; reflexivity.
Qed.

(* before its creation iterator j answers OBad *)
Lemma run_S_before_creation mode ops1 rev lo hi ops2 i :
  (i < S (length ops1))%nat ->
  nth_error (ops1 ++ TIterNew rev lo hi :: ops2) i = Some (TIterNext (count_new ops1)) ->
  nth_error (run_S mode (ops1 ++ TIterNew rev lo hi :: ops2)) i = Some OBad.
Proof.
  intros Hi Ho. remember (count_new ops1) as j eqn:Ej.
  destruct (Nat.eq_dec i (length ops1)) as [->|Hne].
  - rewrite nth_error_app2, Nat.sub_diag in Ho by lia. discriminate.
  - rewrite nth_error_app1 in Ho by lia.
    destruct (nth_error_split ops1 i Ho) as (pre & post & Eo & Hl). subst ops1.
    rewrite <- app_assoc, <- app_comm_cons. unfold run_S.
    rewrite <- Hl, steps_S_out_at. f_equal.
    rewrite step_S_next_none; [reflexivity|].
    apply nth_error_None. rewrite steps_S_its_length.
    rewrite count_new_app in Ej. simpl in Ej. simpl. lia.
Qed.

(* C02_monotone_in_bounds, stated on the outputs of a history only: two answers OPair of the
   iterator created by TIterNew rev lo hi carry keys strictly ordered in its direction of travel
   and inside its bounds. *)
Theorem run_S_monotone mode ops1 rev lo hi ops2 i1 i2 k1 v1 k2 v2 :
  let ops := ops1 ++ TIterNew rev lo hi :: ops2 in
  let j := count_new ops1 in
  (i1 < i2)%nat ->
  nth_error ops i1 = Some (TIterNext j) ->
  nth_error ops i2 = Some (TIterNext j) ->
  nth_error (run_S mode ops) i1 = Some (OPair k1 v1) ->
  nth_error (run_S mode ops) i2 = Some (OPair k2 v2) ->
  dcmp (mode_cmp mode) rev k1 k2 = Lt
  /\ in_range Z (mode_cmp mode) lo hi k1 = true
  /\ in_range Z (mode_cmp mode) lo hi k2 = true.
Proof.
  intros ops j Hlt Ho1 Ho2 Hr1 Hr2.
  assert (Hge : (S (length ops1) <= i1)%nat).
  { destruct (le_lt_dec (S (length ops1)) i1) as [Hle|Hlt1]; [exact Hle|exfalso].
    pose proof (run_S_before_creation mode ops1 rev lo hi ops2 i1 Hlt1 Ho1) as Hb.
    fold ops in Hb. congruence. }
  set (n := S (length ops1)) in *.
  assert (Eops : ops = (ops1 ++ [TIterNew rev lo hi]) ++ ops2)
    by (unfold ops; rewrite <- app_assoc; reflexivity).
  assert (Hn : length (ops1 ++ [TIterNew rev lo hi]) = n)
    by (rewrite app_length; simpl; unfold n; lia).
  set (st1 := hist_st mode ops1 rev lo hi).
  (* move to positions inside ops2 *)
  assert (Hpos : forall i, (n <= i)%nat ->
            nth_error ops i = nth_error ops2 (i - n)
            /\ nth_error (run_S mode ops) i = nth_error (snd (steps_S mode st1 ops2)) (i - n)).
  { intros i Hi. split.
    - rewrite Eops, nth_error_app2; rewrite Hn; [reflexivity|lia].
    - unfold run_S. rewrite Eops. replace i with (length (ops1 ++ [TIterNew rev lo hi]) + (i - n))%nat
        at 1 by lia.
      rewrite steps_S_out_shift. reflexivity. }
  destruct (Hpos i1 Hge) as [E1 F1]. destruct (Hpos i2 ltac:(lia)) as [E2 F2].
  rewrite E1 in Ho1. rewrite E2 in Ho2. rewrite F1 in Hr1. rewrite F2 in Hr2.
  destruct (two_positions ops2 (i1 - n) (i2 - n) _ _ ltac:(lia) Ho1 Ho2)
    as (p1 & p2 & p3 & Hops2 & Hl1 & Hl2).
  pose proof (hist_st_iter mode ops1 rev lo hi) as Hit. fold st1 j in Hit.
  destruct (trace_S_two mode j p1 p2 p3 st1 _ Hit) as (t1 & e1 & t2 & e2 & t3 & Htr & Hx1 & Hx2).
  rewrite <- Hops2, Hl1 in Hx1. rewrite <- Hops2, Hl2 in Hx2. rewrite <- Hops2 in Htr.
  rewrite Hx1 in Hr1. rewrite Hx2 in Hr2. injection Hr1 as Hr1. injection Hr2 as Hr2.
  unfold entry_out in Hr1, Hr2.
  destruct e1 as [[m1 a1] r1]. destruct e2 as [[m2 a2] r2]. unfold e_out in Hr1, Hr2. cbn [snd] in Hr1, Hr2.
  destruct r1 as [y1|]; [|discriminate]. destruct r2 as [y2|]; [|discriminate].
  injection Hr1 as Hk1 _. injection Hr2 as Hk2 _.
  destruct (hist_monotone_in_bounds mode ops1 rev lo hi ops2) as [Hsort Hin].
  unfold hist_trace in Hsort, Hin. fold st1 j in Hsort, Hin. rewrite Htr in Hsort, Hin.
  match type of Hin with
  | Forall _ (yields ?l) =>
      assert (Ey : yields l = yields t1 ++ y1 :: yields t2 ++ y2 :: yields t3)
  end.
  { unfold yields. rewrite flat_map_app. simpl. rewrite flat_map_app. reflexivity. }
  rewrite Ey in Hsort, Hin.
  apply StronglySorted_mid in Hsort.
  apply Forall_app in Hin. destruct Hin as [_ Hin].
  inversion Hin as [|z l Hy1 Hin2]; subst z l.
  apply Forall_app in Hin2. destruct Hin2 as [_ Hin2]. apply Forall_inv in Hin2.
  rewrite Hk1 in Hsort, Hy1. rewrite Hk2 in Hsort, Hin2. auto.
Qed.

(* ====================================================================================== *)
(* 5. non-vacuity: a concrete history with a forward and a reverse iterator interleaved     *)
(*    with TPut / TDel                                                                      *)
(* ====================================================================================== *)

Definition ex_ops1 : list top := [TPut 1 10; TPut 3 30; TPut 5 50].
Definition ex_ops2 : list top :=
  [TPut 4 40; TIterNext 1; TDel 3; TIterNext 0; TIterNext 1; TPut 2 20; TIterNext 1;
   TPut 5 55; TIterNext 0; TIterNext 0; TPut 9 90; TIterNext 0; TIterNext 1; TIterNext 7].
(* what follows the creation of iterator 0 (forward, unbounded) ... *)
Definition ex_rest0 : list top := TIterNext 0 :: TIterNew true (BInc 1) (BExc 5) :: ex_ops2.
(* ... and what precedes the creation of iterator 1 (reverse over [1, 5)) *)
Definition ex_pre1 : list top := ex_ops1 ++ [TIterNew false BUnb BUnb; TIterNext 0].
Definition ex_ops : list top := ex_ops1 ++ TIterNew false BUnb BUnb :: ex_rest0.

Example ex_ops_split1 : ex_ops = ex_pre1 ++ TIterNew true (BInc 1) (BExc 5) :: ex_ops2.
Proof. reflexivity. Qed.

Example ex_run :
  run_S 0 ex_ops =
  [OUnit; OUnit; OUnit; OUnit; OPair 1 10; OUnit; OUnit; OPair 3 30; OUnit; OPair 4 40;
   OPair 1 10; OUnit; OEnd; OUnit; OPair 5 55; OEnd; OUnit; OEnd; OEnd; OBad].
Proof. vm_compute. reflexivity. Qed.

Definition ex_tr0 : list zentry := hist_trace 0 ex_ops1 false BUnb BUnb ex_rest0.
Definition ex_tr1 : list zentry := hist_trace 0 ex_pre1 true (BInc 1) (BExc 5) ex_ops2.

(* iterator 0 (forward): 3 is deleted before it is reached, 4 is inserted ahead and yielded,
   5 is yielded with its current value 55, 2 is inserted behind and not yielded; the end is sticky
   although 9 is inserted afterwards *)
Example ex_trace0 :
  count_new ex_ops1 = 0%nat
  /\ map entry_out ex_tr0 = [OPair 1 10; OPair 4 40; OPair 5 55; OEnd; OEnd]
  /\ iter_outs 0 ex_rest0 (skipn 4 (run_S 0 ex_ops)) = map entry_out ex_tr0
  /\ map (@e_map Z Z) ex_tr0 =
     [[(1, 10); (3, 30); (5, 50)]; [(1, 10); (4, 40); (5, 50)];
      [(1, 10); (2, 20); (4, 40); (5, 55)]; [(1, 10); (2, 20); (4, 40); (5, 55)];
      [(1, 10); (2, 20); (4, 40); (5, 55); (9, 90)]]
  /\ map (fun e : zentry => ai_pos (e_it e)) ex_tr0 = [Some 1; Some 3; Some 5; None; None]
  /\ yields ex_tr0 = [(1, 10); (4, 40); (5, 55)]
  /\ rounds_S 0 ex_rest0 [] = [[]; [MPut 4 40; MDel 3]; [MPut 2 20; MPut 5 55]; []; [MPut 9 90]].
Proof. vm_compute. repeat split; reflexivity. Qed.

(* iterator 1 (reverse over [1, 5)): created when the map is {1,3,5}: starts at 3; 4 is inserted
   behind it (not yielded); after 3 it goes to 1; 2 is inserted behind; then the end *)
Example ex_trace1 :
  count_new ex_pre1 = 1%nat
  /\ map entry_out ex_tr1 = [OPair 3 30; OPair 1 10; OEnd; OEnd]
  /\ iter_outs 1 ex_ops2 (skipn 6 (run_S 0 ex_ops)) = map entry_out ex_tr1
  /\ map (fun e : zentry => ai_pos (e_it e)) ex_tr1 = [Some 3; Some 1; None; None]
  /\ yields ex_tr1 = [(3, 30); (1, 10)].
Proof. vm_compute. repeat split; reflexivity. Qed.

Definition ex_dflt : zentry := ([], mkAIter false None BUnb BUnb false, None).

(* the hypotheses of hist_no_skip are satisfiable: key 1 persists and lies before the yield 4 *)
Example ex_no_skip :
  exists e, In e (firstn 1 ex_tr0) /\ hits (mode_cmp 0) 1 e.
Proof.
  apply (hist_no_skip 0 ex_ops1 false BUnb BUnb ex_rest0 1 (firstn 1 ex_tr0)
           (e_map (nth 1 ex_tr0 ex_dflt)) (e_it (nth 1 ex_tr0 ex_dflt)) (4, 40) (skipn 2 ex_tr0)).
  - vm_compute. reflexivity.
  - vm_compute. reflexivity.
  - exists (1, 10). split; [vm_compute; auto 10|reflexivity].
  - vm_compute. constructor; [|constructor].
    exists (1, 10). split; [simpl; auto 10|reflexivity].
  - exists (1, 10). split; [vm_compute; auto 10|reflexivity].
  - vm_compute. reflexivity.
Qed.

(* the hypotheses of hist_inserted_beyond are satisfiable: enter at the second Next call of
   iterator 0 (pending position 3); key 4 has been inserted beyond it and stays; the iterator
   yields it before it reports the end *)
Example ex_inserted_beyond :
  exists e, In e (firstn 2 (skipn 1 ex_tr0)) /\ hits (mode_cmp 0) 4 e.
Proof.
  apply (hist_inserted_beyond 0 ex_ops1 false BUnb BUnb ex_rest0 4 3
           (firstn 1 ex_tr0) (firstn 2 (skipn 1 ex_tr0))
           (e_map (nth 3 ex_tr0 ex_dflt)) (e_it (nth 3 ex_tr0 ex_dflt)) (skipn 4 ex_tr0)
           (nth 1 ex_tr0 ex_dflt)).
  - vm_compute. reflexivity.
  - vm_compute. reflexivity.
  - vm_compute. reflexivity.
  - vm_compute. reflexivity.
  - vm_compute. discriminate.
  - vm_compute. reflexivity.
  - vm_compute.
    repeat (constructor; [exists (4, 40); split; [simpl; auto 10|reflexivity]|]).
    constructor.
Qed.

Example ex_run_S_sticky_end : nth_error (run_S 0 ex_ops) 17 = Some OEnd.
Proof.
  apply (run_S_sticky_end 0 ex_ops 0 15 17); [lia|reflexivity|reflexivity|].
  vm_compute. reflexivity.
Qed.

Example ex_run_S_monotone :
  dcmp (mode_cmp 0) false 4 5 = Lt
  /\ in_range Z (mode_cmp 0) BUnb BUnb 4 = true /\ in_range Z (mode_cmp 0) BUnb BUnb 5 = true.
Proof.
  apply (run_S_monotone 0 ex_ops1 false BUnb BUnb ex_rest0 9 14 4 40 5 55);
    [lia|reflexivity|reflexivity|vm_compute; reflexivity|vm_compute; reflexivity].
Qed.

(* a less-based coarse mode (4: keys compared by k/4) runs too: 2 is equivalent to the stored
   key 1 and only replaces its value; 5 is inserted behind the pending position 1 of the reverse
   iterator and is not yielded *)
Example ex_run_mode4 :
  run_S 4 [TPut 1 10; TPut 9 90; TPut 2 20; TIterNew true BUnb BUnb; TIterNext 0; TPut 5 50;
           TIterNext 0; TIterNext 0; TIterNext 0]
  = [OUnit; OUnit; OUnit; OUnit; OPair 9 90; OUnit; OPair 1 20; OEnd; OEnd].
Proof. vm_compute. reflexivity. Qed.

Print Assumptions mode_cmp_laws.
Print Assumptions steps_S_sorted.
Print Assumptions trace_S_outs.
Print Assumptions trace_S_rounds.
Print Assumptions steps_S_new_iter.
Print Assumptions hist_trace_outs.
Print Assumptions hist_trace_moment.
Print Assumptions hist_monotone_in_bounds.
Print Assumptions hist_present_current_value.
Print Assumptions hist_sticky_end.
Print Assumptions hist_no_skip.
Print Assumptions hist_inserted_beyond.
Print Assumptions hist_inserted_beyond_next_yield.
Print Assumptions run_S_sticky_end.
Print Assumptions run_S_monotone.
