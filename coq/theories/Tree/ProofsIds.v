(* Node identities (the pointer identities of the Go nodes): they stay pairwise distinct and below
   next_id under Put and Delete.  Everything is phrased through the multiplicity `idc a x` of the
   id `a` in the subtree x, so that preservation is linear arithmetic. *)
From Juniper Require Import Common.Base Tree.Bound Tree.BTree Tree.SMap
  Tree.ProofsLists Tree.ProofsSMap Tree.ProofsCases Tree.ProofsWf.
Local Open Scope nat_scope.

Section IdCount.
  Context {K V : Type}.
  Notation node := (@node K V).

  Fixpoint idc (a : nat) (x : node) : nat :=
    match x with
    | Node id _ cs => (if id =? a then 1 else 0) + sumf (idc a) cs
    end.

  Lemma idc_node a id (kvs : list (K * V)) cs :
    idc a (Node id kvs cs) = (if id =? a then 1 else 0) + sumf (idc a) cs.
  Proof. reflexivity. Qed.

  Lemma count_occ_ids a (x : node) : count_occ Nat.eq_dec (map nid (nodes x)) a = idc a x.
  Proof.
    induction x as [id kvs cs IH] using node_ind'.
    rewrite nodes_node, idc_node. cbn [map nid count_occ].
    assert (E : count_occ Nat.eq_dec (map nid (flat_map nodes cs)) a = sumf (idc a) cs).
    { induction IH as [|c cs Hc _ IHcs]; [reflexivity|].
      cbn [flat_map]. rewrite map_app, count_occ_app, Hc, IHcs, sumf_cons. reflexivity. }
    rewrite E. destruct (Nat.eq_dec id a) as [->|Hn].
    - rewrite Nat.eqb_refl. reflexivity.
    - apply Nat.eqb_neq in Hn. rewrite Hn. reflexivity.
  Qed.

  (* ids of the subtree x are pairwise distinct and smaller than n *)
  Definition ids_ok (n : nat) (x : node) : Prop :=
    forall a, idc a x <= 1 /\ (n <= a -> idc a x = 0).

  Lemma ids_ok_iff n x :
    ids_ok n x <->
    NoDup (map nid (nodes x)) /\ Forall (fun i => i < n) (map nid (nodes x)).
  Proof.
    unfold ids_ok. rewrite (NoDup_count_occ Nat.eq_dec), Forall_forall. split.
    - intros H. split.
      + intros a. rewrite count_occ_ids. apply H.
      + intros a Hin. destruct (Nat.lt_ge_cases a n) as [Hlt|Hge]; [assumption|].
        destruct (H a) as [_ H0]. specialize (H0 Hge). rewrite <- count_occ_ids in H0.
        apply (count_occ_not_In Nat.eq_dec) in H0. contradiction.
    - intros [H1 H2] a. split.
      + rewrite <- count_occ_ids. apply H1.
      + intros Hge. rewrite <- count_occ_ids. apply (count_occ_not_In Nat.eq_dec).
        intros Hin. specialize (H2 a Hin). lia.
  Qed.

  Lemma sumf_insert_at {A} (f : A -> nat) i x l : sumf f (insert_at i x l) = f x + sumf f l.
  Proof.
    unfold insert_at. rewrite sumf_app, sumf_cons, (sumf_split f i l). lia.
  Qed.

  (* [lo, hi) indicator *)
  Definition ind (lo hi a : nat) : nat := if (lo <=? a) && (a <? hi) then 1 else 0.

  Lemma ind_spec lo hi a :
    (lo <= a < hi -> ind lo hi a = 1) /\ (~ (lo <= a < hi) -> ind lo hi a = 0).
  Proof.
    unfold ind. destruct (Nat.leb_spec lo a), (Nat.ltb_spec a hi); simpl; split; intros; lia.
  Qed.

  Lemma eqb_ind x a : (x = a -> (if x =? a then 1 else 0) = 1) /\
                      (x <> a -> (if x =? a then 1 else 0) = 0).
  Proof. destruct (Nat.eqb_spec x a); split; intros; congruence. Qed.
End IdCount.

Section IdsPres.
  Context {K V : Type}.
  Variable cmp : K -> K -> comparison.
  Variables (kzero : K) (vzero : V).
  Variables minKVs maxKVs : nat.
  Hypothesis Hmin : 1 <= minKVs.
  Hypothesis Hmax : 2 * minKVs <= maxKVs.

  Notation node := (@node K V).
  Notation ins := (ins K V cmp kzero vzero maxKVs).
  Notation del := (del K V cmp kzero vzero minKVs).
  Notation remove_rightmost := (remove_rightmost K V kzero vzero minKVs).
  Notation fix_child := (fix_child K V kzero vzero minKVs).
  Notation split_node := (split_node K V kzero vzero maxKVs).
  Notation shaped := (shaped minKVs maxKVs).
  Notation okc := (okc minKVs maxKVs).

  Definition res_idc (a : nat) (r : ins_res K V) : nat :=
    match r with
    | Upd x => idc a x
    | Ins x => idc a x
    | Split l _ r => idc a l + idc a r
    end.

  Lemma split_idc a id rid (kvs : list (K * V)) (cs : list node) :
    res_idc a (split_node id rid kvs cs) =
    (if id =? a then 1 else 0) + (if rid =? a then 1 else 0) + sumf (idc a) cs.
  Proof.
    unfold BTree.split_node. cbn [res_idc]. rewrite !idc_node.
    rewrite (sumf_split (idc a) (S (median_idx maxKVs)) cs). lia.
  Qed.

  Definition ins_ids_stmt (x : node) (fresh : nat) (r : ins_res K V * nat) : Prop :=
    fresh <= snd r /\
    forall a, res_idc a (fst r) = idc a x + ind fresh (snd r) a.

  Theorem ins_ids d : forall x k v fresh,
      shaped d x -> ins_ids_stmt x fresh (ins x k v fresh).
  Proof.
    induction d as [|d IH]; intros [id kvs cs] k v fresh Hs; unfold ins_ids_stmt.
    - apply shaped_0_inv in Hs. destruct Hs as [Hlen ->].
      pose proof (ins_spec_holds cmp kzero vzero maxKVs id kvs [] k v fresh (or_introl eq_refl)) as HS.
      remember (ins (Node id kvs []) k v fresh) as res eqn:Eres. clear Eres.
      destruct HS as [KA k' v' KB Hk Hg He
                     |KA KB Hc Hk Hg Hl Hn
                     |KA KB Hc Hk Hg Hl Hn
                     |KA KB A c B c' fresh' Hk Hc
                     |KA KB A c B c' fresh' Hk Hc
                     |KA KB A c B l s r fresh' Hk Hc
                     |KA KB A c B l s r fresh' Hk Hc];
        try (destruct A; discriminate); cbn [fst snd].
      + split; [lia|]. intros a. cbn [res_idc]. rewrite !idc_node.
        pose proof (ind_spec fresh fresh a). lia.
      + split; [lia|]. intros a. cbn [res_idc]. rewrite !idc_node.
        pose proof (ind_spec fresh fresh a). lia.
      + split; [lia|]. intros a. rewrite split_idc, idc_node.
        pose proof (ind_spec fresh (S fresh) a). pose proof (eqb_ind fresh a). lia.
    - pose proof (shaped_cs _ _ _ _ _ _ Hs) as Hcs.
      apply shaped_S_inv in Hs. destruct Hs as (Hlen & Hlc & F).
      pose proof (ins_spec_holds cmp kzero vzero maxKVs id kvs cs k v fresh Hcs) as HS.
      remember (ins (Node id kvs cs) k v fresh) as res eqn:Eres. clear Eres.
      destruct HS as [KA k' v' KB Hk Hg He
                     |KA KB Hc Hk Hg Hl Hn
                     |KA KB Hc Hk Hg Hl Hn
                     |KA KB A c B c' fresh' Hk Hc HlA HlB Hg Hl Hi
                     |KA KB A c B c' fresh' Hk Hc HlA HlB Hg Hl Hi
                     |KA KB A c B l s r fresh' Hk Hc HlA HlB Hg Hl Hi Hn
                     |KA KB A c B l s r fresh' Hk Hc HlA HlB Hg Hl Hi Hn];
        try (subst cs; discriminate); cbn [fst snd].
      + split; [lia|]. intros a. cbn [res_idc]. rewrite !idc_node.
        pose proof (ind_spec fresh fresh a). lia.
      + subst cs. apply Forall_app in F. destruct F as [FA F].
        inversion F as [|? ? [Hcm Hcs'] FB]; subst.
        pose proof (IH c k v fresh Hcs') as Hc'. unfold ins_ids_stmt in Hc'. rewrite Hi in Hc'.
        cbn [fst snd res_idc] in Hc'. destruct Hc' as [Hle Hc'].
        split; [assumption|]. intros a. specialize (Hc' a). cbn [res_idc].
        rewrite !idc_node, !sumf_app, !sumf_cons. lia.
      + subst cs. apply Forall_app in F. destruct F as [FA F].
        inversion F as [|? ? [Hcm Hcs'] FB]; subst.
        pose proof (IH c k v fresh Hcs') as Hc'. unfold ins_ids_stmt in Hc'. rewrite Hi in Hc'.
        cbn [fst snd res_idc] in Hc'. destruct Hc' as [Hle Hc'].
        split; [assumption|]. intros a. specialize (Hc' a). cbn [res_idc].
        rewrite !idc_node, !sumf_app, !sumf_cons. lia.
      + subst cs. apply Forall_app in F. destruct F as [FA F].
        inversion F as [|? ? [Hcm Hcs'] FB]; subst.
        pose proof (IH c k v fresh Hcs') as Hc'. unfold ins_ids_stmt in Hc'. rewrite Hi in Hc'.
        cbn [fst snd res_idc] in Hc'. destruct Hc' as [Hle Hc'].
        split; [assumption|]. intros a. specialize (Hc' a). cbn [res_idc].
        rewrite !idc_node, !sumf_app, !sumf_cons. lia.
      + subst cs. apply Forall_app in F. destruct F as [FA F].
        inversion F as [|? ? [Hcm Hcs'] FB]; subst.
        pose proof (IH c k v fresh Hcs') as Hc'. unfold ins_ids_stmt in Hc'. rewrite Hi in Hc'.
        cbn [fst snd res_idc] in Hc'. destruct Hc' as [Hle Hc'].
        split; [lia|]. intros a. specialize (Hc' a).
        rewrite split_idc, sumf_insert_at, idc_node, !sumf_app, !sumf_cons.
        pose proof (ind_spec fresh fresh' a). pose proof (ind_spec fresh (S fresh') a).
        pose proof (eqb_ind fresh' a). lia.
  Qed.

  (* ---------------- Delete ---------------- *)

  Lemma rotl_idc a (c r : node) (s : K * V) :
    idc a (rotl_child c r s) + idc a (rotl_sib r) = idc a c + idc a r.
  Proof.
    destruct c as [ci ck cc], r as [ri rk rc]. unfold rotl_child, rotl_sib. cbn [nid nkvs ncs].
    rewrite !idc_node, sumf_app, (sumf_split (idc a) 1 rc). lia.
  Qed.

  Lemma rotr_idc a (l c : node) (s : K * V) :
    idc a (rotr_sib l) + idc a (rotr_child l c s) = idc a l + idc a c.
  Proof.
    destruct c as [ci ck cc], l as [li lk lc]. unfold rotr_child, rotr_sib. cbn [nid nkvs ncs].
    rewrite !idc_node, sumf_app, (sumf_split (idc a) (nkeys (Node li lk lc)) lc). lia.
  Qed.

  Lemma merged_idc a (x y : node) (s : K * V) : idc a (merged x y s) <= idc a x + idc a y.
  Proof.
    destruct x as [xi xk xc], y as [yi yk yc]. unfold merged. cbn [nid nkvs ncs].
    rewrite !idc_node, sumf_app. lia.
  Qed.

  Lemma fix_idc a id (kvs : list (K * V)) (A : list node) (c : node) (B : list node) :
    length (A ++ c :: B) = S (length kvs) -> 1 <= length kvs ->
    idc a (fix_child id kvs (A ++ c :: B) (length A)) <=
    (if id =? a then 1 else 0) + sumf (idc a) A + idc a c + sumf (idc a) B.
  Proof.
    intros Hl Hne.
    pose proof (fix_spec_holds kzero vzero minKVs id kvs A c B Hl Hne) as HS.
    remember (fix_child id kvs (A ++ c :: B) (length A)) as x' eqn:Ex. clear Ex.
    destruct HS as [Hok
                   |KA s KB r B' Hk HB HlK Hlt Hr
                   |KA s KB A' l Hk HA HlK Hlt Hll
                   |KA s KB A' l Hk HA HlK Hlt Hll
                   |s KB r B' Hk HA HB Hlt Hr].
    - rewrite idc_node, sumf_app, sumf_cons. lia.
    - subst B. pose proof (rotl_idc a c r s).
      rewrite idc_node, sumf_app, !sumf_cons. lia.
    - subst A. pose proof (rotr_idc a l c s).
      rewrite idc_node, !sumf_app, !sumf_cons, sumf_nil. lia.
    - subst A. pose proof (merged_idc a l c s).
      rewrite idc_node, !sumf_app, !sumf_cons, sumf_nil. lia.
    - subst A B. pose proof (merged_idc a c r s).
      rewrite idc_node, !sumf_cons, sumf_nil. lia.
  Qed.

  Theorem rr_ids d : forall x a,
      shaped d x -> 1 <= nkeys x -> idc a (fst (remove_rightmost x)) <= idc a x.
  Proof.
    induction d as [|d IH]; intros [id kvs cs] a Hs Hne.
    - apply shaped_0_inv in Hs. destruct Hs as [Hlen ->]. rewrite rr_leaf_unfold. cbn [fst].
      rewrite !idc_node. lia.
    - apply shaped_S_inv in Hs. destruct Hs as (Hlen & Hlc & F).
      destruct (rev_case cs) as [->|(A & c & ->)]; [discriminate|].
      rewrite length_snoc in Hlc. apply Forall_app in F. destruct F as [FA Fc].
      inversion Fc as [|? ? [Hcm Hcs] _]; subst.
      pose proof (IH c a Hcs ltac:(lia)) as Hc.
      destruct (remove_rightmost c) as [c' kv] eqn:Er. cbn [fst] in Hc.
      rewrite (rr_internal kzero vzero minKVs id kvs A c c' kv ltac:(lia) Er). cbn [fst].
      unfold nkeys in Hne. cbn [nkvs] in Hne.
      pose proof (fix_idc a id kvs A c' [] ltac:(rewrite length_snoc; lia) Hne) as Hf.
      rewrite idc_node, sumf_app, sumf_cons, sumf_nil in *. lia.
  Qed.

  Theorem del_ids d : forall x k a,
      shaped d x -> (d <> 0 -> 1 <= nkeys x) -> idc a (fst (del x k)) <= idc a x.
  Proof.
    induction d as [|d IH]; intros [id kvs cs] k a Hs Hne.
    - apply shaped_0_inv in Hs. destruct Hs as [Hlen ->].
      pose proof (del_spec_holds cmp kzero vzero minKVs id kvs [] k (or_introl eq_refl)) as HS.
      remember (del (Node id kvs []) k) as res eqn:Eres. clear Eres.
      destruct HS as [KA k' v' KB Hc Hk Hg He
                     |KA KB Hc Hk Hg Hl
                     |KA k' v' KB A c B c' kv Hk Hc
                     |KA KB A c B c' Hk Hc
                     |KA KB A c B c' Hk Hc];
        try (destruct A; discriminate); cbn [fst]; rewrite !idc_node; lia.
    - pose proof (shaped_cs _ _ _ _ _ _ Hs) as Hcs.
      apply shaped_S_inv in Hs. destruct Hs as (Hlen & Hlc & F).
      specialize (Hne ltac:(lia)). unfold nkeys in Hne. cbn [nkvs] in Hne.
      pose proof (del_spec_holds cmp kzero vzero minKVs id kvs cs k Hcs) as HS.
      remember (del (Node id kvs cs) k) as res eqn:Eres. clear Eres.
      destruct HS as [KA k' v' KB Hc Hk Hg He
                     |KA KB Hc Hk Hg Hl
                     |KA k' v' KB A c B c' kv Hk Hc HlA HlB Hg He Hr
                     |KA KB A c B c' Hk Hc HlA HlB Hg Hl Hd
                     |KA KB A c B c' Hk Hc HlA HlB Hg Hl Hd];
        try (subst cs; discriminate); cbn [fst].
      + subst cs. apply Forall_app in F. destruct F as [FA F].
        inversion F as [|? ? [Hcm Hcs'] FB]; subst.
        pose proof (rr_ids d c a Hcs' ltac:(lia)) as Hc'. rewrite Hr in Hc'. cbn [fst] in Hc'.
        rewrite !app_length in *. cbn [length] in *.
        pose proof (fix_idc a id (KA ++ kv :: KB) A c' B
                      ltac:(rewrite !app_length; cbn [length]; lia)
                      ltac:(rewrite !app_length; cbn [length]; lia)) as Hf.
        rewrite idc_node, sumf_app, sumf_cons. lia.
      + subst cs. apply Forall_app in F. destruct F as [FA F].
        inversion F as [|? ? [Hcm Hcs'] FB]; subst.
        pose proof (IH c k a Hcs' ltac:(intros _; lia)) as Hc'. rewrite Hd in Hc'. cbn [fst] in Hc'.
        rewrite !app_length in *. cbn [length] in *.
        pose proof (fix_idc a id (KA ++ KB) A c' B
                      ltac:(rewrite !app_length; cbn [length]; lia)
                      ltac:(rewrite !app_length; lia)) as Hf.
        rewrite idc_node, sumf_app, sumf_cons. lia.
      + lia.
  Qed.

End IdsPres.
