(* Layer M for the cursor and the iterators of container/tree/btree.go: one Gallina function per Go
   function, same case structure.  iterator.While (iterator/iterator.go) and btree.Range /
   RangeReverse are at the end.  No proofs in this file.

   A cursor holds a node POINTER (c.curr).  Here it is a node id; the node's current contents are
   looked up in the current tree (`find_node`).  A node that is no longer reachable from the root
   (the right node of a mergeTwo, whose n is set to 0, or an old root dropped by the root collapse,
   whose n is 0) is seen by the Go code as a node with n = 0: `lost` treats an id that is not in
   the tree exactly so.

   Reads `curr.keys[i]` / `curr.values[i]` / `curr.children[i]` with i outside the live range are
   `Panic PIndex` (in Go: a zeroed/nil slot or an index panic).  Two situations cannot be expressed
   without parent pointers / detached nodes and are `Panic POther`:
     - moving (Next/Prev/valueUnchecked) from a node id that is not in the tree although the cursor
       is not lost (impossible: not lost means cgen = gen, or 0 <= i < n on that node);
     - the inner-most `lost()` branch of the mutual recursion Next -> SeekFirstGreater -> Next
       (impossible: seek has just set c.gen = t.gen).
   Theorems (C02_total) show that no Panic arises on well-formed trees. *)
From Juniper Require Import Common.Base Tree.Bound Tree.BTree.

Section Cursor.
  Variables K V : Type.
  Variable cmp : K -> K -> comparison.
  Variable kzero : K.
  Variable vzero : V.

  Notation node := (@node K V).
  Notation btree := (@btree K V).

  (* cursor[K,V] without the tree pointer t (the tree is passed to every function) *)
  Record cursor := mkCursor {
    curr : option nat;   (* node id; None = nil = off the edge *)
    ci : Z;              (* c.i *)
    ck : K;              (* c.k *)
    cgen : Z             (* c.gen *)
  }.

  (* btree.Cursor(): the zero cursor *)
  Definition cursor0 : cursor := mkCursor None 0 kzero 0.

  Definition set_curr (c : cursor) (x : option nat) : cursor := mkCursor x (ci c) (ck c) (cgen c).
  Definition set_ci (c : cursor) (i : Z) : cursor := mkCursor (curr c) i (ck c) (cgen c).

  (* ---------------- node lookup by identity ---------------- *)

  Fixpoint find_node (id : nat) (x : node) : option node :=
    match x with
    | Node i _ cs =>
        if (i =? id)%nat then Some x
        else first_some_i (fun _ c => find_node id c) cs O
    end.

  (* Path from the root to the node `id`: the proper ancestors, root first, each with the index of
     the child through which the path continues (what xslices.Index(parent.children, curr) finds).
     Some [] for the root itself; None when the id is not in the tree. *)
  Fixpoint path_to (id : nat) (x : node) : option (list (node * nat)) :=
    match x with
    | Node i _ cs =>
        if (i =? id)%nat then Some []
        else first_some_i (fun j c => option_map (cons (x, j)) (path_to id c)) cs O
    end.

  Definition node_n (x : node) : Z := zlen (nkvs x).

  (* x.keys[i], x.values[i], x.children[i] *)
  Definition key_at (x : node) (i : Z) : result K :=
    match zget (nkvs x) i with Some kv => Ok (fst kv) | None => Panic PIndex end.
  Definition val_at (x : node) (i : Z) : result V :=
    match zget (nkvs x) i with Some kv => Ok (snd kv) | None => Panic PIndex end.
  Definition child_at (x : node) (i : Z) : result node :=
    match zget (ncs x) i with Some c => Ok c | None => Panic PIndex end.

  (* ---------------- lost ---------------- *)

  (* c.gen != c.t.gen && c.curr != nil && (c.i >= c.curr.n || compare(c.k, c.curr.keys[c.i]) != 0)
     (a negative c.i with c.curr != nil would index keys[-1]) *)
  Definition lost (t : btree) (c : cursor) : result bool :=
    if cgen c =? gen t then Ok false else
    match curr c with
    | None => Ok false
    | Some id =>
        match find_node id (root t) with
        | None => (* unlinked node: n = 0 *)
            if ci c >=? 0 then Ok true else Panic PIndex
        | Some x =>
            if ci c >=? node_n x then Ok true
            else k <- key_at x (ci c) ;; Ok (negb (is_eq (cmp (ck c) k)))
        end
    end.

  (* ---------------- find / seek ---------------- *)

  (* the loop of find below the root; nil child = dummy, see BTree.v *)
  Fixpoint find_in (x : node) (k : K) : node * Z * bool :=
    match x with
    | Node _ kvs cs =>
        let (idx, found) := search_node K V cmp k kvs in
        if found then (x, Z.of_nat idx, true)
        else
          match cs with
          | [] => (x, if (idx =? length kvs)%nat then Z.of_nat idx - 1 else Z.of_nat idx, false)
          | _ => nth_map (fun c => find_in c k) (dummy, -1, false) cs idx
          end
    end.

  (* find: None = (nil, 0, false) on the empty tree *)
  Definition find (t : btree) (k : K) : option (node * Z * bool) :=
    if node_n (root t) =? 0 then None else Some (find_in (root t) k).

  (* seek: returns the cursor and the bool result.  On the empty tree: curr = nil, i = 0, k and gen
     untouched, false. *)
  Definition seek (t : btree) (c : cursor) (k : K) : result (cursor * bool) :=
    match find t k with
    | None => Ok (mkCursor None 0 (ck c) (cgen c), false)
    | Some (x, i, _) =>
        k' <- key_at x i ;;
        Ok (mkCursor (Some (nid x)) i k' (gen t), true)
    end.

  (* SeekFirst: on the empty tree only curr is set (gen is NOT updated). *)
  Definition seek_first (t : btree) (c : cursor) : result cursor :=
    if node_n (root t) =? 0 then Ok (set_curr c None)
    else
      let lf := leftmost_leaf (root t) in
      k <- key_at lf 0 ;;
      Ok (mkCursor (Some (nid lf)) 0 k (gen t)).

  Definition seek_last (t : btree) (c : cursor) : result cursor :=
    if node_n (root t) =? 0 then Ok (set_curr c None)
    else
      let lf := rightmost_leaf (root t) in
      let i := node_n lf - 1 in
      k <- key_at lf i ;;
      Ok (mkCursor (Some (nid lf)) i k (gen t)).

  (* ---------------- Next / Prev ---------------- *)

  (* The climbing loop of Next.  `anc` = proper ancestors of c.curr, nearest first, each with the
     index of the child we come from.
       parent == nil: c.curr = nil, return.
       c.curr = parent; c.i = idx; if c.i < n { c.k = keys[c.i]; break } *)
  Fixpoint climb_next (anc : list (node * nat)) (c : cursor) : result cursor :=
    match anc with
    | [] => Ok (set_curr c None)
    | (p, idx) :: up =>
        let i := Z.of_nat idx in
        if i <? node_n p then
          k <- key_at p i ;; Ok (mkCursor (Some (nid p)) i k (cgen c))
        else climb_next up (mkCursor (Some (nid p)) i (ck c) (cgen c))
    end.

  (* Prev: c.i = idx - 1; if c.i >= 0 { c.k = keys[c.i]; break } *)
  Fixpoint climb_prev (anc : list (node * nat)) (c : cursor) : result cursor :=
    match anc with
    | [] => Ok (set_curr c None)
    | (p, idx) :: up =>
        let i := Z.of_nat idx - 1 in
        if i >=? 0 then
          k <- key_at p i ;; Ok (mkCursor (Some (nid p)) i k (cgen c))
        else climb_prev up (mkCursor (Some (nid p)) i (ck c) (cgen c))
    end.

  (* ancestors of node id, nearest first *)
  Definition ancestors (t : btree) (id : nat) : result (list (node * nat)) :=
    match path_to id (root t) with
    | Some p => Ok (rev p)
    | None => Panic POther
    end.

  (* Next after the `if c.lost()` test *)
  Definition next_body (t : btree) (c : cursor) : result cursor :=
    match curr c with
    | None => Ok c
    | Some id =>
        match find_node id (root t) with
        | None => Panic POther
        | Some x =>
            if is_leaf x then
              let c1 := set_ci c (ci c + 1) in
              if ci c1 <? node_n x then
                k <- key_at x (ci c1) ;; Ok (mkCursor (curr c1) (ci c1) k (cgen c1))
              else anc <- ancestors t id ;; climb_next anc c1
            else if ci c <? node_n x then
              ch <- child_at x (ci c + 1) ;;
              let lf := leftmost_leaf ch in
              k <- key_at lf 0 ;;
              Ok (mkCursor (Some (nid lf)) 0 k (cgen c))
            else anc <- ancestors t id ;; climb_next anc c
        end
    end.

  Definition prev_body (t : btree) (c : cursor) : result cursor :=
    match curr c with
    | None => Ok c
    | Some id =>
        match find_node id (root t) with
        | None => Panic POther
        | Some x =>
            if is_leaf x then
              let c1 := set_ci c (ci c - 1) in
              if ci c1 >=? 0 then
                k <- key_at x (ci c1) ;; Ok (mkCursor (curr c1) (ci c1) k (cgen c1))
              else anc <- ancestors t id ;; climb_prev anc c1
            else if ci c >=? 0 then
              ch <- child_at x (ci c) ;;
              let lf := rightmost_leaf ch in
              let i := node_n lf - 1 in
              k <- key_at lf i ;;
              Ok (mkCursor (Some (nid lf)) i k (cgen c))
            else anc <- ancestors t id ;; climb_prev anc c
        end
    end.

  (* Next / Prev with the reseek of the lost branch as a parameter.  The Go functions are mutually
     recursive (Next -> SeekFirstGreater -> Next); the recursion is unrolled: the Next called from
     inside a Seek* function (`cursor_next1`) can never take its lost branch because seek has just
     stored the tree's gen, so that branch is Panic POther there. *)
  Definition next_with (reseek : cursor -> result cursor) (t : btree) (c : cursor) : result cursor :=
    l <- lost t c ;;
    if l then reseek c (* and RETURN *) else next_body t c.

  Definition prev_with (reseek : cursor -> result cursor) (t : btree) (c : cursor) : result cursor :=
    l <- lost t c ;;
    if l then reseek c else prev_body t c.

  Definition cursor_next1 : btree -> cursor -> result cursor := next_with (fun _ => Panic POther).
  Definition cursor_prev1 : btree -> cursor -> result cursor := prev_with (fun _ => Panic POther).

  (* SeekLastLess: if compare(k, c.k) <= 0 { c.Prev() } *)
  Definition seek_last_less (t : btree) (c : cursor) (k : K) : result cursor :=
    '(c1, ok) <- seek t c k ;;
    if negb ok then Ok c1
    else if is_le (cmp k (ck c1)) then cursor_prev1 t c1 else Ok c1.

  (* SeekLastLessOrEqual: if compare(k, c.k) < 0 { c.Prev() } *)
  Definition seek_last_less_or_equal (t : btree) (c : cursor) (k : K) : result cursor :=
    '(c1, ok) <- seek t c k ;;
    if negb ok then Ok c1
    else if is_lt (cmp k (ck c1)) then cursor_prev1 t c1 else Ok c1.

  (* SeekFirstGreaterOrEqual: if compare(k, c.k) > 0 { c.Next() } *)
  Definition seek_first_greater_or_equal (t : btree) (c : cursor) (k : K) : result cursor :=
    '(c1, ok) <- seek t c k ;;
    if negb ok then Ok c1
    else if is_gt (cmp k (ck c1)) then cursor_next1 t c1 else Ok c1.

  (* SeekFirstGreater: if compare(k, c.k) >= 0 { c.Next() } *)
  Definition seek_first_greater (t : btree) (c : cursor) (k : K) : result cursor :=
    '(c1, ok) <- seek t c k ;;
    if negb ok then Ok c1
    else if is_ge (cmp k (ck c1)) then cursor_next1 t c1 else Ok c1.

  (* cursor.Next: if c.lost() { c.SeekFirstGreater(c.k); return } ... *)
  Definition cursor_next (t : btree) (c : cursor) : result cursor :=
    next_with (fun c' => seek_first_greater t c' (ck c')) t c.

  (* cursor.Prev: if c.lost() { c.SeekLastLess(c.k); return } ... *)
  Definition cursor_prev (t : btree) (c : cursor) : result cursor :=
    prev_with (fun c' => seek_last_less t c' (ck c')) t c.

  (* ---------------- refind / Ok / Key / Value ---------------- *)

  Definition refind (t : btree) (c : cursor) : result (cursor * bool) :=
    l <- lost t c ;;
    if negb l then Ok (c, true)
    else
      match find t (ck c) with
      | Some (x, i, true) => Ok (mkCursor (Some (nid x)) i (ck c) (gen t), true)
      | _ => Ok (c, false)
      end.

  (* Ok: c.curr != nil && c.refind() *)
  Definition cursor_ok (t : btree) (c : cursor) : result (cursor * bool) :=
    match curr c with
    | None => Ok (c, false)
    | Some _ => refind t c
    end.

  Definition cursor_key (c : cursor) : K := ck c.

  (* valueUnchecked: c.curr.values[c.i] (nil curr: nil dereference) *)
  Definition value_unchecked (t : btree) (c : cursor) : result V :=
    match curr c with
    | None => Panic PNil
    | Some id =>
        match find_node id (root t) with
        | None => Panic POther
        | Some x => val_at x (ci c)
        end
    end.

  (* Value: zero if !refind() else c.curr.values[c.i] *)
  Definition cursor_value (t : btree) (c : cursor) : result (cursor * V) :=
    '(c1, ok) <- refind t c ;;
    if negb ok then Ok (c1, vzero)
    else v <- value_unchecked t c1 ;; Ok (c1, v).

  (* ---------------- forwardIterator / backwardIterator ---------------- *)

  (* forwardIterator.Next: None = (zero, false) *)
  Definition forward_next (t : btree) (c : cursor) : result (cursor * option (K * V)) :=
    l <- lost t c ;;
    c1 <- (if l then seek_first_greater_or_equal t c (ck c) else Ok c) ;;
    match curr c1 with
    | None => Ok (c1, None)
    | Some _ =>
        let k := ck c1 in
        v <- value_unchecked t c1 ;;
        c2 <- cursor_next t c1 ;;
        Ok (c2, Some (k, v))
    end.

  Definition backward_next (t : btree) (c : cursor) : result (cursor * option (K * V)) :=
    l <- lost t c ;;
    c1 <- (if l then seek_last_less_or_equal t c (ck c) else Ok c) ;;
    match curr c1 with
    | None => Ok (c1, None)
    | Some _ =>
        let k := ck c1 in
        v <- value_unchecked t c1 ;;
        c2 <- cursor_prev t c1 ;;
        Ok (c2, Some (k, v))
    end.

  (* ---------------- iterator.While ---------------- *)

  (* whileIterator.Next over an inner iterator with state St: (inner state, done). *)
  Definition while_next {St T : Type} (inner : St -> result (St * option T)) (f : T -> bool)
      (st : St * bool) : result ((St * bool) * option T) :=
    let (s, done) := st in
    if done then Ok (st, None)
    else
      '(s', r) <- inner s ;;
      match r with
      | None => Ok ((s', false), None)
      | Some item => if f item then Ok ((s', false), Some item) else Ok ((s', true), None)
      end.

  (* ---------------- Range / RangeReverse ---------------- *)

  (* The iterator returned by Range (it_rev = false) or RangeReverse (it_rev = true):
     forwardIterator/backwardIterator over a copy of the cursor, wrapped in While on the far bound
     (upper for Range, lower for RangeReverse) unless that bound is Unbounded.  it_done is While's
     sticky flag (stays false without While). *)
  Record iter := mkIter { it_rev : bool; it_c : cursor; it_far : bound K; it_done : bool }.

  (* the predicate handed to While *)
  Definition far_ok (rev : bool) (far : bound K) (kv : K * V) : bool :=
    match rev, far with
    | _, BUnb => true
    | false, BInc b => is_le (cmp (fst kv) b)   (* compare(pair.Key, upper.key) <= 0 *)
    | false, BExc b => is_lt (cmp (fst kv) b)   (* < 0 *)
    | true, BInc b => is_ge (cmp (fst kv) b)    (* compare(pair.Key, lower.key) >= 0 *)
    | true, BExc b => is_gt (cmp (fst kv) b)    (* > 0 *)
    end.

  Definition iter_next (t : btree) (it : iter) : result (iter * option (K * V)) :=
    let inner := if it_rev it then backward_next t else forward_next t in
    match it_far it with
    | BUnb =>
        '(c', r) <- inner (it_c it) ;;
        Ok (mkIter (it_rev it) c' (it_far it) (it_done it), r)
    | _ =>
        '((c', d'), r) <- while_next inner (far_ok (it_rev it) (it_far it)) (it_c it, it_done it) ;;
        Ok (mkIter (it_rev it) c' (it_far it) d', r)
    end.

  (* btree.Range *)
  Definition range (t : btree) (lo hi : bound K) : result iter :=
    c <- match lo with
         | BUnb => seek_first t cursor0
         | BInc k => seek_first_greater_or_equal t cursor0 k
         | BExc k => seek_first_greater t cursor0 k
         end ;;
    Ok (mkIter false c hi false).

  (* btree.RangeReverse *)
  Definition range_rev (t : btree) (lo hi : bound K) : result iter :=
    c <- match hi with
         | BInc k => seek_last_less_or_equal t cursor0 k
         | BExc k => seek_last_less t cursor0 k
         | BUnb => seek_last t cursor0
         end ;;
    Ok (mkIter true c lo false).

End Cursor.

Arguments mkCursor {K} curr ci ck cgen.
Arguments curr {K} c.
Arguments ci {K} c.
Arguments ck {K} c.
Arguments cgen {K} c.
Arguments mkIter {K} it_rev it_c it_far it_done.
Arguments it_rev {K} i.
Arguments it_c {K} i.
Arguments it_far {K} i.
Arguments it_done {K} i.
Arguments find_node {K V} id x.
Arguments path_to {K V} id x.
