(* Layer S for tree.Map: the ideal sorted map, a strictly cmp-sorted association list.
   Independent of the B-tree model.  No proofs in this file. *)
From Juniper Require Import Common.Base Tree.Bound.

Section SMap.
  Variables K V : Type.
  Variable cmp : K -> K -> comparison.
  Variable kzero : K.
  Variable vzero : V.

  Definition smap := list (K * V).

  Definition sm_empty : smap := [].

  (* strictly ascending keys (the representation invariant of layer S) *)
  Fixpoint sm_sorted (m : smap) : Prop :=
    match m with
    | [] => True
    | (k, _) :: r =>
        match r with
        | [] => True
        | (k', _) :: _ => cmp k k' = Lt /\ sm_sorted r
        end
    end.

  (* An equivalent key keeps the STORED key and replaces the value. *)
  Fixpoint sm_put (m : smap) (k : K) (v : V) : smap :=
    match m with
    | [] => [(k, v)]
    | (k', v') :: r =>
        match cmp k k' with
        | Lt => (k, v) :: m
        | Eq => (k', v) :: r
        | Gt => (k', v') :: sm_put r k v
        end
    end.

  Fixpoint sm_del (m : smap) (k : K) : smap :=
    match m with
    | [] => []
    | (k', v') :: r =>
        match cmp k k' with
        | Lt => m
        | Eq => r
        | Gt => (k', v') :: sm_del r k
        end
    end.

  (* the stored entry equivalent to k *)
  Fixpoint sm_find (m : smap) (k : K) : option (K * V) :=
    match m with
    | [] => None
    | (k', v') :: r =>
        match cmp k k' with
        | Lt => None
        | Eq => Some (k', v')
        | Gt => sm_find r k
        end
    end.

  Definition sm_get (m : smap) (k : K) : V :=
    match sm_find m k with Some kv => snd kv | None => vzero end.

  Definition sm_contains (m : smap) (k : K) : bool :=
    match sm_find m k with Some _ => true | None => false end.

  Definition sm_len (m : smap) : Z := zlen m.

  Definition sm_first (m : smap) : K * V := hd (kzero, vzero) m.
  Definition sm_last (m : smap) : K * V := last m (kzero, vzero).

  (* key k satisfies the lower / upper bound *)
  Definition in_lo (lo : bound K) (k : K) : bool :=
    match lo with
    | BUnb => true
    | BInc b => is_ge (cmp k b)
    | BExc b => is_gt (cmp k b)
    end.

  Definition in_hi (hi : bound K) (k : K) : bool :=
    match hi with
    | BUnb => true
    | BInc b => is_le (cmp k b)
    | BExc b => is_lt (cmp k b)
    end.

  Definition in_range (lo hi : bound K) (k : K) : bool := in_lo lo k && in_hi hi k.

  (* ascending list of the entries within the bounds *)
  Definition sm_range (lo hi : bound K) (m : smap) : list (K * V) :=
    filter (fun kv => in_range lo hi (fst kv)) m.

  (* descending *)
  Definition sm_range_rev (lo hi : bound K) (m : smap) : list (K * V) :=
    rev (sm_range lo hi m).

End SMap.
