(* Case analysis of the model functions of BTree.v in "append form": every branch of ins / del /
   remove_rightmost / fix_child is described by a decomposition kvs = KA ++ .. ++ KB,
   cs = A ++ c :: B of the node's keys and children at the position the function works on.
   All index arithmetic (search_node, lt_idx, nth, set_at, insert_at, remove_at) is done here once;
   the shape, identity and in-order proofs consume these case lemmas. *)
From Juniper Require Import Common.Base Tree.Bound Tree.BTree Tree.SMap Tree.ProofsLists Tree.ProofsSMap.
Local Open Scope nat_scope.

Arguments Upd {K V} x.
Arguments Ins {K V} x.
Arguments Split {K V} l s r.

Section Cases.
  Context {K V : Type}.
  Variable cmp : K -> K -> comparison.
  Variables (kzero : K) (vzero : V).
  Variables minKVs maxKVs : nat.

  Notation node := (@node K V).
  Notation ins := (ins K V cmp kzero vzero maxKVs).
  Notation del := (del K V cmp kzero vzero minKVs).
  Notation remove_rightmost := (remove_rightmost K V kzero vzero minKVs).
  Notation fix_child := (fix_child K V kzero vzero minKVs).
  Notation rotate_left := (rotate_left K V kzero vzero).
  Notation rotate_right := (rotate_right K V kzero vzero).
  Notation merge_two := (merge_two K V kzero vzero).
  Notation search_node := (search_node K V cmp).
  Notation lt_idx := (lt_idx K V cmp).
  Notation split_node := (split_node K V kzero vzero maxKVs).
  Notation is_full := (is_full K V maxKVs).
  Notation set_val := (set_val K V).
  Notation gt_all := (@gt_all K V cmp).
  Notation lt_hd := (@lt_hd K V cmp).
  Notation kvzero := (kvzero K V kzero vzero).

  (* ---------------- searchNode ---------------- *)

  Lemma search_node_spec k kvs idx found :
    search_node k kvs = (idx, found) ->
    exists KA KB, kvs = KA ++ KB /\ length KA = idx /\ gt_all k KA /\
      (if found then exists k' v' KB', KB = (k', v') :: KB' /\ cmp k k' = Eq else lt_hd k KB).
  Proof.
    revert idx found. induction kvs as [|[k' v'] kvs IH]; intros idx found H; simpl in H.
    - injection H as <- <-. exists [], []. repeat split; constructor.
    - destruct (cmp k k') eqn:E.
      + injection H as <- <-. exists [], ((k', v') :: kvs). repeat split; [constructor|]. eauto.
      + injection H as <- <-. exists [], ((k', v') :: kvs). repeat split; [constructor|]. exact E.
      + destruct (search_node k kvs) as [i f] eqn:Es. injection H as <- <-.
        destruct (IH _ _ eq_refl) as (KA & KB & -> & Hl & Hg & Hf).
        exists ((k', v') :: KA), KB. repeat split; simpl; auto. constructor; auto.
  Qed.

  Lemma search_node_found k KA k' v' KB :
    gt_all k KA -> cmp k k' = Eq -> search_node k (KA ++ (k', v') :: KB) = (length KA, true).
  Proof.
    intros Hg He. induction Hg as [|[k1 v1] KA Hx _ IH]; simpl.
    - rewrite He. reflexivity.
    - simpl in Hx. rewrite Hx, IH. reflexivity.
  Qed.

  Lemma search_node_notfound k KA KB :
    gt_all k KA -> lt_hd k KB -> search_node k (KA ++ KB) = (length KA, false).
  Proof.
    intros Hg Hl. induction Hg as [|[k1 v1] KA Hx _ IH]; simpl.
    - destruct KB as [|[kb vb] KB]; simpl in *; [reflexivity|]. rewrite Hl. reflexivity.
    - simpl in Hx. rewrite Hx, IH. reflexivity.
  Qed.

  Lemma lt_idx_spec k KA KB : gt_all k KA -> lt_hd k KB -> lt_idx k (KA ++ KB) = length KA.
  Proof.
    intros Hg Hl. induction Hg as [|[k1 v1] KA Hx _ IH]; simpl.
    - destruct KB as [|[kb vb] KB]; simpl in *; [reflexivity|]. rewrite Hl. reflexivity.
    - simpl in Hx. rewrite Hx. simpl. rewrite IH. reflexivity.
  Qed.

  Lemma lt_idx_le k kvs : lt_idx k kvs <= length kvs.
  Proof.
    induction kvs as [|[k' v'] kvs IH]; simpl; [lia|]. destruct (is_lt (cmp k k')); lia.
  Qed.

  Lemma search_cost_le w k (kvs : list (K * V)) :
    search_cost_w K V cmp w k kvs <= sumf (fun kv => w k (fst kv)) kvs.
  Proof.
    induction kvs as [|[k' v'] kvs IH]; simpl; [lia|]. rewrite sumf_cons. simpl.
    destruct (cmp k k'); lia.
  Qed.

  (* ---------------- ins ---------------- *)

  Lemma ins_leaf_unfold id kvs k v fresh :
    ins (Node id kvs []) k v fresh =
    let (idx, found) := search_node k kvs in
    if found then (Upd (Node id (set_val idx v kvs) []), fresh)
    else
      let kvs' := insert_at (lt_idx k kvs) (k, v) kvs in
      if is_full kvs then (split_node id fresh kvs' [], S fresh)
      else (Ins (Node id kvs' []), fresh).
  Proof. reflexivity. Qed.

  Lemma ins_internal_unfold id kvs cs k v fresh :
    cs <> [] ->
    ins (Node id kvs cs) k v fresh =
    let (idx, found) := search_node k kvs in
    if found then (Upd (Node id (set_val idx v kvs) cs), fresh)
    else
      match nth_map (fun c => ins c k v fresh) (Upd dummy, fresh) cs idx with
      | (Upd c, fresh') => (Upd (Node id kvs (set_at idx c cs)), fresh')
      | (Ins c, fresh') => (Ins (Node id kvs (set_at idx c cs)), fresh')
      | (Split l s r, fresh') =>
          if is_full kvs then
            let e := lt_idx (fst s) kvs in
            (split_node id fresh' (insert_at e s kvs) (insert_at (S e) r (set_at idx l cs)),
             S fresh')
          else
            (Ins (Node id (insert_at idx s kvs) (insert_at (S idx) r (set_at idx l cs))), fresh')
      end.
  Proof. destruct cs; [congruence|reflexivity]. Qed.

  Inductive ins_spec (id : nat) (kvs : list (K * V)) (cs : list node) (k : K) (v : V)
      (fresh : nat) : ins_res K V * nat -> Prop :=
  | IS_found KA k' v' KB :
      kvs = KA ++ (k', v') :: KB -> gt_all k KA -> cmp k k' = Eq ->
      ins_spec id kvs cs k v fresh (Upd (Node id (KA ++ (k', v) :: KB) cs), fresh)
  | IS_leaf_ins KA KB :
      cs = [] -> kvs = KA ++ KB -> gt_all k KA -> lt_hd k KB -> length kvs < maxKVs ->
      ins_spec id kvs cs k v fresh (Ins (Node id (KA ++ (k, v) :: KB) []), fresh)
  | IS_leaf_split KA KB :
      cs = [] -> kvs = KA ++ KB -> gt_all k KA -> lt_hd k KB -> maxKVs <= length kvs ->
      ins_spec id kvs cs k v fresh (split_node id fresh (KA ++ (k, v) :: KB) [], S fresh)
  | IS_upd KA KB A c B c' fresh' :
      kvs = KA ++ KB -> cs = A ++ c :: B -> length KA = length A -> length KB = length B ->
      gt_all k KA -> lt_hd k KB -> ins c k v fresh = (Upd c', fresh') ->
      ins_spec id kvs cs k v fresh (Upd (Node id kvs (A ++ c' :: B)), fresh')
  | IS_ins KA KB A c B c' fresh' :
      kvs = KA ++ KB -> cs = A ++ c :: B -> length KA = length A -> length KB = length B ->
      gt_all k KA -> lt_hd k KB -> ins c k v fresh = (Ins c', fresh') ->
      ins_spec id kvs cs k v fresh (Ins (Node id kvs (A ++ c' :: B)), fresh')
  | IS_split_ins KA KB A c B l s r fresh' :
      kvs = KA ++ KB -> cs = A ++ c :: B -> length KA = length A -> length KB = length B ->
      gt_all k KA -> lt_hd k KB -> ins c k v fresh = (Split l s r, fresh') ->
      length kvs < maxKVs ->
      ins_spec id kvs cs k v fresh
        (Ins (Node id (KA ++ s :: KB) (A ++ l :: r :: B)), fresh')
  | IS_split_split KA KB A c B l s r fresh' :
      kvs = KA ++ KB -> cs = A ++ c :: B -> length KA = length A -> length KB = length B ->
      gt_all k KA -> lt_hd k KB -> ins c k v fresh = (Split l s r, fresh') ->
      maxKVs <= length kvs ->
      ins_spec id kvs cs k v fresh
        (split_node id fresh' (insert_at (lt_idx (fst s) kvs) s kvs)
           (insert_at (S (lt_idx (fst s) kvs)) r (A ++ l :: B)), S fresh').

  Lemma ins_spec_holds id kvs cs k v fresh :
    (cs = [] \/ length cs = S (length kvs)) ->
    ins_spec id kvs cs k v fresh (ins (Node id kvs cs) k v fresh).
  Proof.
    intros Hcs.
    destruct (search_node k kvs) as [idx found] eqn:Es.
    destruct (search_node_spec _ _ _ _ Es) as (KA & KB & Hk & Hl & Hg & Hf).
    assert (Hfound : found = true ->
              ins (Node id kvs cs) k v fresh = (Upd (Node id (set_val idx v kvs) cs), fresh)).
    { intros ->. destruct cs; simpl; rewrite Es; reflexivity. }
    destruct found.
    - rewrite (Hfound eq_refl).
      destruct Hf as (k' & v' & KB' & -> & He).
      replace (set_val idx v kvs) with (KA ++ (k', v) :: KB').
      + eapply IS_found; eauto.
      + unfold BTree.set_val. subst kvs. rewrite (nth_error_app_mid KA KB' (k', v') idx Hl).
        rewrite set_at_app_mid by assumption. reflexivity.
    - clear Hfound. destruct cs as [|c0 cs0].
      + rewrite ins_leaf_unfold, Es.
        cbv zeta. subst kvs. rewrite (lt_idx_spec k KA KB Hg Hf), insert_at_app_mid by reflexivity.
        destruct (is_full (KA ++ KB)) eqn:Ef; unfold BTree.is_full in Ef.
        * apply Nat.leb_le in Ef. eapply IS_leaf_split; eauto.
        * apply Nat.leb_gt in Ef. eapply IS_leaf_ins; eauto.
      + destruct Hcs as [Hcs|Hcs]; [discriminate|].
        rewrite ins_internal_unfold by discriminate. rewrite Es.
        remember (c0 :: cs0) as cs eqn:Ecs. clear Ecs c0 cs0.
        assert (Hidx : idx <= length kvs) by (subst kvs; rewrite app_length; lia).
        destruct (decomp_at kvs cs idx Hcs Hidx)
          as (KA' & KB' & A & c & B & Hk' & Hc & HlA' & HlA & HlB).
        assert (KA' = KA /\ KB' = KB) as [-> ->].
        { rewrite Hk in Hk'. apply app_inv_length_l; [lia|]. assumption. }
        clear Hk'.
        rewrite (nth_map_some _ _ cs idx c) by (subst cs; apply nth_error_app_mid; assumption).
        destruct (ins c k v fresh) as [[c'|c'|l s r] fresh'] eqn:Ei.
        * subst cs. rewrite set_at_app_mid by assumption.
          eapply IS_upd; eauto; lia.
        * subst cs. rewrite set_at_app_mid by assumption.
          eapply IS_ins; eauto; lia.
        * subst cs. rewrite set_at_app_mid by assumption.
          destruct (is_full kvs) eqn:Ef; unfold BTree.is_full in Ef.
          -- apply Nat.leb_le in Ef. cbv zeta. eapply IS_split_split; eauto; lia.
          -- apply Nat.leb_gt in Ef. rewrite insert_at_app_mid_S by assumption.
             rewrite Hk at 2. rewrite insert_at_app_mid by assumption.
             eapply IS_split_ins; eauto; lia.
  Qed.

  (* ---------------- fix_child ---------------- *)

  Definition rotl_child (c r : node) (s : K * V) : node :=
    Node (nid c) (nkvs c ++ [s]) (ncs c ++ firstn 1 (ncs r)).
  Definition rotl_sib (r : node) : node := Node (nid r) (skipn 1 (nkvs r)) (skipn 1 (ncs r)).
  Definition rotr_child (l c : node) (s : K * V) : node :=
    Node (nid c) (s :: nkvs c) (skipn (nkeys l) (ncs l) ++ ncs c).
  Definition rotr_sib (l : node) : node :=
    Node (nid l) (firstn (pred (nkeys l)) (nkvs l)) (firstn (nkeys l) (ncs l)).
  Definition merged (a b : node) (s : K * V) : node :=
    Node (nid a) (nkvs a ++ s :: nkvs b) (ncs a ++ ncs b).

  Lemma rotate_left_app KA s KB A c r B :
    length KA = length A ->
    rotate_left (KA ++ s :: KB) (A ++ c :: r :: B) (length A) =
    (KA ++ nth 0 (nkvs r) kvzero :: KB, A ++ rotl_child c r s :: rotl_sib r :: B).
  Proof.
    intros Hl. unfold BTree.rotate_left.
    rewrite (nth_app_mid A (r :: B) c dummy (length A) eq_refl).
    rewrite (nth_app_mid_S A B c r dummy (length A) eq_refl).
    rewrite (nth_app_mid KA KB s kvzero (length A) Hl).
    rewrite (set_at_app_mid KA KB s _ (length A) Hl).
    rewrite (set_at_app_mid A (r :: B) c _ (length A) eq_refl).
    rewrite (set_at_app_mid_S A B _ r _ (length A) eq_refl).
    reflexivity.
  Qed.

  Lemma rotate_right_app KA s KB A l c B :
    length KA = length A ->
    rotate_right (KA ++ s :: KB) (A ++ l :: c :: B) (S (length A)) =
    (KA ++ nth (pred (nkeys l)) (nkvs l) kvzero :: KB, A ++ rotr_sib l :: rotr_child l c s :: B).
  Proof.
    intros Hl. unfold BTree.rotate_right. cbn [pred].
    rewrite (nth_app_mid A (c :: B) l dummy (length A) eq_refl).
    rewrite (nth_app_mid_S A B l c dummy (length A) eq_refl).
    rewrite (nth_app_mid KA KB s kvzero (length A) Hl).
    rewrite (set_at_app_mid KA KB s _ (length A) Hl).
    rewrite (set_at_app_mid A (c :: B) l _ (length A) eq_refl).
    rewrite (set_at_app_mid_S A B _ c _ (length A) eq_refl).
    reflexivity.
  Qed.

  Lemma merge_two_app KA s KB A a b B :
    length KA = length A ->
    merge_two (KA ++ s :: KB) (A ++ a :: b :: B) (length A) =
    (KA ++ KB, A ++ merged a b s :: B).
  Proof.
    intros Hl. unfold BTree.merge_two.
    rewrite (nth_app_mid A (b :: B) a dummy (length A) eq_refl).
    rewrite (nth_app_mid_S A B a b dummy (length A) eq_refl).
    rewrite (nth_app_mid KA KB s kvzero (length A) Hl).
    rewrite (remove_at_app_mid KA KB s (length A) Hl).
    rewrite (set_at_app_mid A (b :: B) a _ (length A) eq_refl).
    rewrite (remove_at_app_mid_S A B _ b (length A) eq_refl).
    reflexivity.
  Qed.

  (* result of fix_child on the node (id, kvs, A ++ c :: B) at the position of c *)
  Inductive fix_spec (id : nat) (kvs : list (K * V)) (A : list node) (c : node) (B : list node)
      : node -> Prop :=
  | FS_ok :
      minKVs <= nkeys c -> fix_spec id kvs A c B (Node id kvs (A ++ c :: B))
  | FS_rotl KA s KB r B' :
      kvs = KA ++ s :: KB -> B = r :: B' -> length KA = length A ->
      nkeys c < minKVs -> minKVs < nkeys r ->
      fix_spec id kvs A c B
        (Node id (KA ++ nth 0 (nkvs r) kvzero :: KB) (A ++ rotl_child c r s :: rotl_sib r :: B'))
  | FS_rotr KA s KB A' l :
      kvs = KA ++ s :: KB -> A = A' ++ [l] -> length KA = length A' ->
      nkeys c < minKVs -> minKVs < nkeys l ->
      fix_spec id kvs A c B
        (Node id (KA ++ nth (pred (nkeys l)) (nkvs l) kvzero :: KB)
              (A' ++ rotr_sib l :: rotr_child l c s :: B))
  | FS_merge_l KA s KB A' l :
      kvs = KA ++ s :: KB -> A = A' ++ [l] -> length KA = length A' ->
      nkeys c < minKVs -> nkeys l <= minKVs ->
      fix_spec id kvs A c B (Node id (KA ++ KB) (A' ++ merged l c s :: B))
  | FS_merge_r s KB r B' :
      kvs = s :: KB -> A = [] -> B = r :: B' ->
      nkeys c < minKVs -> nkeys r <= minKVs ->
      fix_spec id kvs A c B (Node id KB (merged c r s :: B')).

  Lemma fix_spec_holds id kvs A c B :
    length (A ++ c :: B) = S (length kvs) -> 1 <= length kvs ->
    fix_spec id kvs A c B (fix_child id kvs (A ++ c :: B) (length A)).
  Proof.
    intros Hlen Hne. unfold BTree.fix_child.
    rewrite (nth_app_mid A B c dummy (length A) eq_refl).
    destruct (minKVs <=? nkeys c) eqn:Eok.
    { apply Nat.leb_le in Eok. apply FS_ok; assumption. }
    apply Nat.leb_gt in Eok.
    rewrite app_length in Hlen. cbn [length] in Hlen.
    (* right sibling *)
    destruct ((length A <? length kvs) && (minKVs <? nkeys (nth (S (length A)) (A ++ c :: B) dummy)))
      eqn:Er.
    { apply andb_true_iff in Er. destruct Er as [Er1 Er2].
      apply Nat.ltb_lt in Er1. apply Nat.ltb_lt in Er2.
      destruct B as [|r B']; [simpl in Hlen; lia|].
      rewrite (nth_app_mid_S A B' c r dummy (length A) eq_refl) in Er2.
      destruct (split_at_len kvs (length A) Er1) as (KA & s & KB & Hk & HlKA).
      subst kvs. rewrite rotate_left_app by assumption.
      eapply FS_rotl; eauto. }
    (* left sibling *)
    destruct (rev_case A) as [HA|(A' & l & HA)].
    - (* no left sibling: i = 0 *)
      subst A. cbn [length app] in *. cbn [Nat.ltb Nat.leb andb pred].
      destruct kvs as [|s KB]; [simpl in Hne; lia|].
      destruct B as [|r B']; [simpl in Hlen; lia|].
      cbn [length] in Er. cbn [nth] in Er. cbn [Nat.ltb Nat.leb andb] in Er.
      apply Nat.ltb_ge in Er.
      pose proof (merge_two_app [] s KB [] c r B' eq_refl) as Hm. cbn [app length] in Hm.
      rewrite Hm. eapply FS_merge_r; eauto.
    - subst A. rewrite length_snoc in *. cbn [pred].
      assert (H0 : (0 <? S (length A')) = true) by (apply Nat.ltb_lt; lia).
      rewrite H0. cbn [andb].
      rewrite <- (app_assoc A' [l] (c :: B)). cbn [app].
      rewrite (nth_app_mid A' (c :: B) l dummy (length A') eq_refl).
      assert (HiA : length A' < length kvs) by lia.
      destruct (split_at_len kvs (length A') HiA) as (KA & s & KB & Hk & HlKA).
      subst kvs.
      destruct (minKVs <? nkeys l) eqn:El.
      + apply Nat.ltb_lt in El. rewrite rotate_right_app by assumption.
        eapply FS_rotr; eauto.
      + apply Nat.ltb_ge in El. assert (El' : (nkeys l <=? minKVs) = true) by (apply Nat.leb_le; lia).
        rewrite El'. rewrite merge_two_app by assumption.
        eapply FS_merge_l; eauto.
  Qed.

  (* ---------------- remove_rightmost ---------------- *)

  Lemma rr_leaf_unfold id kvs :
    remove_rightmost (Node id kvs []) = (Node id (removelast kvs) [], last kvs kvzero).
  Proof. reflexivity. Qed.

  Lemma rr_internal_unfold id kvs cs :
    cs <> [] ->
    remove_rightmost (Node id kvs cs) =
    let i := length kvs in
    let '(c', kv) := nth_map remove_rightmost (dummy, kvzero) cs i in
    (fix_child id kvs (set_at i c' cs) i, kv).
  Proof. destruct cs; [congruence|reflexivity]. Qed.

  Lemma rr_internal id kvs A c c' kv :
    length A = length kvs -> remove_rightmost c = (c', kv) ->
    remove_rightmost (Node id kvs (A ++ [c])) =
    (fix_child id kvs (A ++ [c']) (length A), kv).
  Proof.
    intros Hl Hr. rewrite rr_internal_unfold by (destruct A; discriminate). cbv zeta.
    rewrite <- Hl.
    rewrite (nth_map_some _ _ (A ++ [c]) (length A) c) by (apply nth_error_app_mid; reflexivity).
    rewrite Hr. rewrite set_at_app_mid by reflexivity. reflexivity.
  Qed.

  (* ---------------- del ---------------- *)

  Lemma del_leaf_unfold id kvs k :
    del (Node id kvs []) k =
    let (idx, found) := search_node k kvs in
    if found then (Node id (remove_at idx kvs) [], true) else (Node id kvs [], false).
  Proof. reflexivity. Qed.

  Lemma del_internal_unfold id kvs cs k :
    cs <> [] ->
    del (Node id kvs cs) k =
    let (idx, found) := search_node k kvs in
    if found then
      let '(c', kv) := nth_map remove_rightmost (dummy, kvzero) cs idx in
      (fix_child id (set_at idx kv kvs) (set_at idx c' cs) idx, true)
    else
      let '(c', b) := nth_map (fun c => del c k) (dummy, false) cs idx in
      if b then (fix_child id kvs (set_at idx c' cs) idx, true) else (Node id kvs cs, false).
  Proof. destruct cs; [congruence|reflexivity]. Qed.

  Inductive del_spec (id : nat) (kvs : list (K * V)) (cs : list node) (k : K)
      : node * bool -> Prop :=
  | DS_leaf_found KA k' v' KB :
      cs = [] -> kvs = KA ++ (k', v') :: KB -> gt_all k KA -> cmp k k' = Eq ->
      del_spec id kvs cs k (Node id (KA ++ KB) [], true)
  | DS_leaf_nf KA KB :
      cs = [] -> kvs = KA ++ KB -> gt_all k KA -> lt_hd k KB ->
      del_spec id kvs cs k (Node id kvs cs, false)
  | DS_found KA k' v' KB A c B c' kv :
      kvs = KA ++ (k', v') :: KB -> cs = A ++ c :: B ->
      length KA = length A -> S (length KB) = length B ->
      gt_all k KA -> cmp k k' = Eq -> remove_rightmost c = (c', kv) ->
      del_spec id kvs cs k (fix_child id (KA ++ kv :: KB) (A ++ c' :: B) (length A), true)
  | DS_desc KA KB A c B c' :
      kvs = KA ++ KB -> cs = A ++ c :: B -> length KA = length A -> length KB = length B ->
      gt_all k KA -> lt_hd k KB -> del c k = (c', true) ->
      del_spec id kvs cs k (fix_child id kvs (A ++ c' :: B) (length A), true)
  | DS_desc_nf KA KB A c B c' :
      kvs = KA ++ KB -> cs = A ++ c :: B -> length KA = length A -> length KB = length B ->
      gt_all k KA -> lt_hd k KB -> del c k = (c', false) ->
      del_spec id kvs cs k (Node id kvs cs, false).

  Lemma del_spec_holds id kvs cs k :
    (cs = [] \/ length cs = S (length kvs)) ->
    del_spec id kvs cs k (del (Node id kvs cs) k).
  Proof.
    intros Hcs.
    destruct (search_node k kvs) as [idx found] eqn:Es.
    destruct (search_node_spec _ _ _ _ Es) as (KA & KB & Hk & Hl & Hg & Hf).
    destruct cs as [|c0 cs0].
    - rewrite del_leaf_unfold, Es. destruct found.
      + destruct Hf as (k' & v' & KB' & -> & He). subst kvs.
        rewrite remove_at_app_mid by assumption. eapply DS_leaf_found; eauto.
      + eapply DS_leaf_nf; eauto.
    - destruct Hcs as [Hcs|Hcs]; [discriminate|].
      rewrite del_internal_unfold by discriminate. rewrite Es.
      remember (c0 :: cs0) as cs eqn:Ecs. clear Ecs c0 cs0.
      assert (Hidx : idx <= length kvs) by (subst kvs; rewrite app_length; lia).
      destruct (decomp_at kvs cs idx Hcs Hidx)
        as (KA' & KB' & A & c & B & Hk' & Hc & HlA' & HlA & HlB).
      assert (KA' = KA /\ KB' = KB) as [-> ->].
      { rewrite Hk in Hk'. apply app_inv_length_l; [lia|]. assumption. }
      clear Hk'.
      rewrite !(nth_map_some _ _ cs idx c) by (subst cs; apply nth_error_app_mid; assumption).
      destruct found.
      + destruct Hf as (k' & v' & KB' & -> & He).
        destruct (remove_rightmost c) as [c' kv] eqn:Er.
        subst cs kvs. rewrite !set_at_app_mid by assumption. rewrite <- HlA.
        eapply DS_found; eauto; simpl in HlB; lia.
      + destruct (del c k) as [c' b] eqn:Ed. destruct b.
        * subst cs. rewrite set_at_app_mid by assumption. rewrite <- HlA.
          eapply DS_desc; eauto; lia.
        * eapply DS_desc_nf; eauto; lia.
  Qed.

End Cases.
