(* Tree level: the invariant `wf`, its preservation by Put / Delete from the empty tree (C03), the
   abstraction `inorder (root t)` to the ideal sorted map (C01), and the history-level refinement
   run_M = run_S for histories without live iterators and range scans. *)
From Juniper Require Import Common.Base Tree.Bound Tree.BTree Tree.Cursor Tree.SMap Tree.AIter Tree.Hist
  Tree.ProofsLists Tree.ProofsSMap Tree.ProofsCases Tree.ProofsWf Tree.ProofsIds
  Tree.ProofsInorder Tree.ProofsLookup.
Local Open Scope nat_scope.

Section WfDef.
  Context {K V : Type}.
  Variable cmp : K -> K -> comparison.
  Variables minKVs maxKVs : nat.

  (* The invariant of tree.Map / tree.Set (C03):
     - wf_shape: balanced (all leaves at one depth), every node has <= maxKVs keys and is a leaf or
       has one child more than keys, every non-root node has >= minKVs keys, an internal root has
       >= 1 key, node identities are pairwise distinct and below next_id;
     - the keys are strictly ascending along the in-order traversal;
     - size is the number of stored keys. *)
  Definition wf (t : @btree K V) : Prop :=
    wf_shape minKVs maxKVs t /\
    sm_sorted K V cmp (inorder (root t)) /\
    size t = Z.of_nat (length (inorder (root t))).
End WfDef.

Section Tree.
  Context {K V : Type}.
  Variable cmp : K -> K -> comparison.
  Hypothesis L : cmp_laws cmp.
  Variables (kzero : K) (vzero : V).
  Variables minKVs maxKVs : nat.
  Hypothesis Hmin : 1 <= minKVs.
  Hypothesis Hmax : 2 * minKVs <= maxKVs.

  Notation node := (@node K V).
  Notation btree := (@btree K V).
  Notation ins := (ins K V cmp kzero vzero maxKVs).
  Notation del := (del K V cmp kzero vzero minKVs).
  Notation put := (put K V cmp kzero vzero maxKVs).
  Notation delete := (delete K V cmp kzero vzero minKVs).
  Notation get := (get K V cmp kzero vzero).
  Notation contains := (contains K V cmp).
  Notation first := (first K V kzero vzero).
  Notation last_kv := (last_kv K V kzero vzero).
  Notation shaped := (shaped minKVs maxKVs).
  Notation okc := (okc minKVs maxKVs).
  Notation wf_shape := (wf_shape minKVs maxKVs).
  Notation wf := (wf cmp minKVs maxKVs).
  Notation sorted := (@sorted K V cmp).
  Notation sm_put := (sm_put K V cmp).
  Notation sm_del := (sm_del K V cmp).
  Notation sm_get := (sm_get K V cmp vzero).
  Notation sm_contains := (sm_contains K V cmp).

  Lemma wf_empty : wf (@empty_tree K V).
  Proof.
    unfold wf, ProofsWf.wf_shape, empty_tree. cbn [root size next_id]. repeat split.
    - exists 0. apply shaped_0. split; [simpl; lia|reflexivity].
    - intros H. simpl in H. congruence.
    - simpl. constructor; [simpl; tauto|constructor].
    - simpl. constructor; [lia|constructor].
  Qed.

  Lemma root_ok_mono d (x y : node) :
    shaped d x -> shaped d y -> root_ok x -> nkeys x <= nkeys y -> root_ok y.
  Proof.
    destruct x as [xi xk xc], y as [yi yk yc]. unfold root_ok. nk. intros Hx Hy Hr Hn Hne.
    destruct d as [|d].
    - apply shaped_0_inv in Hy. destruct Hy as [_ ->]. congruence.
    - apply shaped_cs_S in Hx. specialize (Hr Hx). lia.
  Qed.

  (* wf in the internal vocabulary *)
  Lemma wf_unpack (t : btree) :
    wf t ->
    exists d, shaped d (root t) /\ root_ok (root t) /\ ids_ok (next_id t) (root t) /\
              sorted (inorder (root t)) /\ size t = Z.of_nat (length (inorder (root t))).
  Proof.
    intros (((d & Hd) & Hr & Hn & Hf) & Hs & Hz). exists d.
    split; [assumption|]. split; [assumption|].
    split; [apply ids_ok_iff; split; assumption|].
    split; [apply (sm_sorted_iff cmp L); assumption|assumption].
  Qed.

  Lemma wf_pack (t : btree) d :
    shaped d (root t) -> root_ok (root t) -> ids_ok (next_id t) (root t) ->
    sorted (inorder (root t)) -> size t = Z.of_nat (length (inorder (root t))) -> wf t.
  Proof.
    intros Hd Hr Hi Hs Hz. apply (proj1 (ids_ok_iff _ _)) in Hi. destruct Hi as [Hn Hf].
    split; [|split; [apply (sm_sorted_iff cmp L); assumption|assumption]].
    split; [exists d; assumption|]. split; [assumption|]. split; assumption.
  Qed.

  (* ---------------- Put ---------------- *)

  Theorem put_spec (t : btree) k v :
    wf t ->
    wf (put t k v) /\ inorder (root (put t k v)) = sm_put (inorder (root t)) k v.
  Proof.
    intros Hw. destruct (wf_unpack t Hw) as (d & Hd & Hr & Hi & Hs & Hz).
    pose proof (ins_shaped cmp kzero vzero minKVs maxKVs Hmin Hmax d (root t) k v (next_id t) Hd) as Sh.
    pose proof (ins_ids cmp kzero vzero minKVs maxKVs Hmin Hmax d (root t) k v (next_id t) Hd) as Id.
    pose proof (ins_inorder cmp L kzero vzero minKVs maxKVs Hmin Hmax d (root t) k v (next_id t) Hd Hs)
      as [Io Up].
    pose proof (length_sm_put cmp (inorder (root t)) k v) as Len.
    unfold ins_ids_stmt in Id. unfold BTree.put.
    destruct (ins (root t) k v (next_id t)) as [[x|x|l s r] fresh] eqn:Ei;
      cbn [fst snd ins_shape res_idc res_inorder res_is_upd] in *; destruct Id as [Hle Id].
    - destruct Sh as [Sh1 Sh2]. rewrite <- Up in Len. split; [|exact Io].
      apply (wf_pack _ d); cbn [root size next_id].
      + exact Sh1.
      + exact (root_ok_mono d (root t) x Hd Sh1 Hr Sh2).
      + intros a. specialize (Id a). destruct (Hi a) as [H1 H2].
        pose proof (ind_spec (next_id t) fresh a). lia.
      + rewrite Io. apply sorted_sm_put; assumption.
      + rewrite Io, Len. assumption.
    - destruct Sh as [Sh1 Sh2]. rewrite <- Up in Len. split; [|exact Io].
      apply (wf_pack _ d); cbn [root size next_id].
      + exact Sh1.
      + exact (root_ok_mono d (root t) x Hd Sh1 Hr Sh2).
      + intros a. specialize (Id a). destruct (Hi a) as [H1 H2].
        pose proof (ind_spec (next_id t) fresh a). lia.
      + rewrite Io. apply sorted_sm_put; assumption.
      + rewrite Io, Len. lia.
    - destruct Sh as [Sl Sr]. rewrite <- Up in Len.
      assert (Hio : inorder (Node fresh [s] [l; r]) = inorder l ++ s :: inorder r).
      { rewrite inorder_internal by discriminate. simpl. rewrite app_nil_r. reflexivity. }
      split; [|cbn [root]; rewrite Hio; exact Io].
      apply (wf_pack _ (S d)); cbn [root size next_id].
      + apply shaped_S. simpl. repeat split; try lia. constructor; [assumption|].
        constructor; [assumption|constructor].
      + intros _. nk. simpl. lia.
      + intros a. specialize (Id a). destruct (Hi a) as [H1 H2].
        rewrite idc_node, !sumf_cons, sumf_nil.
        pose proof (ind_spec (next_id t) fresh a). pose proof (eqb_ind fresh a). lia.
      + rewrite Hio, Io. apply sorted_sm_put; assumption.
      + rewrite Hio, Io, Len. lia.
  Qed.

  (* ---------------- Delete ---------------- *)

  Lemma root_nonempty d (x : node) : shaped d x -> root_ok x -> d <> 0 -> 1 <= nkeys x.
  Proof.
    destruct x as [id kvs cs]. intros Hs Hr Hd. destruct d as [|d]; [congruence|].
    apply shaped_cs_S in Hs. apply Hr. assumption.
  Qed.

  Theorem delete_spec (t : btree) k :
    wf t ->
    wf (delete t k) /\ inorder (root (delete t k)) = sm_del (inorder (root t)) k.
  Proof.
    intros Hw. destruct (wf_unpack t Hw) as (d & Hd & Hr & Hi & Hs & Hz).
    pose proof (root_nonempty d (root t) Hd Hr) as Hne.
    pose proof (del_shaped cmp kzero vzero minKVs maxKVs Hmin Hmax d (root t) k Hd Hne) as Sh.
    pose proof (fun a => del_ids cmp kzero vzero minKVs maxKVs Hmin Hmax d (root t) k a Hd Hne) as Id.
    pose proof (del_inorder cmp L kzero vzero minKVs maxKVs Hmin Hmax d (root t) k Hd Hne Hs)
      as [Io Fd].
    pose proof (length_sm_del cmp (inorder (root t)) k) as Len.
    unfold del_shape in Sh. unfold BTree.delete.
    destruct (del (root t) k) as [x b] eqn:Ed. cbn [fst snd] in *. destruct Sh as [Sh1 Sh2].
    destruct b.
    - rewrite <- Fd in Len.
      assert (Hpos : 1 <= length (inorder (root t))).
      { destruct (inorder (root t)); [|simpl; lia]. unfold SMap.sm_contains in Fd. simpl in Fd.
        discriminate. }
      destruct x as [xi xk xc].
      assert (Hcase :
        (exists c, xk = [] /\ xc = [c] /\ d <> 0) \/
        (match xk, xc with [], c :: _ => c | _, _ => Node xi xk xc end = Node xi xk xc
         /\ root_ok (Node xi xk xc))).
      { destruct xk as [|kv xk].
        - destruct xc as [|c xc].
          + right. split; [reflexivity|]. intros H. simpl in H. congruence.
          + left. destruct d as [|d]; [apply shaped_0_inv in Sh1; destruct Sh1; discriminate|].
            apply shaped_S_inv in Sh1. destruct Sh1 as (_ & Hl & _). simpl in Hl.
            destruct xc; [|discriminate]. exists c. auto.
        - right. split; [reflexivity|]. intros _. nk. simpl. lia. }
      destruct Hcase as [(c & -> & -> & Hd0)|[Heq Hrx]].
      + (* root collapse *)
        destruct d as [|d]; [congruence|].
        apply shaped_S_inv in Sh1. destruct Sh1 as (_ & _ & F).
        inversion F as [|? ? [Hcm Hcs] _]; subst.
        assert (Hio : inorder (Node xi [] [c]) = inorder c).
        { rewrite inorder_internal by discriminate. simpl. apply app_nil_r. }
        rewrite Hio in Io.
        split; [|exact Io].
        apply (wf_pack _ d); cbn [root size next_id].
        * exact Hcs.
        * intros _. lia.
        * intros a. specialize (Id a). destruct (Hi a) as [H1 H2].
          rewrite idc_node, sumf_cons, sumf_nil in Id. lia.
        * rewrite Io. apply sorted_sm_del; assumption.
        * rewrite Io, Len. lia.
      + rewrite Heq. split; [|exact Io].
        apply (wf_pack _ d); cbn [root size next_id].
        * exact Sh1.
        * exact Hrx.
        * intros a. specialize (Id a). destruct (Hi a) as [H1 H2]. lia.
        * rewrite Io. apply sorted_sm_del; assumption.
        * rewrite Io, Len. lia.
    - split; [assumption|].
      rewrite (sm_del_absent cmp); [reflexivity|]. symmetry. exact Fd.
  Qed.

  (* ---------------- reads ---------------- *)

  Theorem get_spec (t : btree) k : wf t -> get t k = sm_get (inorder (root t)) k.
  Proof.
    intros Hw. destruct (wf_unpack t Hw) as (d & Hd & Hr & Hi & Hs & Hz).
    apply (lookup_inorder cmp kzero vzero minKVs maxKVs Hmin L d (root t) k Hd Hs).
  Qed.

  Theorem contains_spec (t : btree) k : wf t -> contains t k = sm_contains (inorder (root t)) k.
  Proof.
    intros Hw. destruct (wf_unpack t Hw) as (d & Hd & Hr & Hi & Hs & Hz).
    apply (lookup_inorder cmp kzero vzero minKVs maxKVs Hmin L d (root t) k Hd Hs).
  Qed.

  Theorem len_spec (t : btree) : wf t -> len t = sm_len K V (inorder (root t)).
  Proof. intros (_ & _ & Hz). exact Hz. Qed.

  Lemma empty_root d (x : node) : shaped d x -> root_ok x -> nkeys x = 0 -> inorder x = [].
  Proof.
    destruct x as [id kvs cs]. unfold root_ok. nk. intros Hs Hr Hn.
    destruct cs as [|c cs].
    - rewrite inorder_leaf. destruct kvs; [reflexivity|discriminate].
    - specialize (Hr ltac:(discriminate)). lia.
  Qed.

  Theorem first_spec (t : btree) : wf t -> first t = sm_first K V kzero vzero (inorder (root t)).
  Proof.
    intros Hw. destruct (wf_unpack t Hw) as (d & Hd & Hr & Hi & Hs & Hz).
    unfold BTree.first, SMap.sm_first. destruct (nkeys (root t) =? 0) eqn:E.
    - apply Nat.eqb_eq in E. rewrite (empty_root d _ Hd Hr E). reflexivity.
    - apply Nat.eqb_neq in E.
      destruct (first_inorder kzero vzero minKVs maxKVs Hmin d (root t) Hd ltac:(lia)) as (rest & Hf).
      rewrite Hf. reflexivity.
  Qed.

  Theorem last_spec (t : btree) : wf t -> last_kv t = sm_last K V kzero vzero (inorder (root t)).
  Proof.
    intros Hw. destruct (wf_unpack t Hw) as (d & Hd & Hr & Hi & Hs & Hz).
    unfold BTree.last_kv, SMap.sm_last. destruct (nkeys (root t) =? 0) eqn:E.
    - apply Nat.eqb_eq in E. rewrite (empty_root d _ Hd Hr E). reflexivity.
    - apply Nat.eqb_neq in E.
      destruct (last_inorder kzero vzero minKVs maxKVs Hmin d (root t) Hd ltac:(lia)) as (front & Hf).
      rewrite Hf, last_last. reflexivity.
  Qed.

  (* ---------------- C03 consequences ---------------- *)

  Theorem wf_height (t : btree) : wf t -> exists d, shaped d (root t) /\ height (root t) = S d.
  Proof.
    intros Hw. destruct (wf_unpack t Hw) as (d & Hd & _). exists d. split; [assumption|].
    eapply shaped_height; eassumption.
  Qed.

  Theorem depth_bound_nat (t : btree) :
    wf t -> 1 <= length (inorder (root t)) ->
    2 * (minKVs + 1) ^ (height (root t) - 1) <= length (inorder (root t)) + 1.
  Proof.
    intros Hw Hn. destruct (wf_unpack t Hw) as (d & Hd & Hr & Hi & Hs & Hz).
    rewrite (shaped_height _ _ _ _ Hd). replace (S d - 1) with d by lia.
    eapply depth_lower; eassumption.
  Qed.

  Theorem depth_bound (t : btree) :
    wf t -> (1 <= size t)%Z ->
    (2 * (Z.of_nat minKVs + 1) ^ (Z.of_nat (height (root t)) - 1) <= size t + 1)%Z.
  Proof.
    intros Hw Hn. pose proof Hw as (_ & _ & Hz).
    pose proof (depth_bound_nat t Hw ltac:(lia)) as H.
    destruct (wf_height t Hw) as (d & _ & Hh). rewrite Hh in *.
    replace (Z.of_nat (S d) - 1)%Z with (Z.of_nat d) by lia.
    replace (S d - 1) with d in H by lia.
    apply Nat2Z.inj_le in H. rewrite Nat2Z.inj_mul, Nat2Z.inj_pow, !Nat2Z.inj_add in H.
    simpl Z.of_nat in H. lia.
  Qed.

  Theorem cost_spec w W (t : btree) k :
    wf t -> (forall a b, w a b <= W) ->
    get_cost_w K V cmp w t k <= W * maxKVs * height (root t).
  Proof.
    intros Hw HW. destruct (wf_unpack t Hw) as (d & Hd & _).
    rewrite (shaped_height _ _ _ _ Hd). unfold get_cost_w.
    apply (cost_bound cmp minKVs maxKVs Hmin w W d (root t) k HW Hd).
  Qed.

  Theorem unique_path (t : btree) k :
    wf t ->
    (contains t k = true <-> exists kv, In kv (inorder (root t)) /\ cmp k (fst kv) = Eq).
  Proof.
    intros Hw. rewrite (contains_spec t k Hw).
    destruct (wf_unpack t Hw) as (d & Hd & Hr & Hi & Hs & Hz).
    apply (sm_contains_iff cmp L). assumption.
  Qed.

  Theorem no_equiv_keys (t : btree) i j a b :
    wf t -> nth_error (inorder (root t)) i = Some a -> nth_error (inorder (root t)) j = Some b ->
    i <> j -> cmp (fst a) (fst b) <> Eq.
  Proof.
    intros Hw. destruct (wf_unpack t Hw) as (d & Hd & Hr & Hi & Hs & Hz).
    apply (sorted_no_equiv cmp L). assumption.
  Qed.

  Theorem deleted_gone (t : btree) k :
    wf t ->
    forall x kv, In x (nodes (root (delete t k))) -> In kv (nkvs x) -> cmp k (fst kv) <> Eq.
  Proof.
    intros Hw x kv Hx Hkv. destruct (delete_spec t k Hw) as [Hw' Hio].
    destruct (wf_unpack _ Hw') as (d' & Hd' & _).
    destruct (wf_unpack t Hw) as (d & Hd & Hr & Hi & Hs & Hz).
    pose proof (nodes_in_inorder minKVs maxKVs d' _ x kv Hd' Hx Hkv) as Hin.
    rewrite Hio in Hin. eapply (sm_del_gone cmp L); eassumption.
  Qed.

  (* every node of a well-formed tree, in the words of C03 *)
  Theorem wf_nodes (t : btree) :
    wf t ->
    Forall (fun y => length (nkvs y) <= maxKVs /\
                     (ncs y = [] \/ length (ncs y) = S (length (nkvs y)))) (nodes (root t)) /\
    Forall (fun y => minKVs <= nkeys y) (flat_map nodes (ncs (root t))).
  Proof.
    intros Hw. destruct (wf_unpack t Hw) as (d & Hd & _).
    eapply shaped_nodes; eassumption.
  Qed.

  Theorem get_cost_bound (t : btree) k :
    wf t -> get_cost K V cmp t k <= maxKVs * height (root t).
  Proof.
    intros Hw. unfold get_cost.
    pose proof (cost_spec (unit_cost K) 1 t k Hw ltac:(intros; unfold unit_cost; lia)) as H.
    lia.
  Qed.

  Theorem leaves_same_depth (t : btree) :
    wf t -> Forall (fun h => S h = height (root t)) (leaf_depths (root t)).
  Proof.
    intros Hw. destruct (wf_unpack t Hw) as (d & Hd & _).
    rewrite (shaped_height _ _ _ _ Hd).
    eapply Forall_impl; [|apply (shaped_leaf_depths minKVs maxKVs d _ Hd)].
    intros h ->. reflexivity.
  Qed.

  (* 2 * 8^(h-1) <= n + 1 read as h <= 1 + floor(log8((n+1)/2)); log8 x = floor(log2 x / 3) *)
  Theorem depth_bound_log8 (t : btree) :
    minKVs = 7 -> wf t -> (1 <= size t)%Z ->
    (Z.of_nat (height (root t)) <= 1 + Z.log2 ((size t + 1) / 2) / 3)%Z.
  Proof.
    intros Hm Hw Hn. pose proof (depth_bound t Hw Hn) as H. rewrite Hm in H.
    destruct (wf_height t Hw) as (d & _ & Hh). rewrite Hh in *.
    replace (Z.of_nat (S d) - 1)%Z with (Z.of_nat d) in H by lia.
    change (Z.of_nat 7 + 1)%Z with (2 ^ 3)%Z in H.
    rewrite <- Z.pow_mul_r in H by lia.
    assert (H2 : (2 ^ (3 * Z.of_nat d) <= (size t + 1) / 2)%Z)
      by (apply Z.div_le_lower_bound; lia).
    assert (Hpos : (0 < (size t + 1) / 2)%Z).
    { apply Z.div_str_pos. lia. }
    apply Z.log2_le_pow2 in H2; [|assumption].
    assert (Z.of_nat d <= Z.log2 ((size t + 1) / 2) / 3)%Z
      by (apply Z.div_le_lower_bound; lia).
    lia.
  Qed.

  (* ---------------- every history of Puts and Deletes ---------------- *)

  Inductive mut_op : Type := MPut (k : K) (v : V) | MDel (k : K).

  Definition apply_mut (t : btree) (o : mut_op) : btree :=
    match o with MPut k v => put t k v | MDel k => delete t k end.

  Definition apply_muts (ops : list mut_op) : btree := fold_left apply_mut ops empty_tree.

  Definition spec_mut (m : smap K V) (o : mut_op) : smap K V :=
    match o with MPut k v => sm_put m k v | MDel k => sm_del m k end.

  Theorem wf_after_muts ops :
    wf (apply_muts ops) /\
    inorder (root (apply_muts ops)) = fold_left spec_mut ops [].
  Proof.
    unfold apply_muts.
    assert (G : forall t m, wf t -> inorder (root t) = m ->
              wf (fold_left apply_mut ops t) /\
              inorder (root (fold_left apply_mut ops t)) = fold_left spec_mut ops m).
    { induction ops as [|o ops IH]; intros t m Hw Hio; [auto|].
      cbn [fold_left]. destruct o as [k v|k]; cbn [apply_mut spec_mut].
      - destruct (put_spec t k v Hw) as [Hw' Hio']. apply IH; [assumption|]. rewrite Hio', Hio. reflexivity.
      - destruct (delete_spec t k Hw) as [Hw' Hio']. apply IH; [assumption|]. rewrite Hio', Hio. reflexivity. }
    apply G; [apply wf_empty|reflexivity].
  Qed.

End Tree.

