(* Layer M for container/xlist/xlist.go: the pointer structure of List[T] / Node[T] as a store.
   Every method is transcribed assignment by assignment, in the Go order.  No proofs in this file.

   Handles.  A *Node[T] is [Some h] with [h : nat] the allocation number of the node (0,1,2,... in the
   order in which PushFront/PushBack/InsertBefore/InsertAfter were called on this list), nil is [None].
   The heap is a [list cell] indexed by handle; allocation appends, nothing is ever freed or moved, so a
   handle denotes the same node forever.

   Panics.  Dereferencing nil ([node.prev.next] with [node.prev == nil], [mark.prev] with [mark == nil],
   ...) is a Go run-time panic: [Panic PNil].  A handle that was never allocated cannot be written in Go;
   the model rejects it with [Panic POther] so that it stays total.

   Modelling assumption: [size] is a mathematical integer (Go int is 64 bit; 2^63 nodes cannot be
   allocated). *)
From Juniper Require Import Common.Base.

Definition ptr := option nat.

(* type Node[T] struct { prev, next *Node[T]; Value T } *)
Record cell := mkCell { prev : ptr; next : ptr; value : Z }.

(* type List[T] struct { front, back *Node[T]; size int } *)
Record hdr := mkHdr { front : ptr; back : ptr; size : Z }.

Record state := mkSt { heap : list cell; lst : hdr }.

(* the zero value of List[T], no node allocated yet *)
Definition empty : state := mkSt [] (mkHdr None None 0).

Definition ptr_eqb (a b : ptr) : bool :=
  match a, b with
  | None, None => true
  | Some x, Some y => Nat.eqb x y
  | _, _ => false
  end.

Definition is_nil (p : ptr) : bool := match p with None => true | Some _ => false end.

Definition bind {A B} (r : result A) (f : A -> result B) : result B :=
  match r with Ok a => f a | Panic c => Panic c end.

Notation "x <- e ;; k" := (bind e (fun x => k))
  (at level 61, e at next level, right associativity).

(* ---- primitive memory accesses ---- *)

(* *p (read) *)
Definition deref (s : state) (p : ptr) : result cell :=
  match p with
  | None => Panic PNil
  | Some h => match nth_error (heap s) h with Some c => Ok c | None => Panic POther end
  end.

(* p.prev = v *)
Definition set_prev (p v : ptr) (s : state) : result state :=
  match p with
  | None => Panic PNil
  | Some h =>
      match nth_error (heap s) h with
      | None => Panic POther
      | Some c => Ok (mkSt (upd (heap s) h (mkCell v (next c) (value c))) (lst s))
      end
  end.

(* p.next = v *)
Definition set_next (p v : ptr) (s : state) : result state :=
  match p with
  | None => Panic PNil
  | Some h =>
      match nth_error (heap s) h with
      | None => Panic POther
      | Some c => Ok (mkSt (upd (heap s) h (mkCell (prev c) v (value c))) (lst s))
      end
  end.

(* node := &Node[T]{...}: the new handle is the number of nodes allocated so far *)
Definition alloc (c : cell) (s : state) : nat * state :=
  (length (heap s), mkSt (heap s ++ [c]) (lst s)).

(* l.front = v, l.back = v, l.size = v *)
Definition set_front (v : ptr) (s : state) : state :=
  mkSt (heap s) (mkHdr v (back (lst s)) (size (lst s))).
Definition set_back (v : ptr) (s : state) : state :=
  mkSt (heap s) (mkHdr (front (lst s)) v (size (lst s))).
Definition set_size (v : Z) (s : state) : state :=
  mkSt (heap s) (mkHdr (front (lst s)) (back (lst s)) v).

(* ---- the methods of xlist.go ---- *)

(* func (l *List[T]) Clear() {
     for node := l.front; node != nil; { next := node.next; node.prev = nil; node.next = nil; node = next }
     l.front = nil; l.back = nil; l.size = 0 }

   The loop, one iteration per unit of fuel.  Running out of fuel is NOT a normal exit: it is reported
   as [Panic POther] (and [step]/[run] then end the run with a panic observation, which no recorded
   observation of a returning Clear can match).  The Go loop itself always ends: an iteration clears
   [node.next], so a second visit of a node reads nil and stops; with n allocated nodes there are at
   most n+1 iterations, which is the fuel [clear] passes. *)
Fixpoint clear_loop (fuel : nat) (node : ptr) (s : state) : result state :=
  match node with
  | None => Ok s                                   (* node != nil fails: leave the loop *)
  | Some _ =>
      match fuel with
      | O => Panic POther
      | S fuel' =>
          (* next := node.next *)
          n <- deref s node ;;
          let nxt := next n in
          (* node.prev = nil *)
          s <- set_prev node None s ;;
          (* node.next = nil *)
          s <- set_next node None s ;;
          (* node = next *)
          clear_loop fuel' nxt s
      end
  end.

Definition clear (s : state) : result state :=
  (* for node := l.front; node != nil; { ... } *)
  s <- clear_loop (S (length (heap s))) (front (lst s)) s ;;
  (* l.front = nil *)
  let s := set_front None s in
  (* l.back = nil *)
  let s := set_back None s in
  (* l.size = 0 *)
  Ok (set_size 0 s).

(* Clear as it was before the repair: { l.front = nil; l.back = nil; l.size = 0 }.  The cells keep
   whatever links they had (see [clear_original_refuted] in Proofs.v). *)
Definition clear_original (s : state) : state :=
  let s := set_front None s in
  let s := set_back None s in
  set_size 0 s.

(* PushFront; the returned node is handle [length (heap s)] *)
Definition push_front (v : Z) (s : state) : result state :=
  (* node := &Node[T]{next: l.front, Value: value} *)
  let '(node, s) := alloc (mkCell None (front (lst s)) v) s in
  (* if l.front != nil { l.front.prev = node } *)
  s <- (if is_nil (front (lst s)) then Ok s else set_prev (front (lst s)) (Some node) s) ;;
  (* l.front = node *)
  let s := set_front (Some node) s in
  (* if l.back == nil { l.back = node } *)
  let s := if is_nil (back (lst s)) then set_back (Some node) s else s in
  (* l.size++ *)
  Ok (set_size (size (lst s) + 1) s).

Definition push_back (v : Z) (s : state) : result state :=
  (* node := &Node[T]{prev: l.back, Value: value} *)
  let '(node, s) := alloc (mkCell (back (lst s)) None v) s in
  (* if l.back != nil { l.back.next = node } *)
  s <- (if is_nil (back (lst s)) then Ok s else set_next (back (lst s)) (Some node) s) ;;
  (* l.back = node *)
  let s := set_back (Some node) s in
  (* if l.front == nil { l.front = node } *)
  let s := if is_nil (front (lst s)) then set_front (Some node) s else s in
  (* l.size++ *)
  Ok (set_size (size (lst s) + 1) s).

Definition insert_before (v : Z) (mark : ptr) (s : state) : result state :=
  (* node := &Node[T]{Value: value, prev: mark.prev, next: mark} *)
  m <- deref s mark ;;
  let '(node, s) := alloc (mkCell (prev m) mark v) s in
  (* mark.prev = node *)
  s <- set_prev mark (Some node) s ;;
  (* if node.prev != nil { node.prev.next = node } *)
  n <- deref s (Some node) ;;
  s <- (if is_nil (prev n) then Ok s else set_next (prev n) (Some node) s) ;;
  (* if l.front == mark { l.front = node } *)
  let s := if ptr_eqb (front (lst s)) mark then set_front (Some node) s else s in
  (* l.size++ *)
  Ok (set_size (size (lst s) + 1) s).

Definition insert_after (v : Z) (mark : ptr) (s : state) : result state :=
  (* node := &Node[T]{Value: value, prev: mark, next: mark.next} *)
  m <- deref s mark ;;
  let '(node, s) := alloc (mkCell mark (next m) v) s in
  (* mark.next = node *)
  s <- set_next mark (Some node) s ;;
  (* if node.next != nil { node.next.prev = node } *)
  n <- deref s (Some node) ;;
  s <- (if is_nil (next n) then Ok s else set_prev (next n) (Some node) s) ;;
  (* if l.back == mark { l.back = node } *)
  let s := if ptr_eqb (back (lst s)) mark then set_back (Some node) s else s in
  (* l.size++ *)
  Ok (set_size (size (lst s) + 1) s).

(* func (l *List[T]) remove(node *Node[T]) *)
Definition remove (node : ptr) (s : state) : result state :=
  s <- (if ptr_eqb (front (lst s)) node
        then (* l.front = l.front.next *)
             f <- deref s (front (lst s)) ;;
             Ok (set_front (next f) s)
        else (* node.prev.next = node.next *)
             n <- deref s node ;;
             set_next (prev n) (next n) s) ;;
  if ptr_eqb (back (lst s)) node
  then (* l.back = l.back.prev *)
       b <- deref s (back (lst s)) ;;
       Ok (set_back (prev b) s)
  else (* node.next.prev = node.prev *)
       n <- deref s node ;;
       set_prev (next n) (prev n) s.

(* func (l *List[T]) Remove(node *Node[T]) *)
Definition remove_node (node : ptr) (s : state) : result state :=
  (* l.remove(node) *)
  s <- remove node s ;;
  (* node.prev = nil *)
  s <- set_prev node None s ;;
  (* node.next = nil *)
  s <- set_next node None s ;;
  (* l.size-- *)
  Ok (set_size (size (lst s) - 1) s).

Definition move_before (node mark : ptr) (s : state) : result state :=
  (* if node == mark { return } *)
  if ptr_eqb node mark then Ok s else
  (* l.remove(node) *)
  s <- remove node s ;;
  (* node.prev = mark.prev *)
  m <- deref s mark ;;
  s <- set_prev node (prev m) s ;;
  (* mark.prev = node *)
  s <- set_prev mark node s ;;
  (* node.next = mark *)
  s <- set_next node mark s ;;
  (* if node.prev != nil { node.prev.next = node } *)
  n <- deref s node ;;
  s <- (if is_nil (prev n) then Ok s else set_next (prev n) node s) ;;
  (* if l.front == mark { l.front = node } *)
  Ok (if ptr_eqb (front (lst s)) mark then set_front node s else s).

Definition move_after (node mark : ptr) (s : state) : result state :=
  (* if node == mark { return } *)
  if ptr_eqb node mark then Ok s else
  (* l.remove(node) *)
  s <- remove node s ;;
  (* node.next = mark.next *)
  m <- deref s mark ;;
  s <- set_next node (next m) s ;;
  (* mark.next = node *)
  s <- set_next mark node s ;;
  (* node.prev = mark *)
  s <- set_prev node mark s ;;
  (* if node.next != nil { node.next.prev = node } *)
  n <- deref s node ;;
  s <- (if is_nil (next n) then Ok s else set_prev (next n) node s) ;;
  (* if l.back == mark { l.back = node } *)
  Ok (if ptr_eqb (back (lst s)) mark then set_back node s else s).

(* l.MoveBefore(node, l.Front()) *)
Definition move_to_front (node : ptr) (s : state) : result state :=
  move_before node (front (lst s)) s.

(* l.MoveAfter(node, l.Back()) *)
Definition move_to_back (node : ptr) (s : state) : result state :=
  move_after node (back (lst s)) s.

(* ---- histories ---- *)

Inductive op :=
| LPushFront (v : Z)
| LPushBack (v : Z)
| LInsertBefore (v : Z) (mark : nat)
| LInsertAfter (v : Z) (mark : nat)
| LRemove (n : nat)
| LMoveBefore (n mark : nat)
| LMoveAfter (n mark : nat)
| LMoveToFront (n : nat)
| LMoveToBack (n : nat)
| LClear.

Definition exec (o : op) (s : state) : result state :=
  match o with
  | LPushFront v => push_front v s
  | LPushBack v => push_back v s
  | LInsertBefore v m => insert_before v (Some m) s
  | LInsertAfter v m => insert_after v (Some m) s
  | LRemove n => remove_node (Some n) s
  | LMoveBefore n m => move_before (Some n) (Some m) s
  | LMoveAfter n m => move_after (Some n) (Some m) s
  | LMoveToFront n => move_to_front (Some n) s
  | LMoveToBack n => move_to_back (Some n) s
  | LClear => clear s
  end.

(* the same with the unrepaired Clear *)
Definition exec_original (o : op) (s : state) : result state :=
  match o with
  | LClear => Ok (clear_original s)
  | _ => exec o s
  end.

(* What the harness prints after every operation, by walking the real list through the public API
   (Front/Back/Next/Prev/Len/Value) and translating node pointers to allocation numbers. *)
Record obs := mkObs {
  o_panic : bool;               (* the call panicked; the other fields are then empty/false *)
  o_fwd : list nat;             (* handles visited from Front() via Next() *)
  o_bwd : list nat;             (* handles visited from Back() via Prev() *)
  o_len : Z;                    (* Len() *)
  o_vals : list Z;              (* Value of each node of the forward walk *)
  o_front_prev_nil : bool;      (* Front() == nil || Front().Prev() == nil *)
  o_back_next_nil : bool;       (* Back() == nil || Back().Next() == nil *)
  o_removed_isolated : bool     (* every handle handed out so far that the forward walk does not reach
                                   has Prev() == nil && Next() == nil *)
}.

(* A walk that has not reached nil after (number of allocated nodes + 1) nodes is cut and marked with
   this handle (the harness does the same); so is a walk that leaves the heap (impossible in Go). *)
Definition sentinel : nat := Z.to_nat 999999.

Fixpoint walk (dir : cell -> ptr) (fuel : nat) (H : list cell) (p : ptr) : list nat :=
  match p with
  | None => []
  | Some h =>
      match fuel with
      | O => [sentinel]
      | S fuel' =>
          match nth_error H h with
          | None => [sentinel]
          | Some c => h :: walk dir fuel' H (dir c)
          end
      end
  end.

Definition prev_of (H : list cell) (h : nat) : ptr :=
  match nth_error H h with Some c => prev c | None => None end.
Definition next_of (H : list cell) (h : nat) : ptr :=
  match nth_error H h with Some c => next c | None => None end.
Definition value_of (H : list cell) (h : nat) : Z :=
  match nth_error H h with Some c => value c | None => 0 end.
Definition allocated (H : list cell) (h : nat) : bool := Nat.ltb h (length H).

(* p == nil || p.<dir>() == nil *)
Definition end_nil (dir : cell -> ptr) (H : list cell) (p : ptr) : bool :=
  match p with
  | None => true
  | Some h => match nth_error H h with Some c => is_nil (dir c) | None => false end
  end.

(* [marks n fwd]: for each handle 0..n-1, whether the forward walk visited it (the harness's
   [member] set; a cut walk's sentinel marks nothing as long as fewer than 999999 nodes exist). *)
Definition marks (n : nat) (fwd : list nat) : list bool :=
  fold_left (fun m h => upd m h true) fwd (repeat false n).

(* for _, n := range nodes { if !member[n] && (n.Prev() != nil || n.Next() != nil) { iso = false } } *)
Definition detached_isolated (H : list cell) (fwd : list nat) : bool :=
  forallb (fun cm : cell * bool => snd cm || (is_nil (prev (fst cm)) && is_nil (next (fst cm))))
          (combine H (marks (length H) fwd)).

Definition observe (s : state) : obs :=
  let H := heap s in
  let fuel := S (length H) in
  let fwd := walk next fuel H (front (lst s)) in
  mkObs false
        fwd
        (walk prev fuel H (back (lst s)))
        (size (lst s))
        (map (value_of H) fwd)
        (end_nil prev H (front (lst s)))
        (end_nil next H (back (lst s)))
        (detached_isolated H fwd).

Definition panic_obs : obs := mkObs true [] [] 0 [] false false false.

(* A panicking call leaves the Go list half-updated; the model does not describe that state: [step]
   keeps the old state and [run] stops after the panic observation (so must the harness). *)
Definition step (s : state) (o : op) : state * obs :=
  match exec o s with
  | Ok s' => (s', observe s')
  | Panic _ => (s, panic_obs)
  end.

Fixpoint run_from (s : state) (ops : list op) : list obs :=
  match ops with
  | [] => []
  | o :: ops' =>
      let '(s', ob) := step s o in
      ob :: (if o_panic ob then [] else run_from s' ops')
  end.

Definition run (ops : list op) : list obs := run_from empty ops.

Fixpoint run_state_from (s : state) (ops : list op) : state :=
  match ops with
  | [] => s
  | o :: ops' => run_state_from (fst (step s o)) ops'
  end.

Definition run_state (ops : list op) : state := run_state_from empty ops.

(* the same history with the unrepaired Clear (used only for [clear_original_refuted]) *)
Definition step_original (s : state) (o : op) : state * obs :=
  match exec_original o s with
  | Ok s' => (s', observe s')
  | Panic _ => (s, panic_obs)
  end.

Fixpoint run_original_from (s : state) (ops : list op) : list obs :=
  match ops with
  | [] => []
  | o :: ops' =>
      let '(s', ob) := step_original s o in
      ob :: (if o_panic ob then [] else run_original_from s' ops')
  end.

Definition run_original (ops : list op) : list obs := run_original_from empty ops.

Fixpoint run_state_original_from (s : state) (ops : list op) : state :=
  match ops with
  | [] => s
  | o :: ops' => run_state_original_from (fst (step_original s o)) ops'
  end.

Definition run_state_original (ops : list op) : state := run_state_original_from empty ops.
